// prelude/market_cron_assumed.rs — TRUSTED stubs of the market unit market_cron.vx.rs (CronTick whole transaction + method,
// SectorContentChanged closure + method). Included in the middle of the unit, after the extracted items `State`,
// `DealProposal`, `DealState`, `ext::miner::*` and the spec functions of the unit. Each stub names the real code it stands for
// and says why the stated contract is true of it. Parts 1–3 repeat, with the same text, stubs of
// prelude/market_settle_assumed.rs and prelude/market_activate_assumed.rs (those two files re-declare each other's items and the
// opaque `next_update_epoch`, which this unit verifies on the real code, so neither can be included here).

// ===== 1. shared with the settlement unit ===================================================================================
// ---- lib.rs deal_cid: CBOR + blake2b of the proposal — an opaque deterministic function of the proposal ----------------
pub uninterp spec fn deal_cid_spec(p: DealProposal) -> Cid;
#[verifier::external_body]
pub fn deal_cid(rt: &Rt, proposal: &DealProposal) -> (r: Result<Cid, ActorError>)
    ensures r.is_ok() ==> r->Ok_0 == deal_cid_spec(*proposal)
{ unimplemented!() }

// ---- emit.rs deal_terminated / deal_completed / deal_activated: build one event and call rt.emit_event — one actor event ----
pub mod emit {
    use super::*;
    #[verifier::external_body]
    pub fn deal_terminated(rt: &mut Rt, deal_id: DealID, client: ActorID, provider: ActorID) -> (r: Result<(), ActorError>)
        ensures r.is_ok() ==> *final(rt) == (Rt { events: Ghost(old(rt).events@ + 1), ..*old(rt) }), r.is_err() ==> *final(rt) == *old(rt)
    { unimplemented!() }
    #[verifier::external_body]
    pub fn deal_completed(rt: &mut Rt, deal_id: DealID, client: ActorID, provider: ActorID) -> (r: Result<(), ActorError>)
        ensures r.is_ok() ==> *final(rt) == (Rt { events: Ghost(old(rt).events@ + 1), ..*old(rt) }), r.is_err() ==> *final(rt) == *old(rt)
    { unimplemented!() }
    #[verifier::external_body]
    pub fn deal_activated(rt: &mut Rt, deal_id: DealID, client: ActorID, provider: ActorID) -> (r: Result<(), ActorError>)
        ensures r.is_ok() ==> *final(rt) == (Rt { events: Ghost(old(rt).events@ + 1), ..*old(rt) }), r.is_err() ==> *final(rt) == *old(rt)
    { unimplemented!() }
}

// ---- state.rs put_deal_states (`iter().try_for_each(|(id, st)| states.set(*id, *st))` + flush): ASSUMED — sets the entries
// in order, touches only `states`; on Err the `states` root is not assigned (save_deal_states is the last statement).
pub open spec fn set_all(m: Map<u64, DealState>, s: Seq<(DealID, DealState)>) -> Map<u64, DealState>
    decreases s.len()
{ if s.len() == 0 { m } else { set_all(m, s.drop_last()).insert(s.last().0, s.last().1) } }
impl State {
    #[verifier::external_body]
    pub fn put_deal_states<BS: Blockstore>(&mut self, store: &BS, new_deal_states: &[(DealID, DealState)]) -> (r: Result<(), ActorError>)
        ensures
            r.is_ok() ==> array_decode::<DealState>(final(self).states) == set_all(array_decode::<DealState>(old(self).states), new_deal_states@),
            r.is_ok() ==> *final(self) == (State { states: final(self).states, ..*old(self) }),
            r.is_err() ==> *final(self) == *old(self),
    { unimplemented!() }
}

// ---- the provider → sector → deal-ids index (state.rs `provider_sectors`: HAMT of HAMTs of Vec<DealID>) ------------------
// View: the list stored for (provider, sector), an absent entry being the empty list (the code deletes empty lists and
// empty per-provider maps, so "absent" and "empty" are not distinguishable through it).
pub uninterp spec fn sector_deals_of(root: Cid, provider: ActorID, sector: SectorNumber) -> Seq<DealID>;

/// std BTreeMap<SectorNumber, Vec<DealID>> and BTreeMap<ActorID, BTreeMap<SectorNumber, Vec<DealID>>> as used for
/// `provider_deals_to_remove`, viewed as (nested) finite maps. `vx_at(k)` stands for `entry(k).or_default()`: a mutable
/// reference to the value stored under `k`, a default (empty) value being inserted first when there is none
/// (vx substitutes `.entry` => `.vx_at` and drops `.or_default()`; the bodies below are not compiled).
#[verifier::external_body]
pub struct SectorQueue { inner: BTreeMap<SectorNumber, Vec<DealID>> }
impl View for SectorQueue { type V = Map<SectorNumber, Seq<DealID>>; uninterp spec fn view(&self) -> Map<SectorNumber, Seq<DealID>>; }
impl SectorQueue {
    #[verifier::external_body]
    pub fn vx_at(&mut self, s: SectorNumber) -> (r: &mut Vec<DealID>)
        ensures
            r@ == (if old(self)@.dom().contains(s) { old(self)@[s] } else { Seq::<DealID>::empty() }),
            final(self)@ == old(self)@.insert(s, final(r)@),
    { unimplemented!() }
}
#[verifier::external_body]
pub struct DealsToRemove { inner: BTreeMap<ActorID, SectorQueue> }
impl View for DealsToRemove { type V = Map<ActorID, Map<SectorNumber, Seq<DealID>>>; uninterp spec fn view(&self) -> Map<ActorID, Map<SectorNumber, Seq<DealID>>>; }
impl DealsToRemove {
    /// `BTreeMap::new()`
    #[verifier::external_body]
    pub fn new() -> (r: Self) ensures r@ == Map::<ActorID, Map<SectorNumber, Seq<DealID>>>::empty() { unimplemented!() }
    #[verifier::external_body]
    pub fn vx_at(&mut self, p: ActorID) -> (r: &mut SectorQueue)
        ensures
            r@ == (if old(self)@.dom().contains(p) { old(self)@[p] } else { Map::<SectorNumber, Seq<DealID>>::empty() }),
            final(self)@ == old(self)@.insert(p, final(r)@),
    { unimplemented!() }
}
/// deal `d` is queued for removal from the list of (provider `p`, sector `s`)
pub open spec fn queued(q: Map<ActorID, Map<SectorNumber, Seq<DealID>>>, p: ActorID, s: SectorNumber, d: DealID) -> bool {
    q.dom().contains(p) && q[p].dom().contains(s) && q[p][s].contains(d)
}
impl State {
    /// state.rs remove_sector_deal_ids: for every queued (provider, sector) whose list exists, the list is replaced by
    /// `existing.filter(|d| !queued[provider][sector].contains(d))` (deleted when that is empty); every other list is
    /// untouched; only `provider_sectors` is assigned, as the last statement (so Err leaves the state as it was).
    #[verifier::external_body]
    pub fn remove_sector_deal_ids<BS: Blockstore>(&mut self, store: &BS, provider_sector_deal_ids: &DealsToRemove) -> (r: Result<(), ActorError>)
        ensures
            r.is_ok() ==> *final(self) == (State { provider_sectors: final(self).provider_sectors, ..*old(self) }),
            r.is_ok() ==> forall|p: ActorID, s: SectorNumber, d: DealID| #[trigger] sector_deals_of(final(self).provider_sectors, p, s).contains(d)
                <==> sector_deals_of(old(self).provider_sectors, p, s).contains(d) && !queued(provider_sector_deal_ids@, p, s, d),
            r.is_err() ==> *final(self) == *old(self),
    { unimplemented!() }
}

/// std BTreeMap<ChainEpoch, Vec<DealID>> as used for `new_updates_scheduled` (`vx_at(k)` = `entry(k).or_default()`, as above)
#[verifier::external_body]
pub struct UpdatesScheduled { inner: BTreeMap<ChainEpoch, Vec<DealID>> }
impl View for UpdatesScheduled { type V = Map<ChainEpoch, Seq<DealID>>; uninterp spec fn view(&self) -> Map<ChainEpoch, Seq<DealID>>; }
/// the list scheduled for epoch e (empty when there is none)
pub open spec fn sched_list(m: Map<ChainEpoch, Seq<DealID>>, e: ChainEpoch) -> Seq<DealID> { if m.dom().contains(e) { m[e] } else { Seq::<DealID>::empty() } }
impl UpdatesScheduled {
    /// `BTreeMap::new()`
    #[verifier::external_body]
    pub fn new() -> (r: Self) ensures r@ == Map::<ChainEpoch, Seq<DealID>>::empty() { unimplemented!() }
    #[verifier::external_body]
    pub fn vx_at(&mut self, e: ChainEpoch) -> (r: &mut Vec<DealID>)
        ensures
            r@ == sched_list(old(self)@, e),
            final(self)@ == old(self)@.insert(e, final(r)@),
    { unimplemented!() }
}

// ===== 2. the cron queue `deal_ops_by_epoch` (runtime SetMultimap<ChainEpoch, DealID>: HAMT epoch → HAMT-set of deal ids) ======
/// deal id `d` is queued under epoch `e`
pub uninterp spec fn ops_has(root: Cid, e: ChainEpoch, d: DealID) -> bool;
/// the order in which `for_each_in(e, ..)` visits the ids queued under `e` (HAMT order of the inner set): each id once
pub uninterp spec fn ops_list(root: Cid, e: ChainEpoch) -> Seq<DealID>;
pub open spec fn ops_list_ok(root: Cid, e: ChainEpoch) -> bool {
    &&& forall|d: DealID| ops_list(root, e).contains(d) <==> ops_has(root, e, d)
    &&& ops_list(root, e).no_duplicates()
}
impl State {
    /// state.rs get_deals_for_epoch (`for_each_in(&key, |deal_id| { deal_ids.push(deal_id); Ok(()) })`): the ids queued under the
    /// epoch, each exactly once (a set), in the inner HAMT's order; nothing when the epoch has no entry. Reads only.
    #[verifier::external_body]
    pub fn get_deals_for_epoch<BS: Blockstore>(&self, store: &BS, key: ChainEpoch) -> (r: Result<Vec<DealID>, ActorError>)
        ensures vx_store_ok() ==> r.is_ok(), r.is_ok() ==> r->Ok_0@ == ops_list(self.deal_ops_by_epoch, key) && ops_list_ok(self.deal_ops_by_epoch, key)
    { unimplemented!() }
    /// state.rs remove_deals_by_epoch (`epochs.iter().try_for_each(|e| deals_by_epoch.remove_all(e))` + flush): every listed
    /// epoch loses its whole entry, the other epochs keep theirs; only `deal_ops_by_epoch` is assigned, as the last statement.
    #[verifier::external_body]
    pub fn remove_deals_by_epoch<BS: Blockstore>(&mut self, store: &BS, epochs_to_remove: &[ChainEpoch]) -> (r: Result<(), ActorError>)
        ensures
            vx_store_ok() ==> r.is_ok(),
            r.is_ok() ==> *final(self) == (State { deal_ops_by_epoch: final(self).deal_ops_by_epoch, ..*old(self) }),
            r.is_ok() ==> forall|e: ChainEpoch, d: DealID| #[trigger] ops_has(final(self).deal_ops_by_epoch, e, d)
                <==> ops_has(old(self).deal_ops_by_epoch, e, d) && !epochs_to_remove@.contains(e),
            r.is_err() ==> *final(self) == *old(self),
    { unimplemented!() }
    /// state.rs put_batch_deals_by_epoch (`iter().try_for_each(|(epoch, deals)| deals_by_epoch.put_many(epoch, deals))` + flush):
    /// every listed id is added to the set of its epoch, nothing is removed; only `deal_ops_by_epoch` is assigned, last.
    #[verifier::external_body]
    pub fn put_batch_deals_by_epoch<BS: Blockstore>(&mut self, store: &BS, new_deals_by_epoch: &UpdatesScheduled) -> (r: Result<(), ActorError>)
        ensures
            vx_store_ok() ==> r.is_ok(),
            r.is_ok() ==> *final(self) == (State { deal_ops_by_epoch: final(self).deal_ops_by_epoch, ..*old(self) }),
            r.is_ok() ==> forall|e: ChainEpoch, d: DealID| #[trigger] ops_has(final(self).deal_ops_by_epoch, e, d)
                <==> ops_has(old(self).deal_ops_by_epoch, e, d) || sched_list(new_deals_by_epoch@, e).contains(d),
            r.is_err() ==> *final(self) == *old(self),
    { unimplemented!() }
}

// ===== 3. shared with the activation unit ======================================================================================
/// std::collections::HashSet (membership only)
#[verifier::external_body]
#[verifier::reject_recursive_types(T)]
pub struct HashSet<T> { p: PhantomData<T> }
impl<T> HashSet<T> {
    pub uninterp spec fn view(&self) -> vstd::set::Set<T>;
    #[verifier::external_body]
    pub fn new() -> (r: Self) ensures r@ == vstd::set::Set::<T>::empty() { unimplemented!() }
    #[verifier::external_body]
    pub fn contains(&self, x: &T) -> (r: bool) ensures r == self@.contains(*x) { unimplemented!() }
    #[verifier::external_body]
    pub fn insert(&mut self, x: T) -> (r: bool) ensures final(self)@ == old(self)@.insert(x), r == !old(self)@.contains(x) { unimplemented!() }
}

// ===== 4. SectorContentChanged ==================================================================================================
/// fil_actors_runtime::cbor::deserialize (runtime/src/util/cbor.rs): CBOR decoding of a byte string — a deterministic partial
/// function of the bytes: `raw_deser_ok` says whether they decode as a T, `raw_deser_spec` is the decoded value.
pub uninterp spec fn raw_deser_ok<T>(b: RawBytes) -> bool;
pub uninterp spec fn raw_deser_spec<T>(b: RawBytes) -> T;
#[verifier::external_body]
pub fn deserialize<T>(bytes: &RawBytes, desc: &str) -> (r: Result<T, ActorError>)
    ensures r.is_ok() == raw_deser_ok::<T>(*bytes), r.is_ok() ==> r->Ok_0 == raw_deser_spec::<T>(*bytes), r.is_err() ==> r->Err_0.code == 21
{ unimplemented!() }

/// `vec![ext::miner::PieceReturn { accepted: false }; n]` (Verus has no model of the repeat form of `vec!`): n flags, all false.
/// The helper body IS the original expression.
#[verifier::external_body]
pub fn vx_piece_returns(n: usize) -> (r: Vec<ext::miner::PieceReturn>)
    ensures r@.len() == n, forall|i: int| 0 <= i < n ==> !(#[trigger] r@[i]).accepted
{ vec![ext::miner::PieceReturn { accepted: false }; n] }
/// `ret.accepted = true` for `ret` = the element of `pieces_ret` that `zip` pairs with the piece at index i (a `&mut` element of a
/// zipped iterator has no Verus model). The helper body IS that assignment on the i-th element.
#[verifier::external_body]
pub fn vx_accept(pieces_ret: &mut Vec<ext::miner::PieceReturn>, i: usize)
    requires i < old(pieces_ret)@.len()
    ensures final(pieces_ret)@ == old(pieces_ret)@.update(i as int, ext::miner::PieceReturn { accepted: true })
{ pieces_ret[i].accepted = true }
/// `assert_eq!(a, b, msg)` on lengths: panics unless equal — hence the precondition (the unit proves it never panics)
pub fn vx_assert_eq(a: usize, b: usize) requires a == b {}

impl State {
    /// state.rs put_sector_deal_ids: for every listed (sector, deals) of this provider the stored list becomes
    /// sort+dedup(deals ++ existing) — i.e. the union as a set; lists of other sectors / providers are untouched; only
    /// `provider_sectors` is assigned, as the last statement (so Err leaves the state as it was).
    #[verifier::external_body]
    pub fn put_sector_deal_ids<BS: Blockstore>(&mut self, store: &BS, provider: ActorID, sector_deal_ids: &[(SectorNumber, Vec<DealID>)]) -> (r: Result<(), ActorError>)
        ensures
            r.is_ok() ==> *final(self) == (State { provider_sectors: final(self).provider_sectors, ..*old(self) }),
            r.is_ok() ==> forall|p: ActorID, s: SectorNumber, d: DealID| #[trigger] sector_deals_of(final(self).provider_sectors, p, s).contains(d)
                <==> sector_deals_of(old(self).provider_sectors, p, s).contains(d) || (p == provider && listed(sector_deal_ids@, s, d)),
            r.is_err() ==> *final(self) == *old(self),
    { unimplemented!() }
}
/// deal `d` is listed for sector `s` in the argument of put_sector_deal_ids
pub open spec fn listed(sdi: Seq<(SectorNumber, Vec<DealID>)>, s: SectorNumber, d: DealID) -> bool {
    exists|j: int| 0 <= j < sdi.len() && (#[trigger] sdi[j]).0 == s && sdi[j].1@.contains(d)
}
/// R17 target: number of pairs a `zip` visits
pub fn vx_zip_len(a: usize, b: usize) -> (r: usize) ensures r == (if a <= b { a } else { b }) { if a <= b { a } else { b } }
