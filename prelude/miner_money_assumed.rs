// prelude/miner_money_assumed.rs — TRUSTED / ASSUMED pieces of the unit `miner_money` (apply_rewards, repay_debt, terminate_sectors, the
// control-method prefixes and the constructor of the miner actor). Every stub names the real code it stands for and why its contract is true
// of it. Needs prelude/{core,ipld,bitfield,rt,policy,cbor,miner_ext}.rs, units/shared/miner_funds.inc and miner_info.inc before it.

/// `info.control_addresses.iter().chain(&[info.worker, info.owner])` (iterator adapters are outside Verus' subset) collected: the control
/// addresses, the worker and the owner — the body IS the original expression, collected (same helper as in prelude/miner_onboard_assumed.rs
/// and prelude/miner_post_assumed.rs, which cannot be included here because their `Sectors` stubs clash with prelude/miner_early_term_assumed.rs)
#[verifier::external_body]
pub fn vx_control_worker_owner(info: &MinerInfo) -> (r: Vec<Address>)
    ensures r@.to_set() =~= info.control_addresses@.to_set().insert(info.worker).insert(info.owner)
{ info.control_addresses.iter().chain(&[info.worker, info.owner]).copied().collect() }


// ---- fvm_shared Address::protocol() — a FUNCTION of the address here (prelude/address_protocol.rs, which this unit does not include, leaves the
//      result unconstrained apart from the ID class; resolve_worker_address needs "the same address has the same class on every call") ----------
#[derive(Clone, Copy, PartialEq, Eq, Structural)]
pub enum Protocol { ID, Secp256k1, Actor, BLS, Delegated }
pub uninterp spec fn addr_protocol(a: Address) -> Protocol;
impl Address {
    /// the address class is determined by the address; the model's `proto == 0` is the ID class
    #[verifier::external_body]
    pub fn protocol(&self) -> (r: Protocol) ensures r == addr_protocol(*self), (r == Protocol::ID) == (self.proto == 0) { unimplemented!() }
}

// ---- iterator-adapter expressions of the control methods: the body IS the original expression, the contract is its meaning ------------------------
/// lib.rs change_worker_address: `new_control_addresses.into_iter().map(|a| rt.resolve_address(&a).ok_or_else(..)).map(|r| r.map(Address::new_id))
/// .collect::<Result<_, _>>()`: every control address resolved to its ID address, in order; illegal_argument as soon as one does not resolve.
/// (a vx substitution pattern cannot contain a string literal and must be a balanced token stream, so the unit cannot name the whole
/// expression in ONE pattern: it replaces the head `X.into_iter().map` by the call of this helper and turns the rest, up to and including
/// `.collect::<Result<_, _>>()`, into a comment; identity substitutions on `rt.resolve_address(&address).ok_or_else` and on the `new_id`
/// mapping make vx exit 2 when either is no longer there exactly once)
#[verifier::external_body]
pub fn vx_resolve_control_addrs(rt: &Rt, addrs: Vec<Address>) -> (r: Result<Vec<Address>, ActorError>)
    ensures
        r.is_ok() <==> forall|i: int| 0 <= i < addrs@.len() ==> (#[trigger] rt_resolve(addrs@[i], rt.sends@.len())).is_some(),
        r.is_ok() ==> r->Ok_0@.len() == addrs@.len() && forall|i: int| 0 <= i < addrs@.len() ==>
            (#[trigger] r->Ok_0@[i]) == (Address { id: rt_resolve(addrs@[i], rt.sends@.len())->Some_0, proto: 0 }),
        r.is_err() ==> r->Err_0.code == 16,
{
    addrs
        .into_iter()
        .map(|address| {
            rt.resolve_address(&address).ok_or_else(|| {
                actor_error!(illegal_argument, "unable to resolve control address: {}", address)
            })
        })
        .map(|id_result| id_result.map(Address::new_id))
        .collect::<Result<_, _>>()
}
/// lib.rs constructor: the same without the conversion to ID addresses (`Vec<ActorID>`)
#[verifier::external_body]
pub fn vx_resolve_control_ids(rt: &Rt, addrs: Vec<Address>) -> (r: Result<Vec<ActorID>, ActorError>)
    ensures
        r.is_ok() <==> forall|i: int| 0 <= i < addrs@.len() ==> (#[trigger] rt_resolve(addrs@[i], rt.sends@.len())).is_some(),
        r.is_ok() ==> r->Ok_0@.len() == addrs@.len() && forall|i: int| 0 <= i < addrs@.len() ==> Some(#[trigger] r->Ok_0@[i]) == rt_resolve(addrs@[i], rt.sends@.len()),
        r.is_err() ==> r->Err_0.code == 16,
{
    addrs
        .into_iter()
        .map(|address| {
            rt.resolve_address(&address).ok_or_else(|| {
                actor_error!(illegal_argument, "unable to resolve control address: {}", address)
            })
        })
        .collect::<Result<_, _>>()
}

// ---- fvm_ipld_encoding BytesDe(pub Vec<u8>): prelude/miner_ext.rs models it as an opaque token; its length is a function of the token ---------
pub uninterp spec fn bytes_de_len(b: BytesDe) -> nat;
/// `ma.0.len()`
#[verifier::external_body]
pub fn vx_bytes_de_len(b: &BytesDe) -> (r: usize) ensures r == bytes_de_len(*b) { unimplemented!() }
/// `ma.0.is_empty()`
#[verifier::external_body]
pub fn vx_bytes_de_is_empty(b: &BytesDe) -> (r: bool) ensures r == (bytes_de_len(*b) == 0) { unimplemented!() }

// ---- constructor --------------------------------------------------------------------------------------------------------------------------------
/// the circulating supply the runtime reports (a property of the chain, constant within the activation)
pub uninterp spec fn rt_circ_supply() -> int;
impl Rt {
    /// Runtime::total_fil_circ_supply (syscall): reads the chain, changes nothing of the activation
    #[verifier::external_body]
    pub fn total_fil_circ_supply(&self) -> (r: TokenAmount) ensures r@ == rt_circ_supply() { unimplemented!() }
    /// Primitives::hash_blake2b (syscall): a pure function of the bytes; reads nothing of the actor
    #[verifier::external_body]
    pub fn hash_blake2b(&self, data: &[u8]) -> (r: [u8; 32]) { unimplemented!() }
}
/// monies.rs initial_pledge_for_power (fixed-point projection of the expected reward, capped per byte): SOME amount, a deterministic function of
/// the inputs (as in prelude/miner_onboard_assumed.rs)
pub uninterp spec fn ip_spec(qa_power: int, baseline_power: int, reward: FilterEstimate, network_qa: FilterEstimate, circulating_supply: int, epochs_since_ramp_start: i64, ramp_duration_epochs: u64) -> int;
#[verifier::external_body]
pub fn initial_pledge_for_power(qa_power: &StoragePower, baseline_power: &StoragePower, reward_estimate: &FilterEstimate, network_qa_power_estimate: &FilterEstimate,
        circulating_supply: &TokenAmount, epochs_since_ramp_start: i64, ramp_duration_epochs: u64) -> (r: TokenAmount)
    ensures r@ == ip_spec(qa_power@, baseline_power@, *reward_estimate, *network_qa_power_estimate, circulating_supply@, epochs_since_ramp_start, ramp_duration_epochs)
{ unimplemented!() }
/// lib.rs assign_proving_period_offset: hashes (receiver address, epoch) with blake2b and ends with `offset %= policy.wpost_proving_period as u64;
/// Ok(offset as ChainEpoch)` — SOME offset in [0, wpost_proving_period). The hash closure `|b| rt.hash_blake2b(b)` handed to it (an
/// `impl FnOnce` argument, outside Verus' subset) is not passed: the unit passes the runtime instead (substitution listed on the directive);
/// the closure definition itself stays in the extracted body.
#[verifier::external_body]
pub fn vx_assign_proving_period_offset(policy: &Policy, addr: Address, current_epoch: ChainEpoch, rt: &Rt) -> (r: anyhow::Result<ChainEpoch>)
    requires policy.wpost_proving_period > 0
    ensures r.is_ok() ==> 0 <= r->Ok_0 < policy.wpost_proving_period
{ unimplemented!() }
/// runtime/src/runtime/policy.rs ProofSet::contains: table lookup — a function of the table and the proof type
pub uninterp spec fn proof_allowed(s: ProofSet, proof: RegisteredPoStProof) -> bool;
impl ProofSet {
    #[verifier::external_body]
    pub fn contains(&self, proof: RegisteredPoStProof) -> (r: bool) ensures r == proof_allowed(*self, proof) { unimplemented!() }
}
/// fvm_shared RegisteredPoStProof::sector_size / window_post_partition_sectors: tables on the proof type (Err for unknown types); every known
/// type has at least one sector per partition (2349, 2 or 10 in fvm_shared)
pub uninterp spec fn post_sector_size(p: RegisteredPoStProof) -> SectorSize;
pub uninterp spec fn post_partition_sectors(p: RegisteredPoStProof) -> u64;
impl RegisteredPoStProof {
    #[verifier::external_body]
    pub fn sector_size(self) -> (r: Result<SectorSize, String>) ensures r.is_ok() ==> r->Ok_0 == post_sector_size(self) { unimplemented!() }
    #[verifier::external_body]
    pub fn window_post_partition_sectors(self) -> (r: Result<u64, String>) ensures r.is_ok() ==> r->Ok_0 == post_partition_sectors(self) { unimplemented!() }
}
/// state.rs MinerInfo::new: `control_addresses.into_iter().map(Address::new_id).collect_vec()` — the body IS the original expression
#[verifier::external_body]
pub fn vx_ids_to_addrs(control_addresses: Vec<ActorID>) -> (r: Vec<Address>)
    ensures r@.len() == control_addresses@.len(), forall|i: int| 0 <= i < r@.len() ==> (#[trigger] r@[i]) == (Address { id: control_addresses@[i], proto: 0 })
{ control_addresses.into_iter().map(Address::new_id).collect() }
impl State {
    /// state.rs State::new (state.rs:124-187): flushes empty pre-commit map / clean-up queue / sector array / allocation bitfield / deadlines and
    /// returns a state whose money totals are `TokenAmount::default()` (zero), whose vesting table is `VestingFunds::new()` (empty), with the
    /// given info CID, proving-period start and deadline index, no early terminations and the deadline cron inactive
    #[verifier::external_body]
    pub fn new<BS: Blockstore>(policy: &Policy, store: &BS, info_cid: Cid, period_start: ChainEpoch, deadline_idx: u64) -> (r: Result<State, ActorError>)
        ensures r.is_ok() ==> ({
            let s = r->Ok_0;
            &&& s.info == info_cid && s.proving_period_start == period_start && s.current_deadline == deadline_idx
            &&& s.pre_commit_deposits@ == 0 && s.locked_funds@ == 0 && s.initial_pledge@ == 0 && s.fee_debt@ == 0
            &&& s.vesting_funds@ =~= Seq::<VfEntry>::empty()
            &&& s.early_terminations@ =~= vstd::set::Set::<u64>::empty() && !s.deadline_cron_active
        }),
    { unimplemented!() }
}
