// prelude/miner_money_assumed.rs — TRUSTED / ASSUMED pieces of the unit `miner_money` (apply_rewards, repay_debt, terminate_sectors, the
// control-method prefixes and the constructor of the miner actor). Every stub names the real code it stands for and why its contract is true
// of it. Needs prelude/{core,ipld,bitfield,rt,policy,cbor,miner_ext}.rs, units/shared/miner_funds.inc and miner_info.inc before it.

/// `info.control_addresses.iter().chain(&[info.worker, info.owner])` (iterator adapters are outside Verus' subset) collected: the control
/// addresses, the worker and the owner — the body IS the original expression, collected (same helper as in prelude/miner_onboard_assumed.rs
/// and prelude/miner_post_assumed.rs, which cannot be included here because their `Sectors` stubs clash with prelude/miner_early_term_assumed.rs)
#[verifier::external_body]
pub fn vx_control_worker_owner(info: &MinerInfo) -> (r: Vec<Address>)
    ensures r@.to_set() =~= info.control_addresses@.to_set().insert(info.worker).insert(info.owner)
{ info.control_addresses.iter().chain(&[info.worker, info.owner]).copied().collect() }

