// prelude/miner_money_term_assumed.rs — TRUSTED / ASSUMED pieces of the unit `miner_money`, termination side. Needs the items SectorOnChainInfo, QuantSpec,
// PowerPair, Deadlines and units/shared/miner_funds.inc before it.
// ======================================================================================================================================
// TerminateSectors + process_early_terminations
// prelude/miner_early_term_assumed.rs (process_early_terminations) and prelude/miner_onboard_assumed.rs / miner_post_assumed.rs (the deadline
// side of the TerminateSectors closure) cannot be included together: each brings its own `Sectors` stub. The pieces this unit needs are
// therefore RE-STATED here — verbatim where marked "(as in …)" — with two additions, each marked NEW and justified at the stub.
// ======================================================================================================================================

// ---- (as in prelude/miner_early_term_assumed.rs) ------------------------------------------------------------------------------------
/// termination.rs TerminationResult: epoch -> sectors, visited in epoch order; modelled as the list of (epoch, sector set) pairs
pub struct TerminationResult { pub pairs: Vec<(ChainEpoch, BitField)>, pub partitions_processed: u64, pub sectors_processed: u64 }
impl TerminationResult {
    pub fn is_empty(&self) -> (r: bool) ensures r == (self.sectors_processed == 0) { self.sectors_processed == 0 }
    /// `result.iter()` (BTreeMap iteration mapped to (epoch, &bitfield)): the pairs, in order
    #[verifier::external_body]
    pub fn vx_pairs(&self) -> (r: Vec<(ChainEpoch, &BitField)>)
        ensures r@.len() == self.pairs@.len(), forall|i: int| 0 <= i < r@.len() ==> (#[trigger] r@[i]).0 == self.pairs@[i].0 && *r@[i].1 == self.pairs@[i].1
    { unimplemented!() }
}
/// state.rs pop_early_terminations (walks the miner-level and deadline-level early-termination queues): ASSUMED — a deterministic
/// function of the state; touches only the early_terminations bitfield and the deadlines
pub uninterp spec fn pet_pop_ok(s: State, max_partitions: u64, max_sectors: u64) -> bool;
pub uninterp spec fn pet_pop_pairs(s: State, max_partitions: u64, max_sectors: u64) -> Seq<(ChainEpoch, BitField)>;
impl State {
    #[verifier::external_body]
    pub fn pop_early_terminations<BS: Blockstore>(&mut self, policy: &Policy, store: &BS, max_partitions: u64, max_sectors: u64) -> (r: anyhow::Result<(TerminationResult, bool)>)
        ensures
            r.is_ok() ==> r->Ok_0.0.pairs@ == pet_pop_pairs(*old(self), max_partitions, max_sectors)
                && (forall|i: int| 0 <= i < r->Ok_0.0.pairs@.len() ==> -0x2000_0000_0000_0000 < (#[trigger] r->Ok_0.0.pairs@[i]).0 < 0x2000_0000_0000_0000)
                && *final(self) == (State { early_terminations: final(self).early_terminations, deadlines: final(self).deadlines, ..*old(self) }),
            // NEW: the "has more" flag. state.rs:591-593 returns `false` without touching the (empty) bitfield; otherwise the last two statements
            // (state.rs:643-645) are `let no_early_terminations = self.early_terminations.is_empty(); Ok((result, !no_early_terminations))` —
            // the flag IS "the early-terminations bitfield left in the state is not empty"
            r.is_ok() ==> r->Ok_0.1 == !(final(self).early_terminations@ =~= vstd::set::Set::<u64>::empty()),
    { unimplemented!() }
}
/// sectors.rs Sectors::load / load_sectors: the stored infos of the named sectors — a deterministic function of (sectors root, bitfield);
/// stored sectors have a non-negative pledge and epochs of chain magnitude (data invariants)
#[verifier::external_body]
#[verifier::reject_recursive_types(BS)]
pub struct Sectors<'db, BS> { p: PhantomData<&'db BS> }
pub uninterp spec fn sectors_named(root: Cid, bf: BitField) -> Seq<SectorOnChainInfo>;
impl<'db, BS: Blockstore> Sectors<'db, BS> {
    pub uninterp spec fn root(&self) -> Cid;
    #[verifier::external_body]
    pub fn load(store: &'db BS, root: &Cid) -> (r: anyhow::Result<Sectors<'db, BS>>) ensures r.is_ok() ==> r->Ok_0.root() == *root { unimplemented!() }
    #[verifier::external_body]
    pub fn load_sectors(&self, sector_numbers: &BitField) -> (r: Result<Vec<SectorOnChainInfo>, ActorError>)
        ensures r.is_ok() ==> r->Ok_0@ == sectors_named(self.root(), *sector_numbers) && forall|i: int| 0 <= i < r->Ok_0@.len() ==> (#[trigger] r->Ok_0@[i]).initial_pledge@ >= 0 && -0x2000_0000_0000_0000 < r->Ok_0@[i].activation < 0x2000_0000_0000_0000
    { unimplemented!() }
}
/// policy.rs qa_power_for_sector, monies.rs pledge_penalty_for_continued_fault: opaque amounts
#[verifier::external_body]
pub fn qa_power_for_sector(size: SectorSize, sector: &SectorOnChainInfo) -> (r: StoragePower) { unimplemented!() }
#[verifier::external_body]
pub fn pledge_penalty_for_continued_fault(reward_estimate: &FilterEstimate, network_qa_power_estimate: &FilterEstimate, qa_sector_power: &StoragePower) -> (r: TokenAmount) { unimplemented!() }
pub mod emit {
    use super::*;
    #[verifier::external_body]
    pub fn sector_terminated(rt: &mut Rt, sector: SectorNumber) -> (r: Result<(), ActorError>)
        ensures r.is_ok() ==> *final(rt) == (Rt { events: Ghost(old(rt).events@ + 1), ..*old(rt) }), r.is_err() ==> *final(rt) == *old(rt)
    { unimplemented!() }
}
impl BitField {
    #[verifier::external_body]
    pub fn try_from_bits(bits: Vec<u64>) -> (r: Result<BitField, AnyhowError>) ensures r.is_ok() ==> r->Ok_0@ == bits@.to_set() { unimplemented!() }
}

// ---- sector_map.rs DeadlineSectorMap / PartitionSectorMap (as in prelude/miner_post_assumed.rs) ---------------------------------------------
/// partition index -> declared sector numbers
#[verifier::external_body]
pub struct PartitionSectorMap { inner: Box<u8> }
impl PartitionSectorMap {
    pub uninterp spec fn view(&self) -> Map<u64, Set<u64>>;
}
/// deadline index -> partition index -> declared sector numbers
#[verifier::external_body]
pub struct DeadlineSectorMap { inner: Box<u8> }
/// PartitionSectorMap::add: the bitfield is merged into the partition's entry
pub open spec fn psm_add(m: Map<u64, Set<u64>>, p: u64, s: Set<u64>) -> Map<u64, Set<u64>> {
    m.insert(p, if m.dom().contains(p) { m[p].union(s) } else { s })
}
/// DeadlineSectorMap::add: `self.0.entry(deadline_idx).or_default().add(partition_idx, sector_numbers)`
pub open spec fn dsm_add(m: Map<u64, Map<u64, Set<u64>>>, d: u64, p: u64, s: Set<u64>) -> Map<u64, Map<u64, Set<u64>>> {
    m.insert(d, psm_add(if m.dom().contains(d) { m[d] } else { Map::<u64, Set<u64>>::empty() }, p, s))
}
/// the keys of a BTreeMap in iteration (= increasing) order: a function of the map
pub uninterp spec fn dsm_keys(m: Map<u64, Map<u64, Set<u64>>>) -> Seq<u64>;
impl DeadlineSectorMap {
    pub uninterp spec fn view(&self) -> Map<u64, Map<u64, Set<u64>>>;
    /// DeadlineSectorMap::new = Default: empty
    #[verifier::external_body]
    pub fn new() -> (r: Self) ensures r.view() == Map::<u64, Map<u64, Set<u64>>>::empty() { unimplemented!() }
    /// DeadlineSectorMap::add: rejects deadline indices >= wpost_period_deadlines, otherwise merges the declaration into the map
    #[verifier::external_body]
    pub fn add(&mut self, policy: &Policy, deadline_idx: u64, partition_idx: u64, sector_numbers: BitField) -> (r: anyhow::Result<()>)
        ensures
            r.is_ok() ==> deadline_idx < policy.wpost_period_deadlines && final(self).view() == dsm_add(old(self).view(), deadline_idx, partition_idx, sector_numbers@),
            r.is_err() ==> final(self).view() == old(self).view(),
    { unimplemented!() }
    /// DeadlineSectorMap::check: validates the bitfields and counts partitions / sectors against the maxima; `&mut` only because bitfield
    /// validation caches — the abstract content is unchanged
    #[verifier::external_body]
    pub fn check(&mut self, max_partitions: u64, max_sectors: u64) -> (r: anyhow::Result<()>) ensures final(self).view() == old(self).view() { unimplemented!() }
    /// `iter()` = `self.0.iter_mut().map(|(&i, x)| (i, x))`: BTreeMap iteration — every key exactly once, in increasing order, with its value.
    /// Modelled as the Vec of the pairs; the values are handed out as shared references (the method only passes them on to the deadline, which
    /// only reads them as far as the abstract content goes)
    #[verifier::external_body]
    pub fn iter(&mut self) -> (r: Vec<(u64, &PartitionSectorMap)>)
        ensures
            final(self).view() == old(self).view(),
            r@.len() == dsm_keys(old(self).view()).len(),
            forall|i: int| 0 <= i < r@.len() ==> (#[trigger] r@[i]).0 == dsm_keys(old(self).view())[i] && old(self).view().dom().contains(r@[i].0) && r@[i].1.view() == old(self).view()[r@[i].0],
            forall|i: int, j: int| 0 <= i < j < r@.len() ==> dsm_keys(old(self).view())[i] < dsm_keys(old(self).view())[j],
            forall|i: int| 0 <= i < r@.len() ==> old(self).view().dom().contains(#[trigger] dsm_keys(old(self).view())[i]),
            forall|k: u64| old(self).view().dom().contains(k) ==> exists|i: int| 0 <= i < r@.len() && #[trigger] dsm_keys(old(self).view())[i] == k,
    { unimplemented!() }
}

// ---- deadline_state.rs / deadlines.rs: the deadline-level operations the TerminateSectors closure drives -------------------------------------
// (as in prelude/miner_onboard_assumed.rs: Deadline is opaque, everything deadline-level works on its own receiver and the blockstore only.)
// NEW with respect to that file: each stub is stated to be a DETERMINISTIC FUNCTION of its inputs (named by an uninterpreted spec function), so
// that the closure's contract can say which power delta it hands back. Justification: none of the four functions reads anything but its
// arguments and the content-addressed blockstore (prelude/cbor.rs: a block is a function of its Cid, and `put_cbor` returns the hash of the
// serialised value) — deadline_state.rs:55-76 (load_deadline), :91-106 (update_deadline), :601-680 (terminate_sectors), state.rs:233-235.
// Nothing is assumed about WHAT they compute, nor about when they succeed.
/// deadline_state.rs Deadline (partitions AMT root, memoised totals): opaque here
#[verifier::external_body]
pub struct Deadline { inner: Box<u8> }
pub uninterp spec fn dls_load(ds: Deadlines, idx: u64) -> Deadline;
pub uninterp spec fn dls_update(ds: Deadlines, policy: Policy, idx: u64, d: Deadline) -> Deadlines;
impl Deadlines {
    #[verifier::external_body]
    pub fn load_deadline<BS: Blockstore>(&self, store: &BS, idx: u64) -> (r: Result<Deadline, ActorError>)
        ensures r.is_ok() ==> r->Ok_0 == dls_load(*self, idx)
    { unimplemented!() }
    #[verifier::external_body]
    pub fn update_deadline<BS: Blockstore>(&mut self, policy: &Policy, store: &BS, deadline_idx: u64, deadline: &Deadline) -> (r: anyhow::Result<()>)
        ensures r.is_ok() ==> *final(self) == dls_update(*old(self), *policy, deadline_idx, *deadline)
    { unimplemented!() }
}
pub uninterp spec fn dlx_ts_deadline(d: Deadline, policy: Policy, sectors: Cid, epoch: ChainEpoch, decl: Map<u64, Set<u64>>, ssize: SectorSize, quant: QuantSpec) -> Deadline;
pub uninterp spec fn dlx_ts_removed(d: Deadline, policy: Policy, sectors: Cid, epoch: ChainEpoch, decl: Map<u64, Set<u64>>, ssize: SectorSize, quant: QuantSpec) -> PowerPair;
impl Deadline {
    /// deadline_state.rs Deadline::terminate_sectors: marks sectors terminated in the deadline's partitions and returns the power removed; works on
    /// the deadline value and the blockstore only — it has no access to the miner State
    #[verifier::external_body]
    pub fn terminate_sectors<BS: Blockstore>(&mut self, policy: &Policy, store: &BS, sectors: &Sectors<'_, BS>, epoch: ChainEpoch,
            partition_sectors: &PartitionSectorMap, sector_size: SectorSize, quant: QuantSpec) -> (r: anyhow::Result<PowerPair>)
        ensures
            r.is_ok() ==> *final(self) == dlx_ts_deadline(*old(self), *policy, sectors.root(), epoch, partition_sectors.view(), sector_size, quant)
                && r->Ok_0 == dlx_ts_removed(*old(self), *policy, sectors.root(), epoch, partition_sectors.view(), sector_size, quant),
    { unimplemented!() }
}
/// deadlines.rs deadline_is_mutable: pure arithmetic on the policy and epochs (SOME verdict)
#[verifier::external_body]
pub fn deadline_is_mutable(policy: &Policy, proving_period_start: ChainEpoch, deadline_idx: u64, current_epoch: ChainEpoch) -> (r: bool) { unimplemented!() }
/// state.rs quant_spec_for_deadline = new_deadline_info(policy, self.proving_period_start, deadline_idx, 0).quant_spec(): reads that one field
pub uninterp spec fn st_quant_for(policy: Policy, proving_period_start: ChainEpoch, deadline_idx: u64) -> QuantSpec;
impl State {
    /// state.rs current_proving_period_start: a `&self` getter (deadline arithmetic, under contract in units/C15)
    #[verifier::external_body]
    pub fn current_proving_period_start(&self, policy: &Policy, current_epoch: ChainEpoch) -> (r: ChainEpoch) { unimplemented!() }
    #[verifier::external_body]
    pub fn quant_spec_for_deadline(&self, policy: &Policy, deadline_idx: u64) -> (r: QuantSpec)
        ensures r == st_quant_for(*policy, self.proving_period_start, deadline_idx)
    { unimplemented!() }
}
/// runtime serialize(&x, desc): opaque bytes (as in prelude/miner_onboard_assumed.rs)
#[verifier::external_body]
pub fn serialize<T>(v: &T, desc: &str) -> (r: Result<RawBytes, ActorError>) ensures r.is_ok() ==> r->Ok_0.h == cbor_hash(*v) { unimplemented!() }
