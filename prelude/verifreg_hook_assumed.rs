// prelude/verifreg_hook_assumed.rs — TRUSTED/ASSUMED stubs of the verifreg receiver-hook unit (universal_receiver_hook,
// State::insert_allocations / put_claims). Included INSIDE the unit's `verus!{}` block, after the `Allocation` / `Claim` items and
// after prelude/verifreg_expiry_assumed.rs (which brings BatchReturn::ok and emit::claim_updated).
// Every item below stands for code outside /repo/actors/verifreg/src; the comment says which and why the contract is true of it.

// ---- frc46_token::receiver / fvm_actor_utils::receiver (external crates): plain records -------------------------------------------
/// frc46_token-15.0.0 src/receiver.rs `FRC46TokenReceived` (field for field)
pub struct FRC46TokenReceived {
    pub from: ActorID,
    pub to: ActorID,
    pub operator: ActorID,
    pub amount: TokenAmount,
    pub operator_data: RawBytes,
    pub token_data: RawBytes,
}
/// fvm_actor_utils-15.0.0 src/receiver/mod.rs `UniversalReceiverParams` (`ReceiverType` = u32)
pub struct UniversalReceiverParams { pub type_: u32, pub payload: RawBytes }
/// `FRC46_TOKEN_TYPE = method_hash!("FRC46") as u32`: a constant computed by a hashing macro; opaque here
pub uninterp spec fn frc46_token_type_spec() -> u32;
#[verifier::external_body]
pub fn frc46_token_type() -> (r: u32) ensures r == frc46_token_type_spec() { unimplemented!() }

/// fil_actors_runtime::cbor::deserialize (runtime/src/util/cbor.rs): CBOR decoding of a byte string — a deterministic partial function
/// of the bytes. Opaque: `raw_deser_spec::<T>(b)` is the decoded value when decoding succeeds. Failure is a serialization error.
pub uninterp spec fn raw_deser_spec<T>(b: RawBytes) -> T;
#[verifier::external_body]
pub fn deserialize<T>(bytes: &RawBytes, desc: &str) -> (r: Result<T, ActorError>)
    ensures r.is_ok() ==> r->Ok_0 == raw_deser_spec::<T>(*bytes), r.is_err() ==> r->Err_0.code == 21
{ unimplemented!() }

// ---- MapMap::put_many (runtime/src/util/mapmap.rs) ---------------------------------------------------------------------------------
/// the table after `set`ting the pairs `(k1, ps[0].0) ↦ ps[0].1`, … in order (later pairs overwrite earlier ones with the same key)
pub open spec fn put_many_spec<V, K1, K2>(m: Map<(K1, K2), V>, k1: K1, ps: Seq<(K2, V)>) -> Map<(K1, K2), V>
    decreases ps.len()
{
    if ps.len() == 0 { m } else { put_many_spec(m, k1, ps.drop_last()).insert((k1, ps.last().0), ps.last().1) }
}
impl<'a, BS: Blockstore, V, K1, K2> MapMap<'a, BS, V, K1, K2> {
    /// target of the textual rewrite of `m.put_many(k1, ITER.map(|a| PAIR))` into `m.vx_put_many(k1, <the pairs collected in a loop>)`.
    /// mapmap.rs `put_many`: loads the inner HAMT of `k1` once and `set`s every `(k, v)` the iterator yields, in order, overwriting.
    /// On an error (load or set) nothing is said about the in-memory table (the caller propagates the error without flushing).
    #[verifier::external_body]
    pub fn vx_put_many(&mut self, k1: K1, values: Vec<(K2, V)>) -> (r: Result<(), AnyhowError>)
        ensures r.is_ok() ==> final(self).view() == put_many_spec(old(self).view(), k1, values@)
    { unimplemented!() }
}
/// `(a..b).collect::<Vec<u64>>()`: the integers a, a+1, …, b-1 in order (empty when b <= a) — std `Range<u64>` iteration
pub trait VxRangeCollect { fn vx_collect(self) -> Vec<u64>; }
impl VxRangeCollect for core::ops::Range<u64> {
    #[verifier::external_body]
    fn vx_collect(self) -> (r: Vec<u64>)
        ensures r@.len() == (if self.end >= self.start { self.end - self.start } else { 0 }), forall|i: int| 0 <= i < r@.len() ==> #[trigger] r@[i] == self.start + i
    { unimplemented!() }
}

/// `Vec<T>::clone()` for the plain-data element types of this unit (`Allocation`, `(ClaimID, Claim)`: derived, field-wise `Clone`
/// of integer / Cid fields): an equal vector
#[verifier::external_body]
pub fn vx_clone_vec<T: Copy>(v: &Vec<T>) -> (r: Vec<T>) ensures r@ == v@ { unimplemented!() }

// ---- actors/verifreg/src/emit.rs `allocation`: builds one event and calls `rt.emit_event` — one actor event, no other effect; the
//      `EventBuilder::build()?` may fail, which leaves the runtime untouched
#[verifier::external_body]
pub fn vx_emit_allocation(rt: &mut Rt, id: AllocationID, alloc: &Allocation) -> (r: Result<(), ActorError>)
    ensures r.is_ok() ==> *final(rt) == (Rt { events: Ghost(old(rt).events@ + 1), ..*old(rt) }), r.is_err() ==> *final(rt) == *old(rt)
{ unimplemented!() }
