// prelude/misc_methods_eam.rs — TRUSTED stubs for EAM CreateExternal (on top of prelude/eam_assumed.rs).
//  * EthAddress::from_id (actors/evm/shared/src/address.rs): the masked-ID eth address 0xff ‖ 0^11 ‖ id (big endian) — an opaque
//    deterministic function of the id (only used as the `creator` field handed to the new contract).
//  * hash_20 (eam lib.rs): last 20 bytes of Keccak-256 of the data — an opaque deterministic function of the bytes.
//  * Address::to_bytes (fvm_shared): the address's byte encoding — an opaque deterministic function of the address.
//  * ActorError::checked(code, msg, data): an error with that code.  * Type::name: a label used in an error message only.
//  * ext::account::PUBKEY_ADDRESS_METHOD = 2 is extracted from the source (not assumed).
pub uninterp spec fn eth_from_id_spec(id: ActorID) -> EthAddress;
impl EthAddress {
    #[verifier::external_body]
    pub fn from_id(id: ActorID) -> (r: EthAddress) ensures r == eth_from_id_spec(id) { unimplemented!() }
}
pub uninterp spec fn hash20_spec(data: Seq<u8>) -> [u8; 20];
#[verifier::external_body]
pub fn hash_20(rt: &Rt, data: &[u8]) -> (r: [u8; 20]) ensures r == hash20_spec(data@) { unimplemented!() }
pub uninterp spec fn addr_bytes_spec(a: Address) -> Seq<u8>;
impl Address {
    #[verifier::external_body]
    pub fn to_bytes(&self) -> (r: Vec<u8>) ensures r@ == addr_bytes_spec(*self) { unimplemented!() }
}
impl ActorError {
    pub fn checked(code: ExitCode, msg: String, data: Option<IpldBlock>) -> (r: ActorError) ensures r.code == code.value { ActorError { code: code.value } }
}
impl Type {
    #[verifier::external_body]
    pub fn name(&self) -> (r: &'static str) { unimplemented!() }
}
