// prelude/miner_cron_assumed.rs — ASSUMED contracts of what handle_proving_deadline calls but is not under contract here.
/// state.rs cleanup_expired_pre_commits (BitFieldQueue walk over the pre-commit cleanup queue): ASSUMED — burns some non-negative
/// part of the pre-commit deposits and touches only the pre-commit tables and that total
impl State {
    #[verifier::external_body]
    pub fn cleanup_expired_pre_commits<BS: Blockstore>(&mut self, policy: &Policy, store: &BS, current_epoch: ChainEpoch) -> (r: anyhow::Result<TokenAmount>)
        ensures
            r.is_ok() ==> r->Ok_0@ >= 0 && final(self).pre_commit_deposits@ == old(self).pre_commit_deposits@ - r->Ok_0@ && final(self).pre_commit_deposits@ >= 0
                && *final(self) == (State { pre_commit_deposits: final(self).pre_commit_deposits, pre_committed_sectors: final(self).pre_committed_sectors,
                    pre_committed_sectors_cleanup: final(self).pre_committed_sectors_cleanup, ..*old(self) }),
    { unimplemented!() }
}
/// monies.rs fee formulas (fixed-point smoothing maths): opaque amounts
#[verifier::external_body]
pub fn pledge_penalty_for_continued_fault(reward_estimate: &FilterEstimate, network_qa_power_estimate: &FilterEstimate, qa_sector_power: &StoragePower) -> (r: TokenAmount) { unimplemented!() }
#[verifier::external_body]
pub fn expected_reward_for_power(reward_estimate: &FilterEstimate, network_qa_power_estimate: &FilterEstimate, qa_sector_power: &StoragePower, projection_duration: ChainEpoch) -> (r: TokenAmount) { unimplemented!() }
#[verifier::external_body]
pub fn daily_proof_fee_payable(policy: &Policy, daily_fee: &TokenAmount, day_reward: &TokenAmount) -> (r: TokenAmount) { unimplemented!() }
/// lib.rs process_pending_worker (under contract in units/C13): here only its frame — the funds, the deadline cursor and the queues are untouched
#[verifier::external_body]
pub fn process_pending_worker(info: &mut MinerInfo, rt: &Rt, state: &mut State) -> (r: Result<(), ActorError>)
    ensures *final(state) == (State { info: final(state).info, ..*old(state) })
{ unimplemented!() }
/// lib.rs process_early_terminations / (real) schedule_early_termination_work: the early-termination batch — not under contract;
/// it leaves the transaction flag alone and only appends sends / commits states
#[verifier::external_body]
pub fn process_early_terminations(rt: &mut Rt, reward_smoothed: &FilterEstimate, quality_adj_power_smoothed: &FilterEstimate) -> (r: Result<bool, ActorError>)
    requires !old(rt).in_tx@
    ensures !final(rt).in_tx@, final(rt).sends@.len() >= old(rt).sends@.len(), final(rt).tx_log@.len() >= old(rt).tx_log@.len(),
        forall|i: int| 0 <= i < old(rt).sends@.len() ==> final(rt).sends@[i] == old(rt).sends@[i],
        forall|i: int| 0 <= i < old(rt).tx_log@.len() ==> final(rt).tx_log@[i] == old(rt).tx_log@[i],
        final(rt).epoch == old(rt).epoch, final(rt).msg == old(rt).msg,
{ unimplemented!() }
/// runtime serialize(&x, desc): opaque bytes
#[verifier::external_body]
pub fn serialize<T>(v: &T, desc: &str) -> (r: Result<RawBytes, ActorError>) ensures vx_store_ok() ==> r.is_ok(), r.is_ok() ==> r->Ok_0.h == cbor_hash(*v) { unimplemented!() }
pub const EPOCHS_IN_DAY_VX: i64 = 2880;
