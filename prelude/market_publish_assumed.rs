// prelude/market_publish_assumed.rs — TRUSTED stubs of the market PublishStorageDeals unit (market_publish.vx.rs).
// Each stub names the real code it stands for and says why the stated contract is true of it. Included in the middle of the
// unit, after units/shared/market_state.inc (needs `State`, `DealProposal`, `pend`, `props_m`).

// ---- lib.rs publish_storage_deals: `struct ValidDeal` is declared INSIDE the function body, where `//@ item` cannot reach it.
// Re-stated here field for field (a type declaration, no behaviour). If the real struct changes shape the generated file stops
// compiling (exit 2), it cannot silently drift.
pub struct ValidDeal {
    pub proposal: DealProposal,
    pub serialized_proposal: RawBytes,
    pub cid: Cid,
}

// ---- state.rs put_deal_proposals (`load; iter().try_for_each(|(id, p)| deal_proposals.set(*id, p.clone())); self.proposals = flush()?`)
// ASSUMED (iterator adapter with a closure — outside Verus' subset): sets the entries in order; `self.proposals` is assigned as
// the last statement, so nothing else is touched and Err leaves the state as it was.
pub open spec fn put_all_p(m: Map<u64, DealProposal>, s: Seq<(DealID, DealProposal)>) -> Map<u64, DealProposal>
    decreases s.len()
{ if s.len() == 0 { m } else { put_all_p(m, s.drop_last()).insert(s.last().0, s.last().1) } }

impl State {
    #[verifier::external_body]
    pub fn put_deal_proposals<BS: Blockstore>(&mut self, store: &BS, new_deal_proposals: &[(DealID, DealProposal)]) -> (r: Result<(), ActorError>)
        ensures
            r.is_ok() ==> array_decode::<DealProposal>(final(self).proposals) == put_all_p(array_decode::<DealProposal>(old(self).proposals), new_deal_proposals@),
            r.is_ok() ==> *final(self) == (State { proposals: final(self).proposals, ..*old(self) }),
            r.is_err() ==> *final(self) == *old(self),
    { unimplemented!() }

    // ---- state.rs put_pending_deals (`load_pending_deals; iter().try_for_each(|key| pending_deals.put(key)); save_pending_deals`)
    // ASSUMED (same reason): every listed CID is inserted into the pending set (Set::put, itself under contract in
    // units/shared/set.inc, is a set insertion: it neither fails nor reports when the key is already present); only
    // `pending_proposals` is assigned (by save_pending_deals, last statement).
    #[verifier::external_body]
    pub fn put_pending_deals<BS: Blockstore>(&mut self, store: &BS, new_pending_deals: &[Cid]) -> (r: Result<(), ActorError>)
        ensures
            r.is_ok() ==> map2_decode::<Cid, ()>(final(self).pending_proposals).dom() == map2_decode::<Cid, ()>(old(self).pending_proposals).dom().union(new_pending_deals@.to_set()),
            r.is_ok() ==> *final(self) == (State { pending_proposals: final(self).pending_proposals, ..*old(self) }),
            r.is_err() ==> *final(self) == *old(self),
    { unimplemented!() }

    // ---- state.rs put_pending_deal_allocation_ids (`load; try_for_each(|(deal_id, alloc)| map.set(deal_id, *alloc)); save`)
    // ASSUMED: only `pending_deal_allocation_ids` is assigned (last statement). Its new content is not used by this unit.
    #[verifier::external_body]
    pub fn put_pending_deal_allocation_ids<BS: Blockstore>(&mut self, store: &BS, new_pending_deal_allocation_ids: &[(DealID, AllocationID)]) -> (r: Result<(), ActorError>)
        ensures
            r.is_ok() ==> *final(self) == (State { pending_deal_allocation_ids: final(self).pending_deal_allocation_ids, ..*old(self) }),
            r.is_err() ==> *final(self) == *old(self),
    { unimplemented!() }

    // ---- state.rs put_deals_by_epoch (`load_deal_ops; try_for_each(|(epoch, id)| deals_by_epoch.put(epoch, *id)); self.deal_ops_by_epoch = flush()?`)
    // ASSUMED: only `deal_ops_by_epoch` is assigned (last statement). Its new content is not used by this unit.
    #[verifier::external_body]
    pub fn put_deals_by_epoch<BS: Blockstore>(&mut self, store: &BS, new_deals_by_epoch: &[(ChainEpoch, DealID)]) -> (r: Result<(), ActorError>)
        ensures
            r.is_ok() ==> *final(self) == (State { deal_ops_by_epoch: final(self).deal_ops_by_epoch, ..*old(self) }),
            r.is_err() ==> *final(self) == *old(self),
    { unimplemented!() }
}
