// prelude/market_publish_assumed.rs — TRUSTED stubs of the market PublishStorageDeals unit (market_publish.vx.rs).
// Each stub names the real code it stands for and says why the stated contract is true of it. Included in the middle of the
// unit, after units/shared/market_state.inc (needs `State`, `DealProposal`, `pend`, `props_m`).

// ---- lib.rs publish_storage_deals: `struct ValidDeal` is declared INSIDE the function body, where `//@ item` cannot reach it.
// Re-stated here field for field (a type declaration, no behaviour). The whole-method directive removes the fn-local declaration by a token
// substitution that spells out its exact text, so if the real struct changes shape the substitution no longer matches (vx exit 2): it cannot
// silently drift.
pub struct ValidDeal {
    pub proposal: DealProposal,
    pub serialized_proposal: RawBytes,
    pub cid: Cid,
}

// ---- state.rs put_deal_proposals (`load; iter().try_for_each(|(id, p)| deal_proposals.set(*id, p.clone())); self.proposals = flush()?`)
// ASSUMED (iterator adapter with a closure — outside Verus' subset): sets the entries in order; `self.proposals` is assigned as
// the last statement, so nothing else is touched and Err leaves the state as it was.
pub open spec fn put_all_p(m: Map<u64, DealProposal>, s: Seq<(DealID, DealProposal)>) -> Map<u64, DealProposal>
    decreases s.len()
{ if s.len() == 0 { m } else { put_all_p(m, s.drop_last()).insert(s.last().0, s.last().1) } }

impl State {
    #[verifier::external_body]
    pub fn put_deal_proposals<BS: Blockstore>(&mut self, store: &BS, new_deal_proposals: &[(DealID, DealProposal)]) -> (r: Result<(), ActorError>)
        ensures
            r.is_ok() ==> array_decode::<DealProposal>(final(self).proposals) == put_all_p(array_decode::<DealProposal>(old(self).proposals), new_deal_proposals@),
            r.is_ok() ==> *final(self) == (State { proposals: final(self).proposals, ..*old(self) }),
            r.is_err() ==> *final(self) == *old(self),
    { unimplemented!() }

    // ---- state.rs put_pending_deals (`load_pending_deals; iter().try_for_each(|key| pending_deals.put(key)); save_pending_deals`)
    // ASSUMED (same reason): every listed CID is inserted into the pending set (Set::put, itself under contract in
    // units/shared/set.inc, is a set insertion: it neither fails nor reports when the key is already present); only
    // `pending_proposals` is assigned (by save_pending_deals, last statement).
    #[verifier::external_body]
    pub fn put_pending_deals<BS: Blockstore>(&mut self, store: &BS, new_pending_deals: &[Cid]) -> (r: Result<(), ActorError>)
        ensures
            r.is_ok() ==> map2_decode::<Cid, ()>(final(self).pending_proposals).dom() == map2_decode::<Cid, ()>(old(self).pending_proposals).dom().union(new_pending_deals@.to_set()),
            r.is_ok() ==> *final(self) == (State { pending_proposals: final(self).pending_proposals, ..*old(self) }),
            r.is_err() ==> *final(self) == *old(self),
    { unimplemented!() }

    // ---- state.rs put_pending_deal_allocation_ids (`load; try_for_each(|(deal_id, alloc)| map.set(deal_id, *alloc)); save`)
    // ASSUMED: only `pending_deal_allocation_ids` is assigned (last statement). Its new content is not used by this unit.
    #[verifier::external_body]
    pub fn put_pending_deal_allocation_ids<BS: Blockstore>(&mut self, store: &BS, new_pending_deal_allocation_ids: &[(DealID, AllocationID)]) -> (r: Result<(), ActorError>)
        ensures
            r.is_ok() ==> *final(self) == (State { pending_deal_allocation_ids: final(self).pending_deal_allocation_ids, ..*old(self) }),
            r.is_err() ==> *final(self) == *old(self),
    { unimplemented!() }

    // ---- state.rs put_deals_by_epoch (`load_deal_ops; try_for_each(|(epoch, id)| deals_by_epoch.put(epoch, *id)); self.deal_ops_by_epoch = flush()?`)
    // ASSUMED: only `deal_ops_by_epoch` is assigned (last statement). Its new content is not used by this unit.
    #[verifier::external_body]
    pub fn put_deals_by_epoch<BS: Blockstore>(&mut self, store: &BS, new_deals_by_epoch: &[(ChainEpoch, DealID)]) -> (r: Result<(), ActorError>)
        ensures
            r.is_ok() ==> *final(self) == (State { deal_ops_by_epoch: final(self).deal_ops_by_epoch, ..*old(self) }),
            r.is_err() ==> *final(self) == *old(self),
    { unimplemented!() }
}

// ======================================================================================================================
// validation phase
// ======================================================================================================================
// ---- fvm_shared::crypto::signature::Signature (external crate): only its byte string is used --------------------------
pub struct Signature { pub bytes: Vec<u8> }
// ---- fvm_shared::piece::PaddedPieceSize is `Copy` (the shared market block declares the struct without derives) --------
impl Clone for PaddedPieceSize { fn clone(&self) -> (r: Self) ensures r == *self { PaddedPieceSize(self.0) } }
impl Copy for PaddedPieceSize {}
impl PaddedPieceSize {
    /// fvm_shared PaddedPieceSize::validate: Ok iff size >= 128 and a power of two (only the lower bound is stated)
    #[verifier::external_body]
    pub fn validate(self) -> (r: Result<(), &'static str>) ensures r.is_ok() ==> self.0 >= 128 { unimplemented!() }
}
// ---- deal.rs is_piece_cid: a predicate on the CID's codec / hash function / digest size — opaque, deterministic ---------
pub uninterp spec fn is_piece_cid_spec(c: Cid) -> bool;
#[verifier::external_body]
pub fn is_piece_cid(c: &Cid) -> (r: bool) ensures r == is_piece_cid_spec(*c) { unimplemented!() }
// ---- deal.rs Label::len: length of the string / byte label (String has no Verus model) ---------------------------------
impl Label {
    pub uninterp spec fn len_spec(&self) -> usize;
    #[verifier::external_body]
    pub fn len(&self) -> (r: usize) ensures r == self.len_spec() { unimplemented!() }
}
// ---- policy.rs TOTAL_FILECOIN (lazy_static): 2_000_000_000 whole FIL -----------------------------------------------------
pub open spec fn total_filecoin_spec() -> int { 2_000_000_000 * pow10_18() }
/// stands for `&TOTAL_FILECOIN` / `TOTAL_FILECOIN` (vx substitutes the two spellings; lazy_static has no Verus model)
#[verifier::external_body]
pub fn total_filecoin() -> (r: &'static TokenAmount) ensures r@ == total_filecoin_spec() { unimplemented!() }
// ---- Runtime::total_fil_circ_supply: the circulating supply reported by the FVM — a non-negative amount ------------------
impl Rt {
    #[verifier::external_body]
    pub fn total_fil_circ_supply(&self) -> (r: TokenAmount) ensures r@ >= 0 { unimplemented!() }
}
// ---- fil_actors_runtime::cbor::serialize: CBOR bytes of a value — an opaque deterministic function of the value -----------
// (same token as IpldBlock::serialize_cbor in prelude/rt.rs: `cbor_hash`)
pub open spec fn ser_spec<T>(v: T) -> RawBytes { RawBytes { h: cbor_hash(v) } }
#[verifier::external_body]
pub fn serialize<T>(value: &T, desc: &str) -> (r: Result<RawBytes, ActorError>)
    ensures r.is_ok() ==> r->Ok_0 == ser_spec(*value), r.is_err() ==> r->Err_0.code == 21
{ unimplemented!() }
/// the byte string behind a RawBytes token
pub uninterp spec fn raw_seq(b: RawBytes) -> Seq<u8>;
impl RawBytes {
    #[verifier::external_body]
    pub fn to_vec(&self) -> (r: Vec<u8>) ensures r@ == raw_seq(*self) { unimplemented!() }
    #[verifier::external_body]
    pub fn bytes(&self) -> (r: &[u8]) ensures r@ == raw_seq(*self) { unimplemented!() }
}
// ---- lib.rs serialized_deal_cid: blake2b-256 of the bytes wrapped as a CIDv1 — an opaque deterministic function of the bytes.
// The real parameter is `&[u8]`; the call site passes `&RawBytes` (deref coercion), so the stub takes the token and the
// CID is a function of the byte string it stands for.
pub uninterp spec fn bytes_cid(data: Seq<u8>) -> Cid;
#[verifier::external_body]
pub fn serialized_deal_cid(rt: &Rt, data: &RawBytes) -> (r: Result<Cid, ActorError>)
    ensures r.is_ok() ==> r->Ok_0 == bytes_cid(raw_seq(*data))
{ unimplemented!() }
/// the CID under which a proposal is pending: blake2b of its CBOR (what lib.rs `deal_cid` computes)
pub open spec fn deal_cid_spec(p: DealProposal) -> Cid { bytes_cid(raw_seq(ser_spec(p))) }

/// std Result::and_then: the continuation runs on Ok, an Err passes through (same text as prelude/paych_method_assumed.rs)
pub assume_specification<T, E, U, F>[Result::<T, E>::and_then](res: Result<T, E>, f: F) -> (r: Result<U, E>)
    where F: FnOnce(T) -> Result<U, E> + std::marker::Destruct
    requires res.is_ok() ==> call_requires(f, (res->Ok_0,)),
    ensures
        res.is_ok() ==> call_ensures(f, (res->Ok_0,), r),
        res.is_err() ==> r.is_err() && r->Err_0 == res->Err_0;
/// the CBOR block of AuthenticateMessageParams is a function of its two byte strings (strict_bytes fields)
pub uninterp spec fn auth_params_hash(signature: Seq<u8>, message: Seq<u8>) -> u64;
pub axiom fn axiom_auth_params_hash()
    ensures forall|p: ext::account::AuthenticateMessageParams| #[trigger] cbor_hash(p) == auth_params_hash(p.signature@, p.message@);

// ---- ext.rs: the modules of interfaces of other actors. Types are extracted from /repo; the FRC-42 method numbers are
// values of the proc-macro `frc42_dispatch::method_hash!` (first 4 bytes ≥ 2^24 of blake2b-512("1|<name>")), computed
// offline and cross-checked against the one documented value (InvokeEVM = 3844450837).
pub mod ext {
    pub mod account {
        use super::super::*;
        pub const AUTHENTICATE_MESSAGE_METHOD: u64 = 2643134072;
//@ item actors/market/src/ext.rs AuthenticateMessageParams
    }
    pub mod miner {
        use super::super::*;
        pub const IS_CONTROLLING_ADDRESS_EXPORTED: u64 = 348244887;
//@ item actors/market/src/ext.rs IsControllingAddressReturn
//@ item actors/market/src/ext.rs IsControllingAddressParam
    }
    pub mod verifreg {
        use super::super::*;
        pub type AllocationID = u64;
        pub type ClaimID = u64;
//@ item actors/market/src/ext.rs AllocationRequest
//@ item actors/market/src/ext.rs ClaimExtensionRequest
//@ item actors/market/src/ext.rs AllocationRequests
//@ item actors/market/src/ext.rs AllocationsResponse
    }
    pub mod datacap {
        pub const BALANCE_OF_METHOD: u64 = 3261979605;
        pub const TRANSFER_FROM_METHOD: u64 = 3621052141;
    }
    pub mod reward {
        use super::super::*;
//@ const actors/market/src/ext.rs THIS_EPOCH_REWARD_METHOD
    }
    pub mod power {
        use super::super::*;
//@ const actors/market/src/ext.rs CURRENT_TOTAL_POWER_METHOD
//@ item actors/market/src/ext.rs CurrentTotalPowerReturn
    }
}

// ---- `v.iter().enumerate()` / `v.into_iter().enumerate()` materialised as the list of (index, item) pairs, in order.
// (Verus has no model of core::iter::Enumerate; the helper bodies ARE the original expressions, collected.)
#[verifier::external_body]
pub fn vx_enumerate<T>(v: &Vec<T>) -> (r: Vec<(usize, &T)>)
    ensures r@.len() == v@.len(), forall|i: int| 0 <= i < v@.len() ==> (#[trigger] r@[i]).0 == i && *r@[i].1 == v@[i]
{ v.iter().enumerate().collect() }
#[verifier::external_body]
pub fn vx_into_enumerate<T>(v: Vec<T>) -> (r: Vec<(usize, T)>)
    ensures r@.len() == v@.len(), forall|i: int| 0 <= i < v@.len() ==> (#[trigger] r@[i]).0 == i && r@[i].1 == v@[i]
{ v.into_iter().enumerate().collect() }

// ======================================================================================================================
// selection phase (the second loop of publish_storage_deals) and the datacap requests
// ======================================================================================================================
// ---- std::collections::BTreeMap: prelude/btreemap.rs has the type, its view and `get`; this unit also needs new / insert /
// iter and `entry(k).or_default()` (as `vx_at`, substituted by vx; same idea as prelude/market_settle_assumed.rs).
impl<K, V> BTreeMap<K, V> {
    #[verifier::external_body]
    pub fn new() -> (r: Self) ensures r.view() == Map::<K, V>::empty() { unimplemented!() }
    #[verifier::external_body]
    pub fn insert(&mut self, k: K, v: V) -> (r: Option<V>)
        ensures final(self).view() == old(self).view().insert(k, v)
    { unimplemented!() }
    /// `entry(k).or_default()`: a mutable reference to the value stored under `k`, a default value being inserted first when there is none
    #[verifier::external_body]
    pub fn vx_at(&mut self, k: K) -> (r: &mut V) where V: Default
        ensures final(self).view() == old(self).view().insert(k, *final(r)), final(self).view().dom() == old(self).view().dom().insert(k),
    { unimplemented!() }
    /// `iter()`: every entry exactly once (ascending key order), materialised so that a loop can index it
    #[verifier::external_body]
    pub fn iter(&self) -> (r: Vec<(&K, &V)>)
        ensures
            forall|i: int| 0 <= i < r@.len() ==> self.view().dom().contains(*(#[trigger] r@[i]).0) && *r@[i].1 == self.view()[*r@[i].0],
            forall|i: int, j: int| 0 <= i < j < r@.len() ==> *r@[i].0 != *r@[j].0,
    { unimplemented!() }
}
// ---- std::collections::BTreeSet (membership only) --------------------------------------------------------------------------
#[verifier::external_body]
#[verifier::reject_recursive_types(T)]
pub struct BTreeSet<T> { p: PhantomData<T> }
impl<T> BTreeSet<T> {
    pub uninterp spec fn view(&self) -> vstd::set::Set<T>;
    #[verifier::external_body]
    pub fn new() -> (r: Self) ensures r@ == vstd::set::Set::<T>::empty() { unimplemented!() }
    #[verifier::external_body]
    pub fn contains(&self, x: &T) -> (r: bool) ensures r == self@.contains(*x) { unimplemented!() }
    #[verifier::external_body]
    pub fn insert(&mut self, x: T) -> (r: bool) ensures final(self)@ == old(self)@.insert(x), r == !old(self)@.contains(x) { unimplemented!() }
}
// ---- frc46_token parameter / return types (external crate): plain records ---------------------------------------------------
pub struct TransferFromParams { pub from: Address, pub to: Address, pub amount: TokenAmount, pub operator_data: RawBytes }
pub struct TransferFromReturn { pub from_balance: TokenAmount, pub to_balance: TokenAmount, pub allowance: TokenAmount, pub recipient_data: RawBytes }
pub type BalanceReturn = TokenAmount;
impl IpldBlock {
    /// fvm_ipld_encoding IpldBlock::deserialize: decoding of a returned block (same opaque decoding as cbor.rs deserialize_block)
    #[verifier::external_body]
    pub fn deserialize<T>(&self) -> (r: Result<T, ActorError>)
        ensures r.is_ok() == deser_ok::<T>(Some(*self)), r.is_ok() ==> r->Ok_0 == deser_spec::<T>(Some(*self))
    { unimplemented!() }
}
/// fil_actors_runtime::cbor::deserialize: decoding of a byte string — opaque, deterministic
pub uninterp spec fn raw_deser_spec<T>(b: RawBytes) -> T;
#[verifier::external_body]
pub fn deserialize<T>(bytes: &RawBytes, desc: &str) -> (r: Result<T, ActorError>)
    ensures r.is_ok() ==> r->Ok_0 == raw_deser_spec::<T>(*bytes)
{ unimplemented!() }
// ---- lib.rs datacap_transfer_request (`alloc_reqs.iter().map(|it| it.size.0).sum()` + serialize): builds the TransferFrom
// parameters for one client — a pure function (it can only fail in `serialize`); nothing about its result is used.
#[verifier::external_body]
pub fn datacap_transfer_request(client: &Address, alloc_reqs: Vec<ext::verifreg::AllocationRequest>) -> (r: Result<TransferFromParams, ActorError>)
{ unimplemented!() }
/// `cids_and_reqs.iter().map(|(_, req)| req.clone()).collect()`: the requests of the pairs, in order (the extractor strips
/// `derive(Clone)` from AllocationRequest, so the expression itself cannot be the body)
#[verifier::external_body]
pub fn vx_reqs_of(cids_and_reqs: &Vec<(Cid, ext::verifreg::AllocationRequest)>) -> (r: Vec<ext::verifreg::AllocationRequest>)
    ensures r@.len() == cids_and_reqs@.len()
{ unimplemented!() }
/// R17 target: number of pairs a `zip` visits (same text as prelude/market_activate_assumed.rs)
pub fn vx_zip_len(a: usize, b: usize) -> (r: usize) ensures r == (if a <= b { a } else { b }) { if a <= b { a } else { b } }
// ---- emit.rs deal_published: builds one event and calls rt.emit_event — one actor event, nothing else -----------------------
pub mod emit {
    use super::*;
    #[verifier::external_body]
    pub fn deal_published(rt: &mut Rt, client: ActorID, provider: ActorID, deal_id: DealID) -> (r: Result<(), ActorError>)
        ensures r.is_ok() ==> *final(rt) == (Rt { events: Ghost(old(rt).events@ + 1), ..*old(rt) }), r.is_err() ==> *final(rt) == *old(rt)
    { unimplemented!() }
}
// ---- types.rs MARKET_NOTIFY_DEAL_METHOD = frc42 method_hash!("MarketNotifyDeal") (see the note on ext above) ------------------
pub const MARKET_NOTIFY_DEAL_METHOD: u64 = 4186741094;
