// prelude/market_activate_assumed.rs — TRUSTED stubs of the market activation unit (each names the real code it stands for)
pub uninterp spec fn deal_cid_spec(p: DealProposal) -> Cid;
/// lib.rs deal_cid: CBOR + blake2b of the proposal
#[verifier::external_body]
pub fn deal_cid(rt: &Rt, proposal: &DealProposal) -> (r: Result<Cid, ActorError>)
    ensures r.is_ok() ==> r->Ok_0 == deal_cid_spec(*proposal)
{ unimplemented!() }

/// std::collections::HashSet (membership only)
#[verifier::external_body]
#[verifier::reject_recursive_types(T)]
pub struct HashSet<T> { p: PhantomData<T> }
impl<T> HashSet<T> {
    pub uninterp spec fn view(&self) -> vstd::set::Set<T>;
    #[verifier::external_body]
    pub fn new() -> (r: Self) ensures r@ == vstd::set::Set::<T>::empty() { unimplemented!() }
    #[verifier::external_body]
    pub fn contains(&self, x: &T) -> (r: bool) ensures r == self@.contains(*x) { unimplemented!() }
    #[verifier::external_body]
    pub fn insert(&mut self, x: T) -> (r: bool) ensures final(self)@ == old(self)@.insert(x), r == !old(self)@.contains(x) { unimplemented!() }
}
/// `<[T]>::sort`: same multiset, ascending w.r.t. the type's total order
pub assume_specification<T: Ord>[<[T]>::sort](s: &mut [T])
    ensures
        final(s)@.len() == old(s)@.len(), final(s)@.to_multiset() == old(s)@.to_multiset(),
        T::obeys_cmp_spec() ==> forall|i: int, j: int| 0 <= i <= j < final(s)@.len() ==> vstd::std_specs::cmp::OrdSpec::cmp_spec(&final(s)@[i], &final(s)@[j]) != core::cmp::Ordering::Greater;
pub open spec fn adj_dup(s: Seq<u64>, i: int) -> bool { s[i] == s[i + 1] }
pub open spec fn adj_eq<T: PartialEq>(s: Seq<T>, i: int) -> bool { vstd::std_specs::cmp::PartialEqSpec::eq_spec(&s[i], &s[i + 1]) }
/// `s.windows(2).any(|w| w[0] == w[1])` (helper body IS the original expression)
#[verifier::external_body]
pub fn vx_has_adjacent_dup(s: &Vec<u64>) -> (r: bool)
    ensures r == (exists|i: int| 0 <= i < s@.len() - 1 && #[trigger] adj_dup(s@, i))
{ s.windows(2).any(|w| w[0] == w[1]) }
/// Vec::dedup: removes consecutive repeated elements; stated is only what follows for every input: the result is
/// no longer than the input, and equally long exactly when no two neighbours were equal (then nothing changed)
pub assume_specification<T: PartialEq, A: core::alloc::Allocator>[Vec::<T, A>::dedup](v: &mut Vec<T, A>)
    ensures
        final(v)@.len() <= old(v)@.len(),
        T::obeys_eq_spec() ==> (final(v)@.len() == old(v)@.len() <==> !(exists|i: int| 0 <= i < old(v)@.len() - 1 && #[trigger] adj_eq(old(v)@, i))),
        final(v)@.len() == old(v)@.len() ==> final(v)@ == old(v)@;
/// R17 target: number of pairs a `zip` visits
pub fn vx_zip_len(a: usize, b: usize) -> (r: usize) ensures r == (if a <= b { a } else { b }) { if a <= b { a } else { b } }

/// lib.rs compute_data_commitment (a syscall over the pieces): opaque
#[verifier::external_body]
pub fn compute_data_commitment(rt: &Rt, proposals: &Vec<DealProposal>, sector_type: RegisteredSealProof) -> (r: Result<Cid, ActorError>) { unimplemented!() }
pub mod emit {
    use super::*;
    /// emit.rs deal_activated: one actor event, nothing else
    #[verifier::external_body]
    pub fn deal_activated(rt: &mut Rt, deal_id: DealID, client: ActorID, provider: ActorID) -> (r: Result<(), ActorError>)
        ensures r.is_ok() ==> *final(rt) == (Rt { events: Ghost(old(rt).events@ + 1), ..*old(rt) }), r.is_err() ==> *final(rt) == *old(rt)
    { unimplemented!() }
}
/// state.rs put_deal_states (`iter().try_for_each(|(id, st)| states.set(*id, *st))` + flush): ASSUMED — sets the entries in order
pub open spec fn set_all(m: Map<u64, DealState>, s: Seq<(DealID, DealState)>) -> Map<u64, DealState>
    decreases s.len()
{ if s.len() == 0 { m } else { set_all(m, s.drop_last()).insert(s.last().0, s.last().1) } }
impl State {
    #[verifier::external_body]
    pub fn put_deal_states<BS: Blockstore>(&mut self, store: &BS, new_deal_states: &Vec<(DealID, DealState)>) -> (r: Result<(), ActorError>)
        ensures
            r.is_ok() ==> array_decode::<DealState>(final(self).states) == set_all(array_decode::<DealState>(old(self).states), new_deal_states@),
            r.is_ok() ==> *final(self) == (State { states: final(self).states, ..*old(self) }),
            r.is_err() ==> *final(self) == *old(self),
    { unimplemented!() }
    /// state.rs put_sector_deal_ids (provider → sector → deal ids index): ASSUMED — touches only `provider_sectors`
    #[verifier::external_body]
    pub fn put_sector_deal_ids<BS: Blockstore>(&mut self, store: &BS, provider: ActorID, sector_deal_ids: &Vec<(SectorNumber, Vec<DealID>)>) -> (r: Result<(), ActorError>)
        ensures
            r.is_ok() ==> *final(self) == (State { provider_sectors: final(self).provider_sectors, ..*old(self) }),
            r.is_err() ==> *final(self) == *old(self),
    { unimplemented!() }
}
