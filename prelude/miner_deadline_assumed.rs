// prelude/miner_deadline_assumed.rs — ASSUMED (unverified) contracts of the two heavy Deadline operations that
// State::advance_deadline calls (deadline_state.rs: process_deadline_end ~90 lines over the partitions AMT, and
// pop_expired_partitions/Partition::pop_expired_sectors behind pop_expired_sectors). They are modelled as
// deterministic functions of the deadline value (the blockstore is content-addressed, prelude/cbor.rs), named by
// uninterpreted spec functions so that the caller's contract can speak about "the expiration set this call returned".
// Nothing is assumed about WHAT they compute.
verus! {
pub uninterp spec fn dl_end_ok(d: Deadline, quant: QuantSpec, fault_expiration: ChainEpoch, sectors: Cid) -> bool;
pub uninterp spec fn dl_end_deadline(d: Deadline, quant: QuantSpec, fault_expiration: ChainEpoch, sectors: Cid) -> Deadline;
pub uninterp spec fn dl_end_power_delta(d: Deadline, quant: QuantSpec, fault_expiration: ChainEpoch, sectors: Cid) -> PowerPair;
pub uninterp spec fn dl_end_detected(d: Deadline, quant: QuantSpec, fault_expiration: ChainEpoch, sectors: Cid) -> PowerPair;
pub uninterp spec fn dl_pop_ok(d: Deadline, until: ChainEpoch, quant: QuantSpec) -> bool;
pub uninterp spec fn dl_pop_deadline(d: Deadline, until: ChainEpoch, quant: QuantSpec) -> Deadline;
pub uninterp spec fn dl_pop_set(d: Deadline, until: ChainEpoch, quant: QuantSpec) -> ExpirationSet;
impl Deadline {
    #[verifier::external_body]
    pub fn process_deadline_end<BS: Blockstore>(&mut self, store: &BS, quant: QuantSpec, fault_expiration_epoch: ChainEpoch, sectors: Cid) -> (r: Result<(PowerPair, PowerPair), ActorError>)
        ensures
            r.is_ok() == dl_end_ok(*old(self), quant, fault_expiration_epoch, sectors),
            r.is_ok() ==> *final(self) == dl_end_deadline(*old(self), quant, fault_expiration_epoch, sectors)
                && r->Ok_0.0 == dl_end_power_delta(*old(self), quant, fault_expiration_epoch, sectors)
                && r->Ok_0.1 == dl_end_detected(*old(self), quant, fault_expiration_epoch, sectors),
    { unimplemented!() }
    #[verifier::external_body]
    pub fn pop_expired_sectors<BS: Blockstore>(&mut self, store: &BS, until: ChainEpoch, quant: QuantSpec) -> (r: anyhow::Result<ExpirationSet>)
        ensures
            r.is_ok() == dl_pop_ok(*old(self), until, quant),
            r.is_ok() ==> *final(self) == dl_pop_deadline(*old(self), until, quant) && r->Ok_0 == dl_pop_set(*old(self), until, quant),
    { unimplemented!() }
}
} // verus!
