// prelude/miner_expq_btreemap.rs — TRUSTED. std::collections::BTreeMap operations used by expiration_queue.rs (additions to prelude/btreemap.rs, which must
// be included first): new, the Entry API for maps whose values are vectors (`m.entry(k).or_default().push(x)`), ordered consumption (`into_iter()`).
verus! {
#[verifier::reject_recursive_types(K)]
#[verifier::reject_recursive_types(V)]
pub enum Entry<'a, K, V> { Vacant(VacantEntry<'a, K, V>), Occupied(OccupiedEntry<'a, K, V>) }
#[verifier::reject_recursive_types(K)]
#[verifier::reject_recursive_types(V)]
pub struct VacantEntry<'a, K, V> { pub key: K, pub map: &'a mut BTreeMap<K, V> }
#[verifier::reject_recursive_types(K)]
#[verifier::reject_recursive_types(V)]
pub struct OccupiedEntry<'a, K, V> { pub key: K, pub map: &'a mut BTreeMap<K, V> }
impl<K, V> BTreeMap<K, V> {
    #[verifier::external_body]
    pub fn new() -> (r: BTreeMap<K, V>) ensures r.view() == Map::<K, V>::empty() { unimplemented!() }
    /// BTreeMap::entry: the map handed out borrowed, as the vacant or occupied slot of the key
    #[verifier::external_body]
    pub fn entry<'a>(&'a mut self, k: K) -> (e: Entry<'a, K, V>)
        ensures
            e is Vacant <==> !old(self).view().dom().contains(k),
            e is Vacant ==> e->Vacant_0.key == k && *e->Vacant_0.map == *old(self) && *final(e->Vacant_0.map) == *final(self),
            e is Occupied ==> e->Occupied_0.key == k && *e->Occupied_0.map == *old(self) && *final(e->Occupied_0.map) == *final(self),
    { unimplemented!() }
    /// BTreeMap::len
    #[verifier::external_body]
    pub fn len(&self) -> (r: usize) ensures r as nat == self.view().dom().len() { unimplemented!() }
    /// BTreeMap::insert: the key now maps to the value (the previous value, if any, is returned)
    #[verifier::external_body]
    pub fn insert(&mut self, k: K, v: V) -> (r: Option<V>)
        ensures final(self).view() == old(self).view().insert(k, v), r.is_some() <==> old(self).view().dom().contains(k), r.is_some() ==> r->Some_0 == old(self).view()[k]
    { unimplemented!() }
    /// BTreeMap::contains_key
    #[verifier::external_body]
    pub fn contains_key(&self, k: &K) -> (r: bool) ensures r == self.view().dom().contains(*k) { unimplemented!() }
}
impl<'a, K, T> Entry<'a, K, Vec<T>> {
    pub open spec fn vx_key(self) -> K { match self { Entry::Vacant(v) => v.key, Entry::Occupied(o) => o.key } }
    pub open spec fn vx_old(self) -> BTreeMap<K, Vec<T>> { match self { Entry::Vacant(v) => *v.map, Entry::Occupied(o) => *o.map } }
    #[verifier::prophetic]
    pub open spec fn vx_fin(self) -> BTreeMap<K, Vec<T>> { match self { Entry::Vacant(v) => *final(v.map), Entry::Occupied(o) => *final(o.map) } }
    /// Entry::or_default: the slot of the key (an empty Vec inserted when vacant); all other keys untouched
    #[verifier::external_body]
    pub fn or_default(self) -> (r: &'a mut Vec<T>)
        ensures
            r@ == (if self is Occupied { self.vx_old().view()[self.vx_key()]@ } else { Seq::<T>::empty() }),
            self.vx_fin().view().dom() == self.vx_old().view().dom().insert(self.vx_key()),
            self.vx_fin().view()[self.vx_key()] == *final(r),
            forall|k2: K| k2 != self.vx_key() && self.vx_old().view().dom().contains(k2) ==> self.vx_fin().view()[k2] == self.vx_old().view()[k2],
    { unimplemented!() }
}
/// `r` lists the entries of `m`: every key exactly once, in increasing key order, with its value
pub open spec fn btm_sorted_entries<V>(m: Map<ChainEpoch, V>, r: Seq<(ChainEpoch, V)>) -> bool {
    &&& r.len() == m.dom().len()
    &&& forall|i: int| 0 <= i < r.len() ==> m.dom().contains(#[trigger] r[i].0) && r[i].1 == m[r[i].0]
    &&& forall|i: int, j: int| 0 <= i < j < r.len() ==> (#[trigger] r[i]).0 < (#[trigger] r[j]).0
    &&& forall|k: ChainEpoch| m.dom().contains(k) ==> exists|i: int| 0 <= i < r.len() && #[trigger] r[i].0 == k
}
impl BTreeMap<ChainEpoch, bool> {
    /// `map.iter()` over a BTreeMap<ChainEpoch, bool> (the loop `for (&expiration, _) in declared_expirations.iter()`): the keys in increasing order (with their values)
    #[verifier::external_body]
    pub fn vx_iter_sorted(&self) -> (r: Vec<(ChainEpoch, bool)>) ensures btm_sorted_entries(self.view(), r@) { unimplemented!() }
}
impl<V> BTreeMap<ChainEpoch, V> {
    /// `map.into_iter()` (consumed to its end): every key exactly once, in increasing key order, with its value
    #[verifier::external_body]
    pub fn vx_into_sorted(self) -> (r: Vec<(ChainEpoch, V)>) ensures btm_sorted_entries(self.view(), r@) { unimplemented!() }
}
} // verus!
