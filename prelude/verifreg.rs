// prelude/verifreg.rs — TRUSTED/ASSUMED for the verifreg units: the FRC-42 method number of the datacap actor's Mint
// (computed by a hashing macro; opaque here) and the event emitter emit::verifier_balance (no effect other than an event).
verus! {
pub uninterp spec fn datacap_mint_method_spec() -> u64;
#[verifier::external_body]
pub fn datacap_mint_method() -> (r: u64) ensures r == datacap_mint_method_spec() { unimplemented!() }
pub uninterp spec fn datacap_burn_method_spec() -> u64;
#[verifier::external_body]
pub fn datacap_burn_method() -> (r: u64) ensures r == datacap_burn_method_spec() { unimplemented!() }
pub uninterp spec fn datacap_destroy_method_spec() -> u64;
#[verifier::external_body]
pub fn datacap_destroy_method() -> (r: u64) ensures r == datacap_destroy_method_spec() { unimplemented!() }
pub uninterp spec fn datacap_transfer_method_spec() -> u64;
#[verifier::external_body]
pub fn datacap_transfer_method() -> (r: u64) ensures r == datacap_transfer_method_spec() { unimplemented!() }
/// frc46_token parameter types (external crate): plain records
pub struct TransferParams { pub to: Address, pub amount: TokenAmount, pub operator_data: RawBytes }
pub struct BurnParams { pub amount: TokenAmount }
impl RawBytes { pub fn default() -> (r: RawBytes) { RawBytes { h: 0 } } }
pub mod emit {
    use super::*;
    #[verifier::external_body]
    pub fn verifier_balance(rt: &mut Rt, verifier: ActorID, new_balance: &DataCap, client: Option<ActorID>) -> (r: Result<(), ActorError>)
        ensures
            r.is_ok() ==> *final(rt) == (Rt { events: Ghost(old(rt).events@ + 1), ..*old(rt) }),
            r.is_err() ==> *final(rt) == *old(rt),
    { unimplemented!() }
}
} // verus!
