// prelude/verifreg.rs — TRUSTED/ASSUMED for the verifreg units: the FRC-42 method number of the datacap actor's Mint
// (computed by a hashing macro; opaque here) and the event emitter emit::verifier_balance (no effect other than an event).
verus! {
pub uninterp spec fn datacap_mint_method_spec() -> u64;
#[verifier::external_body]
pub fn datacap_mint_method() -> (r: u64) ensures r == datacap_mint_method_spec() { unimplemented!() }
pub mod emit {
    use super::*;
    #[verifier::external_body]
    pub fn verifier_balance(rt: &mut Rt, verifier: ActorID, new_balance: &DataCap, client: Option<ActorID>) -> (r: Result<(), ActorError>)
        ensures
            r.is_ok() ==> *final(rt) == (Rt { events: Ghost(old(rt).events@ + 1), ..*old(rt) }),
            r.is_err() ==> *final(rt) == *old(rt),
    { unimplemented!() }
}
} // verus!
