// prelude/market_clone.rs — TRUSTED: #[derive(Clone)] of market DealProposal re-stated (derives are stripped by the extractor)
impl Clone for DealProposal {
    #[verifier::external_body]
    fn clone(&self) -> (r: Self) ensures r == *self { unimplemented!() }
}
