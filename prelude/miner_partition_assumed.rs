// prelude/miner_partition_assumed.rs — ASSUMED (unverified) contracts of miner code that Partition::{add_faults, recover_faults}
// call but that is not under contract: the expiration queue (expiration_queue.rs, ~1 kLoC of AMT rescheduling),
// select_sectors (sectors.rs) and power_for_sectors (lib.rs). Deliberately weak: they return SOME power / selection and touch
// nothing of the partition; the partition-level contracts do not depend on the values.
verus! {
#[verifier::external_body]
pub struct SectorOnChainInfo { inner: Box<u8> }
#[derive(Clone, Copy)]
pub struct SectorSize { pub v: u64 }
pub struct ExpAmt {}
impl ExpAmt {
    #[verifier::external_body]
    pub fn flush(&mut self) -> (r: Result<Cid, AnyhowError>) { unimplemented!() }
}
pub struct ExpirationQueue { pub amt: ExpAmt }
impl ExpirationQueue {
    #[verifier::external_body]
    pub fn new<BS: Blockstore>(store: &BS, root: &Cid, quant: QuantSpec) -> (r: Result<ExpirationQueue, AnyhowError>) { unimplemented!() }
    #[verifier::external_body]
    pub fn reschedule_as_faults(&mut self, new_expiration: ChainEpoch, sectors: &[SectorOnChainInfo], sector_size: SectorSize) -> (r: anyhow::Result<PowerPair>) { unimplemented!() }
    #[verifier::external_body]
    pub fn reschedule_all_as_faults(&mut self, fault_expiration: ChainEpoch) -> (r: anyhow::Result<()>) { unimplemented!() }
    #[verifier::external_body]
    pub fn reschedule_recovered(&mut self, sectors: Vec<SectorOnChainInfo>, sector_size: SectorSize) -> (r: anyhow::Result<PowerPair>) { unimplemented!() }
    /// (sector numbers, power, pledge, daily fee) of the sectors scheduled: SOME values, nothing of the partition touched
    #[verifier::external_body]
    pub fn add_active_sectors(&mut self, sectors: &[SectorOnChainInfo], sector_size: SectorSize) -> (r: anyhow::Result<(BitField, PowerPair, TokenAmount, TokenAmount)>) { unimplemented!() }
    #[verifier::external_body]
    pub fn replace_sectors(&mut self, old_sectors: &[SectorOnChainInfo], new_sectors: &[SectorOnChainInfo], sector_size: SectorSize) -> (r: anyhow::Result<(BitField, BitField, PowerPair, TokenAmount, TokenAmount)>) { unimplemented!() }
    #[verifier::external_body]
    pub fn remove_sectors(&mut self, policy: &Policy, sectors: &[SectorOnChainInfo], faults: &BitField, recovering: &BitField, sector_size: SectorSize) -> (r: anyhow::Result<(ExpirationSet, PowerPair)>) { unimplemented!() }
    #[verifier::external_body]
    pub fn pop_until(&mut self, until: ChainEpoch) -> (r: anyhow::Result<ExpirationSet>) { unimplemented!() }
}
pub struct Policy { pub vx_opaque: u8 }
pub struct BitFieldQueue { pub amt: ExpAmt }
impl BitFieldQueue {
    #[verifier::external_body]
    pub fn new<BS: Blockstore>(store: &BS, root: &Cid, quant: QuantSpec) -> (r: Result<BitFieldQueue, AnyhowError>) { unimplemented!() }
    #[verifier::external_body]
    pub fn add_to_queue(&mut self, raw_epoch: ChainEpoch, values: &BitField) -> (r: anyhow::Result<()>) { unimplemented!() }
}
#[verifier::external_body]
pub fn select_sectors(sectors: &[SectorOnChainInfo], field: &BitField) -> (r: anyhow::Result<Vec<SectorOnChainInfo>>) { unimplemented!() }
#[verifier::external_body]
pub fn power_for_sectors(sector_size: SectorSize, sectors: &[SectorOnChainInfo]) -> (r: PowerPair) { unimplemented!() }
#[verifier::external_body]
#[verifier::accept_recursive_types(BS)]
pub struct Sectors<'db, BS> { p: PhantomData<&'db BS> }
impl<'db, BS: Blockstore> Sectors<'db, BS> {
    #[verifier::external_body]
    /// one info per named sector (an unknown sector number is an error)
    pub fn load_sectors(&self, sector_numbers: &BitField) -> (r: Result<Vec<SectorOnChainInfo>, ActorError>)
        ensures r.is_ok() ==> r->Ok_0@.len() == sector_numbers@.len()
    { unimplemented!() }
}
} // verus!
