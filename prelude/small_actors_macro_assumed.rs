// prelude/small_actors_macro_assumed.rs — TRUSTED side of unit dispatch_macro (the compiler-expanded `invoke_method` of the account actor).
// Included at the root of the unit after the extracted items. Everything here RESTATES contracts that are proved on the
// real bodies in other units, in the form the dispatch plumbing sees them (`rt: &RT`, a shared reference — the real trait hides its
// mutation behind `&self`; the `&mut Rt` form with the validation flag is what units small_actors / dispatch_guard prove):
//  * Rt: the two facts of an activation that the contracts below speak about — the immediate caller, and whether the caller's code resolves to a
//    built-in actor type other than EVM (prelude/rt.rs: rt_code_of / rt_builtin_type); plus the account state's address.
//  * restrict_internal_api(rt, method)  — unit dispatch_guard (C11): Ok <=> method >= 2^24 or built-in non-EVM caller; else USR_FORBIDDEN.
//  * Actor::constructor / pubkey_address / authenticate_message / fallback — unit small_actors: the Ok-implications of their contracts.
//  * ActorError::unhandled_message etc. come from prelude/core.rs.
verus! {
pub struct Rt { pub caller: Address, pub caller_builtin_non_evm: bool, pub account_address: Address }
pub mod builtin { pub mod shared {
    use crate::*;
    #[verifier::external_body]
    pub fn restrict_internal_api(rt: &Rt, method: MethodNum) -> (r: Result<(), ActorError>)
        ensures
            r.is_ok() <==> (method >= 0x100_0000 || rt.caller_builtin_non_evm),
            r.is_err() ==> r->Err_0.code == 18,
    { unimplemented!() }
} }
/// the FVM verify_signature syscall answered Ok(true) (prelude/small_actors_assumed.rs `sig_valid`, signature type = that of the address)
pub uninterp spec fn account_sig_valid(signer: Address, sig: Seq<u8>, plaintext: Seq<u8>) -> bool;
pub uninterp spec fn is_key_address(a: Address) -> bool;
impl Actor {
    #[verifier::external_body]
    pub fn constructor(rt: &Rt, params: ConstructorParams) -> (r: Result<(), ActorError>)
        ensures r.is_ok() ==> rt.caller == SYSTEM_ACTOR_ADDR && is_key_address(params.address)
    { unimplemented!() }
    #[verifier::external_body]
    pub fn pubkey_address(rt: &Rt) -> (r: Result<PubkeyAddressReturn, ActorError>)
        ensures r.is_ok() ==> r->Ok_0.address == rt.account_address
    { unimplemented!() }
    #[verifier::external_body]
    pub fn authenticate_message(rt: &Rt, params: AuthenticateMessageParams) -> (r: Result<AuthenticateMessageReturn, ActorError>)
        ensures r.is_ok() ==> r->Ok_0.authenticated && account_sig_valid(rt.account_address, params.signature@, params.message@)
    { unimplemented!() }
    #[verifier::external_body]
    pub fn fallback(rt: &Rt, method: MethodNum, args: Option<IpldBlock>) -> (r: Result<Option<IpldBlock>, ActorError>)
        ensures r.is_ok() ==> method >= 0x100_0000 && r->Ok_0.is_none(), method < 0x100_0000 ==> r.is_err()
    { unimplemented!() }
}
} // verus!
