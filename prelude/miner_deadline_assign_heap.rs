// prelude/miner_deadline_assign_heap.rs — TRUSTED / ASSUMED pieces of the unit `deadline_assign` (actors/miner/src/deadline_assignment.rs).
// Needs the item DeadlineAssignmentInfo (extracted by the unit BEFORE this include). Everything here stands for code outside /repo (std) except
// `Entry`, which restates a struct declared INSIDE the body of assign_deadlines (see there).
use vstd::multiset::Multiset;
verus! {

// ---- std::collections::BinaryHeap<T> as an ABSTRACT MULTISET ------------------------------------------------------------------------------
// Only the CONTENT of the heap is modelled. Which element is on top is NOT modelled: `peek_mut` hands out SOME element of a non-empty heap.
// That is weaker than std (std hands out a greatest element w.r.t. `T: Ord`), hence true of std for ANY comparator, consistent or not; every
// statement proved with it holds whichever element the comparator selects.
#[verifier::external_body]
#[verifier::reject_recursive_types(T)]
pub struct BinaryHeap<T> { p: PhantomData<T> }
impl<T> BinaryHeap<T> {
    /// the elements stored, with multiplicity
    pub uninterp spec fn view(&self) -> Multiset<T>;
    /// BinaryHeap::new: the empty heap
    #[verifier::external_body]
    pub fn new() -> (r: BinaryHeap<T>) ensures r.view() == Multiset::<T>::empty() { unimplemented!() }
    /// BinaryHeap::push: adds one occurrence of `v` (and sifts it up: order not modelled)
    #[verifier::external_body]
    pub fn push(&mut self, v: T) ensures final(self).view() == old(self).view().insert(v) { unimplemented!() }
    /// BinaryHeap::is_empty
    #[verifier::external_body]
    pub fn is_empty(&self) -> (r: bool) ensures r == (self.view().len() == 0) { unimplemented!() }
    /// BinaryHeap::peek_mut(&mut self) -> Option<PeekMut<'_, T>>: None iff the heap is empty; otherwise a guard that dereferences (Deref /
    /// DerefMut) to the top element IN PLACE and, when dropped, sifts the possibly modified element down again. No element is added or removed:
    /// afterwards the heap holds what it held, with that one occurrence replaced by its final value. The guard is modelled by the `&mut T` it
    /// dereferences to (Verus has no DerefMut auto-deref on guards); `.unwrap()` on the Option and field access through it are then the real
    /// expression `heap.peek_mut().unwrap().info` unchanged.
    #[verifier::external_body]
    pub fn peek_mut(&mut self) -> (r: Option<&mut T>)
        ensures
            r.is_some() == (old(self).view().len() > 0),
            r.is_some() ==> old(self).view().count(*r->Some_0) > 0
                && final(self).view() == old(self).view().remove(*r->Some_0).insert(*final(r->Some_0)),
            r.is_none() ==> final(self).view() == old(self).view(),
    { unimplemented!() }
}

// ---- the heap entry of assign_deadlines ------------------------------------------------------------------------------------------------------
// RESTATED from the body of assign_deadlines: `struct Entry { partition_size: u64, info: DeadlineAssignmentInfo }` is an item statement inside
// that function (Verus: "internal item statements" unsupported; the extractor lifts nested fn items only). Its `Ord` impl
// (`cmp(&self.info, &other.info, self.partition_size).reverse()`, PartialEq / PartialOrd derived from it) only tells the heap which entry is on
// top, which the heap model above does not use. If the real struct gains / loses a field the extracted struct literal no longer type-checks.
struct Entry { partition_size: u64, info: DeadlineAssignmentInfo }

// ---- core: `u64::from(bool)` (impl From<bool> for u64: false -> 0, true -> 1), missing from vstd's FromSpec table ----------------------------
#[verifier::external_body]
pub proof fn axiom_u64_from_bool()
    ensures
        <u64 as vstd::std_specs::convert::FromSpec<bool>>::obeys_from_spec(),
        <u64 as vstd::std_specs::convert::FromSpec<bool>>::from_spec(true) == 1u64,
        <u64 as vstd::std_specs::convert::FromSpec<bool>>::from_spec(false) == 0u64,
{}

// ---- the sector infos are moved around, never inspected, by deadline_assignment.rs: an opaque value type --------------------------------------
// (`vec![Vec::new(); n]` needs Vec<SectorOnChainInfo>: Clone, i.e. the derive(Clone) of the real struct)
#[verifier::external_body]
pub struct SectorOnChainInfo { inner: Box<u8> }
impl Clone for SectorOnChainInfo {
    #[verifier::external_body]
    fn clone(&self) -> (r: Self) ensures r == *self { unimplemented!() }
}
} // verus!
