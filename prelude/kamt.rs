// prelude/kamt.rs — TRUSTED. fvm_ipld_kamt::Kamt (the EVM's storage tree) as a finite map U256 -> U256 with content-addressed
// flush / set_root / load; EVM hashing and raw-block storage are opaque.
verus! {
#[derive(Clone, Copy)]
pub struct KamtConfig { pub min_data_depth: u32, pub bit_width: u32, pub max_array_width: usize }
pub struct StateHashAlgorithm;
#[verifier::external_body]
#[verifier::accept_recursive_types(BS)]
#[verifier::reject_recursive_types(K)]
#[verifier::reject_recursive_types(V)]
#[verifier::accept_recursive_types(H)]
pub struct Kamt<BS, K, V, H> { p: PhantomData<(BS, K, V, H)> }
pub uninterp spec fn kamt_decode<K, V>(c: Cid) -> Map<K, V>;
pub struct KamtError {}
impl<BS: Blockstore, K, V, H> Kamt<BS, K, V, H> {
    pub uninterp spec fn view(&self) -> Map<K, V>;
    #[verifier::external_body]
    pub fn new_with_config(store: BS, conf: KamtConfig) -> (r: Self) ensures r.view() == Map::<K, V>::empty() { unimplemented!() }
    #[verifier::external_body]
    pub fn load_with_config(root: &Cid, store: BS, conf: KamtConfig) -> (r: Result<Self, KamtError>)
        ensures r.is_ok() ==> r->Ok_0.view() == kamt_decode::<K, V>(*root) { unimplemented!() }
    #[verifier::external_body]
    pub fn get(&self, key: &K) -> (r: Result<Option<&V>, KamtError>)
        ensures
            r.is_ok() ==> (r->Ok_0.is_some() <==> self.view().dom().contains(*key)),
            r.is_ok() && r->Ok_0.is_some() ==> *(r->Ok_0->Some_0) == self.view()[*key],
    { unimplemented!() }
    #[verifier::external_body]
    pub fn set(&mut self, key: K, v: V) -> (r: Result<Option<V>, KamtError>)
        ensures
            r.is_ok() ==> final(self).view() == old(self).view().insert(key, v),
            r.is_ok() ==> (r->Ok_0.is_some() <==> old(self).view().dom().contains(key)),
            r.is_ok() && r->Ok_0.is_some() ==> r->Ok_0->Some_0 == old(self).view()[key],
            r.is_err() ==> final(self).view() == old(self).view(),
    { unimplemented!() }
    #[verifier::external_body]
    pub fn delete(&mut self, key: &K) -> (r: Result<Option<V>, KamtError>)
        ensures
            r.is_ok() ==> final(self).view() == old(self).view().remove(*key),
            r.is_ok() ==> (r->Ok_0.is_some() <==> old(self).view().dom().contains(*key)),
            r.is_ok() && r->Ok_0.is_some() ==> r->Ok_0->Some_0 == old(self).view()[*key],
            r.is_err() ==> final(self).view() == old(self).view(),
    { unimplemented!() }
    #[verifier::external_body]
    pub fn flush(&mut self) -> (r: Result<Cid, KamtError>)
        ensures final(self).view() == old(self).view(), r.is_ok() ==> kamt_decode::<K, V>(r->Ok_0) == old(self).view(),
    { unimplemented!() }
    #[verifier::external_body]
    pub fn set_root(&mut self, root: &Cid) -> (r: Result<(), KamtError>)
        ensures r.is_ok() ==> final(self).view() == kamt_decode::<K, V>(*root), r.is_err() ==> final(self).view() == old(self).view(),
    { unimplemented!() }
    #[verifier::external_body]
    pub fn clear(&mut self) ensures final(self).view() == Map::<K, V>::empty() { unimplemented!() }
    #[verifier::external_body]
    pub fn is_empty(&self) -> (r: bool) ensures r == (self.view().dom() =~= vstd::set::Set::<K>::empty()) { unimplemented!() }
}
#[derive(Clone, Copy, PartialEq, Eq, Structural)]
pub struct BytecodeHash { pub h: u64 }
} // verus!
