// prelude/power.rs — TRUSTED. actors/power/src/policy.rs consensus_miner_min_power: a table lookup on
// the proof type, assumed to be a (total or failing) function of the proof type only.
verus! {
pub uninterp spec fn min_power_spec(p: RegisteredPoStProof) -> int;
#[verifier::external_body]
pub fn consensus_miner_min_power(policy: &Policy, p: RegisteredPoStProof) -> (r: anyhow::Result<StoragePower>)
    ensures r.is_ok() ==> r->Ok_0@ == min_power_spec(p)
{ unimplemented!() }
} // verus!
