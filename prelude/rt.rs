// ===========================================================================================
// prelude/rt.rs — TRUSTED. Ghost model of the FVM runtime seen by one actor activation
// (`fil_actors_runtime::runtime::Runtime`, rewrite rule R2: `rt: &impl Runtime` → `&mut Rt`).
// Axioms of this stub (DESIGN §1.4): `caller()` is the immediate caller; a send moves `value`
// atomically iff it succeeds; a failed send changes nothing of this actor; a successful
// (non-read-only) send may re-enter and replace this actor's state (state is havoc'd unless the
// unit assumes otherwise); state is written only by `tx_end(Ok)` / `create`.
// ===========================================================================================
verus! {

//@ item vm_api/src/builtin.rs Type attr="#[derive(PartialEq, Eq, Structural, Clone, Copy)]"

pub const METHOD_SEND: MethodNum = 0;
pub const METHOD_CONSTRUCTOR: MethodNum = 1;

#[derive(Clone, Copy, PartialEq, Eq, Structural)]
pub struct SendFlags { pub bits: u64 }
impl SendFlags {
    pub const READ_ONLY: SendFlags = SendFlags { bits: 1 };
    pub fn empty() -> (r: SendFlags) ensures r.bits == 0 { SendFlags { bits: 0 } }
    pub fn read_only(self) -> (r: bool) ensures r == (self.bits % 2 == 1) { self.bits % 2 == 1 }
}

/// serialised parameters: an opaque, content-addressed token
#[derive(Clone, Copy, PartialEq, Eq, Debug, Structural)]
pub struct IpldBlock { pub h: u64 }
pub uninterp spec fn cbor_hash<T>(v: T) -> u64;
impl IpldBlock {
    #[verifier::external_body]
    pub fn serialize_cbor<T>(v: &T) -> (r: Result<Option<IpldBlock>, ActorError>)
        ensures vx_store_ok() ==> r.is_ok(), r.is_ok() ==> r->Ok_0 == Some(IpldBlock { h: cbor_hash(*v) }),
                r.is_err() ==> r->Err_0.code == 21,
    { unimplemented!() }
}
#[derive(Clone, Copy, PartialEq, Eq, Debug, Structural)]
pub struct RawBytes { pub h: u64 }

pub struct Response { pub exit_code: ExitCode, pub return_data: Option<IpldBlock> }
pub struct SendError(pub u32);

/// runtime/src/builtin/shared.rs `impl From<SendError> for ActorError`: a syscall-level send failure becomes an actor error
pub uninterp spec fn send_error_code(errno: u32) -> u32;
impl vstd::std_specs::convert::FromSpecImpl<SendError> for ActorError {
    open spec fn obeys_from_spec() -> bool { true }
    open spec fn from_spec(e: SendError) -> ActorError { ActorError { code: send_error_code(e.0) } }
}
impl From<SendError> for ActorError {
    #[verifier::external_body]
    fn from(e: SendError) -> (r: ActorError) { unimplemented!() }
}

/// one record per `send` syscall issued by this activation
pub struct SendRec {
    pub to: Address,
    pub method: MethodNum,
    pub params: Option<IpldBlock>,
    pub value: int,
    pub read_only: bool,
    /// the callee ran and exited with code 0
    pub ok: bool,
    /// data returned by the callee (meaningful when ok)
    pub ret: Option<IpldBlock>,
    /// this actor's persisted state root at the moment of the send (what a re-entrant callee would see)
    pub root: Cid,
}

pub enum CallerSet {
    Any,
    Addrs(vstd::set::Set<Address>),
    Types(vstd::set::Set<Type>),
    Namespace(vstd::set::Set<u64>),
}

pub struct Msg {
    pub caller: Address,
    pub origin: Address,
    pub receiver: Address,
    pub nonce: u64,
    pub value_received: Ghost<int>,
}
impl Msg {
    pub fn caller(&self) -> (r: Address) ensures r == self.caller { self.caller }
    pub fn origin(&self) -> (r: Address) ensures r == self.origin { self.origin }
    pub fn receiver(&self) -> (r: Address) ensures r == self.receiver { self.receiver }
    pub fn nonce(&self) -> (r: u64) ensures r == self.nonce { self.nonce }
    #[verifier::external_body]
    pub fn value_received(&self) -> (r: TokenAmount) ensures r@ == self.value_received@ { unimplemented!() }
}

pub struct Rt {
    pub msg: Msg,
    /// built-in type of the immediate caller's code, if it is a built-in actor
    pub caller_type: Ghost<Option<Type>>,
    /// delegated-address namespace of the immediate caller (f4 manager id), if any
    pub caller_namespace: Ghost<Option<u64>>,
    pub epoch: ChainEpoch,
    pub balance: Ghost<int>,
    pub read_only: bool,
    pub validated: Ghost<Option<CallerSet>>,
    pub in_tx: Ghost<bool>,
    pub sends: Ghost<Seq<SendRec>>,
    /// identity of the persisted state object (content address); `rt_state::<S>(id)` decodes it
    pub state_id: Ghost<int>,
    pub deleted: Ghost<bool>,
    pub events: Ghost<nat>,
    /// state ids committed by the transactions of THIS activation, in order (not disturbed by later sends)
    pub tx_log: Ghost<Seq<int>>,
    /// the actor's state root as a CID (used by actors that manage their root themselves: the EVM actor)
    pub state_root: Cid,
    /// actors created by THIS activation through `create_actor` (init actor only), in order
    pub created: Ghost<Seq<CreateRec>>,
}
pub struct CreateRec { pub code: Cid, pub id: ActorID, pub predictable: Option<Address> }

pub uninterp spec fn rt_state<S>(id: int) -> S;
/// address resolution is a function of the address within one activation
/// address resolution may change when a send creates an account: it is a function of the address and of how many sends were made
pub uninterp spec fn rt_resolve(a: Address, nsends: nat) -> Option<ActorID>;
pub uninterp spec fn rt_code_of(id: ActorID) -> Option<Cid>;
pub uninterp spec fn rt_builtin_type(c: Cid) -> Option<Type>;

/// "the callee never calls back into this actor" — an explicit assumption a unit may make about a particular
/// (receiver, method) pair (e.g. read-only queries to singleton actors); never assumed implicitly
pub uninterp spec fn rt_no_reentry(to: Address, method: MethodNum) -> bool;

/// the target of a send is this very actor (by its ID address or by an address that resolves to it): value sent to oneself comes back
pub open spec fn rt_is_self(rt: Rt, to: Address) -> bool {
    to == rt.msg.receiver || rt_resolve(to, rt.sends@.len()) == Some(rt.msg.receiver.id)
}
/// `a` never denotes this actor, whatever was sent in between
pub open spec fn rt_never_self(rt: Rt, a: Address) -> bool {
    a != rt.msg.receiver && forall|n: nat| rt_resolve(a, n) != Some(rt.msg.receiver.id)
}
/// everything of the runtime that a send never changes
pub open spec fn rt_frame(o: &Rt, f: &Rt) -> bool {
    &&& f.msg == o.msg && f.caller_type == o.caller_type && f.caller_namespace == o.caller_namespace
    &&& f.epoch == o.epoch && f.read_only == o.read_only && f.validated == o.validated
    &&& f.in_tx == o.in_tx && f.deleted == o.deleted && f.tx_log == o.tx_log
}
/// exactly one send record was appended
pub open spec fn rt_pushed(o: &Rt, f: &Rt) -> bool {
    f.sends@.len() == o.sends@.len() + 1 && f.sends@ == o.sends@.push(f.sends@.last())
}

pub open spec fn caller_in(rt: &Rt, s: CallerSet) -> bool {
    match s {
        CallerSet::Any => true,
        CallerSet::Addrs(a) => a.contains(rt.msg.caller),
        CallerSet::Types(t) => rt.caller_type@.is_some() && t.contains(rt.caller_type@->Some_0),
        CallerSet::Namespace(n) => rt.caller_namespace@.is_some() && n.contains(rt.caller_namespace@->Some_0),
    }
}

// ---- argument shapes of validate_immediate_caller_* (set-valued specs) ---------------------
#[verifier::reject_recursive_types(T)]
#[verifier::external_type_specification]
#[verifier::external_body]
pub struct ExOnce<T>(std::iter::Once<T>);
#[verifier::reject_recursive_types(A)]
#[verifier::reject_recursive_types(B)]
#[verifier::external_type_specification]
#[verifier::external_body]
pub struct ExChain<A, B>(std::iter::Chain<A, B>);

pub uninterp spec fn once_val<T>(o: std::iter::Once<T>) -> T;
pub assume_specification<T>[std::iter::once](v: T) -> (r: std::iter::Once<T>)
    ensures once_val(r) == v;

pub trait CallerAddrs: Sized {
    #[verifier::prophetic]
    spec fn addrs(self) -> vstd::set::Set<Address>;
}
impl<'a> CallerAddrs for std::iter::Once<&'a Address> {
    #[verifier::prophetic]
    open spec fn addrs(self) -> vstd::set::Set<Address> { set![*once_val(self)] }
}
impl<'a, const N: usize> CallerAddrs for &'a [Address; N] {
    #[verifier::prophetic]
    open spec fn addrs(self) -> vstd::set::Set<Address> { self@.to_set() }
}
impl<'a> CallerAddrs for &'a Vec<Address> {
    #[verifier::prophetic]
    open spec fn addrs(self) -> vstd::set::Set<Address> { self@.to_set() }
}
impl<'a> CallerAddrs for std::slice::Iter<'a, Address> {
    #[verifier::prophetic]
    open spec fn addrs(self) -> vstd::set::Set<Address> {
        vstd::std_specs::iter::IteratorSpec::remaining(&self).map_values(|x: &Address| *x).to_set()
    }
}
impl<'a, A: CallerAddrs, B: CallerAddrs> CallerAddrs for std::iter::Chain<A, B> {
    #[verifier::prophetic]
    uninterp spec fn addrs(self) -> vstd::set::Set<Address>;
}
pub trait CallerTypes: Sized {
    spec fn types(self) -> vstd::set::Set<Type>;
}
impl<'a> CallerTypes for std::iter::Once<&'a Type> {
    open spec fn types(self) -> vstd::set::Set<Type> { set![*once_val(self)] }
}
impl<'a, const N: usize> CallerTypes for &'a [Type; N] {
    open spec fn types(self) -> vstd::set::Set<Type> { self@.to_set() }
}
impl<'a> CallerTypes for &'a Vec<Type> {
    open spec fn types(self) -> vstd::set::Set<Type> { self@.to_set() }
}
pub trait CallerNs: Sized {
    spec fn ns(self) -> vstd::set::Set<u64>;
}
impl CallerNs for std::iter::Once<u64> {
    open spec fn ns(self) -> vstd::set::Set<u64> { set![once_val(self)] }
}

impl Rt {
    pub fn message(&self) -> (r: &Msg) ensures *r == self.msg { &self.msg }
    pub fn curr_epoch(&self) -> (r: ChainEpoch) ensures r == self.epoch { self.epoch }
    pub fn read_only(&self) -> (r: bool) ensures r == self.read_only { self.read_only }
    #[verifier::external_body]
    pub fn current_balance(&self) -> (r: TokenAmount) ensures r@ == self.balance@, r@ >= 0 { unimplemented!() }
    #[verifier::external_body]
    pub fn store(&self) -> (r: &'static Store) { unimplemented!() }
    #[verifier::external_body]
    pub fn resolve_address(&self, a: &Address) -> (r: Option<ActorID>) ensures r == rt_resolve(*a, self.sends@.len()) { unimplemented!() }
    #[verifier::external_body]
    pub fn get_actor_code_cid(&self, id: &ActorID) -> (r: Option<Cid>) ensures r == rt_code_of(*id) { unimplemented!() }
    #[verifier::external_body]
    pub fn resolve_builtin_actor_type(&self, c: &Cid) -> (r: Option<Type>) ensures r == rt_builtin_type(*c) { unimplemented!() }

    // ---- caller validation (mirrors FvmRuntime::validate_immediate_caller_*, which C11 verifies) ----
    #[verifier::external_body]
    pub fn validate_immediate_caller_accept_any(&mut self) -> (r: Result<(), ActorError>)
        ensures
            r.is_ok() <==> old(self).validated@.is_none(),
            r.is_ok() ==> *final(self) == (Rt { validated: Ghost(Some(CallerSet::Any)), ..*old(self) }),
            r.is_err() ==> *final(self) == *old(self),
    { unimplemented!() }
    #[verifier::external_body]
    pub fn validate_immediate_caller_is<I: CallerAddrs>(&mut self, a: I) -> (r: Result<(), ActorError>)
        ensures
            r.is_ok() <==> (old(self).validated@.is_none() && a.addrs().contains(old(self).msg.caller)),
            r.is_ok() ==> *final(self) == (Rt { validated: Ghost(Some(CallerSet::Addrs(a.addrs()))), ..*old(self) }),
            r.is_err() ==> *final(self) == *old(self),
            r.is_err() && old(self).validated@.is_none() ==> r->Err_0.code == 18,
    { unimplemented!() }
    #[verifier::external_body]
    pub fn validate_immediate_caller_type<I: CallerTypes>(&mut self, t: I) -> (r: Result<(), ActorError>)
        ensures
            r.is_ok() <==> (old(self).validated@.is_none() && old(self).caller_type@.is_some() && t.types().contains(old(self).caller_type@->Some_0)),
            r.is_ok() ==> *final(self) == (Rt { validated: Ghost(Some(CallerSet::Types(t.types()))), ..*old(self) }),
            r.is_err() ==> *final(self) == *old(self),
            r.is_err() && old(self).validated@.is_none() ==> r->Err_0.code == 18,
    { unimplemented!() }
    #[verifier::external_body]
    pub fn validate_immediate_caller_namespace<I: CallerNs>(&mut self, n: I) -> (r: Result<(), ActorError>)
        ensures
            r.is_ok() <==> (old(self).validated@.is_none() && old(self).caller_namespace@.is_some() && n.ns().contains(old(self).caller_namespace@->Some_0)),
            r.is_ok() ==> *final(self) == (Rt { validated: Ghost(Some(CallerSet::Namespace(n.ns()))), ..*old(self) }),
            r.is_err() ==> *final(self) == *old(self),
            r.is_err() && old(self).validated@.is_none() ==> r->Err_0.code == 18,
    { unimplemented!() }

    // ---- state ----------------------------------------------------------------------------
    #[verifier::external_body]
    pub fn state<S>(&self) -> (r: Result<S, ActorError>)
        ensures vx_store_ok() ==> r.is_ok(), r.is_ok() ==> r->Ok_0 == rt_state::<S>(self.state_id@),
    { unimplemented!() }
    /// R3: first half of `rt.transaction(|st, rt| ..)` — loads the state, enters the transaction
    #[verifier::external_body]
    pub fn tx_begin<S>(&mut self) -> (r: Result<S, ActorError>)
        requires !old(self).in_tx@
        ensures vx_store_ok() ==> r.is_ok(),
            r.is_ok() ==> r->Ok_0 == rt_state::<S>(old(self).state_id@)
                && *final(self) == (Rt { in_tx: Ghost(true), ..*old(self) }),
            r.is_err() ==> *final(self) == *old(self),
    { unimplemented!() }
    /// R3: second half — the state is saved iff the closure returned Ok (and the runtime is not read-only)
    #[verifier::external_body]
    pub fn tx_end<S, T>(&mut self, st: S, res: Result<T, ActorError>) -> (r: Result<T, ActorError>)
        requires old(self).in_tx@
        ensures
            !final(self).in_tx@,
            res.is_err() ==> r == res && *final(self) == (Rt { in_tx: Ghost(false), ..*old(self) }),
            res.is_ok() && r.is_ok() ==> r == res
                && rt_state::<S>(final(self).state_id@) == st
                && final(self).tx_log@ == old(self).tx_log@.push(final(self).state_id@)
                && *final(self) == (Rt { in_tx: Ghost(false), state_id: final(self).state_id, tx_log: final(self).tx_log, ..*old(self) }),
            res.is_ok() && r.is_err() ==> *final(self) == (Rt { in_tx: Ghost(false), ..*old(self) }),
            res.is_ok() && !old(self).read_only ==> r.is_ok(),
    { unimplemented!() }
    #[verifier::external_body]
    pub fn get_state_root(&self) -> (r: Result<Cid, ActorError>)
        ensures r.is_ok() ==> r->Ok_0 == self.state_root,
    { unimplemented!() }
    /// fails in a read-only activation (StateUpdateError::ReadOnly), otherwise replaces the root
    #[verifier::external_body]
    pub fn set_state_root(&mut self, root: &Cid) -> (r: Result<(), ActorError>)
        ensures
            r.is_ok() ==> !old(self).read_only && *final(self) == (Rt { state_root: *root, ..*old(self) }),
            r.is_err() ==> *final(self) == *old(self),
    { unimplemented!() }
    #[verifier::external_body]
    pub fn create<S>(&mut self, st: &S) -> (r: Result<(), ActorError>)
        ensures
            r.is_ok() ==> rt_state::<S>(final(self).state_id@) == *st
                && *final(self) == (Rt { state_id: final(self).state_id, ..*old(self) }),
            r.is_err() ==> *final(self) == *old(self),
    { unimplemented!() }

    // ---- sends ----------------------------------------------------------------------------
    #[verifier::external_body]
    pub fn send(&mut self, to: &Address, method: MethodNum, params: Option<IpldBlock>, value: TokenAmount, gas_limit: Option<u64>, flags: SendFlags)
            -> (r: Result<Response, SendError>)
        requires !old(self).in_tx@
        ensures
            final(self).sends@ == old(self).sends@.push(SendRec { to: *to, method, params, value: value@, read_only: flags.bits % 2 == 1,
                ok: r.is_ok() && r->Ok_0.exit_code.value == 0, ret: if r.is_ok() { r->Ok_0.return_data } else { None }, root: old(self).state_root }),
            final(self).msg == old(self).msg, final(self).caller_type == old(self).caller_type,
            final(self).caller_namespace == old(self).caller_namespace, final(self).epoch == old(self).epoch,
            final(self).read_only == old(self).read_only, final(self).validated == old(self).validated,
            final(self).in_tx == old(self).in_tx, final(self).deleted == old(self).deleted, final(self).tx_log == old(self).tx_log, final(self).created == old(self).created,
            // value moves iff the callee exited with 0; the callee (or what it calls) may send funds back
            (r.is_ok() && r->Ok_0.exit_code.value == 0) ==> 0 <= value@ <= old(self).balance@
                && final(self).balance@ >= old(self).balance@ - value@,
            (r.is_ok() && r->Ok_0.exit_code.value == 0 && (method == METHOD_SEND || flags.bits % 2 == 1 || rt_no_reentry(*to, method))) ==>
                final(self).state_id == old(self).state_id && final(self).state_root == old(self).state_root
                && final(self).balance@ == (if rt_is_self(*old(self), *to) { old(self).balance@ } else { old(self).balance@ - value@ }),
            // a failed send reverts everything the callee did
            !(r.is_ok() && r->Ok_0.exit_code.value == 0) ==> final(self).balance == old(self).balance
                && final(self).state_id == old(self).state_id && final(self).events == old(self).events && final(self).state_root == old(self).state_root,
            // from a read-only activation the FVM runs every callee read-only, whatever the flag says: a value transfer cannot succeed, and
            // whatever succeeds leaves this actor's state as it was (an un-flagged send CAN succeed there: the callee just runs read-only)
            (old(self).read_only && value@ != 0) ==> !(r.is_ok() && r->Ok_0.exit_code.value == 0),
            old(self).read_only ==> final(self).state_id == old(self).state_id && final(self).state_root == old(self).state_root,
    { unimplemented!() }
    #[verifier::external_body]
    pub fn send_simple(&mut self, to: &Address, method: MethodNum, params: Option<IpldBlock>, value: TokenAmount)
            -> (r: Result<Response, SendError>)
        requires !old(self).in_tx@
        ensures
            final(self).sends@ == old(self).sends@.push(SendRec { to: *to, method, params, value: value@, read_only: false,
                ok: r.is_ok() && r->Ok_0.exit_code.value == 0, ret: if r.is_ok() { r->Ok_0.return_data } else { None }, root: old(self).state_root }),
            final(self).msg == old(self).msg, final(self).caller_type == old(self).caller_type,
            final(self).caller_namespace == old(self).caller_namespace, final(self).epoch == old(self).epoch,
            final(self).read_only == old(self).read_only, final(self).validated == old(self).validated,
            final(self).in_tx == old(self).in_tx, final(self).deleted == old(self).deleted, final(self).tx_log == old(self).tx_log, final(self).created == old(self).created,
            (r.is_ok() && r->Ok_0.exit_code.value == 0) ==> 0 <= value@ <= old(self).balance@
                && final(self).balance@ >= old(self).balance@ - value@,
            (r.is_ok() && r->Ok_0.exit_code.value == 0 && (method == METHOD_SEND || rt_no_reentry(*to, method))) ==>
                final(self).state_id == old(self).state_id && final(self).state_root == old(self).state_root
                && final(self).balance@ == (if rt_is_self(*old(self), *to) { old(self).balance@ } else { old(self).balance@ - value@ }),
            !(r.is_ok() && r->Ok_0.exit_code.value == 0) ==> final(self).balance == old(self).balance
                && final(self).state_id == old(self).state_id && final(self).events == old(self).events && final(self).state_root == old(self).state_root,
    { unimplemented!() }
    /// emitting an actor event: counted, no other effect
    #[verifier::external_body]
    pub fn emit_event<E>(&mut self, e: &E) -> (r: Result<(), ActorError>)
        ensures
            r.is_ok() ==> *final(self) == (Rt { events: Ghost(old(self).events@ + 1), ..*old(self) }),
            r.is_err() ==> *final(self) == *old(self),
    { unimplemented!() }
    #[verifier::external_body]
    pub fn delete_actor(&mut self) -> (r: Result<(), ActorError>)
        ensures
            r.is_ok() ==> *final(self) == (Rt { deleted: Ghost(true), ..*old(self) }),
            r.is_err() ==> *final(self) == *old(self),
    { unimplemented!() }
}

/// runtime/src/builtin/shared.rs `extract_send_result`: Ok iff the send syscall succeeded and the callee exited 0
#[verifier::external_body]
pub fn extract_send_result(res: Result<Response, SendError>) -> (r: Result<Option<IpldBlock>, ActorError>)
    ensures
        r.is_ok() <==> (res.is_ok() && res->Ok_0.exit_code.value == 0),
        r.is_ok() ==> r->Ok_0 == res->Ok_0.return_data,
{ unimplemented!() }

/// number of successful sends, total value of successful sends (ghost accounting helpers)
pub open spec fn sends_value_ok(s: Seq<SendRec>) -> int
    decreases s.len()
{
    if s.len() == 0 { 0 } else { sends_value_ok(s.drop_last()) + (if s.last().ok { s.last().value } else { 0 }) }
}

} // verus!
