// prelude/miner_ext.rs — TRUSTED stubs used by miner method units: consensus-fault verification (a syscall),
// FilterEstimate::estimate (fixed-point smoothing maths, external to the properties), opaque byte/size tags.
verus! {
pub struct BytesDe { pub h: u64 }
#[derive(Clone, Copy, PartialEq, Eq, Structural)]
pub struct SectorSize { pub v: u64 }
pub struct ConsensusFault { pub target: Address, pub epoch: ChainEpoch, pub fault_type: u8 }
impl Rt {
    #[verifier::external_body]
    pub fn verify_consensus_fault(&self, h1: &Vec<u8>, h2: &Vec<u8>, extra: &Vec<u8>) -> (r: Result<Option<ConsensusFault>, AnyhowError>)
        // block heights are non-negative
        ensures r.is_ok() && r->Ok_0.is_some() ==> r->Ok_0->Some_0.epoch >= 0
    { unimplemented!() }
}
pub uninterp spec fn estimate_spec(e: FilterEstimate) -> int;
impl FilterEstimate {
    #[verifier::external_body]
    pub fn estimate(&self) -> (r: BigInt) ensures r@ == estimate_spec(*self) { unimplemented!() }
}
} // verus!
