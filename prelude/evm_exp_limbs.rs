// ===========================================================================================
// prelude/evm_exp_limbs.rs — TRUSTED. The limb representation of the `uint` crate's U256, needed by the EVM `EXP`
// instruction (actors/evm/src/interpreter/instructions/arithmetic.rs `exp`), which reads the exponent limb by limb
// (`for mut word in power.0`). prelude/u256.rs declares `U256` as an opaque (`external_body`) struct with an
// uninterpreted integer view `x@`, so Verus can neither project the field `.0` nor relate it to `x@`. This file adds
//   * `limbs_spec(x)`  — the four limbs as a ghost sequence,
//   * `u256_limbs(x)`  — exec stand-in for the field projection `x.0` (the unit substitutes `power . 0` by
//                        `u256_limbs(power)`; its body IS `x.0`),
//   * `u256_limbs_value` — the axiom that the limbs are the little-endian base-2^64 digits of `x@`.
// Why the axiom is true of the real type: `construct_uint! { pub struct U256(4); }` (uint crate) generates
// "little-endian large integer type" `pub struct U256(pub [u64; 4])`, limb 0 least significant: `from_u64(v)` is
// `U256([v, 0, 0, 0])`, `low_u64()` is `self.0[0]`, `/repo/actors/evm/shared/src/uints.rs::from_u128_words(high, low)` builds
// `U256([low as u64, (low >> 64) as u64, high as u64, (high >> 64) as u64])`; all arithmetic of the crate
// (`overflowing_mul`, `leading_zeros` = leading zeros of limb 3, then limb 2, …) reads the array that way. Every other
// contract of prelude/u256.rs (`from_u64`, `low_u64`, `leading_zeros`, `bits`) is the projection of this one fact.
// Must be included after prelude/u256.rs.
// ===========================================================================================
verus! {

/// the array `x.0` as a sequence (index 0 = least significant 64 bits)
pub uninterp spec fn limbs_spec(x: U256) -> Seq<u64>;

/// `x.0` (field projection of the tuple struct; the body is the real expression)
#[verifier::external_body]
pub fn u256_limbs(x: U256) -> (r: [u64; 4])
    ensures r@ == limbs_spec(x)
{
    x.0
}

pub mod evm_exp_limbs_axioms {
    use super::*;
    /// value of a U256 = sum of limb_i * 2^(64 i)
    pub axiom fn u256_limbs_value(x: U256)
        ensures
            limbs_spec(x).len() == 4,
            x@ == limbs_spec(x)[0] as int
                + limbs_spec(x)[1] as int * p64()
                + limbs_spec(x)[2] as int * p128()
                + limbs_spec(x)[3] as int * (p128() * p64());
}
pub use evm_exp_limbs_axioms::*;

} // verus!
