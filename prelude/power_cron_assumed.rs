// prelude/power_cron_assumed.rs — TRUSTED stubs for the power actor's cron queue (runtime Multimap: HAMT of AMTs keyed by the
// varint-encoded epoch). The queue is modelled as a finite map key -> sequence of events; `load_cron_events`
// (state.rs: a `for_each` closure pushing clones) returns the sequence stored under the epoch's key.
#[verifier::external_body]
pub struct BytesKey { inner: Box<u8> }
pub uninterp spec fn epoch_key_spec(e: ChainEpoch) -> BytesKey;
/// varint encoding is injective
#[verifier::external_body]
pub proof fn axiom_epoch_key_injective()
    ensures forall|a: ChainEpoch, b: ChainEpoch| #[trigger] epoch_key_spec(a) == #[trigger] epoch_key_spec(b) ==> a == b
{}
#[verifier::external_body]
pub fn epoch_key(e: ChainEpoch) -> (r: BytesKey) ensures r == epoch_key_spec(e) { unimplemented!() }
#[verifier::external_body]
#[verifier::reject_recursive_types(BS)]
pub struct Multimap<BS> { p: PhantomData<BS> }
pub uninterp spec fn mmap_decode(c: Cid) -> Map<BytesKey, Seq<CronEvent>>;
pub open spec fn mm_get(m: Map<BytesKey, Seq<CronEvent>>, k: BytesKey) -> Seq<CronEvent> { if m.dom().contains(k) { m[k] } else { Seq::empty() } }
impl<BS: Blockstore> Multimap<BS> {
    pub uninterp spec fn view(&self) -> Map<BytesKey, Seq<CronEvent>>;
    #[verifier::external_body]
    pub fn from_root(store: BS, root: &Cid, outer_bitwidth: u32, inner_bitwidth: u32) -> (r: Result<Self, AnyhowError>)
        ensures vx_store_ok() ==> r.is_ok(), r.is_ok() ==> r->Ok_0.view() == mmap_decode(*root)
    { unimplemented!() }
    #[verifier::external_body]
    pub fn root(&mut self) -> (r: Result<Cid, AnyhowError>)
        ensures vx_store_ok() ==> r.is_ok(), r.is_ok() ==> mmap_decode(r->Ok_0) == old(self).view(), final(self).view() == old(self).view()
    { unimplemented!() }
    /// add: appends the event to the key's list
    #[verifier::external_body]
    pub fn add(&mut self, key: BytesKey, event: CronEvent) -> (r: Result<(), AnyhowError>)
        ensures
            vx_store_ok() ==> r.is_ok(),
            r.is_ok() ==> final(self).view() == old(self).view().insert(key, mm_get(old(self).view(), key).push(event)),
            r.is_err() ==> final(self).view() == old(self).view(),
    { unimplemented!() }
    /// remove_all: drops the key's list
    #[verifier::external_body]
    pub fn remove_all(&mut self, key: &BytesKey) -> (r: Result<(), AnyhowError>)
        ensures vx_store_ok() ==> r.is_ok(), r.is_ok() ==> final(self).view() == old(self).view().remove(*key), r.is_err() ==> final(self).view() == old(self).view()
    { unimplemented!() }
}
#[verifier::external_body]
pub fn load_cron_events<BS: Blockstore>(mmap: &Multimap<BS>, epoch: ChainEpoch) -> (r: anyhow::Result<Vec<CronEvent>>)
    ensures vx_store_ok() ==> r.is_ok(), r.is_ok() ==> r->Ok_0@ == mm_get(mmap.view(), epoch_key_spec(epoch))
{ unimplemented!() }

impl RawBytes {
    /// `RawBytes::bytes().to_owned()` — the payload bytes (opaque)
    #[verifier::external_body]
    pub fn bytes(&self) -> (r: &[u8]) { unimplemented!() }
}
pub assume_specification<T: Clone>[<[T] as std::borrow::ToOwned>::to_owned](s: &[T]) -> (r: Vec<T>) ensures r@.len() == s@.len();
impl Clone for CronEvent { #[verifier::external_body] fn clone(&self) -> (r: Self) ensures r == *self { unimplemented!() } }
impl Clone for FilterEstimate { #[verifier::external_body] fn clone(&self) -> (r: Self) ensures r == *self { unimplemented!() } }

/// The actors run on wasm32 (usize = 32 bits): no Vec has 2^32 elements. TRUSTED, and stated only here — used to rule out
/// overflow of the i64 counters that are decremented once per element of such a Vec.
#[verifier::external_body]
pub proof fn axiom_vec_len_wasm32<T>(v: &Vec<T>) ensures v@.len() < 0x1_0000_0000 {}

/// state.rs update_smoothed_estimate (alpha-beta filter, fixed-point maths): ASSUMED — only the smoothed estimate changes
impl State {
    #[verifier::external_body]
    pub fn update_smoothed_estimate(&mut self, delta: ChainEpoch)
        ensures *final(self) == (State { this_epoch_qa_power_smoothed: final(self).this_epoch_qa_power_smoothed, ..*old(self) })
    { unimplemented!() }
}
/// serde wrapper `BigIntSer(&x)` (opaque)
pub struct BigIntSer<'a>(pub &'a BigInt);
