// prelude/fvm_runtime_assumed.rs — TRUSTED model around runtime/src/runtime/fvm.rs (FvmRuntime, the production runtime).
//  * std::cell::RefCell<T>: a cell holding a value. `replace` really takes `&self`; extraction rule R22 (`selfmut`) turns the methods that
//    use it into `&mut self` methods so the change of the flag can be stated.
//  * the FVM SDK syscalls these functions read: the immediate caller, the code CID of an actor, the built-in type of a code CID, the send /
//    create_actor / self_destruct syscalls — opaque; only their Ok/Err plumbing matters here.
//  * iterator `.any(|x| *x == y)` over the caller sets (the closure-taking adapters are outside this Verus): membership in the sequence.
verus! {
pub struct RefCell<T> { pub v: T }
impl<T> RefCell<T> {
    pub fn borrow(&self) -> (r: &T) ensures *r == self.v { &self.v }
    #[verifier::external_body]
    pub fn replace(&mut self, t: T) -> (r: T) ensures final(self).v == t, r == old(self).v { unimplemented!() }
}
pub struct ActorBlockstore {}
/// `self.message().caller()` = fvm_sdk::message::caller() as an ID address
pub uninterp spec fn fvm_caller_spec() -> Address;
#[verifier::external_body]
pub fn fvm_msg_caller() -> (r: Address) ensures r == fvm_caller_spec(), r.proto == 0 { unimplemented!() }
pub uninterp spec fn fvm_code_of(id: ActorID) -> Option<Cid>;
pub uninterp spec fn fvm_type_of(c: Cid) -> Option<Type>;
impl<B> FvmRuntime<B> {
    #[verifier::external_body]
    pub fn get_actor_code_cid(&self, id: &ActorID) -> (r: Option<Cid>) ensures r == fvm_code_of(*id) { unimplemented!() }
    #[verifier::external_body]
    pub fn resolve_builtin_actor_type(&self, code_id: &Cid) -> (r: Option<Type>) ensures r == fvm_type_of(*code_id) { unimplemented!() }
}
/// fvm_sdk::send::send — the syscall itself (what it does to the world is what prelude/rt.rs models; here only whether it is reached)
#[verifier::external_body]
pub fn fvm_send_send(to: &Address, method: MethodNum, params: Option<IpldBlock>, value: TokenAmount, gas_limit: Option<u64>, flags: SendFlags) -> (r: Result<Response, SendError>)
{ unimplemented!() }
/// `SendError(ErrorNumber::IllegalOperation)` (prelude/rt.rs keeps SendError's payload as the raw error number)
pub open spec fn illegal_operation_spec() -> u32 { 2 }
pub fn vx_send_error_illegal_operation() -> (r: SendError) ensures r.0 == illegal_operation_spec() { SendError(2) }
#[derive(Clone, Copy, PartialEq, Eq, Structural)]
pub enum ErrorNumber { IllegalArgument, IllegalOperation, LimitExceeded, AssertionFailed, InsufficientFunds, NotFound, InvalidHandle, IllegalCid, IllegalCodec, Serialization, Forbidden, BufferTooSmall, ReadOnly }
/// fvm_sdk::actor::create_actor / fvm_sdk::sself::self_destruct
#[verifier::external_body]
pub fn fvm_actor_create_actor(actor_id: ActorID, code_id: &Cid, predictable_address: Option<Address>) -> (r: Result<(), ErrorNumber>) { unimplemented!() }
#[verifier::external_body]
pub fn fvm_sself_self_destruct(burn: bool) -> (r: Result<(), ActorError>) { unimplemented!() }
} // verus!
