// prelude/burnt_funds_axiom.rs — TRUSTED (needs prelude/rt.rs and prelude/singletons.rs before it)
verus! {
/// TRUSTED fact about the deployment: none of the actors verified here runs AS the burnt-funds account f099 (an account actor, whose code
/// — actors/account — sends nothing). Used where "burning" must actually reduce the balance.
pub axiom fn axiom_receiver_is_not_burnt_funds(rt: &Rt)
    ensures rt_never_self(*rt, BURNT_FUNDS_ACTOR_ADDR);
} // verus!
