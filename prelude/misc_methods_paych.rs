// prelude/misc_methods_paych.rs — TRUSTED stubs for the payment-channel constructor unit.
//  * Array::new_with_bit_width (fvm_ipld_amt::Amt::new_with_bit_width): a fresh AMT holds no entries.
//  * An AMT that decodes to the empty map at one element type decodes to the empty map at every element type: an empty AMT root
//    is `[bit_width, height 0, count 0, node{bitmap 0, no links, no values}]` — no element is ever decoded. The constructor builds the
//    empty lane table as `Array::<(), _>` and the other methods read the same CID as `Array<LaneState, _>`.
verus! {
impl<V, BS: Blockstore> Array<V, BS> {
    #[verifier::external_body]
    pub fn new_with_bit_width(store: BS, bit_width: u32) -> (r: Self) ensures r.view() == Map::<u64, V>::empty() { unimplemented!() }
}
pub axiom fn axiom_empty_array_any_type<A, B>(c: Cid)
    ensures array_decode::<A>(c).dom() =~= Set::<u64>::empty() ==> array_decode::<B>(c).dom() =~= Set::<u64>::empty();
} // verus!
