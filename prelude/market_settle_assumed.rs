// prelude/market_settle_assumed.rs — TRUSTED stubs of the market deal-settlement unit (units/…/market_settle.vx.rs).
// Each stub names the real code it stands for and says why the stated contract is true of it. Included in the middle of
// the unit, after the extracted items `State`, `DealProposal`, `DealState` and the spec functions `dstates_m` / `props_m`.

// ---- lib.rs deal_cid: CBOR + blake2b of the proposal — an opaque deterministic function of the proposal ----------------
// (same text as in prelude/market_activate_assumed.rs, which cannot be included here: it re-declares other items)
pub uninterp spec fn deal_cid_spec(p: DealProposal) -> Cid;
#[verifier::external_body]
pub fn deal_cid(rt: &Rt, proposal: &DealProposal) -> (r: Result<Cid, ActorError>)
    ensures r.is_ok() ==> r->Ok_0 == deal_cid_spec(*proposal)
{ unimplemented!() }

// ---- fvm_ipld_bitfield::BitField::iter: yields every set bit exactly once, in ascending order ---------------------------
// Modelled as the materialised listing (a Vec) so that R19 can index it; `bf_seq` names the listing in contracts.
pub uninterp spec fn bf_seq(s: vstd::set::Set<u64>) -> Seq<u64>;
pub open spec fn ascending(ids: Seq<u64>) -> bool { forall|i: int, j: int| 0 <= i < j < ids.len() ==> ids[i] < ids[j] }
pub open spec fn bf_seq_ok(s: vstd::set::Set<u64>) -> bool {
    &&& forall|x: u64| bf_seq(s).contains(x) <==> s.contains(x)
    &&& ascending(bf_seq(s))
    &&& bf_seq(s).len() == s.len()          // as many items as `BitField::len()` counts
}
impl BitField {
    #[verifier::external_body]
    pub fn iter(&self) -> (r: Vec<u64>)
        ensures r@ == bf_seq(self@), bf_seq_ok(self@)
    { unimplemented!() }
}

// ---- emit.rs deal_terminated / deal_completed: build one event and call rt.emit_event — one actor event, nothing else ---
pub mod emit {
    use super::*;
    #[verifier::external_body]
    pub fn deal_terminated(rt: &mut Rt, deal_id: DealID, client: ActorID, provider: ActorID) -> (r: Result<(), ActorError>)
        ensures r.is_ok() ==> *final(rt) == (Rt { events: Ghost(old(rt).events@ + 1), ..*old(rt) }), r.is_err() ==> *final(rt) == *old(rt)
    { unimplemented!() }
    #[verifier::external_body]
    pub fn deal_completed(rt: &mut Rt, deal_id: DealID, client: ActorID, provider: ActorID) -> (r: Result<(), ActorError>)
        ensures r.is_ok() ==> *final(rt) == (Rt { events: Ghost(old(rt).events@ + 1), ..*old(rt) }), r.is_err() ==> *final(rt) == *old(rt)
    { unimplemented!() }
}

// ---- state.rs put_deal_states (`iter().try_for_each(|(id, st)| states.set(*id, *st))` + flush): ASSUMED — sets the entries
// in order, touches only `states`; on Err the `states` root is not assigned (save_deal_states is the last statement).
// Same contract as in prelude/market_activate_assumed.rs; the parameter is the real slice type.
pub open spec fn set_all(m: Map<u64, DealState>, s: Seq<(DealID, DealState)>) -> Map<u64, DealState>
    decreases s.len()
{ if s.len() == 0 { m } else { set_all(m, s.drop_last()).insert(s.last().0, s.last().1) } }
impl State {
    #[verifier::external_body]
    pub fn put_deal_states<BS: Blockstore>(&mut self, store: &BS, new_deal_states: &[(DealID, DealState)]) -> (r: Result<(), ActorError>)
        ensures
            r.is_ok() ==> array_decode::<DealState>(final(self).states) == set_all(array_decode::<DealState>(old(self).states), new_deal_states@),
            r.is_ok() ==> *final(self) == (State { states: final(self).states, ..*old(self) }),
            r.is_err() ==> *final(self) == *old(self),
    { unimplemented!() }
}

// ---- the provider → sector → deal-ids index (state.rs `provider_sectors`: HAMT of HAMTs of Vec<DealID>) ------------------
// View: the list stored for (provider, sector), an absent entry being the empty list (the code deletes empty lists and
// empty per-provider maps, so "absent" and "empty" are not distinguishable through it).
pub uninterp spec fn sector_deals_of(root: Cid, provider: ActorID, sector: SectorNumber) -> Seq<DealID>;

/// std BTreeMap<SectorNumber, Vec<DealID>> and BTreeMap<ActorID, BTreeMap<SectorNumber, Vec<DealID>>> as used for
/// `provider_deals_to_remove`, viewed as (nested) finite maps. `vx_at(k)` stands for `entry(k).or_default()`: a mutable
/// reference to the value stored under `k`, a default (empty) value being inserted first when there is none
/// (vx substitutes `.entry` => `.vx_at` and drops `.or_default()`; the bodies below are not compiled).
#[verifier::external_body]
pub struct SectorQueue { inner: BTreeMap<SectorNumber, Vec<DealID>> }
impl View for SectorQueue { type V = Map<SectorNumber, Seq<DealID>>; uninterp spec fn view(&self) -> Map<SectorNumber, Seq<DealID>>; }
impl SectorQueue {
    #[verifier::external_body]
    pub fn vx_at(&mut self, s: SectorNumber) -> (r: &mut Vec<DealID>)
        ensures
            r@ == (if old(self)@.dom().contains(s) { old(self)@[s] } else { Seq::<DealID>::empty() }),
            final(self)@ == old(self)@.insert(s, final(r)@),
    { unimplemented!() }
}
#[verifier::external_body]
pub struct DealsToRemove { inner: BTreeMap<ActorID, SectorQueue> }
impl View for DealsToRemove { type V = Map<ActorID, Map<SectorNumber, Seq<DealID>>>; uninterp spec fn view(&self) -> Map<ActorID, Map<SectorNumber, Seq<DealID>>>; }
impl DealsToRemove {
    /// `BTreeMap::new()`
    #[verifier::external_body]
    pub fn new() -> (r: Self) ensures r@ == Map::<ActorID, Map<SectorNumber, Seq<DealID>>>::empty() { unimplemented!() }
    #[verifier::external_body]
    pub fn vx_at(&mut self, p: ActorID) -> (r: &mut SectorQueue)
        ensures
            r@ == (if old(self)@.dom().contains(p) { old(self)@[p] } else { Map::<SectorNumber, Seq<DealID>>::empty() }),
            final(self)@ == old(self)@.insert(p, final(r)@),
    { unimplemented!() }
}
/// deal `d` is queued for removal from the list of (provider `p`, sector `s`)
pub open spec fn queued(q: Map<ActorID, Map<SectorNumber, Seq<DealID>>>, p: ActorID, s: SectorNumber, d: DealID) -> bool {
    q.dom().contains(p) && q[p].dom().contains(s) && q[p][s].contains(d)
}
impl State {
    /// state.rs remove_sector_deal_ids: for every queued (provider, sector) whose list exists, the list is replaced by
    /// `existing.filter(|d| !queued[provider][sector].contains(d))` (deleted when that is empty); every other list is
    /// untouched; only `provider_sectors` is assigned, as the last statement (so Err leaves the state as it was).
    #[verifier::external_body]
    pub fn remove_sector_deal_ids<BS: Blockstore>(&mut self, store: &BS, provider_sector_deal_ids: &DealsToRemove) -> (r: Result<(), ActorError>)
        ensures
            r.is_ok() ==> *final(self) == (State { provider_sectors: final(self).provider_sectors, ..*old(self) }),
            r.is_ok() ==> forall|p: ActorID, s: SectorNumber, d: DealID| #[trigger] sector_deals_of(final(self).provider_sectors, p, s).contains(d)
                <==> sector_deals_of(old(self).provider_sectors, p, s).contains(d) && !queued(provider_sector_deal_ids@, p, s, d),
            r.is_err() ==> *final(self) == *old(self),
    { unimplemented!() }
}

// ---- state.rs pop_sector_deal_ids: reads and deletes the deal lists of the given sectors of one provider ------------------
// Returns the concatenation of the deleted lists (in the order the sectors are given) — named `popped_deal_ids`, a function
// of the index root, the provider and the sector listing, otherwise opaque; assigns only `provider_sectors`, and only after
// everything else succeeded (Err leaves the state as it was). The iterator argument is the materialised listing of the
// BitField::iter stub above.
pub uninterp spec fn popped_deal_ids(root: Cid, provider: ActorID, sectors: Seq<u64>) -> Seq<DealID>;
impl State {
    #[verifier::external_body]
    pub fn pop_sector_deal_ids<BS: Blockstore>(&mut self, store: &BS, provider: ActorID, sector_numbers: Vec<u64>) -> (r: Result<Vec<DealID>, ActorError>)
        ensures
            r.is_ok() ==> *final(self) == (State { provider_sectors: final(self).provider_sectors, ..*old(self) }),
            r.is_ok() ==> r->Ok_0@ == popped_deal_ids(old(self).provider_sectors, provider, sector_numbers@),
            // exactly those lists are gone from the index
            r.is_ok() ==> forall|p: ActorID, s: SectorNumber, d: DealID| #[trigger] sector_deals_of(final(self).provider_sectors, p, s).contains(d)
                <==> sector_deals_of(old(self).provider_sectors, p, s).contains(d) && !(p == provider && sector_numbers@.contains(s)),
            r.is_err() ==> *final(self) == *old(self),
    { unimplemented!() }
}

// ---- cron_tick: the re-scheduling side (not part of the settlement property) ---------------------------------------------
/// lib.rs next_update_epoch: the next cron epoch of a deal id (pure arithmetic on the id and the policy interval) — opaque here
#[verifier::external_body]
pub fn next_update_epoch(id: DealID, interval: i64, earliest: ChainEpoch) -> (r: ChainEpoch) { unimplemented!() }
/// std BTreeMap<ChainEpoch, Vec<DealID>> as used for `new_updates_scheduled` (`vx_at(k)` = `entry(k).or_default()`, as above)
#[verifier::external_body]
pub struct UpdatesScheduled { inner: BTreeMap<ChainEpoch, Vec<DealID>> }
impl View for UpdatesScheduled { type V = Map<ChainEpoch, Seq<DealID>>; uninterp spec fn view(&self) -> Map<ChainEpoch, Seq<DealID>>; }
/// the list scheduled for epoch e (empty when there is none)
pub open spec fn sched_list(m: Map<ChainEpoch, Seq<DealID>>, e: ChainEpoch) -> Seq<DealID> { if m.dom().contains(e) { m[e] } else { Seq::<DealID>::empty() } }
impl UpdatesScheduled {
    #[verifier::external_body]
    pub fn vx_at(&mut self, e: ChainEpoch) -> (r: &mut Vec<DealID>)
        ensures
            r@ == sched_list(old(self)@, e),
            final(self)@ == old(self)@.insert(e, final(r)@),
    { unimplemented!() }
}
