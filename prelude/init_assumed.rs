// prelude/init_assumed.rs — TRUSTED stubs for the init actor's Exec / Exec4 methods.
//  * Runtime::new_actor_address: the VM's re-org-stable address for the actor being created (uniqueness is the VM's, not claimed).
//  * Runtime::create_actor: recorded in the ghost log `created`; the FVM refuses (USR_FORBIDDEN / illegal argument) when it cannot create.
//  * Address::new_delegated(namespace, subaddress): the f4 address, an opaque injective function (f4_addr_spec); fails on an over-long subaddress.
//  * RawBytes → Option<IpldBlock> for the constructor parameters (opaque handle, as in prelude/multisig_assumed.rs).
verus! {
pub uninterp spec fn rt_new_actor_address(nsends: nat, ncreated: nat) -> Address;
impl Rt {
    #[verifier::external_body]
    pub fn new_actor_address(&self) -> (r: Result<Address, ActorError>)
        ensures r.is_ok() ==> r->Ok_0 == rt_new_actor_address(self.sends@.len(), self.created@.len())
    { unimplemented!() }
    #[verifier::external_body]
    pub fn create_actor(&mut self, code_id: Cid, actor_id: ActorID, predictable_address: Option<Address>) -> (r: Result<(), ActorError>)
        ensures
            r.is_ok() ==> *final(self) == (Rt { created: Ghost(old(self).created@.push(CreateRec { code: code_id, id: actor_id, predictable: predictable_address })), ..*old(self) }),
            r.is_err() ==> *final(self) == *old(self),
    { unimplemented!() }
    #[verifier::external_body]
    pub fn get_code_cid_for_type(&self, t: Type) -> (r: Cid) ensures rt_builtin_type(r) == Some(t) { unimplemented!() }
}
pub uninterp spec fn f4_addr_spec(namespace: ActorID, subaddress: RawBytes) -> Address;
impl Address {
    /// the real parameter is `&[u8]` (RawBytes derefs to it); RawBytes is an opaque handle here
    #[verifier::external_body]
    pub fn new_delegated(ns: ActorID, subaddress: &RawBytes) -> (r: Result<Address, AnyhowError>)
        ensures r.is_ok() ==> r->Ok_0 == f4_addr_spec(ns, *subaddress)
    { unimplemented!() }
}
impl vstd::std_specs::convert::FromSpecImpl<RawBytes> for Option<IpldBlock> {
    open spec fn obeys_from_spec() -> bool { true }
    open spec fn from_spec(b: RawBytes) -> Option<IpldBlock> { Some(IpldBlock { h: b.h }) }
}
impl From<RawBytes> for Option<IpldBlock> {
    #[verifier::external_body]
    fn from(b: RawBytes) -> (r: Option<IpldBlock>) { unimplemented!() }
}
} // verus!
