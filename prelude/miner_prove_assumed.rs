// prelude/miner_prove_assumed.rs — TRUSTED / ASSUMED pieces of the unit `miner_prove` (miner sector ACTIVATION methods: ProveCommitSectors3,
// ProveReplicaUpdates3). Included INSIDE the unit's `verus!{}` block, after prelude/batch.rs, prelude/miner_onboard_assumed.rs and the extracted items
// (SectorActivationManifest, PieceActivationManifest, SectorPiecesActivationInput, DataActivationOutput, the registry request / answer types).
// Every stub names the real code it stands for and why its contract is true of it. None of them mentions a ledger total, a sector weight or the send
// log other than the runtime syscalls that really append nothing to it.

// =====================================================================================================================================================
// 1. runtime/src/util/batch_return.rs — BatchReturn beyond prelude/batch.rs (which views a batch as the sequence of per-item exit codes, 0 = success)
// =====================================================================================================================================================
/// the indices of the successful items (code 0), in increasing order: what `successes` keeps and what a stacked batch is indexed against
pub open spec fn succ_idx(codes: Seq<u32>) -> Seq<int>
    decreases codes.len()
{ if codes.len() == 0 { Seq::<int>::empty() } else if codes.last() == 0 { succ_idx(codes.drop_last()).push(codes.len() - 1) } else { succ_idx(codes.drop_last()) } }
/// n successes
pub open spec fn zeros(n: nat) -> Seq<u32> { Seq::new(n, |i: int| 0u32) }
impl BatchReturn {
    /// reading the public field `success_count` (BatchReturn is opaque in prelude/batch.rs; substituted `X.success_count` => `X.vx_success_count()`):
    /// BatchReturnGen counts one success per `add_success`, i.e. the number of codes 0
    #[verifier::external_body]
    pub fn vx_success_count(&self) -> (r: u32) ensures r as int == succ_idx(self.codes()).len() { unimplemented!() }
    /// batch_return.rs `successes(items)`: "a subset of items corresponding to the successful indices", in order; PANICS unless
    /// items.len() == size() — hence the precondition. (The real parameter is `&[T]`; every caller in this unit passes a `&Vec<T>`.)
    #[verifier::external_body]
    pub fn successes<'i, T>(&self, items: &'i Vec<T>) -> (r: Vec<&'i T>)
        requires items@.len() == self.codes().len()
        ensures r@.len() == succ_idx(self.codes()).len(), forall|j: int| 0 <= j < r@.len() ==> *(#[trigger] r@[j]) == items@[succ_idx(self.codes())[j]]
    { unimplemented!() }
    /// batch_return.rs `all_ok`: no failure recorded
    #[verifier::external_body]
    pub fn all_ok(&self) -> (r: bool) ensures r == (forall|i: int| 0 <= i < self.codes().len() ==> self.codes()[i] == 0) { unimplemented!() }
    /// batch_return.rs `BatchReturn::ok(n)`: n successes, no failure
    #[verifier::external_body]
    pub fn ok(n: u32) -> (r: BatchReturn) ensures r.codes() == zeros(n as nat) { unimplemented!() }
    /// batch_return.rs `BatchReturn::empty()`
    #[verifier::external_body]
    pub fn empty() -> (r: BatchReturn) ensures r.codes() == Seq::<u32>::empty() { unimplemented!() }
}
impl BatchReturnGen {
    /// batch_return.rs `add_successes(count)`: `success_count += count` — count further items recorded as successful
    #[verifier::external_body]
    pub fn add_successes(&mut self, count: usize) -> (r: &mut Self)
        ensures final(self).codes() == old(self).codes() + zeros(count as nat), final(self).expect() == old(self).expect() { unimplemented!() }
}
/// batch_return.rs `stack`: the codes of a batch applied to the successful items of the previous one. Item i of `a` keeps its failure code; a
/// successful item takes the code of its rank among the successes in `b`.
pub open spec fn stack2(a: Seq<u32>, b: Seq<u32>) -> Seq<u32>
    decreases a.len()
{ if a.len() == 0 { Seq::<u32>::empty() } else if a.last() != 0 { stack2(a.drop_last(), b).push(a.last()) }
  else { stack2(a.drop_last(), b).push(b[succ_idx(a.drop_last()).len() as int]) } }
pub mod util {
    use super::*;
    /// batch_return.rs `stack(&[a, b, c])`: PANICS unless each batch has one entry per success of the previous one — hence the preconditions
    #[verifier::external_body]
    pub fn stack(b: &[BatchReturn; 3]) -> (r: BatchReturn)
        requires b@[1].codes().len() == succ_idx(b@[0].codes()).len(), b@[2].codes().len() == succ_idx(b@[1].codes()).len()
        ensures r.codes() == stack2(b@[0].codes(), stack2(b@[1].codes(), b@[2].codes()))
    { unimplemented!() }
}

// =====================================================================================================================================================
// 2. std iterator adapters (outside this Verus' subset) as small helpers whose BODY IS the original expression, with its meaning as contract
// =====================================================================================================================================================
/// `v.iter().map(f).collect()` over a vector of PAIRS with a closure that destructures the pair (`|(a, b)| ..`): here the closure takes the two
/// components by reference (exactly what the pattern binds under match ergonomics). The closure stays the extracted source text; the unit adds
/// parameter types and an `ensures` to it (Verus learns nothing from an un-annotated closure) and Verus checks the closure body against that ensures.
pub struct VxPairs<'a, S, T> { pub v: &'a Vec<(S, T)> }
pub fn vx_pairs<'a, S, T>(v: &'a Vec<(S, T)>) -> (r: VxPairs<'a, S, T>) ensures r.v == v { VxPairs { v } }
pub struct VxMapped<U> { pub out: Vec<U> }
impl<'a, S, T> VxPairs<'a, S, T> {
    #[verifier::external_body]
    pub fn map<U, F: Fn(&S, &T) -> U>(self, f: F) -> (r: VxMapped<U>)
        requires forall|i: int| 0 <= i < self.v@.len() ==> call_requires(f, (&(#[trigger] self.v@[i]).0, &self.v@[i].1))
        ensures r.out@.len() == self.v@.len(), forall|i: int| 0 <= i < self.v@.len() ==> call_ensures(f, (&self.v@[i].0, &self.v@[i].1), #[trigger] r.out@[i])
    { VxMapped { out: self.v.iter().map(|p| f(&p.0, &p.1)).collect() } }
}
impl<U> VxMapped<U> {
    pub fn collect(self) -> (r: Vec<U>) ensures r == self.out { self.out }
}
/// `a.iter().zip(b).map(f).collect()` with a closure over the pair `(x, y)`: x ranges over references into `a`, y over the items of `b`; pairs are
/// formed in order up to the shorter length
pub struct VxZip<'a, S, T> { pub a: &'a Vec<S>, pub b: Vec<T> }
pub fn vx_zip<'a, S, T>(a: &'a Vec<S>, b: Vec<T>) -> (r: VxZip<'a, S, T>) ensures r.a == a, r.b == b { VxZip { a, b } }
pub open spec fn min_len(a: int, b: int) -> int { if a <= b { a } else { b } }
impl<'a, S, T> VxZip<'a, S, T> {
    #[verifier::external_body]
    pub fn map<U, F: Fn(&S, T) -> U>(self, f: F) -> (r: VxMapped<U>)
        requires forall|i: int| 0 <= i < min_len(self.a@.len() as int, self.b@.len() as int) ==> call_requires(f, (&(#[trigger] self.a@[i]), self.b@[i]))
        ensures
            r.out@.len() == min_len(self.a@.len() as int, self.b@.len() as int),
            forall|i: int| 0 <= i < r.out@.len() ==> call_ensures(f, (&self.a@[i], self.b@[i]), #[trigger] r.out@[i])
    { VxMapped { out: self.a.iter().zip(self.b.into_iter()).map(|(x, y)| f(x, y)).collect() } }
}
/// `v.iter().enumerate()` materialised as the list of (index, reference) pairs, in order
#[verifier::external_body]
pub fn vx_iter_enumerate<'a, T>(v: &'a Vec<T>) -> (r: Vec<(usize, &'a T)>)
    ensures r@.len() == v@.len(), forall|i: int| 0 <= i < r@.len() ==> (#[trigger] r@[i]).0 == i && *r@[i].1 == v@[i]
{ v.iter().enumerate().collect() }
/// `a.iter().zip(b)` (a: vector of references) materialised: pairs (reference into a, item of b), in order, up to the shorter length
#[verifier::external_body]
pub fn vx_zip_refs<'a, S, T>(a: &'a Vec<S>, b: Vec<T>) -> (r: Vec<(&'a S, T)>)
    ensures r@.len() == min_len(a@.len() as int, b@.len() as int), forall|i: int| 0 <= i < r@.len() ==> *(#[trigger] r@[i]).0 == a@[i] && r@[i].1 == b@[i]
{ a.iter().zip(b).collect() }
/// `a.iter().zip(it)` where `it` is the (already materialised) pair iterator: (reference into a, pair), in order, up to the shorter length
#[verifier::external_body]
pub fn vx_zip_flat<'a, S, P>(a: &'a Vec<S>, b: Vec<P>) -> (r: Vec<(&'a S, P)>)
    ensures r@.len() == min_len(a@.len() as int, b@.len() as int), forall|i: int| 0 <= i < r@.len() ==> *(#[trigger] r@[i]).0 == a@[i] && r@[i].1 == b@[i]
{ a.iter().zip(b).collect() }
/// `it.map(|(activation, precommit)| (*activation, precommit)).collect()`: the first component dereferenced once, the second kept, in order
#[verifier::external_body]
pub fn vx_deref_first<'a, 'b, S, T>(v: Vec<(&'a &'b S, T)>) -> (r: Vec<(&'b S, T)>)
    ensures r@.len() == v@.len(), forall|i: int| 0 <= i < r@.len() ==> (#[trigger] r@[i]).0 == *v@[i].0 && r@[i].1 == v@[i].1
{ v.into_iter().map(|(a, p)| (*a, p)).collect() }
/// `v.iter().map(|(_, second)| *second).collect()`: the second components, in order
#[verifier::external_body]
pub fn vx_seconds<'a, 'b, S, T>(v: &Vec<&'a (S, &'b T)>) -> (r: Vec<&'b T>)
    ensures r@.len() == v@.len(), forall|i: int| 0 <= i < r@.len() ==> #[trigger] r@[i] == (*v@[i]).1
{ v.iter().map(|(_, second)| *second).collect() }
/// `params.sector_activations.iter().map(|sa| sa.sector_number)` collected: the sector numbers of the manifests, in order
#[verifier::external_body]
pub fn vx_activation_numbers(v: &Vec<SectorActivationManifest>) -> (r: Vec<SectorNumber>)
    ensures r@.len() == v@.len(), forall|i: int| 0 <= i < r@.len() ==> #[trigger] r@[i] == v@[i].sector_number
{ v.iter().map(|sa| sa.sector_number).collect() }
/// `verified_claims.iter().all(|sector| sector.claims.is_empty())`
#[verifier::external_body]
pub fn vx_all_claims_empty(v: &Vec<vreg::SectorAllocationClaims>) -> (r: bool)
    ensures r == (forall|i: int| 0 <= i < v@.len() ==> (#[trigger] v@[i]).claims@.len() == 0)
{ v.iter().all(|sector| sector.claims.is_empty()) }
/// `vec![SectorClaimSummary { claimed_space: BigInt::zero() }; n]`: n summaries of zero claimed space
#[verifier::external_body]
pub fn vx_zero_summaries(n: usize) -> (r: Vec<vreg::SectorClaimSummary>)
    ensures r@.len() == n, forall|i: int| 0 <= i < n ==> (#[trigger] r@[i]).claimed_space@ == 0
{ unimplemented!() }
/// `activations.pieces.iter().map(|p| (p.cid, p.size.0)).collect()` (payload of the sector-activated EVENT only)
#[verifier::external_body]
pub fn vx_piece_pairs(v: &Vec<PieceActivationManifest>) -> (r: Vec<(Cid, u64)>)
    ensures r@.len() == v@.len(), forall|i: int| 0 <= i < r@.len() ==> #[trigger] r@[i] == (v@[i].cid, v@[i].size.0)
{ v.iter().map(|p| (p.cid, p.size.0)).collect() }

// =====================================================================================================================================================
// 3. derives stripped by the extractor, std glue
// =====================================================================================================================================================
/// #[derive(Clone)] of PieceActivationManifest / DataActivationNotification: a clone equals its source
impl Clone for PieceActivationManifest {
    #[verifier::external_body]
    fn clone(&self) -> (r: Self) ensures r == *self { unimplemented!() }
}
/// num-bigint `BigInt += u64`
impl vstd::std_specs::ops::AddAssignSpecImpl<u64> for BigInt {
    open spec fn obeys_add_assign_spec() -> bool { false }
    open spec fn add_assign_req(&self, rhs: u64) -> bool { true }
    uninterp spec fn add_assign_spec(&self, rhs: u64) -> &BigInt;
}
impl AddAssign<u64> for BigInt {
    #[verifier::external_body]
    fn add_assign(&mut self, rhs: u64) ensures final(self)@ == old(self)@ + rhs { unimplemented!() }
}
/// `Cid == Cid` written as the method call `a.eq(&b)` (derived PartialEq = structural equality); verified, not assumed
impl Cid { pub fn eq(&self, other: &Cid) -> (r: bool) ensures r == (*self == *other) { self.h == other.h } }
/// the std macro `assert!(c, ..)`: the activation ABORTS (panic: no state is saved, nothing is returned) unless c holds — so whatever runs afterwards
/// runs with c. Substituted `assert !` => `vx_assert_or_abort !`.
#[verifier::external_body]
pub fn vx_abort_unless(c: bool) ensures c { assert!(c) }

// =====================================================================================================================================================
// 4. opaque byte strings, proof types, proof verification verdicts (cryptography is outside the property list: SOME verdict, deterministic)
// =====================================================================================================================================================
/// the length of the byte string behind a RawBytes token
pub uninterp spec fn raw_len(b: RawBytes) -> nat;
impl RawBytes {
    #[verifier::external_body]
    pub fn len(&self) -> (r: usize) ensures r == raw_len(*self) { unimplemented!() }
    #[verifier::external_body]
    pub fn is_empty(&self) -> (r: bool) ensures r == (raw_len(*self) == 0) { unimplemented!() }
    /// `RawBytes::default()`: the empty byte string
    #[verifier::external_body]
    pub fn default() -> (r: RawBytes) ensures raw_len(r) == 0 { unimplemented!() }
}
/// fvm_shared RegisteredAggregateProof (only SnarkPackV2 is accepted by the methods), RegisteredUpdateProof
#[derive(Clone, Copy, PartialEq, Eq, Structural)]
pub enum RegisteredAggregateProof { SnarkPackV1, SnarkPackV2, Invalid }
#[derive(Clone, Copy, PartialEq, Eq, Structural)]
pub struct RegisteredUpdateProof { pub id: i64 }
/// fvm_shared Randomness(Vec<u8>) and the 32-byte array a randomness syscall returns (`.into()` turns it into the byte vector)
pub struct Randomness(pub Vec<u8>);
pub type SealRandomness = Randomness;
pub type InteractiveSealRandomness = Randomness;
pub struct VxRand32 { pub bytes: Vec<u8> }
impl VxRand32 { pub fn into(self) -> (r: Vec<u8>) ensures r == self.bytes { self.bytes } }
#[derive(Clone, Copy, PartialEq, Eq, Structural)]
pub enum DomainSeparationTag { TicketProduction, ElectionProofProduction, WinningPoStChallengeSeed, WindowedPoStChallengeSeed, SealRandomness, InteractiveSealChallengeSeed, WindowPoStDeadlineAssignment, MarketDealCronSeed, PoStChainCommit }
/// fvm_shared SealVerifyInfo: everything a single seal proof is checked against
pub struct SealVerifyInfo { pub registered_proof: RegisteredSealProof, pub miner: ActorID, pub number: SectorNumber, pub randomness: Randomness, pub interactive_randomness: Randomness,
    pub proof: RawBytes, pub sealed_cid: Cid, pub unsealed_cid: Cid }
/// the verdict of the proofs library on one seal proof: opaque, deterministic
pub uninterp spec fn seal_verdict(i: SealVerifyInfo) -> bool;
/// the verdict on an aggregate seal proof over all the inputs
pub uninterp spec fn agg_seal_verdict(inputs: Seq<SectorSealProofInput>, miner: ActorID, seal_proof: RegisteredSealProof, agg: RegisteredAggregateProof, proof: RawBytes) -> bool;
impl Rt {
    /// Runtime::get_randomness_from_tickets / _from_beacon (syscalls): read the chain, change nothing of the activation
    #[verifier::external_body]
    pub fn get_randomness_from_tickets(&self, personalization: DomainSeparationTag, rand_epoch: ChainEpoch, entropy: &RawBytes) -> (r: Result<VxRand32, ActorError>) { unimplemented!() }
    #[verifier::external_body]
    pub fn get_randomness_from_beacon(&self, personalization: DomainSeparationTag, rand_epoch: ChainEpoch, entropy: &RawBytes) -> (r: Result<VxRand32, ActorError>) { unimplemented!() }
    /// Runtime::batch_verify_seals (syscall): one verdict per input, in order (fvm.rs maps the syscall's result vector one to one)
    #[verifier::external_body]
    pub fn batch_verify_seals(&self, batch: &Vec<SealVerifyInfo>) -> (r: Result<Vec<bool>, AnyhowError>)
        ensures r.is_ok() ==> r->Ok_0@.len() == batch@.len() && forall|i: int| 0 <= i < batch@.len() ==> #[trigger] r->Ok_0@[i] == seal_verdict(batch@[i])
    { unimplemented!() }
    /// Runtime::total_fil_circ_supply (syscall): SOME non-negative amount
    #[verifier::external_body]
    pub fn total_fil_circ_supply(&self) -> (r: TokenAmount) ensures r@ >= 0 { unimplemented!() }
}
/// lib.rs `validation_batch.successes(&proof_inputs).iter().zip(validation_batch.successes(&params.sector_proofs)).map(|(info, proof)|
/// info.to_seal_verify_info(miner_id, proof)).collect()`: one SealVerifyInfo per VALID pre-commit, in order, built from that pre-commit's proof input
/// and the proof bytes at the same position of the parameters (to_seal_verify_info copies the fields)
#[verifier::external_body]
pub fn vx_seal_verify_inputs(batch: &BatchReturn, proof_inputs: &Vec<SectorSealProofInput>, proofs: &Vec<RawBytes>, miner_id: u64) -> (r: Vec<SealVerifyInfo>)
    requires proof_inputs@.len() == batch.codes().len(), proofs@.len() == batch.codes().len()
    ensures r@.len() == succ_idx(batch.codes()).len(),
        forall|j: int| 0 <= j < r@.len() ==> (#[trigger] r@[j]).number == proof_inputs@[succ_idx(batch.codes())[j]].sector_number && r@[j].miner == miner_id
            && r@[j].proof == proofs@[succ_idx(batch.codes())[j]] && r@[j].sealed_cid == proof_inputs@[succ_idx(batch.codes())[j]].sealed_cid
            && r@[j].unsealed_cid == proof_inputs@[succ_idx(batch.codes())[j]].unsealed_cid
{ unimplemented!() }
/// lib.rs validate_seal_proofs: every proof is at most as long as the proof type allows (a size check on opaque bytes); no runtime access
#[verifier::external_body]
pub fn validate_seal_proofs(seal_proof_type: RegisteredSealProof, proofs: &Vec<RawBytes>) -> (r: Result<(), ActorError>) { unimplemented!() }
/// lib.rs verify_aggregate_seal: ONE call of the syscall verify_aggregate_seals over ALL proof inputs; Ok iff the proofs library accepts. No send,
/// no state access (`&impl Runtime` used for the syscall only)
#[verifier::external_body]
pub fn verify_aggregate_seal(rt: &Rt, proof_inputs: &Vec<SectorSealProofInput>, miner_actor_id: ActorID, seal_proof: RegisteredSealProof,
        aggregate_proof: RegisteredAggregateProof, proof_bytes: &RawBytes) -> (r: Result<(), ActorError>)
    ensures r.is_ok() <==> agg_seal_verdict(proof_inputs@, miner_actor_id, seal_proof, aggregate_proof, *proof_bytes)
{ unimplemented!() }
/// lib.rs unsealed_cid_from_pieces: CommD computed from the pieces by the syscall compute_unsealed_sector_cid (or the empty CommD): a function of
/// the pieces and the proof type; no send, no state access
pub uninterp spec fn commd_of_pieces(pieces: Seq<PieceActivationManifest>, sector_type: RegisteredSealProof) -> CompactCommD;
#[verifier::external_body]
pub fn unsealed_cid_from_pieces(rt: &Rt, pieces: &Vec<PieceActivationManifest>, sector_type: RegisteredSealProof) -> (r: Result<CompactCommD, ActorError>)
    ensures r.is_ok() ==> r->Ok_0 == commd_of_pieces(pieces@, sector_type)
{ unimplemented!() }
/// emit.rs sector_activated / sector_updated: build and emit ONE actor event — counted, no other effect
#[verifier::external_body]
pub fn vx_emit_sector_activated(rt: &mut Rt, sector: SectorNumber, unsealed_cid: Option<Cid>, pieces: &Vec<(Cid, u64)>) -> (r: Result<(), ActorError>)
    ensures r.is_ok() ==> *final(rt) == (Rt { events: Ghost(old(rt).events@ + 1), ..*old(rt) }), r.is_err() ==> *final(rt) == *old(rt)
{ unimplemented!() }
#[verifier::external_body]
pub fn vx_emit_sector_updated(rt: &mut Rt, sector: SectorNumber, unsealed_cid: Option<Cid>, pieces: &Vec<(Cid, u64)>) -> (r: Result<(), ActorError>)
    ensures r.is_ok() ==> *final(rt) == (Rt { events: Ghost(old(rt).events@ + 1), ..*old(rt) }), r.is_err() ==> *final(rt) == *old(rt)
{ unimplemented!() }

// =====================================================================================================================================================
// 5. assign_sectors_to_deadlines (state.rs): the loop that adds the new sectors to their deadlines
// =====================================================================================================================================================
/// `deadline_vec[deadline_idx].as_mut().unwrap()`: the deadline in that slot (PANICS when the slot is empty or out of range)
#[verifier::external_body]
pub fn vx_deadline_mut(v: &mut Vec<Option<Deadline>>, i: usize) -> (r: &mut Deadline)
    requires i < old(v)@.len(), old(v)@[i as int].is_some()
    ensures final(v)@.len() == old(v)@.len(), final(v)@[i as int].is_some(), forall|j: int| 0 <= j < old(v)@.len() && j != i ==> final(v)@[j] == old(v)@[j]
{ v[i].as_mut().unwrap() }
impl Deadline {
    /// deadline_state.rs Deadline::add_sectors (under contract in units/C04/miner_deadline_state.vx.rs: sectors added with proven == false raise live and
    /// unproven power by the same amount, so ACTIVE power — what a PoSt-covered sector contributes — is unchanged). MONITOR, not an assumption: the
    /// precondition `!proven` restricts the callers in this unit — Verus must prove that the activation path passes `proven == false` at every call.
    #[verifier::external_body]
    pub fn add_sectors<BS: Blockstore>(&mut self, store: &BS, partition_size: u64, proven: bool, new_fees: bool, sectors: &Vec<SectorOnChainInfo>, sector_size: SectorSize,
            quant: QuantSpec) -> (r: anyhow::Result<PowerPair>)
        requires !proven
    { unimplemented!() }
}
