// ===========================================================================================
// prelude/bitfield.rs — TRUSTED. fvm_ipld_bitfield::BitField viewed as a finite set of u64.
// The RLE+ encoding is irrelevant to the properties (DESIGN §2.4).
// ===========================================================================================
verus! {

#[verifier::external_body]
pub struct BitField { inner: Box<u8> }
impl View for BitField { type V = vstd::set::Set<u64>; uninterp spec fn view(&self) -> vstd::set::Set<u64>; }

impl Clone for BitField {
    #[verifier::external_body]
    fn clone(&self) -> (r: BitField) ensures r@ == self@ { unimplemented!() }
}
impl Default for BitField {
    #[verifier::external_body]
    fn default() -> (r: BitField) ensures r@ == vstd::set::Set::<u64>::empty() { unimplemented!() }
}
impl BitField {
    #[verifier::external_body]
    pub fn new() -> (r: BitField) ensures r@ == vstd::set::Set::<u64>::empty() { unimplemented!() }
    #[verifier::external_body]
    pub fn is_empty(&self) -> (r: bool) ensures r == (self@ =~= vstd::set::Set::<u64>::empty()) { unimplemented!() }
    #[verifier::external_body]
    pub fn len(&self) -> (r: u64) ensures r as nat == self@.len() { unimplemented!() }
    #[verifier::external_body]
    pub fn get(&self, bit: u64) -> (r: bool) ensures r == self@.contains(bit) { unimplemented!() }
    #[verifier::external_body]
    pub fn set(&mut self, bit: u64) ensures final(self)@ == old(self)@.insert(bit) { unimplemented!() }
    #[verifier::external_body]
    pub fn unset(&mut self, bit: u64) ensures final(self)@ == old(self)@.remove(bit) { unimplemented!() }
    #[verifier::external_body]
    pub fn contains_any(&self, other: &BitField) -> (r: bool)
        ensures r == !(self@.intersect(other@) =~= vstd::set::Set::<u64>::empty()), !r ==> self@.disjoint(other@) { unimplemented!() }
    #[verifier::external_body]
    pub fn contains_all(&self, other: &BitField) -> (r: bool)
        ensures r == other@.subset_of(self@) { unimplemented!() }
}
} // verus!
macro_rules! bf_binop1 {
    ($tr:ident, $specimpl:ident, $m:ident, $req:ident, $spec:ident, $obeys:ident, $setop:ident, $l:ty, $r:ty) => {
        verus! {
        impl<'a,'b> vstd::std_specs::ops::$specimpl<$r> for $l {
            open spec fn $obeys() -> bool { false }
            open spec fn $req(self, rhs: $r) -> bool { true }
            uninterp spec fn $spec(self, rhs: $r) -> BitField;
        }
        impl<'a,'b> $tr<$r> for $l { type Output = BitField;
            #[verifier::external_body]
            fn $m(self, rhs: $r) -> (r: BitField) ensures r@ == self@.$setop(rhs@) { unimplemented!() } }
        }
    };
}
macro_rules! bf_binop {
    ($tr:ident, $specimpl:ident, $m:ident, $req:ident, $spec:ident, $obeys:ident, $setop:ident) => {
        bf_binop1!($tr, $specimpl, $m, $req, $spec, $obeys, $setop, BitField, BitField);
        bf_binop1!($tr, $specimpl, $m, $req, $spec, $obeys, $setop, BitField, &'b BitField);
        bf_binop1!($tr, $specimpl, $m, $req, $spec, $obeys, $setop, &'a BitField, BitField);
        bf_binop1!($tr, $specimpl, $m, $req, $spec, $obeys, $setop, &'a BitField, &'b BitField);
    };
}
use std::ops::{BitOr, BitAnd, BitOrAssign, BitAndAssign};
bf_binop!(BitOr, BitOrSpecImpl, bitor, bitor_req, bitor_spec, obeys_bitor_spec, union);
bf_binop!(BitAnd, BitAndSpecImpl, bitand, bitand_req, bitand_spec, obeys_bitand_spec, intersect);
bf_binop!(Sub, SubSpecImpl, sub, sub_req, sub_spec, obeys_sub_spec, difference);
verus! {
impl<'b> vstd::std_specs::ops::BitOrAssignSpecImpl<&'b BitField> for BitField {
    open spec fn obeys_bitor_assign_spec() -> bool { false }
    open spec fn bitor_assign_req(&self, rhs: &'b BitField) -> bool { true }
    uninterp spec fn bitor_assign_spec(&self, rhs: &'b BitField) -> &BitField;
}
impl<'b> BitOrAssign<&'b BitField> for BitField {
    #[verifier::external_body]
    fn bitor_assign(&mut self, rhs: &'b BitField) ensures final(self)@ == old(self)@.union(rhs@) { unimplemented!() }
}
impl<'b> vstd::std_specs::ops::SubAssignSpecImpl<&'b BitField> for BitField {
    open spec fn obeys_sub_assign_spec() -> bool { false }
    open spec fn sub_assign_req(&self, rhs: &'b BitField) -> bool { true }
    uninterp spec fn sub_assign_spec(&self, rhs: &'b BitField) -> &BitField;
}
impl<'b> SubAssign<&'b BitField> for BitField {
    #[verifier::external_body]
    fn sub_assign(&mut self, rhs: &'b BitField) ensures final(self)@ == old(self)@.difference(rhs@) { unimplemented!() }
}
} // verus!
