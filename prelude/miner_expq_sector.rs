// prelude/miner_expq_sector.rs — TRUSTED. What the miner queue units (expiration_queue.rs, sectors.rs) need around SectorOnChainInfo that lives outside those files.
// Included INSIDE the unit's verus!{} block, after the SectorOnChainInfo item and prelude/miner_sector_clone.rs (which gives `secv`, the field view of an info).
/// fvm_shared SectorSize is a C-like enum whose discriminant is the size in bytes; `size as u64` is read as `.v` (substitution in the units)
#[derive(Clone, Copy, PartialEq, Eq, Structural)]
pub struct SectorSize { pub v: u64 }
/// policy.rs qa_power_for_sector: a function of the sector size and of the info's fields (duration, deal weights) — under contract in units/C02/miner_qa_power.vx.rs;
/// here only "a deterministic function of (size, fields)" is used
pub uninterp spec fn qa_power_spec(size: u64, s: SecV) -> int;
#[verifier::external_body]
pub fn qa_power_for_sector(size: SectorSize, sector: &SectorOnChainInfo) -> (r: StoragePower) ensures r@ == qa_power_spec(size.v, secv(*sector)) { unimplemented!() }
