// prelude/miner_sector_clone.rs — TRUSTED: #[derive(Clone)] of SectorOnChainInfo re-stated over an abstract field view
pub struct SecV { pub sector_number: SectorNumber, pub activation: ChainEpoch, pub expiration: ChainEpoch, pub deal_weight: int, pub verified_deal_weight: int,
    pub initial_pledge: int, pub power_base_epoch: ChainEpoch, pub flags: SectorOnChainInfoFlags, pub daily_fee: int, pub sealed_cid: Cid, pub seal_proof: RegisteredSealProof, pub sector_key_cid: Option<Cid> }
pub open spec fn secv(s: SectorOnChainInfo) -> SecV {
    SecV { sector_number: s.sector_number, activation: s.activation, expiration: s.expiration, deal_weight: s.deal_weight@, verified_deal_weight: s.verified_deal_weight@,
        initial_pledge: s.initial_pledge@, power_base_epoch: s.power_base_epoch, flags: s.flags, daily_fee: s.daily_fee@, sealed_cid: s.sealed_cid, seal_proof: s.seal_proof, sector_key_cid: s.sector_key_cid }
}
impl Clone for SectorOnChainInfo {
    #[verifier::external_body]
    fn clone(&self) -> (r: Self) ensures secv(r) == secv(*self) { unimplemented!() }
}

