// prelude/evm_lifecycle_core.rs — TRUSTED additions for the EVM lifecycle unit (C19: transient-storage lifetime, tombstones, SELFDESTRUCT).
//  * vx_is_some_and!(o, |t| b): `Option::is_some_and` with its closure inlined — `match o { Some(t) => b, None => false }`, which is the
//    definition of core::option::Option::is_some_and. Needed because Verus learns nothing from an un-annotated closure (same reason as R10).
//    The closure text itself still comes from /repo (the unit only re-brackets the call with two token substitutions).
//  * EMPTY_ARR_CID (runtime/src/runtime/empty.rs): the CID every actor's state root has before its constructor ran. An opaque token;
//    nothing is assumed about it except that it is a fixed value.
//  * EthAddress and the two conversions U256 -> EthAddress -> Address used by SELFDESTRUCT: opaque deterministic functions; EthAddress::as_id opaque.
//    (prelude/eam_assumed.rs defines its own EthAddress and a weaker `<[T]>::to_vec` spec: do not include both files in one unit.)
//  * small std / fvm glue, each stated at its documented meaning: RawBytes -> Vec<u8>, WithCodec + DAG_CBOR, U256::default() == 0,
//    <[T]>::to_vec (element-wise clone), a caller set given as `[&Address; N]`, SendFlags::default() == empty, TokenAmount::from(&U256)
//    (same number), IpldBlock::serialize_dag_cbor (opaque token, like serialize_cbor), ActorError::checked / take_data (exit code kept;
//    the same two exist in verifreg_claims_assumed.rs / multisig_assumed.rs), BytecodeHash::EMPTY (a fixed opaque value),
//    vx_method_hash!("InvokeEVM") = 3844450837 (the FRC-42 hash of that one name, i.e. Method::InvokeContract).
macro_rules! vx_is_some_and {
    ($o:expr, (|$t:ident| $b:expr)) => { match $o { Some($t) => $b, None => false } };
}
/// frc42_dispatch::method_hash!("InvokeEVM") = 3844450837 (FRC-42 hash; the documented InvokeEVM method number). Only this name is known.
macro_rules! vx_method_hash { ("InvokeEVM") => { 3844450837 }; }
verus! {
pub const EMPTY_ARR_CID: Cid = Cid { h: 0 };

#[derive(Clone, Copy, PartialEq, Eq, Structural)]
pub struct EthAddress(pub [u8; 20]);
/// actors/evm/shared/src/address.rs `impl From<U256> for EthAddress`: the low 20 bytes of the word. Opaque, deterministic.
pub uninterp spec fn eth_of_word(w: U256) -> EthAddress;
impl vstd::std_specs::convert::FromSpecImpl<U256> for EthAddress {
    open spec fn obeys_from_spec() -> bool { true }
    open spec fn from_spec(w: U256) -> EthAddress { eth_of_word(w) }
}
impl From<U256> for EthAddress {
    #[verifier::external_body]
    fn from(w: U256) -> (r: EthAddress) { unimplemented!() }
}
/// EthAddress::as_id: Some(id) exactly for the masked-ID form 0xff ‖ 0^11 ‖ id (proved on the real code by Kani, C20). Opaque here.
pub uninterp spec fn eth_as_id(a: EthAddress) -> Option<ActorID>;
impl EthAddress {
    #[verifier::external_body]
    pub fn as_id(&self) -> (r: Option<ActorID>) ensures r == eth_as_id(*self) { unimplemented!() }
}
/// `RawBytes -> Vec<u8>` (`.into()`): the bytes of the handle. Opaque, deterministic.
impl vstd::std_specs::convert::FromSpecImpl<RawBytes> for Vec<u8> {
    open spec fn obeys_from_spec() -> bool { true }
    uninterp spec fn from_spec(b: RawBytes) -> Vec<u8>;
}
pub open spec fn raw_bytes_of(b: RawBytes) -> Seq<u8> { <Vec<u8> as vstd::std_specs::convert::FromSpec<RawBytes>>::from_spec(b)@ }
impl From<RawBytes> for Vec<u8> {
    #[verifier::external_body]
    fn from(b: RawBytes) -> (r: Vec<u8>) { unimplemented!() }
}
/// actors/evm/shared/src/address.rs `impl From<EthAddress> for Address`: the ID address for a masked-ID (0xff..) address, else the
/// f4 address in the EAM namespace. Opaque, deterministic.
pub uninterp spec fn fil_of_eth(a: EthAddress) -> Address;
impl vstd::std_specs::convert::FromSpecImpl<EthAddress> for Address {
    open spec fn obeys_from_spec() -> bool { true }
    open spec fn from_spec(a: EthAddress) -> Address { fil_of_eth(a) }
}
impl From<EthAddress> for Address {
    #[verifier::external_body]
    fn from(a: EthAddress) -> (r: Address) { unimplemented!() }
}

/// runtime/src/dispatch.rs WithCodec<T, CODEC>: a transparent wrapper choosing the return codec; `.into()` wraps
pub const DAG_CBOR: u64 = 0x71;
pub struct WithCodec<T, const CODEC: u64>(pub T);
impl<T, const CODEC: u64> vstd::std_specs::convert::FromSpecImpl<T> for WithCodec<T, CODEC> {
    open spec fn obeys_from_spec() -> bool { true }
    open spec fn from_spec(v: T) -> WithCodec<T, CODEC> { WithCodec(v) }
}
impl<T, const CODEC: u64> From<T> for WithCodec<T, CODEC> {
    fn from(v: T) -> (r: WithCodec<T, CODEC>) { WithCodec(v) }
}
/// `U256::default()` is zero (uint crate: `impl Default` = all limbs 0), used by `.unwrap_or_default()` in System::get_storage
impl Default for U256 {
    #[verifier::external_body]
    fn default() -> (r: U256) ensures r@ == 0 { unimplemented!() }
}
/// `<[T]>::to_vec`: an element-wise clone (for `u8`: a copy)
pub assume_specification<T: Clone>[<[T]>::to_vec](s: &[T]) -> (r: Vec<T>)
    ensures r@.len() == s@.len(), forall|i: int| 0 <= i < s@.len() ==> call_ensures(T::clone, (&#[trigger] s@[i],), r@[i]),
        // (sequence extensionality, stated here so that callers need no proof step)
        (forall|i: int| 0 <= i < s@.len() ==> r@[i] == s@[i]) ==> r@ == s@;
/// caller set given as an array of references (`rt.validate_immediate_caller_is([&a])`, EVM GetStorageAt): the set of the referenced addresses
impl<'a, const N: usize> CallerAddrs for [&'a Address; N] {
    #[verifier::prophetic]
    open spec fn addrs(self) -> vstd::set::Set<Address> { self@.map_values(|x: &Address| *x).to_set() }
}
/// fvm_shared SendFlags::default(): no flag set
impl Default for SendFlags {
    fn default() -> (r: SendFlags) ensures r.bits == 0 { SendFlags { bits: 0 } }
}
/// `TokenAmount::from(&U256)` (actors/evm/shared/src/uints.rs): the same number, in attoFIL
impl<'a> vstd::std_specs::convert::FromSpecImpl<&'a U256> for TokenAmount {
    open spec fn obeys_from_spec() -> bool { false }
    uninterp spec fn from_spec(w: &'a U256) -> TokenAmount;
}
impl<'a> From<&'a U256> for TokenAmount {
    #[verifier::external_body]
    fn from(w: &'a U256) -> (r: TokenAmount) ensures r@ == w@ { unimplemented!() }
}
impl IpldBlock {
    /// like serialize_cbor (prelude/rt.rs), DAG-CBOR codec: an opaque content-addressed token of the value
    #[verifier::external_body]
    pub fn serialize_dag_cbor<T>(v: &T) -> (r: Result<Option<IpldBlock>, ActorError>)
        ensures r.is_ok() ==> r->Ok_0 == Some(IpldBlock { h: cbor_hash(*v) }), r.is_err() ==> r->Err_0.code == 21,
    { unimplemented!() }
}
impl ActorError {
    /// ActorError::checked(code, msg, data): message and data dropped (R4)
    pub fn checked(code: ExitCode, msg: String, data: Option<IpldBlock>) -> (r: ActorError) ensures r.code == code.value { ActorError { code: code.value } }
    /// take_data: removes the attached return data, keeps the exit code
    #[verifier::external_body]
    pub fn take_data(&mut self) -> (r: Option<IpldBlock>) ensures final(self).code == old(self).code { unimplemented!() }
}
/// actors/evm/src/state.rs BytecodeHash::EMPTY = keccak256(""): a fixed opaque value
impl BytecodeHash {
    pub const EMPTY: BytecodeHash = BytecodeHash { h: 0 };
}
} // verus!
