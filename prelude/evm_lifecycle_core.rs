// prelude/evm_lifecycle_core.rs — TRUSTED additions for the EVM lifecycle unit (C19: transient-storage lifetime, tombstones, SELFDESTRUCT).
//  * vx_is_some_and!(o, |t| b): `Option::is_some_and` with its closure inlined — `match o { Some(t) => b, None => false }`, which is the
//    definition of core::option::Option::is_some_and. Needed because Verus learns nothing from an un-annotated closure (same reason as R10).
//    The closure text itself still comes from /repo (the unit only re-brackets the call with two token substitutions).
//  * EMPTY_ARR_CID (runtime/src/runtime/empty.rs): the CID every actor's state root has before its constructor ran. An opaque token;
//    nothing is assumed about it except that it is a fixed value.
//  * `<&Store as Clone>::clone`: copying a shared reference to the blockstore.
macro_rules! vx_is_some_and {
    ($o:expr, (|$t:ident| $b:expr)) => { match $o { Some($t) => $b, None => false } };
}
verus! {
pub const EMPTY_ARR_CID: Cid = Cid { h: 0 };
} // verus!
