// prelude/evm_instr_stack_assumed.rs — ASSUMED logical contract of `Stack::dup` (actors/evm/src/interpreter/stack.rs).
// Its body is `unsafe` pointer code (reserve + raw write + set_len) that Verus cannot take; the body is a Kani target
// (/verif/kani/evm_stack, harness `dup_spec`: BOUNDED in the stack length). What is assumed here is what the safe prefix of
// the body decides (`assert!(i > 0)`, overflow check BEFORE underflow check) plus "the raw write appends a copy of the
// element `i` places below the top". Included AFTER the extracted `Stack` item, inside `verus!`.
impl Stack {
    #[verifier::external_body]
    pub fn dup(&mut self, i: usize) -> (r: Result<(), ActorError>)
        requires i > 0      // `assert!(i > 0)` panics otherwise
        ensures
            r.is_ok() <==> old(self).stack@.len() < 1024 && i <= old(self).stack@.len(),
            r.is_ok() ==> final(self).stack@ == old(self).stack@.push(old(self).stack@[old(self).stack@.len() - i]),
            r.is_err() ==> final(self).stack@ == old(self).stack@
                && r->Err_0.code == (if old(self).stack@.len() >= 1024 { 37u32 } else { 36u32 }),
    { unimplemented!() }
}
