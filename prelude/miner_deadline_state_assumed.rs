// prelude/miner_deadline_state_assumed.rs — TRUSTED / ASSUMED pieces used by the unit that puts deadline_state.rs (Deadline::record_faults,
// declare_faults_recovered, process_deadline_end, ...) under contract. Everything here stands for code OUTSIDE deadline_state.rs /
// partition_state.rs; each stub says which real code it stands for and why the contract is true of it.
verus! {

// ---- fvm_ipld_amt::Amt (through fil_actors_runtime::Array), additions to prelude/ipld.rs ---------------------------------------------------
impl<V, BS: Blockstore> Array<V, BS> {
    /// Amt::count(): the number of entries stored (NOT the highest index + 1)
    #[verifier::external_body]
    pub fn count(&self) -> (r: u64) ensures r as nat == self.view().dom().len() { unimplemented!() }
    /// Amt::new_with_bit_width: an empty array
    #[verifier::external_body]
    pub fn new_with_bit_width(store: BS, bit_width: u32) -> (r: Self) ensures r.view() == Map::<u64, V>::empty() { unimplemented!() }
}

// ---- sector_map.rs PartitionSectorMap(BTreeMap<u64, BitField>) ------------------------------------------------------------------------------
/// a finite map partition index -> sector numbers
#[verifier::external_body]
pub struct PartitionSectorMap { inner: Box<u8> }
impl PartitionSectorMap {
    pub uninterp spec fn view(&self) -> Map<u64, BitField>;
    /// `iter()` = `self.0.iter_mut().map(|(&i, x)| (i, x))`: BTreeMap iteration — every key exactly once, in increasing order, with its value.
    /// Modelled as the Vec of the pairs; the values are handed out as shared references (the deadline code only reads them; `&mut BitField`
    /// coerces to `&BitField` at every use in deadline_state.rs).
    #[verifier::external_body]
    pub fn iter(&mut self) -> (r: Vec<(u64, &BitField)>)
        ensures
            r@.len() == old(self).view().dom().len(),
            forall|i: int| 0 <= i < r@.len() ==> old(self).view().dom().contains(#[trigger] r@[i].0) && *r@[i].1 == old(self).view()[r@[i].0],
            forall|i: int, j: int| 0 <= i < j < r@.len() ==> r@[i].0 < r@[j].0,
            forall|k: u64| old(self).view().dom().contains(k) ==> exists|i: int| 0 <= i < r@.len() && #[trigger] r@[i].0 == k,
    { unimplemented!() }
    /// BTreeMap::len
    #[verifier::external_body]
    pub fn len(&self) -> (r: usize) ensures r as nat == self.view().dom().len() { unimplemented!() }
}

// ---- bitfield_queue.rs BitFieldQueue (AMT quantised epoch -> bitfield): the deadline's expiration queue, modelled in
// prelude/miner_deadline_state_partition_assumed.rs as the set of (quantised epoch, value) pairs -------------------------------------------------
impl BitFieldQueue {
    /// add_to_queue_values(epoch, values) = add_to_queue(epoch, &BitField::try_from_bits(values)?): the unit passes the slice itself instead of
    /// `slice.iter().copied()` (Verus has no iterator adapters)
    #[verifier::external_body]
    pub fn add_to_queue_values(&mut self, epoch: ChainEpoch, values: &[u64]) -> (r: anyhow::Result<()>)
        ensures
            final(self).quant == old(self).quant,
            r.is_ok() ==> forall|e: ChainEpoch, v: u64| #![trigger final(self).amt.view().contains((e, v))]
                final(self).amt.view().contains((e, v)) <==> old(self).amt.view().contains((e, v)) || (e == bfq_quant(old(self).quant, epoch) && values@.contains(v)),
    { unimplemented!() }
    /// add_many_to_queue_values(iter of (epoch, value)): only ever adds (which pairs: not modelled)
    #[verifier::external_body]
    pub fn add_many_to_queue_values(&mut self, values: &Vec<(ChainEpoch, u64)>) -> (r: anyhow::Result<()>)
        ensures final(self).quant == old(self).quant, r.is_ok() ==> old(self).amt.view().subset_of(final(self).amt.view()),
    { unimplemented!() }
    /// pop_until(until): removes every entry with key <= until and returns the union of their values; `modified` iff some entry was removed
    #[verifier::external_body]
    pub fn pop_until(&mut self, until: ChainEpoch) -> (r: anyhow::Result<(BitField, bool)>)
        ensures
            final(self).quant == old(self).quant,
            r.is_ok() ==> forall|v: u64| #![trigger r->Ok_0.0@.contains(v)] r->Ok_0.0@.contains(v) <==> exists|e: ChainEpoch| e <= until && #[trigger] old(self).amt.view().contains((e, v)),
            r.is_ok() ==> forall|e: ChainEpoch, v: u64| #![trigger final(self).amt.view().contains((e, v))]
                final(self).amt.view().contains((e, v)) <==> old(self).amt.view().contains((e, v)) && e > until,
            r.is_ok() && !r->Ok_0.1 ==> final(self).amt.view() == old(self).amt.view() && r->Ok_0.0@ == Set::<u64>::empty(),
    { unimplemented!() }
    /// cut(to_cut): re-indexes the queue after partitions were removed (not modelled)
    #[verifier::external_body]
    pub fn cut(&mut self, to_cut: &BitField) -> (r: anyhow::Result<()>) ensures final(self).quant == old(self).quant { unimplemented!() }
}

// ---- Deadline::record_proven_sectors: `post_partitions.iter().map(|p| p.index)` (iterator adapters are outside Verus' subset) ---------------------
pub open spec fn vx_post_index_seq(ps: Seq<PoStPartition>) -> Seq<u64> { Seq::new(ps.len(), |i: int| ps[i].index) }
/// the body IS the original expression, collected
#[verifier::external_body]
pub fn vx_post_indexes(ps: &[PoStPartition]) -> (r: Vec<u64>) ensures r@ == vx_post_index_seq(ps@) { ps.iter().map(|p| p.index).collect() }

// ---- Deadline::add_sectors: `updates.extend(new_sectors.iter().map(|s| (s.expiration, partition_idx)))` (iterator adapters are outside Verus'
// subset, and the sector infos are opaque here): only the list of (expiration epoch, partition) pairs handed to the expiration queue grows ----
#[verifier::external_body]
pub fn vx_extend_expiration_updates(updates: &mut Vec<(ChainEpoch, u64)>, new_sectors: &[SectorOnChainInfo], partition_idx: u64) { unimplemented!() }

// ---- fvm_ipld_bitfield ---------------------------------------------------------------------------------------------------------------------
impl BitField {
    /// BitField::try_from_bits(iter): the set of the given bits (Err only when a bit is out of the representable range)
    #[verifier::external_body]
    pub fn try_from_bits(bits: Vec<u64>) -> (r: Result<BitField, AnyhowError>) ensures r.is_ok() ==> r->Ok_0@ == bits@.to_set() { unimplemented!() }
    /// `bf.iter()` visits every set bit exactly once, in increasing order; modelled as the Vec of the bits
    #[verifier::external_body]
    pub fn iter(&self) -> (r: Vec<u64>)
        ensures
            r@.to_set() == self@, r@.len() == self@.len(),
            forall|i: int, j: int| 0 <= i < j < r@.len() ==> r@[i] < r@[j],
    { unimplemented!() }
    /// BitField::union(iter of &BitField): the union of all of them
    #[verifier::external_body]
    pub fn union(v: &Vec<BitField>) -> (r: BitField) ensures bf_union_is(v@, r@) { unimplemented!() }
}
/// `s` is the union of the sets of `v`
pub open spec fn bf_union_is(v: Seq<BitField>, s: Set<u64>) -> bool {
    forall|b: u64| s.contains(b) <==> exists|i: int| 0 <= i < v.len() && (#[trigger] v[i])@.contains(b)
}
} // verus!
