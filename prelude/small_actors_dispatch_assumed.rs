// prelude/small_actors_dispatch_assumed.rs — TRUSTED model around runtime/src/dispatch.rs (unit dispatch). Used WITHOUT prelude/rt.rs: the
// dispatch helpers are generic in the runtime type `RT` and never look inside it.
//  * fvm_ipld_encoding::ipld_block::IpldBlock { codec, data }, its `deserialize` / `serialize` (external crate, fvm_ipld_encoding 0.5.4):
//    whether a block decodes as a T, and the value it decodes to, are opaque deterministic functions of the block (and T); `serialize`
//    yields a block with the requested codec whose content is an opaque function of (codec, value), or an encoding error.
//  * fvm_ipld_encoding::Error and runtime/src/actor_error.rs `impl From<fvm_ipld_encoding::Error> for ActorError`: USR_SERIALIZATION (21).
//  * castaway `cast!(&v, &())` (is the generic T the unit type?): Ok exactly for T = () — `is_unit::<T>()`, with the one axiom that `()` is.
//  * `"text".into()` building an error message String (R4: text forgotten).
verus! {
pub const CBOR: u64 = 0x51;
pub const DAG_CBOR: u64 = 0x71;
pub struct IpldBlock { pub codec: u64, pub data: Vec<u8> }
pub struct EncodingError { pub h: u64 }
impl vstd::std_specs::convert::FromSpecImpl<EncodingError> for ActorError {
    open spec fn obeys_from_spec() -> bool { true }
    open spec fn from_spec(e: EncodingError) -> ActorError { ActorError { code: 21 } }
}
impl From<EncodingError> for ActorError {
    #[verifier::external_body]
    fn from(e: EncodingError) -> (r: ActorError) { unimplemented!() }
}
/// the `?` operator converts an encoding error with that `From` impl (Verus keeps the conversion behind `spec_from`): the result carries code 21
pub axiom fn axiom_encoding_error_code()
    ensures forall|e: EncodingError, r: ActorError| #[trigger] vstd::std_specs::control_flow::spec_from::<ActorError, EncodingError>(e, r) ==> r.code == 21;
pub uninterp spec fn block_decodes<T>(b: IpldBlock) -> bool;
pub uninterp spec fn block_decode<T>(b: IpldBlock) -> T;
pub uninterp spec fn block_encodes<T>(codec: u64, v: T) -> bool;
pub uninterp spec fn block_encode<T>(codec: u64, v: T) -> IpldBlock;
impl IpldBlock {
    #[verifier::external_body]
    pub fn deserialize<T>(&self) -> (r: Result<T, EncodingError>)
        ensures r.is_ok() == block_decodes::<T>(*self), r.is_ok() ==> r->Ok_0 == block_decode::<T>(*self)
    { unimplemented!() }
    #[verifier::external_body]
    pub fn serialize<T>(codec: u64, value: &T) -> (r: Result<IpldBlock, EncodingError>)
        ensures r.is_ok() == block_encodes::<T>(codec, *value), r.is_ok() ==> r->Ok_0 == block_encode::<T>(codec, *value) && r->Ok_0.codec == codec
    { unimplemented!() }
}
/// std Option::<Result<T, E>>::transpose: None -> Ok(None), Some(Ok(x)) -> Ok(Some(x)), Some(Err(e)) -> Err(e)
pub assume_specification<T, E>[std::option::Option::<std::result::Result<T, E>>::transpose](o: std::option::Option<std::result::Result<T, E>>) -> (r: std::result::Result<std::option::Option<T>, E>)
    ensures
        o.is_none() ==> r == Ok::<Option<T>, E>(None),
        o.is_some() && o->Some_0.is_ok() ==> r == Ok::<Option<T>, E>(Some(o->Some_0->Ok_0)),
        o.is_some() && o->Some_0.is_err() ==> r == Err::<Option<T>, E>(o->Some_0->Err_0);
pub uninterp spec fn is_unit<T>() -> bool;
pub axiom fn axiom_unit_is_unit() ensures is_unit::<()>();
/// castaway::cast!(&v, &()): Ok(&()) iff T is the unit type
#[verifier::external_body]
pub fn vx_cast_unit<T>(v: &T) -> (r: Result<(), ()>) ensures r.is_ok() == is_unit::<T>() { unimplemented!() }
} // verus!
