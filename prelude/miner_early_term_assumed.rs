// prelude/miner_early_term_assumed.rs — ASSUMED contracts around process_early_terminations (each names the real code it stands for).
/// termination.rs TerminationResult: epoch -> sectors, visited in epoch order; modelled as the list of (epoch, sector set) pairs
pub struct TerminationResult { pub pairs: Vec<(ChainEpoch, BitField)>, pub partitions_processed: u64, pub sectors_processed: u64 }
impl TerminationResult {
    pub fn is_empty(&self) -> (r: bool) ensures r == (self.sectors_processed == 0) { self.sectors_processed == 0 }
    /// `result.iter()` (BTreeMap iteration mapped to (epoch, &bitfield)): the pairs, in order
    #[verifier::external_body]
    pub fn vx_pairs(&self) -> (r: Vec<(ChainEpoch, &BitField)>)
        ensures r@.len() == self.pairs@.len(), forall|i: int| 0 <= i < r@.len() ==> (#[trigger] r@[i]).0 == self.pairs@[i].0 && *r@[i].1 == self.pairs@[i].1
    { unimplemented!() }
}
/// state.rs pop_early_terminations (walks the miner-level and deadline-level early-termination queues): ASSUMED — a deterministic
/// function of the state; touches only the early_terminations bitfield and the deadlines
pub uninterp spec fn pet_pop_ok(s: State, max_partitions: u64, max_sectors: u64) -> bool;
pub uninterp spec fn pet_pop_pairs(s: State, max_partitions: u64, max_sectors: u64) -> Seq<(ChainEpoch, BitField)>;
impl State {
    #[verifier::external_body]
    pub fn pop_early_terminations<BS: Blockstore>(&mut self, policy: &Policy, store: &BS, max_partitions: u64, max_sectors: u64) -> (r: anyhow::Result<(TerminationResult, bool)>)
        ensures
            r.is_ok() ==> r->Ok_0.0.pairs@ == pet_pop_pairs(*old(self), max_partitions, max_sectors)
                && (forall|i: int| 0 <= i < r->Ok_0.0.pairs@.len() ==> -0x2000_0000_0000_0000 < (#[trigger] r->Ok_0.0.pairs@[i]).0 < 0x2000_0000_0000_0000)
                && *final(self) == (State { early_terminations: final(self).early_terminations, deadlines: final(self).deadlines, ..*old(self) }),
    { unimplemented!() }
}
/// sectors.rs Sectors::load / load_sectors: the stored infos of the named sectors — a deterministic function of (sectors root, bitfield);
/// stored sectors have a non-negative pledge and epochs of chain magnitude (data invariants)
#[verifier::external_body]
#[verifier::reject_recursive_types(BS)]
pub struct Sectors<'db, BS> { p: PhantomData<&'db BS> }
pub uninterp spec fn sectors_named(root: Cid, bf: BitField) -> Seq<SectorOnChainInfo>;
impl<'db, BS: Blockstore> Sectors<'db, BS> {
    pub uninterp spec fn root(&self) -> Cid;
    #[verifier::external_body]
    pub fn load(store: &'db BS, root: &Cid) -> (r: anyhow::Result<Sectors<'db, BS>>) ensures r.is_ok() ==> r->Ok_0.root() == *root { unimplemented!() }
    #[verifier::external_body]
    pub fn load_sectors(&self, sector_numbers: &BitField) -> (r: Result<Vec<SectorOnChainInfo>, ActorError>)
        ensures r.is_ok() ==> r->Ok_0@ == sectors_named(self.root(), *sector_numbers) && forall|i: int| 0 <= i < r->Ok_0@.len() ==> (#[trigger] r->Ok_0@[i]).initial_pledge@ >= 0 && -0x2000_0000_0000_0000 < r->Ok_0@[i].activation < 0x2000_0000_0000_0000
    { unimplemented!() }
}
/// policy.rs qa_power_for_sector, monies.rs pledge_penalty_for_continued_fault: opaque amounts
#[verifier::external_body]
pub fn qa_power_for_sector(size: SectorSize, sector: &SectorOnChainInfo) -> (r: StoragePower) { unimplemented!() }
#[verifier::external_body]
pub fn pledge_penalty_for_continued_fault(reward_estimate: &FilterEstimate, network_qa_power_estimate: &FilterEstimate, qa_sector_power: &StoragePower) -> (r: TokenAmount) { unimplemented!() }
pub mod emit {
    use super::*;
    #[verifier::external_body]
    pub fn sector_terminated(rt: &mut Rt, sector: SectorNumber) -> (r: Result<(), ActorError>)
        ensures r.is_ok() ==> *final(rt) == (Rt { events: Ghost(old(rt).events@ + 1), ..*old(rt) }), r.is_err() ==> *final(rt) == *old(rt)
    { unimplemented!() }
}
impl BitField {
    #[verifier::external_body]
    pub fn try_from_bits(bits: Vec<u64>) -> (r: Result<BitField, AnyhowError>) ensures r.is_ok() ==> r->Ok_0@ == bits@.to_set() { unimplemented!() }
}
