// prelude/verifreg_expiry_assumed.rs — TRUSTED/ASSUMED stubs of the verifreg expiry unit (remove_expired_allocations,
// remove_expired_claims, extend_claim_terms). Included INSIDE the unit's `verus!{}` block, after the `Allocation` / `Claim` items.
// Every item below stands for code outside the three verifreg source files; the comment says which and why the contract is true of it.

// ---- num-bigint `impl AddAssign<u64> for BigInt` (`recovered_datacap += existing.size.0`): mathematical addition ----
impl vstd::std_specs::ops::AddAssignSpecImpl<u64> for BigInt {
    open spec fn obeys_add_assign_spec() -> bool { false }
    open spec fn add_assign_req(&self, rhs: u64) -> bool { true }
    uninterp spec fn add_assign_spec(&self, rhs: u64) -> &BigInt;
}
impl AddAssign<u64> for BigInt {
    #[verifier::external_body]
    fn add_assign(&mut self, rhs: u64) ensures final(self)@ == old(self)@ + rhs as int { unimplemented!() }
}

// ---- runtime/src/util/batch_return.rs, the parts prelude/batch.rs does not cover -------------------------------------
/// the items of `items` whose verdict in `codes` is 0 (success), in order
pub open spec fn batch_ok_items<T>(codes: Seq<u32>, items: Seq<T>) -> Seq<T>
    decreases items.len()
{
    if items.len() == 0 || codes.len() == 0 { Seq::empty() }
    else {
        let rest = batch_ok_items(codes.drop_last(), items.drop_last());
        if codes.last() == 0 { rest.push(items.last()) } else { rest }
    }
}
impl BatchReturn {
    /// `BatchReturn::empty()`: success_count 0, no failures — the empty verdict sequence
    #[verifier::external_body]
    pub fn empty() -> (r: BatchReturn) ensures r.codes() == Seq::<u32>::empty() { unimplemented!() }
    /// `BatchReturn::ok(n)`: success_count n, no failures — n verdicts, all 0
    #[verifier::external_body]
    pub fn ok(n: u32) -> (r: BatchReturn)
        ensures r.codes().len() == n as nat, forall|i: int| 0 <= i < n ==> #[trigger] r.codes()[i] == 0
    { unimplemented!() }
    /// `successes(items)`: PANICS unless `items.len() == self.size()` (hence the precondition); walks `items` in order and keeps a
    /// reference to item i iff index i is not one of the recorded failures, i.e. iff verdict i is 0. (The real parameter is `&[T]`;
    /// both call sites pass a `&Vec<u64>`.)
    #[verifier::external_body]
    pub fn successes<'i, T>(&self, items: &'i Vec<T>) -> (r: Vec<&'i T>)
        requires items@.len() == self.codes().len()
        ensures r@.len() == batch_ok_items(self.codes(), items@).len(),
            forall|i: int| 0 <= i < r@.len() ==> *(#[trigger] r@[i]) == batch_ok_items(self.codes(), items@)[i]
    { unimplemented!() }
}

/// `v.iter().collect::<Vec<&T>>()`: references to the elements of `v`, in order (std iterator adapters are not supported by this Verus)
#[verifier::external_body]
pub fn vx_collect_refs<'i, T>(v: &'i Vec<T>) -> (r: Vec<&'i T>)
    ensures r@.len() == v@.len(), forall|i: int| 0 <= i < r@.len() ==> *(#[trigger] r@[i]) == v@[i]
{ unimplemented!() }

// ---- fvm_ipld_hamt::BytesKey / runtime `parse_uint_key` / MapMap::for_each_in ------------------------------------------
/// a raw HAMT key. `uint()` is the u64 it decodes to as an unsigned varint (if it does)
#[verifier::external_body]
pub struct BytesKey { inner: Box<u8> }
impl BytesKey { pub uninterp spec fn uint(&self) -> Option<u64>; }
pub struct UVarintError {}
/// runtime/src/lib.rs `parse_uint_key`: unsigned-varint decoding of the key bytes. May fail; when it succeeds the value is the decoded one.
#[verifier::external_body]
pub fn parse_uint_key(s: &BytesKey) -> (r: Result<u64, UVarintError>)
    ensures r.is_ok() ==> s.uint() == Some(r->Ok_0)
{ unimplemented!() }
impl<'a, BS: Blockstore, V, K1> MapMap<'a, BS, V, K1, u64> {
    /// target of the (textual) R16 rewrite of `m.for_each_in(k1, |key, v| { BODY; Ok(()) })`: the entries that `for_each_in` passes to its
    /// closure. mapmap.rs: loads the inner HAMT of `k1` (nothing visited when there is none) and runs `Hamt::for_each`, which visits every
    /// entry of that inner map exactly once. Inner keys are written as `u64_key(k2)` (the varint encoding `parse_uint_key` inverts), which is
    /// what the `(K1, u64)`-keyed view of prelude/ipld.rs abstracts: entry i carries the key bytes of some `k2` with `(k1, k2)` in the view and
    /// that entry's value; distinct entries have distinct `k2`; every `(k1, k2)` of the view is visited. Err = traversal/load error.
    #[verifier::external_body]
    pub fn vx_entries_in<'b>(&'b mut self, k1: K1) -> (r: Result<Vec<(&'b BytesKey, &'b V)>, AnyhowError>)
        ensures
            final(self).view() == old(self).view(),
            r.is_ok() ==> (forall|i: int| 0 <= i < r->Ok_0@.len() ==> {
                let e = #[trigger] r->Ok_0@[i];
                e.0.uint().is_some() && old(self).view().dom().contains((k1, e.0.uint()->Some_0)) && *e.1 == old(self).view()[(k1, e.0.uint()->Some_0)]
            }),
            r.is_ok() ==> (forall|i: int, j: int| 0 <= i < j < r->Ok_0@.len() ==> r->Ok_0@[i].0.uint() != r->Ok_0@[j].0.uint()),
            r.is_ok() ==> (forall|k2: u64| old(self).view().dom().contains((k1, k2)) ==> exists|i: int| 0 <= i < r->Ok_0@.len() && #[trigger] r->Ok_0@[i].0.uint() == Some(k2)),
    { unimplemented!() }
}

// ---- actors/verifreg/src/emit.rs: each builds one event and calls `rt.emit_event` — one actor event, no other effect; the
//      `EventBuilder::build()?` may fail, which leaves the runtime untouched. (Substituted for the paths `emit::…`: the module
//      name clashes with prelude/verifreg.rs.)
#[verifier::external_body]
pub fn vx_emit_allocation_removed(rt: &mut Rt, id: AllocationID, alloc: &Allocation) -> (r: Result<(), ActorError>)
    ensures r.is_ok() ==> *final(rt) == (Rt { events: Ghost(old(rt).events@ + 1), ..*old(rt) }), r.is_err() ==> *final(rt) == *old(rt)
{ unimplemented!() }
#[verifier::external_body]
pub fn vx_emit_claim_removed(rt: &mut Rt, id: ClaimID, claim: &Claim) -> (r: Result<(), ActorError>)
    ensures r.is_ok() ==> *final(rt) == (Rt { events: Ghost(old(rt).events@ + 1), ..*old(rt) }), r.is_err() ==> *final(rt) == *old(rt)
{ unimplemented!() }
#[verifier::external_body]
pub fn vx_emit_claim_updated(rt: &mut Rt, id: ClaimID, claim: &Claim) -> (r: Result<(), ActorError>)
    ensures r.is_ok() ==> *final(rt) == (Rt { events: Ghost(old(rt).events@ + 1), ..*old(rt) }), r.is_err() ==> *final(rt) == *old(rt)
{ unimplemented!() }
