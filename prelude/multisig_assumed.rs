// prelude/multisig_assumed.rs — TRUSTED stubs for the multisig method unit.
//  * compute_proposal_hash (lib.rs): blake2b over the CBOR of (first approver, to, value, method, params) — an opaque
//    deterministic function of exactly those fields (so an approval change of the FIRST approver changes the hash input).
//  * the two byte-string comparisons of a caller-supplied hash against it, kept as the original expressions.
//  * Vec::retain with a `!= x` predicate as the order-preserving removal of all occurrences (helper body IS the original call).
//  * RawBytes/IpldBlock plumbing of a send's return data (opaque handles).
verus! {
pub uninterp spec fn proposal_hash_spec(requester: Option<Address>, to: Address, value: int, method: MethodNum, params: RawBytes) -> Seq<u8>;
pub open spec fn first_of(s: Seq<Address>) -> Option<Address> { if s.len() > 0 { Some(s[0]) } else { None } }
#[verifier::external_body]
pub fn compute_proposal_hash(txn: &Transaction, sys: &Rt) -> (r: anyhow::Result<[u8; 32]>)
    ensures r.is_ok() ==> r->Ok_0@ == proposal_hash_spec(first_of(txn.approved@), txn.to, txn.value@, txn.method, txn.params)
{ unimplemented!() }
/// `proposal_hash != calculated_hash` (Vec<u8> against [u8; 32])
#[verifier::external_body]
pub fn vx_hash_ne(proposal_hash: &Vec<u8>, calculated_hash: &[u8; 32]) -> (r: bool)
    ensures r == (proposal_hash@ != calculated_hash@)
{ proposal_hash != calculated_hash }

/// all occurrences of `a` removed, order of the rest preserved
pub open spec fn remove_all(s: Seq<Address>, a: Address) -> Seq<Address>
    decreases s.len()
{
    if s.len() == 0 { s } else if s.last() == a { remove_all(s.drop_last(), a) } else { remove_all(s.drop_last(), a).push(s.last()) }
}
/// `v.retain(|s| s != a)`
#[verifier::external_body]
pub fn vx_retain_ne(v: &mut Vec<Address>, a: &Address)
    ensures final(v)@ == remove_all(old(v)@, *a)
{ v.retain(|s| s != a) }

// derive(Clone) re-stated (derives are stripped): TRUSTED, field-wise copies
impl Clone for Transaction {
    #[verifier::external_body]
    fn clone(&self) -> (r: Self) ensures tv(r) == tv(*self) { unimplemented!() }
}
impl Clone for State {
    #[verifier::external_body]
    fn clone(&self) -> (r: Self) ensures sv(r) == sv(*self) { unimplemented!() }
}

impl RawBytes {
    pub fn default() -> (r: RawBytes) ensures r.h == 0 { RawBytes { h: 0 } }
    /// `RawBytes::new(block.data)`
    #[verifier::external_body]
    pub fn from_block(b: IpldBlock) -> (r: RawBytes) ensures r.h == b.h { unimplemented!() }
}
impl vstd::std_specs::convert::FromSpecImpl<RawBytes> for Option<IpldBlock> {
    open spec fn obeys_from_spec() -> bool { true }
    open spec fn from_spec(b: RawBytes) -> Option<IpldBlock> { Some(IpldBlock { h: b.h }) }
}
impl From<RawBytes> for Option<IpldBlock> {
    #[verifier::external_body]
    fn from(b: RawBytes) -> (r: Option<IpldBlock>) { unimplemented!() }
}
impl ActorError {
    #[verifier::external_body]
    pub fn take_data(&mut self) -> (r: Option<IpldBlock>) ensures final(self).code == old(self).code { unimplemented!() }
}
} // verus!
