// prelude/miner_cron_payload.rs — TRUSTED. fvm_ipld_encoding::from_slice for the miner's cron payload: decoding may fail; when it succeeds the
// value is a function of the bytes (the inverse of the serialisation used when the event was enrolled is NOT claimed here).
verus! {
pub uninterp spec fn cron_payload_of(bytes: Seq<u8>) -> CronEventPayload;
#[verifier::external_body]
pub fn from_slice(bytes: &Vec<u8>) -> (r: Result<CronEventPayload, AnyhowError>)
    ensures r.is_ok() ==> r->Ok_0 == cron_payload_of(bytes@)
{ unimplemented!() }
} // verus!
