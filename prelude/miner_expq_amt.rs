// prelude/miner_expq_amt.rs — TRUSTED additions used by the miner queue units (bitfield_queue.rs, expiration_queue.rs, sectors.rs):
// traversal / batch deletion of fvm_ipld_amt::Amt (through fil_actors_runtime::Array), a few fvm_ipld_bitfield operations and std collection
// operations. Every item says which external code it stands for. Nothing here mentions the miner's queues themselves.
verus! {
pub type AmtError = AnyhowError;
/// `?` on `i64::try_into::<u64>()` inside a function returning anyhow::Result: anyhow's blanket `From<E: std::error::Error>` (text only)
impl vstd::std_specs::convert::FromSpecImpl<std::num::TryFromIntError> for AnyhowError {
    open spec fn obeys_from_spec() -> bool { true }
    open spec fn from_spec(e: std::num::TryFromIntError) -> AnyhowError { AnyhowError { actor_code: None } }
}
impl From<std::num::TryFromIntError> for AnyhowError {
    fn from(e: std::num::TryFromIntError) -> (r: AnyhowError) { AnyhowError { actor_code: None } }
}

impl<V, BS: Blockstore> Array<V, BS> {
    /// What `Amt::iter()` (and with it for_each / for_each_while / for_each_mut / for_each_while_mut) visits: every index of the array exactly
    /// once, in strictly INCREASING index order, with the stored value (fvm_ipld_amt iter.rs walks the trie left to right). Err = a block
    /// failed to load. The traversal functions themselves take closures that capture `&mut` locals, which Verus cannot express; the units
    /// replace `amt.for_each_while(|k, v| { .. return Ok(false) .. Ok(true) })?` textually by a loop over this vector with `break`.
    #[verifier::external_body]
    pub fn vx_entries_sorted(&self) -> (r: Result<Vec<(u64, &V)>, AnyhowError>)
        ensures r.is_ok() ==> amt_entries(self.view(), r->Ok_0@),
    { unimplemented!() }
    /// the same for the mutable traversals: the indices (increasing); the value of each index is then borrowed with `vx_get_mut`
    #[verifier::external_body]
    pub fn vx_keys_sorted(&self) -> (r: Result<Vec<u64>, AnyhowError>)
        ensures r.is_ok() ==> amt_keys(self.view(), r->Ok_0@),
    { unimplemented!() }
    /// the `&mut ValueMut<'_, V>` handed to the closure of for_each_mut / for_each_while_mut, as a plain `&mut V` to the stored value of an
    /// existing index (ValueMut derefs to it; assigning through it marks the node dirty, i.e. the new value is what the array holds afterwards)
    #[verifier::external_body]
    pub fn vx_get_mut(&mut self, i: u64) -> (r: &mut V)
        requires old(self).view().dom().contains(i),
        ensures *r == old(self).view()[i], final(self).view() == old(self).view().insert(i, *final(r)),
    { unimplemented!() }
    /// Amt::batch_delete(iter, strict = true): deletes the given indices one by one (sorted); Ok only if EVERY index was present at its turn
    /// (so the indices are pairwise distinct) — then exactly they are gone. On Err some of them may already be gone (nothing is promised).
    /// The bool is "something was deleted".
    #[verifier::external_body]
    pub fn batch_delete(&mut self, iter: Vec<u64>, strict: bool) -> (r: Result<bool, AnyhowError>)
        requires strict,
        ensures
            r.is_ok() ==> iter@.no_duplicates() && (forall|j: int| 0 <= j < iter@.len() ==> old(self).view().dom().contains(#[trigger] iter@[j])),
            r.is_ok() ==> final(self).view() == old(self).view().remove_keys(iter@.to_set()),
            r.is_ok() ==> r->Ok_0 == (iter@.len() > 0),
    { unimplemented!() }
}
/// `es` lists the entries of `m`: every key exactly once, in strictly increasing key order, with its value
pub open spec fn amt_entries<V>(m: Map<u64, V>, es: Seq<(u64, &V)>) -> bool {
    &&& forall|i: int| 0 <= i < es.len() ==> m.dom().contains(#[trigger] es[i].0) && *es[i].1 == m[es[i].0]
    &&& forall|i: int, j: int| 0 <= i < j < es.len() ==> (#[trigger] es[i]).0 < (#[trigger] es[j]).0
    &&& forall|k: u64| m.dom().contains(k) ==> exists|i: int| 0 <= i < es.len() && #[trigger] es[i].0 == k
}
pub open spec fn amt_keys<V>(m: Map<u64, V>, ks: Seq<u64>) -> bool {
    &&& forall|i: int| 0 <= i < ks.len() ==> m.dom().contains(#[trigger] ks[i])
    &&& forall|i: int, j: int| 0 <= i < j < ks.len() ==> #[trigger] ks[i] < #[trigger] ks[j]
    &&& forall|k: u64| m.dom().contains(k) ==> exists|i: int| 0 <= i < ks.len() && #[trigger] ks[i] == k
}

// ---- fvm_ipld_bitfield ---------------------------------------------------------------------------------------------------------------------
/// number of members of `c` below `x`
pub open spec fn bf_rank(c: Set<u64>, x: u64) -> nat { c.filter(|y: u64| y < x).len() }
/// BitField::cut: the bits of `s` not in `c`, each moved down by the number of cut bits below it ("shifting remaining bits to the left")
pub open spec fn bf_cut(s: Set<u64>, c: Set<u64>) -> Set<u64> { s.difference(c).map(|x: u64| (x - bf_rank(c, x)) as u64) }
impl BitField {
    /// BitField::try_from_bits(iter): the set of the given bits (Err only when a bit is u64::MAX, which a bitfield cannot hold)
    #[verifier::external_body]
    pub fn try_from_bits(bits: Vec<u64>) -> (r: Result<BitField, AnyhowError>) ensures r.is_ok() ==> r->Ok_0@ == bits@.to_set() { unimplemented!() }
    /// `bf.iter()` visits every set bit exactly once, in increasing order; modelled as the Vec of the bits (`iter_spec`: that list)
    pub uninterp spec fn iter_spec(&self) -> Seq<u64>;
    #[verifier::external_body]
    pub fn iter(&self) -> (r: Vec<u64>)
        ensures
            r@ == self.iter_spec(),
            r@.to_set() == self@, r@.len() == self@.len(), r@.no_duplicates(),
            forall|i: int, j: int| 0 <= i < j < r@.len() ==> r@[i] < r@[j],
    { unimplemented!() }
    /// BitField::cut(&self, other) (see `bf_cut`); in particular the result is empty exactly when every bit of self is cut
    #[verifier::external_body]
    pub fn cut(&self, other: &BitField) -> (r: BitField)
        ensures r@ == bf_cut(self@, other@), (r@ =~= Set::<u64>::empty()) == self@.subset_of(other@), r@.len() == self@.difference(other@).len(),
    { unimplemented!() }
}
impl BitField {
    /// BitField::union(iter of &BitField) = fold with `|` from the empty field: the union of all of them (the units pass `&vec` for `vec.iter()`)
    #[verifier::external_body]
    pub fn union(v: &Vec<BitField>) -> (r: BitField) ensures bf_union_is(v@, r@) { unimplemented!() }
}
/// `s` is the union of the sets of `v`
pub open spec fn bf_union_is(v: Seq<BitField>, s: Set<u64>) -> bool {
    forall|b: u64| s.contains(b) <==> exists|i: int| 0 <= i < v.len() && (#[trigger] v[i])@.contains(b)
}
/// `v.iter().copied()` handed to BitField::try_from_bits (collected there): the same numbers. The body IS the original expression, collected.
#[verifier::external_body]
pub fn vx_copied(v: &Vec<u64>) -> (r: Vec<u64>) ensures r@ == v@ { v.iter().copied().collect() }
/// `acc.extend(&v)` (Extend<&u64> for Vec<u64>): appends the elements of v. The body IS the original statement.
#[verifier::external_body]
pub fn vx_extend_u64(acc: &mut Vec<u64>, v: &Vec<u64>) ensures final(acc)@ == old(acc)@ + v@ { acc.extend(v) }
/// `let epoch: ChainEpoch = e.try_into()?` for an AMT index e: u64 (vstd has no specification of `i64: TryFrom<u64>`): Ok exactly when e fits an i64, with the
/// same value. The body IS the original expression.
#[verifier::external_body]
pub fn vx_index_to_epoch(e: u64) -> (r: Result<ChainEpoch, AnyhowError>)
    ensures r.is_ok() <==> e <= 0x7fff_ffff_ffff_ffff, r.is_ok() ==> r->Ok_0 == e,
{ Ok(e.try_into()?) }
} // verus!
