// prelude/eth_address_bytes.rs — TRUSTED glue for the byte-level predicates of actors/evm/shared/src/address.rs.
//  * vx_array_middle_20: target of extraction rule R24 for `let [prefix, middle @ .., index] = self.0;` on a 20-byte array: the 18 inner bytes.
//  * vx_eq_zero_18: `middle == [0u8; 18]` (array comparison with a repeat expression): every byte is zero.
verus! {
#[derive(Clone, Copy)]
pub struct EthAddress(pub [u8; 20]);
#[verifier::external_body]
pub fn vx_array_middle_20(a: &[u8; 20]) -> (r: [u8; 18]) ensures forall|i: int| 0 <= i < 18 ==> #[trigger] r@[i] == a@[i + 1] { unimplemented!() }
#[verifier::external_body]
pub fn vx_eq_zero_18(a: &[u8; 18]) -> (r: bool) ensures r == (forall|i: int| 0 <= i < 18 ==> #[trigger] a@[i] == 0) { unimplemented!() }
} // verus!
