// prelude/miner_post_assumed.rs — TRUSTED / ASSUMED pieces of the unit that puts the miner METHODS through which proven power reaches the
// power actor under contract (submit_windowed_post, declare_faults, declare_faults_recovered, dispute_windowed_post; property C02).
// Everything deadline-level (deadline_state.rs — the subject of the unit `miner_deadline_state`) is an OPAQUE stub here: a deterministic
// function of its inputs (the blockstore is content-addressed, prelude/cbor.rs) named by `dlx_*` uninterpreted functions, plus the frame
// that is visible in the callee's body. The stubs are named after the real functions so that they can be replaced by the real bodies
// once deadline_state.rs is under contract in the same unit. Nothing is assumed about WHAT power they compute: the method contracts say
// that exactly the delta the deadline reported reaches the power actor.

// ---- fvm_shared::sector::PoStProof, fvm_shared::randomness::Randomness, fvm_shared::crypto::randomness::DomainSeparationTag ----------------
pub struct PoStProof { pub post_proof: RegisteredPoStProof, pub proof_bytes: Vec<u8> }
/// `pub struct Randomness(pub Vec<u8>)` with derived PartialEq: equality of the byte strings
pub struct Randomness(pub Vec<u8>);
impl vstd::std_specs::cmp::PartialEqSpecImpl for Randomness {
    open spec fn obeys_eq_spec() -> bool { true }
    open spec fn eq_spec(&self, other: &Randomness) -> bool { self.0@ == other.0@ }
}
impl PartialEq for Randomness {
    #[verifier::external_body]
    fn eq(&self, other: &Randomness) -> (r: bool) ensures r == (self.0@ == other.0@) { unimplemented!() }
}
pub const RANDOMNESS_LENGTH: usize = 32;
#[derive(Clone, Copy, PartialEq, Eq, Structural)]
pub enum DomainSeparationTag { TicketProduction, ElectionProofProduction, WinningPoStChallengeSeed, WindowedPoStChallengeSeed, SealRandomness, InteractiveSealChallengeSeed, WindowPoStDeadlineAssignment, MarketDealCronSeed, PoStChainCommit }
/// `[u8; RANDOMNESS_LENGTH]` as returned by the randomness syscalls; `.into()` turns it into the byte vector (std `From<[u8; N]> for Vec<u8>`)
pub struct RandBytes { pub v: Vec<u8> }
impl vstd::std_specs::convert::FromSpecImpl<RandBytes> for Vec<u8> {
    open spec fn obeys_from_spec() -> bool { true }
    open spec fn from_spec(b: RandBytes) -> Vec<u8> { b.v }
}
impl From<RandBytes> for Vec<u8> {
    fn from(b: RandBytes) -> (r: Vec<u8>) { b.v }
}
/// the chain's ticket randomness is a function of (tag, epoch, entropy) — the entropy is always empty at the one call site of this unit
pub uninterp spec fn rt_ticket_randomness(tag: DomainSeparationTag, epoch: ChainEpoch) -> Seq<u8>;
/// whether the runtime can still look that far back (a property of the chain, not of the actor)
pub uninterp spec fn rt_ticket_available(epoch: ChainEpoch) -> bool;
impl Rt {
    /// Runtime::get_randomness_from_tickets (syscall): reads the chain, changes nothing of the activation
    #[verifier::external_body]
    pub fn get_randomness_from_tickets(&self, personalization: DomainSeparationTag, rand_epoch: ChainEpoch, entropy: &[u8; 0]) -> (r: Result<RandBytes, ActorError>)
        ensures r.is_ok() ==> r->Ok_0.v@ == rt_ticket_randomness(personalization, rand_epoch) && r->Ok_0.v@.len() == 32
    { unimplemented!() }
}
impl RegisteredPoStProof {
    /// fvm_shared: size in bytes of one window PoSt proof of this type (192 for every registered type; Err for unknown types)
    #[verifier::external_body]
    pub fn proof_size(self) -> (r: Result<usize, String>) ensures r.is_ok() ==> r->Ok_0 <= 0x1000 { unimplemented!() }
}
impl ProofSet {
    /// runtime/src/runtime/policy.rs ProofSet::contains: table lookup
    #[verifier::external_body]
    pub fn contains(&self, proof: RegisteredPoStProof) -> (r: bool) { unimplemented!() }
}

/// `info.control_addresses.iter().chain(&[info.worker, info.owner])` (iterator adapters are outside Verus' subset) collected: the control
/// addresses, the worker and the owner — the body IS the original expression, collected
#[verifier::external_body]
pub fn vx_control_worker_owner(info: &MinerInfo) -> (r: Vec<Address>)
    ensures r@.to_set() =~= info.control_addresses@.to_set().insert(info.worker).insert(info.owner)
{ info.control_addresses.iter().chain(&[info.worker, info.owner]).copied().collect() }

// ---- sectors.rs Sectors: only its root is visible here ---------------------------------------------------------------------------------------
#[verifier::external_body]
#[verifier::reject_recursive_types(BS)]
pub struct Sectors<'db, BS> { p: PhantomData<&'db BS> }
impl<'db, BS: Blockstore> Sectors<'db, BS> {
    pub uninterp spec fn root(&self) -> Cid;
    /// Sectors::load: the AMT at `root`
    #[verifier::external_body]
    pub fn load(store: &'db BS, root: &Cid) -> (r: anyhow::Result<Sectors<'db, BS>>) ensures r.is_ok() ==> r->Ok_0.root() == *root { unimplemented!() }
    /// Sectors::load_for_proof: the infos of the proven sectors, a known-good one substituted for each ignored one — reads the AMT only
    #[verifier::external_body]
    pub fn load_for_proof(&self, proven_sectors: &BitField, expected_faults: &BitField) -> (r: anyhow::Result<Vec<SectorOnChainInfo>>) { unimplemented!() }
}
/// lib.rs verify_windowed_post: draws the beacon randomness for the challenge epoch and calls the `verify_post` syscall — reads only;
/// whether the proof verifies is a function of the inputs
pub uninterp spec fn post_verifies(challenge_epoch: ChainEpoch, sectors: Seq<SectorOnChainInfo>, proofs: Seq<PoStProof>) -> bool;
#[verifier::external_body]
pub fn verify_windowed_post(rt: &mut Rt, challenge_epoch: ChainEpoch, sectors: &Vec<SectorOnChainInfo>, proofs: Vec<PoStProof>) -> (r: Result<bool, ActorError>)
    ensures *final(rt) == *old(rt), r.is_ok() ==> r->Ok_0 == post_verifies(challenge_epoch, sectors@, proofs@)
{ unimplemented!() }

// ---- sector_map.rs DeadlineSectorMap(BTreeMap<u64, PartitionSectorMap>) / PartitionSectorMap(BTreeMap<u64, BitField>) ---------------------------
/// partition index -> declared sector numbers
#[verifier::external_body]
pub struct PartitionSectorMap { inner: Box<u8> }
impl PartitionSectorMap {
    pub uninterp spec fn view(&self) -> Map<u64, Set<u64>>;
}
/// deadline index -> partition index -> declared sector numbers
#[verifier::external_body]
pub struct DeadlineSectorMap { inner: Box<u8> }
/// PartitionSectorMap::add: the bitfield is merged into the partition's entry
pub open spec fn psm_add(m: Map<u64, Set<u64>>, p: u64, s: Set<u64>) -> Map<u64, Set<u64>> {
    m.insert(p, if m.dom().contains(p) { m[p].union(s) } else { s })
}
/// DeadlineSectorMap::add: `self.0.entry(deadline_idx).or_default().add(partition_idx, sector_numbers)`
pub open spec fn dsm_add(m: Map<u64, Map<u64, Set<u64>>>, d: u64, p: u64, s: Set<u64>) -> Map<u64, Map<u64, Set<u64>>> {
    m.insert(d, psm_add(if m.dom().contains(d) { m[d] } else { Map::<u64, Set<u64>>::empty() }, p, s))
}
/// the keys of a BTreeMap in iteration (= increasing) order: a function of the map
pub uninterp spec fn dsm_keys(m: Map<u64, Map<u64, Set<u64>>>) -> Seq<u64>;
impl DeadlineSectorMap {
    pub uninterp spec fn view(&self) -> Map<u64, Map<u64, Set<u64>>>;
    /// DeadlineSectorMap::new = Default: empty
    #[verifier::external_body]
    pub fn new() -> (r: Self) ensures r.view() == Map::<u64, Map<u64, Set<u64>>>::empty() { unimplemented!() }
    /// DeadlineSectorMap::add: rejects deadline indices >= wpost_period_deadlines, otherwise merges the declaration into the map
    #[verifier::external_body]
    pub fn add(&mut self, policy: &Policy, deadline_idx: u64, partition_idx: u64, sector_numbers: BitField) -> (r: anyhow::Result<()>)
        ensures
            r.is_ok() ==> deadline_idx < policy.wpost_period_deadlines && final(self).view() == dsm_add(old(self).view(), deadline_idx, partition_idx, sector_numbers@),
            r.is_err() ==> final(self).view() == old(self).view(),
    { unimplemented!() }
    /// DeadlineSectorMap::check: validates the bitfields and counts partitions / sectors against the maxima; `&mut` only because bitfield
    /// validation caches — the abstract content is unchanged
    #[verifier::external_body]
    pub fn check(&mut self, max_partitions: u64, max_sectors: u64) -> (r: anyhow::Result<()>) ensures final(self).view() == old(self).view() { unimplemented!() }
    /// `iter()` = `self.0.iter_mut().map(|(&i, x)| (i, x))`: BTreeMap iteration — every key exactly once, in increasing order, with its value.
    /// Modelled as the Vec of the pairs; the values are handed out as shared references (the methods only pass them on to the deadline, which
    /// only reads them as far as the abstract content goes)
    #[verifier::external_body]
    pub fn iter(&mut self) -> (r: Vec<(u64, &PartitionSectorMap)>)
        ensures
            final(self).view() == old(self).view(),
            r@.len() == dsm_keys(old(self).view()).len(),
            forall|i: int| 0 <= i < r@.len() ==> (#[trigger] r@[i]).0 == dsm_keys(old(self).view())[i] && old(self).view().dom().contains(r@[i].0) && r@[i].1.view() == old(self).view()[r@[i].0],
            forall|i: int, j: int| 0 <= i < j < r@.len() ==> dsm_keys(old(self).view())[i] < dsm_keys(old(self).view())[j],
            forall|i: int| 0 <= i < r@.len() ==> old(self).view().dom().contains(#[trigger] dsm_keys(old(self).view())[i]),
            forall|k: u64| old(self).view().dom().contains(k) ==> exists|i: int| 0 <= i < r@.len() && #[trigger] dsm_keys(old(self).view())[i] == k,
    { unimplemented!() }
}

// ---- deadline_state.rs: the deadline-level operations the methods drive (ASSUMED; under contract in the unit miner_deadline_state) ---------------
/// Deadline::record_proven_sectors
pub uninterp spec fn dlx_rps_ok(d: Deadline, sectors: Cid, ssize: SectorSize, quant: QuantSpec, fault_expiration: ChainEpoch, posts: Seq<PoStPartition>) -> bool;
pub uninterp spec fn dlx_rps_deadline(d: Deadline, sectors: Cid, ssize: SectorSize, quant: QuantSpec, fault_expiration: ChainEpoch, posts: Seq<PoStPartition>) -> Deadline;
pub uninterp spec fn dlx_rps_result(d: Deadline, sectors: Cid, ssize: SectorSize, quant: QuantSpec, fault_expiration: ChainEpoch, posts: Seq<PoStPartition>) -> PoStResult;
pub open spec fn post_index_set(posts: Seq<PoStPartition>) -> Set<u64> { posts.map_values(|p: PoStPartition| p.index).to_set() }
/// Deadline::record_post_proofs
pub uninterp spec fn dlx_rpp_deadline(d: Deadline, partitions: Set<u64>, proofs: Seq<PoStProof>) -> Deadline;
/// Deadline::record_faults
pub uninterp spec fn dlx_rf_ok(d: Deadline, sectors: Cid, ssize: SectorSize, quant: QuantSpec, fault_expiration: ChainEpoch, decl: Map<u64, Set<u64>>) -> bool;
pub uninterp spec fn dlx_rf_deadline(d: Deadline, sectors: Cid, ssize: SectorSize, quant: QuantSpec, fault_expiration: ChainEpoch, decl: Map<u64, Set<u64>>) -> Deadline;
pub uninterp spec fn dlx_rf_delta(d: Deadline, sectors: Cid, ssize: SectorSize, quant: QuantSpec, fault_expiration: ChainEpoch, decl: Map<u64, Set<u64>>) -> PowerPair;
/// Deadline::declare_faults_recovered
pub uninterp spec fn dlx_dfr_deadline(d: Deadline, sectors: Cid, ssize: SectorSize, decl: Map<u64, Set<u64>>) -> Deadline;
/// Deadline::take_post_proofs / load_partitions_for_dispute
pub uninterp spec fn dlx_tpp_deadline(d: Deadline, idx: u64) -> Deadline;
pub uninterp spec fn dlx_tpp_partitions(d: Deadline, idx: u64) -> Set<u64>;
pub uninterp spec fn dlx_tpp_proofs(d: Deadline, idx: u64) -> Seq<PoStProof>;
pub uninterp spec fn dlx_lpd_info(d: Deadline, partitions: Set<u64>) -> DisputeInfo;
impl Deadline {
    /// Deadline::record_proven_sectors: marks the partitions as proven for this window and returns the power moved. Deterministic in its inputs.
    /// Visible in its body (and proved on it by the deadline-state unit): it fails when a partition index occurs twice in the message or is
    /// already in `partitions_posted`; on success `partitions_posted` grows by exactly the posted indices, `PoStResult.partitions` is that
    /// set, and the proof-dispute fields / snapshots of the deadline are untouched.
    #[verifier::external_body]
    pub fn record_proven_sectors<BS: Blockstore>(&mut self, store: &BS, sectors: &Sectors<'_, BS>, sector_size: SectorSize, quant: QuantSpec,
            fault_expiration: ChainEpoch, post_partitions: &mut Vec<PoStPartition>) -> (r: anyhow::Result<PoStResult>)
        ensures
            r.is_ok() == dlx_rps_ok(*old(self), sectors.root(), sector_size, quant, fault_expiration, old(post_partitions)@),
            r.is_ok() ==> ({
                let d1 = dlx_rps_deadline(*old(self), sectors.root(), sector_size, quant, fault_expiration, old(post_partitions)@);
                let idx = post_index_set(old(post_partitions)@);
                &&& *final(self) == d1 && r->Ok_0 == dlx_rps_result(*old(self), sectors.root(), sector_size, quant, fault_expiration, old(post_partitions)@)
                &&& old(self).partitions_posted@.disjoint(idx) && d1.partitions_posted@ =~= old(self).partitions_posted@.union(idx) && r->Ok_0.partitions@ == idx
                &&& d1.optimistic_post_submissions == old(self).optimistic_post_submissions && d1.sectors_snapshot == old(self).sectors_snapshot
                &&& d1.partitions_snapshot == old(self).partitions_snapshot && d1.optimistic_post_submissions_snapshot == old(self).optimistic_post_submissions_snapshot
            }),
    { unimplemented!() }
    /// Deadline::record_post_proofs: appends (partitions, proofs) to the optimistic-submissions AMT; the only field written is
    /// `optimistic_post_submissions`
    #[verifier::external_body]
    pub fn record_post_proofs<BS: Blockstore>(&mut self, store: &BS, partitions: &BitField, proofs: &Vec<PoStProof>) -> (r: anyhow::Result<()>)
        ensures
            r.is_ok() ==> *final(self) == dlx_rpp_deadline(*old(self), partitions@, proofs@)
                && *final(self) == (Deadline { optimistic_post_submissions: final(self).optimistic_post_submissions, ..*old(self) }),
    { unimplemented!() }
    /// Deadline::record_faults: marks the declared sectors faulty and returns the power delta of the deadline (the negated active power of
    /// the newly faulty sectors — proved by the deadline-state unit, not assumed here). Deterministic in its inputs.
    #[verifier::external_body]
    pub fn record_faults<BS: Blockstore>(&mut self, store: &BS, sectors: &Sectors<'_, BS>, sector_size: SectorSize, quant: QuantSpec,
            fault_expiration_epoch: ChainEpoch, partition_sectors: &PartitionSectorMap) -> (r: anyhow::Result<PowerPair>)
        ensures
            r.is_ok() == dlx_rf_ok(*old(self), sectors.root(), sector_size, quant, fault_expiration_epoch, partition_sectors.view()),
            r.is_ok() ==> *final(self) == dlx_rf_deadline(*old(self), sectors.root(), sector_size, quant, fault_expiration_epoch, partition_sectors.view())
                && r->Ok_0 == dlx_rf_delta(*old(self), sectors.root(), sector_size, quant, fault_expiration_epoch, partition_sectors.view()),
    { unimplemented!() }
    /// Deadline::declare_faults_recovered: marks the declared faulty sectors as recovering; returns no power (its result type is `()`)
    #[verifier::external_body]
    pub fn declare_faults_recovered<BS: Blockstore>(&mut self, store: &BS, sectors: &Sectors<'_, BS>, sector_size: SectorSize,
            partition_sectors: &PartitionSectorMap) -> (r: anyhow::Result<()>)
        ensures r.is_ok() ==> *final(self) == dlx_dfr_deadline(*old(self), sectors.root(), sector_size, partition_sectors.view()),
    { unimplemented!() }
    /// Deadline::take_post_proofs: removes submission `idx` from the SNAPSHOT of optimistic submissions and returns it; the only field written
    /// is `optimistic_post_submissions_snapshot`
    #[verifier::external_body]
    pub fn take_post_proofs<BS: Blockstore>(&mut self, store: &BS, idx: u64) -> (r: anyhow::Result<(BitField, Vec<PoStProof>)>)
        ensures
            r.is_ok() ==> *final(self) == dlx_tpp_deadline(*old(self), idx) && r->Ok_0.0@ == dlx_tpp_partitions(*old(self), idx) && r->Ok_0.1@ == dlx_tpp_proofs(*old(self), idx)
                && *final(self) == (Deadline { optimistic_post_submissions_snapshot: final(self).optimistic_post_submissions_snapshot, ..*old(self) }),
    { unimplemented!() }
    /// Deadline::load_partitions_for_dispute: reads the partitions SNAPSHOT (`&self`)
    #[verifier::external_body]
    pub fn load_partitions_for_dispute<BS: Blockstore>(&self, store: &BS, partitions: BitField) -> (r: anyhow::Result<DisputeInfo>)
        ensures r.is_ok() ==> r->Ok_0 == dlx_lpd_info(*self, partitions@)
    { unimplemented!() }
}
/// monies.rs pledge_penalty_for_invalid_windowpost (fixed-point projection of the expected reward + a base penalty), policy.rs
/// reward_for_disputed_window_post (currently a constant): opaque amounts, deterministic functions of their inputs
pub uninterp spec fn ppiw_spec(reward: FilterEstimate, network_qa: FilterEstimate, qa_sector_power: int) -> int;
#[verifier::external_body]
pub fn pledge_penalty_for_invalid_windowpost(reward_estimate: &FilterEstimate, network_qa_power_estimate: &FilterEstimate, qa_sector_power: &StoragePower) -> (r: TokenAmount)
    ensures r@ == ppiw_spec(*reward_estimate, *network_qa_power_estimate, qa_sector_power@)
{ unimplemented!() }
pub uninterp spec fn rdwp_spec(proof_type: RegisteredPoStProof, raw: int, qa: int) -> int;
#[verifier::external_body]
pub fn reward_for_disputed_window_post(proof_type: RegisteredPoStProof, disputed_power: PowerPair) -> (r: TokenAmount)
    // the real value is the positive constant BASE_REWARD_FOR_DISPUTED_WINDOW_POST (4 FIL), whatever the arguments
    ensures r@ == rdwp_spec(proof_type, disputed_power.raw@, disputed_power.qa@), r@ >= 0
{ unimplemented!() }
