// prelude/evm_system_assumed.rs — ASSUMED contract of a repo function that is not verified (keccak hashing + raw block store):
/// assumed contract of System::set_bytecode (keccak + raw block store: opaque): installs SOME bytecode record, marks dirty, nothing else
impl<'r> System<'r> {
    #[verifier::external_body]
    pub fn set_bytecode(&mut self, bytecode: &[u8]) -> (r: Result<EvmBytecode, ActorError>)
        ensures
            final(self).saved_state_root.is_none(),
            r.is_ok() ==> final(self).bytecode == Some(r->Ok_0),
            final(self).slots == old(self).slots, final(self).transient_slots == old(self).transient_slots,
            final(self).nonce == old(self).nonce, final(self).tombstone == old(self).tombstone, final(self).readonly == old(self).readonly,
            final(self).current_transient_data_lifespan == old(self).current_transient_data_lifespan,
            *final(self).rt == *old(self).rt,
    { unimplemented!() }
}

