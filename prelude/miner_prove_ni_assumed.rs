// prelude/miner_prove_ni_assumed.rs — TRUSTED / ASSUMED pieces for ProveCommitSectorsNI in the unit `miner_prove`. Included INSIDE the unit's
// `verus!{}` block after the items SectorNIActivationInfo, ProveCommitSectorsNIParams / Return.

/// policy.rs can_prove_commit_ni_seal_proof: membership of the proof type in a policy table
#[verifier::external_body]
pub fn can_prove_commit_ni_seal_proof(policy: &Policy, proof: RegisteredSealProof) -> (r: bool) { unimplemented!() }
/// policy.rs raw_power_for_sector(size) = size in bytes
pub uninterp spec fn raw_power_spec(size: SectorSize) -> int;
#[verifier::external_body]
pub fn raw_power_for_sector(size: SectorSize) -> (r: StoragePower) ensures r@ == raw_power_spec(size) { unimplemented!() }
/// fvm_shared `BigInt * TokenAmount`
impl vstd::std_specs::ops::MulSpecImpl<TokenAmount> for BigInt {
    open spec fn obeys_mul_spec() -> bool { false }
    open spec fn mul_req(self, rhs: TokenAmount) -> bool { true }
    uninterp spec fn mul_spec(self, rhs: TokenAmount) -> TokenAmount;
}
impl Mul<TokenAmount> for BigInt { type Output = TokenAmount;
    #[verifier::external_body]
    fn mul(self, rhs: TokenAmount) -> (r: TokenAmount) ensures r@ == self@ * rhs@ { unimplemented!() } }
/// lib.rs validate_ni_sectors: per-sector checks on the PARAMETERS only (number range, expiration, sealer id, sealing number, sealed CID prefix,
/// randomness epoch); fails the whole message on a repeated sector number; reads randomness, sends nothing, does not touch the state. Returned: one
/// verdict and one proof input per sector, and the bitfield of ALL the sector numbers (which are pairwise distinct)
pub uninterp spec fn ni_sector_valid(policy: Policy, epoch: ChainEpoch, miner: ActorID, s: SectorNIActivationInfo, seal_proof: RegisteredSealProof) -> bool;
#[verifier::external_body]
pub fn validate_ni_sectors(rt: &Rt, sectors: &Vec<SectorNIActivationInfo>, seal_proof_type: RegisteredSealProof, all_or_nothing: bool)
        -> (r: Result<(BatchReturn, Vec<SectorSealProofInput>, BitField), ActorError>)
    ensures r.is_ok() ==> ({
        let (batch, inputs, numbers) = r->Ok_0;
        &&& batch.codes().len() == sectors@.len() && inputs@.len() == sectors@.len()
        &&& (forall|i: int| 0 <= i < sectors@.len() ==> (#[trigger] batch.codes()[i] == 0 <==> ni_sector_valid(rt_policy(), rt.epoch, rt.msg.receiver.id, sectors@[i], seal_proof_type)))
        &&& (forall|i: int| 0 <= i < sectors@.len() ==> numbers@.contains((#[trigger] sectors@[i]).sector_number))
        &&& (forall|x: u64| numbers@.contains(x) ==> exists|i: int| 0 <= i < sectors@.len() && (#[trigger] sectors@[i]).sector_number == x)
        &&& (forall|i: int, j: int| 0 <= i < j < sectors@.len() ==> (#[trigger] sectors@[i]).sector_number != (#[trigger] sectors@[j]).sector_number)
        &&& (all_or_nothing ==> forall|i: int| 0 <= i < sectors@.len() ==> #[trigger] batch.codes()[i] == 0)
    })
{ unimplemented!() }
impl State {
    /// state.rs assign_sectors_to_deadline (one named deadline; Deadline::add_sectors with proven = false — see the source): the only field of the miner
    /// state it writes is `deadlines`
    #[verifier::external_body]
    pub fn assign_sectors_to_deadline<BS: Blockstore>(&mut self, policy: &Policy, store: &BS, current_epoch: ChainEpoch, sectors: Vec<SectorOnChainInfo>,
            partition_size: u64, sector_size: SectorSize, deadline_idx: u64) -> (r: Result<(), ActorError>)
        ensures *final(self) == (State { deadlines: final(self).deadlines, ..*old(self) })
    { unimplemented!() }
}
/// lib.rs `valid_sectors.iter().map(|sector| SectorOnChainInfo { sector_number: sector.sector_number, seal_proof: params.seal_proof_type, sealed_cid:
/// sector.sealed_cid, deprecated_deal_ids: vec![], expiration: sector.expiration, activation: curr_epoch, deal_weight: zero, verified_deal_weight:
/// zero, initial_pledge: sector_initial_pledge.clone(), expected_day_reward: None, expected_storage_pledge: None, power_base_epoch: curr_epoch,
/// replaced_day_reward: None, sector_key_cid: None, flags: SIMPLE_QA_POWER, daily_fee: daily_fee.clone() }).collect()`: one info per valid sector
#[verifier::external_body]
pub fn vx_ni_sector_infos(valid: &Vec<&SectorNIActivationInfo>, seal_proof: RegisteredSealProof, curr_epoch: ChainEpoch, pledge: &TokenAmount, daily_fee: &TokenAmount) -> (r: Vec<SectorOnChainInfo>)
    ensures r@.len() == valid@.len(), forall|i: int| 0 <= i < r@.len() ==> ni_info(#[trigger] r@[i], *valid@[i], seal_proof, curr_epoch, pledge@)
{ unimplemented!() }
/// a sector activated WITHOUT data: no deal weight, no verified weight (nothing is claimed), power counted from now, the common pledge
pub open spec fn ni_info(si: SectorOnChainInfo, s: SectorNIActivationInfo, seal_proof: RegisteredSealProof, epoch: ChainEpoch, pledge: int) -> bool {
    si.sector_number == s.sector_number && si.seal_proof == seal_proof && si.sealed_cid == s.sealed_cid && si.expiration == s.expiration && si.activation == epoch
        && si.deal_weight@ == 0 && si.verified_deal_weight@ == 0 && si.initial_pledge@ == pledge && si.power_base_epoch == epoch && si.sector_key_cid.is_none()
        && si.flags == SectorOnChainInfoFlags::SIMPLE_QA_POWER
}
