// prelude/miner_onboard_assumed.rs — TRUSTED / ASSUMED pieces of the unit that puts the LEDGER side of miner sector onboarding under contract
// (pre-commit deposits, pre-commit HAMT, initial pledge at activation). Every stub names the real code it stands for and why its contract is
// true of it. None of them mentions a ledger total (pre_commit_deposits / initial_pledge / locked_funds): the ledger equalities are proved on
// the real bodies for WHATEVER amounts the opaque fee / pledge formulas return.

// ---- #[derive(Clone)] of the pre-commit records (derives are stripped by the extractor): a clone has the same abstract field view ----------
pub struct PcV { pub seal_proof: RegisteredSealProof, pub sector_number: SectorNumber, pub sealed_cid: Cid, pub seal_rand_epoch: ChainEpoch,
    pub deal_ids: Seq<DealID>, pub expiration: ChainEpoch, pub unsealed_cid: Option<Cid>, pub deposit: int, pub pre_commit_epoch: ChainEpoch }
pub open spec fn pcv(p: SectorPreCommitOnChainInfo) -> PcV {
    PcV { seal_proof: p.info.seal_proof, sector_number: p.info.sector_number, sealed_cid: p.info.sealed_cid, seal_rand_epoch: p.info.seal_rand_epoch,
        deal_ids: p.info.deal_ids@, expiration: p.info.expiration, unsealed_cid: p.info.unsealed_cid.0, deposit: p.pre_commit_deposit@,
        pre_commit_epoch: p.pre_commit_epoch }
}
impl Clone for SectorPreCommitOnChainInfo {
    #[verifier::external_body]
    fn clone(&self) -> (r: Self) ensures pcv(r) == pcv(*self) { unimplemented!() }
}
impl Clone for CompactCommD {
    #[verifier::external_body]
    fn clone(&self) -> (r: Self) ensures r == *self { unimplemented!() }
}
/// std `Option<&T>::cloned()` for the pre-commit record (Verus has no spec for it): None stays None, Some(x) becomes a clone of x
#[verifier::external_body]
pub fn vx_cloned_pc(o: Option<&SectorPreCommitOnChainInfo>) -> (r: Option<SectorPreCommitOnChainInfo>)
    ensures r.is_some() == o.is_some(), o.is_some() ==> pcv(r->Some_0) == pcv(*o->Some_0)
{ o.cloned() }

// ---- fvm_ipld_bitfield: iteration ------------------------------------------------------------------------------------------------------------
/// the increasing enumeration of a finite set of sector numbers: a function of the set
pub uninterp spec fn bf_sorted(s: vstd::set::Set<u64>) -> Seq<u64>;
impl BitField {
    /// `bf.iter()` visits every set bit exactly once, in increasing order; modelled as the Vec of the bits
    #[verifier::external_body]
    pub fn iter(&self) -> (r: Vec<u64>)
        ensures
            r@ == bf_sorted(self@), r@.to_set() =~= self@, r@.no_duplicates(),
            forall|i: int, j: int| 0 <= i < j < r@.len() ==> r@[i] < r@[j],
    { unimplemented!() }
}

// ---- bitfield_queue.rs BitFieldQueue over the pre-commit clean-up AMT (quantised epoch -> sector numbers) -----------------------------------
// Not under contract here (AMT for_each_while / batch_delete). What the ledger proof needs: WHICH sector numbers `pop_until` hands out is a
// deterministic function of (queue root, quantisation, epoch); the queue touches nothing but its own AMT.
pub uninterp spec fn pcq_popped(root: Cid, quant: QuantSpec, until: ChainEpoch) -> vstd::set::Set<u64>;
pub struct PcqAmt { pub root0: Cid }
impl PcqAmt {
    #[verifier::external_body]
    pub fn flush(&mut self) -> (r: Result<Cid, AnyhowError>) ensures final(self).root0 == old(self).root0 { unimplemented!() }
}
pub struct BitFieldQueue { pub amt: PcqAmt, pub quant: QuantSpec }
impl BitFieldQueue {
    /// `Array::load(root, store)` + the quantisation spec
    #[verifier::external_body]
    pub fn new<BS: Blockstore>(store: &BS, root: &Cid, quant: QuantSpec) -> (r: Result<BitFieldQueue, AnyhowError>)
        ensures r.is_ok() ==> r->Ok_0.amt.root0 == *root && r->Ok_0.quant == quant
    { unimplemented!() }
    /// removes and returns all values with keys <= until; `modified` iff an entry was removed (then the set may still be empty? no: entries
    /// are never stored empty — not needed here)
    #[verifier::external_body]
    pub fn pop_until(&mut self, until: ChainEpoch) -> (r: anyhow::Result<(BitField, bool)>)
        ensures
            final(self).quant == old(self).quant, final(self).amt.root0 == old(self).amt.root0,
            r.is_ok() ==> r->Ok_0.0@ == pcq_popped(old(self).amt.root0, old(self).quant, until),
    { unimplemented!() }
    /// add_many_to_queue_values(iter of (epoch, sector number)): only the queue's AMT changes
    #[verifier::external_body]
    pub fn add_many_to_queue_values(&mut self, values: std::vec::IntoIter<(ChainEpoch, u64)>) -> (r: anyhow::Result<()>)
        ensures final(self).quant == old(self).quant, final(self).amt.root0 == old(self).amt.root0,
    { unimplemented!() }
}

// ---- opaque protocol formulas and proof-type tables (policy.rs / monies.rs / fvm_shared): SOME value, a deterministic function of the inputs ----
/// monies.rs pre_commit_deposit_for_power (fixed-point projection of the expected reward): SOME amount
pub uninterp spec fn pcd_spec(reward: FilterEstimate, network_qa: FilterEstimate, qa_sector_power: int) -> int;
#[verifier::external_body]
pub fn pre_commit_deposit_for_power(reward_estimate: &FilterEstimate, network_qa_power_estimate: &FilterEstimate, qa_sector_power: &StoragePower) -> (r: TokenAmount)
    ensures r@ == pcd_spec(*reward_estimate, *network_qa_power_estimate, qa_sector_power@)
{ unimplemented!() }
/// policy.rs qa_power_max(size) = size * VERIFIED_DEAL_WEIGHT_MULTIPLIER / QUALITY_BASE_MULTIPLIER: a function of the sector size
pub uninterp spec fn qa_power_max_spec(size: SectorSize) -> int;
#[verifier::external_body]
pub fn qa_power_max(size: SectorSize) -> (r: StoragePower) ensures r@ == qa_power_max_spec(size) { unimplemented!() }
/// policy.rs sector_deals_max: SOME bound
#[verifier::external_body]
pub fn sector_deals_max(policy: &Policy, size: SectorSize) -> (r: u64) { unimplemented!() }
/// policy.rs max_prove_commit_duration: a table lookup on the proof type (None for unknown types); a function of (policy, proof)
pub uninterp spec fn mpcd_spec(policy: Policy, proof: RegisteredSealProof) -> Option<ChainEpoch>;
#[verifier::external_body]
pub fn max_prove_commit_duration(policy: &Policy, proof: RegisteredSealProof) -> (r: Option<ChainEpoch>) ensures r == mpcd_spec(*policy, proof) { unimplemented!() }
impl RegisteredSealProof {
    /// fvm_shared: the Window PoSt proof type implied by a seal proof type (Err for unknown types)
    #[verifier::external_body]
    pub fn registered_window_post_proof(self) -> (r: Result<RegisteredPoStProof, String>) { unimplemented!() }
}
impl CompactCommD {
    /// commd.rs get_cid: the declared CID, or the zero-data CommD of the proof type (zero_commd: a table; Err for unknown types)
    #[verifier::external_body]
    pub fn get_cid(&self, seal_proof: RegisteredSealProof) -> (r: Result<Cid, ActorError>) { unimplemented!() }
}
/// `v.into_iter().enumerate()` materialised as the list of (index, item) pairs, in order (Verus has no iterator adapters): the body IS the
/// original expression, collected
#[verifier::external_body]
pub fn vx_into_enumerate<T>(v: Vec<T>) -> (r: Vec<(usize, T)>)
    ensures r@.len() == v@.len(), forall|i: int| 0 <= i < r@.len() ==> (#[trigger] r@[i]).0 == i && r@[i].1 == v@[i]
{ v.into_iter().enumerate().collect() }
pub mod emit {
    use super::*;
    /// emit.rs sector_precommitted: builds and emits one actor event — counted, no other effect
    #[verifier::external_body]
    pub fn sector_precommitted(rt: &mut Rt, sector: SectorNumber) -> (r: Result<(), ActorError>)
        ensures r.is_ok() ==> *final(rt) == (Rt { events: Ghost(old(rt).events@ + 1), ..*old(rt) }), r.is_err() ==> *final(rt) == *old(rt)
    { unimplemented!() }
}
/// `info.control_addresses.iter().chain(&[info.worker, info.owner])` (iterator adapters are outside Verus' subset) collected: the control
/// addresses, the worker and the owner — the body IS the original expression, collected
#[verifier::external_body]
pub fn vx_control_worker_owner(info: &MinerInfo) -> (r: Vec<Address>)
    ensures r@.to_set() =~= info.control_addresses@.to_set().insert(info.worker).insert(info.owner)
{ info.control_addresses.iter().chain(&[info.worker, info.owner]).copied().collect() }

// ======================= activation side (activate_new_sector_infos) =======================
/// R17 helper: the number of pairs `a.iter().zip(b)` yields
pub fn vx_zip_len(a: usize, b: usize) -> (r: usize) ensures r == (if a <= b { a } else { b }) { if a <= b { a } else { b } }
pub type AmtError = AnyhowError;
/// sectors.rs `Sectors`: the sector-info AMT (sector number -> SectorOnChainInfo) over the Array stub of prelude/ipld.rs
pub struct Sectors<'db, BS: Blockstore> { pub amt: Array<SectorOnChainInfo, &'db BS> }
/// the sector table of a miner state
pub open spec fn sectors_tbl(s: State) -> Map<u64, SectorOnChainInfo> { array_decode::<SectorOnChainInfo>(s.sectors) }
/// policy.rs qa_power_for_weight, daily_proof_fee; monies.rs initial_pledge_for_power: SOME amount, a deterministic function of the inputs
pub uninterp spec fn qapw_spec(size: SectorSize, duration: ChainEpoch, verified_weight: int) -> int;
#[verifier::external_body]
pub fn qa_power_for_weight(size: SectorSize, duration: ChainEpoch, verified_weight: &DealWeight) -> (r: StoragePower)
    ensures r@ == qapw_spec(size, duration, verified_weight@)
{ unimplemented!() }
#[verifier::external_body]
pub fn daily_proof_fee(policy: &Policy, circulating_supply: &TokenAmount, qa_power: &StoragePower) -> (r: TokenAmount) { unimplemented!() }
pub uninterp spec fn ip_spec(qa_power: int, baseline_power: int, reward: FilterEstimate, network_qa: FilterEstimate, circulating_supply: int, epochs_since_ramp_start: i64, ramp_duration_epochs: u64) -> int;
#[verifier::external_body]
pub fn initial_pledge_for_power(qa_power: &StoragePower, baseline_power: &StoragePower, reward_estimate: &FilterEstimate, network_qa_power_estimate: &FilterEstimate,
        circulating_supply: &TokenAmount, epochs_since_ramp_start: i64, ramp_duration_epochs: u64) -> (r: TokenAmount)
    ensures r@ == ip_spec(qa_power@, baseline_power@, *reward_estimate, *network_qa_power_estimate, circulating_supply@, epochs_since_ramp_start, ramp_duration_epochs)
{ unimplemented!() }
impl State {
    /// state.rs assign_sectors_to_deadlines (deadline assignment, Deadline::add_sectors, ~70 lines of partition bookkeeping — C04's subject): the only
    /// field of the miner state it writes is `deadlines` (through save_deadlines); every other use of `self` is a read
    #[verifier::external_body]
    pub fn assign_sectors_to_deadlines<BS: Blockstore>(&mut self, policy: &Policy, store: &BS, current_epoch: ChainEpoch, sectors: Vec<SectorOnChainInfo>,
            partition_size: u64, sector_size: SectorSize) -> (r: anyhow::Result<()>)
        ensures *final(self) == (State { deadlines: final(self).deadlines, ..*old(self) })
    { unimplemented!() }
}

// ======================= termination side (terminate_sectors closure): everything deadline-level is opaque =======================
// The ledger statement about this closure is a FRAME (no money total, no table is written): the deadline / partition machinery it drives
// (C04's subject) is replaced by contract-free stubs that can only touch their own receiver.
/// deadline_state.rs Deadline (partitions AMT root, memoised totals): opaque here
#[verifier::external_body]
pub struct Deadline { inner: Box<u8> }
/// sector_map.rs PartitionSectorMap / DeadlineSectorMap (BTreeMaps of the user's request): opaque
#[verifier::external_body]
pub struct PartitionSectorMap { inner: Box<u8> }
#[verifier::external_body]
pub struct DeadlineSectorMap { inner: Box<u8> }
impl DeadlineSectorMap {
    /// `iter()` = BTreeMap iteration mapped to (deadline index, partition map): modelled as the Vec of the pairs (shared references: the only use
    /// of the partition map is to hand it to Deadline::terminate_sectors)
    #[verifier::external_body]
    pub fn iter(&mut self) -> (r: Vec<(u64, &PartitionSectorMap)>)
        ensures r@.len() == old(self).keys().len(), forall|i: int| 0 <= i < r@.len() ==> (#[trigger] r@[i]).0 == old(self).keys()[i], final(self).keys() == old(self).keys()
    { unimplemented!() }
    /// the deadline indices named by the request, in increasing order
    pub uninterp spec fn keys(&self) -> Seq<u64>;
}
impl Deadlines {
    #[verifier::external_body]
    pub fn load_deadline<BS: Blockstore>(&self, store: &BS, idx: u64) -> (r: Result<Deadline, ActorError>) { unimplemented!() }
    #[verifier::external_body]
    pub fn update_deadline<BS: Blockstore>(&mut self, policy: &Policy, store: &BS, deadline_idx: u64, deadline: &Deadline) -> (r: anyhow::Result<()>) { unimplemented!() }
}
impl Deadline {
    /// deadline_state.rs Deadline::terminate_sectors: marks sectors terminated in the deadline's partitions and returns the power removed; works on
    /// the deadline value and the blockstore only — it has no access to the miner State
    #[verifier::external_body]
    pub fn terminate_sectors<BS: Blockstore>(&mut self, policy: &Policy, store: &BS, sectors: &Sectors<'_, BS>, epoch: ChainEpoch,
            partition_sectors: &PartitionSectorMap, sector_size: SectorSize, quant: QuantSpec) -> (r: anyhow::Result<PowerPair>) { unimplemented!() }
}
/// deadlines.rs deadline_is_mutable: pure arithmetic on the policy and epochs
#[verifier::external_body]
pub fn deadline_is_mutable(policy: &Policy, proving_period_start: ChainEpoch, deadline_idx: u64, current_epoch: ChainEpoch) -> (r: bool) { unimplemented!() }
impl State {
    /// state.rs current_proving_period_start / quant_spec_for_deadline: `&self` getters (deadline arithmetic, under contract in units/C15)
    #[verifier::external_body]
    pub fn current_proving_period_start(&self, policy: &Policy, current_epoch: ChainEpoch) -> (r: ChainEpoch) { unimplemented!() }
    #[verifier::external_body]
    pub fn quant_spec_for_deadline(&self, policy: &Policy, deadline_idx: u64) -> (r: QuantSpec) { unimplemented!() }
}

// ======================= PreCommitSectorBatch2, whole method: per-sector validation and the queries to other actors are opaque =======================
// None of these sees the miner State. The validation predicates return SOME verdict; the two queries append exactly one zero-value send each and,
// like every send of the ghost runtime, leave the transaction log, the message and the epoch alone.
#[verifier::external_body]
pub fn can_pre_commit_seal_proof(policy: &Policy, proof: RegisteredSealProof) -> (r: bool) { unimplemented!() }
#[verifier::external_body]
pub fn is_sealed_sector(c: &Cid) -> (r: bool) { unimplemented!() }
#[verifier::external_body]
pub fn is_unsealed_sector(c: &Cid) -> (r: bool) { unimplemented!() }
/// lib.rs validate_expiration: pure checks on epochs against the policy
#[verifier::external_body]
pub fn validate_expiration(policy: &Policy, curr_epoch: ChainEpoch, activation: ChainEpoch, expiration: ChainEpoch, seal_proof: RegisteredSealProof) -> (r: Result<(), ActorError>) { unimplemented!() }
/// std `Option<ChainEpoch>::unwrap_or_default()`: the value, or 0
pub fn vx_unwrap_or_default_epoch(o: Option<ChainEpoch>) -> (r: ChainEpoch) ensures r == (if o.is_some() { o->Some_0 } else { 0 }) { match o { Some(v) => v, None => 0 } }
pub const CURRENT_TOTAL_POWER_METHOD_VX: u64 = 9;
pub const VERIFY_DEALS_FOR_ACTIVATION_METHOD_VX: u64 = 5;
/// ext.rs market::SectorDeals (request entry of VerifyDealsForActivation)
pub struct SectorDeals { pub sector_number: SectorNumber, pub sector_type: RegisteredSealProof, pub sector_expiry: ChainEpoch, pub deal_ids: Vec<DealID> }
/// lib.rs request_current_total_power: ONE zero-value send (CurrentTotalPower, method 9) to the power actor; Ok iff it succeeded and its answer decodes
#[verifier::external_body]
pub fn request_current_total_power(rt: &mut Rt) -> (r: Result<CurrentTotalPowerReturn, ActorError>)
    requires !old(rt).in_tx@
    ensures
        rt_pushed(old(rt), final(rt)), rt_frame(old(rt), final(rt)),
        final(rt).sends@.last().value == 0 && final(rt).sends@.last().to == STORAGE_POWER_ACTOR_ADDR && final(rt).sends@.last().method == CURRENT_TOTAL_POWER_METHOD_VX,
        r.is_ok() ==> final(rt).sends@.last().ok,
        rt_no_reentry(STORAGE_POWER_ACTOR_ADDR, CURRENT_TOTAL_POWER_METHOD_VX) ==> final(rt).state_id == old(rt).state_id && final(rt).balance == old(rt).balance,
{ unimplemented!() }
/// lib.rs verify_deals: no message when no sector carries deals, otherwise ONE zero-value send (VerifyDealsForActivation, method 5) to the market
#[verifier::external_body]
pub fn verify_deals(rt: &mut Rt, sectors: &Vec<SectorDeals>) -> (r: Result<VerifyDealsForActivationReturn, ActorError>)
    requires !old(rt).in_tx@
    ensures
        rt_frame(old(rt), final(rt)), old(rt).sends@.len() <= final(rt).sends@.len() <= old(rt).sends@.len() + 1,
        forall|i: int| 0 <= i < old(rt).sends@.len() ==> final(rt).sends@[i] == old(rt).sends@[i],
        final(rt).sends@.len() == old(rt).sends@.len() ==> *final(rt) == *old(rt),
        final(rt).sends@.len() == old(rt).sends@.len() + 1 ==> final(rt).sends@.last().value == 0 && final(rt).sends@.last().to == STORAGE_MARKET_ACTOR_ADDR
            && final(rt).sends@.last().method == VERIFY_DEALS_FOR_ACTIVATION_METHOD_VX,
        rt_no_reentry(STORAGE_MARKET_ACTOR_ADDR, VERIFY_DEALS_FOR_ACTIVATION_METHOD_VX) ==> final(rt).state_id == old(rt).state_id && final(rt).balance == old(rt).balance,
{ unimplemented!() }
/// deadline_info.rs DeadlineInfo + state.rs State::deadline_info (deadline arithmetic, under contract in units/C15): only `last()` is used here
pub struct DeadlineInfo { pub close: ChainEpoch }
impl DeadlineInfo {
    #[verifier::external_body]
    pub fn last(self) -> (r: ChainEpoch) { unimplemented!() }
}
impl State {
    #[verifier::external_body]
    pub fn deadline_info(&self, policy: &Policy, current_epoch: ChainEpoch) -> (r: DeadlineInfo) { unimplemented!() }
}
/// runtime serialize(&x, desc): opaque bytes
#[verifier::external_body]
pub fn serialize<T>(v: &T, desc: &str) -> (r: Result<RawBytes, ActorError>) ensures r.is_ok() ==> r->Ok_0.h == cbor_hash(*v) { unimplemented!() }
