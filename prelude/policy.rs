// prelude/policy.rs — runtime Policy extracted from /repo; proof-type tags as opaque values (TRUSTED stubs for the tags).
verus! {
#[derive(Clone, Copy, PartialEq, Eq, Debug, Structural)]
pub struct RegisteredPoStProof { pub id: i64 }
#[derive(Clone, Copy, PartialEq, Eq, Debug, Structural)]
pub struct RegisteredSealProof { pub id: i64 }
#[verifier::external_body]
pub struct ProofSet { inner: Box<u8> }
//@ item runtime/src/runtime/policy.rs Policy
/// the network policy is a constant of the activation
pub uninterp spec fn rt_policy() -> Policy;
impl Rt {
    #[verifier::external_body]
    pub fn policy(&self) -> (r: &'static Policy) ensures *r == rt_policy() { unimplemented!() }
}
impl BigInt {
    /// num-bigint: checked_sub on a signed BigInt never fails
    #[verifier::external_body]
    pub fn checked_sub(&self, other: &BigInt) -> (r: Option<BigInt>)
        ensures r.is_some(), r->Some_0@ == self@ - other@
    { unimplemented!() }
}
} // verus!
