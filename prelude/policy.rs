// prelude/policy.rs — TRUSTED. Runtime policy object and proof-type tags as opaque values.
verus! {
#[verifier::external_body]
pub struct Policy { inner: Box<u8> }
#[derive(Clone, Copy, PartialEq, Eq, Debug, Structural)]
pub struct RegisteredPoStProof { pub id: i64 }
#[derive(Clone, Copy, PartialEq, Eq, Debug, Structural)]
pub struct RegisteredSealProof { pub id: i64 }
impl Rt {
    #[verifier::external_body]
    pub fn policy(&self) -> (r: &'static Policy) { unimplemented!() }
}
impl BigInt {
    /// num-bigint: checked_sub on a signed BigInt never fails
    #[verifier::external_body]
    pub fn checked_sub(&self, other: &BigInt) -> (r: Option<BigInt>)
        ensures r.is_some(), r->Some_0@ == self@ - other@
    { unimplemented!() }
}
} // verus!
