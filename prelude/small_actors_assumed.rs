// prelude/small_actors_assumed.rs — TRUSTED stubs for the unit small_actors (account and ethaccount methods). Needs prelude/core.rs and prelude/rt.rs.
// (Do not combine with prelude/address_protocol.rs: this file defines `Protocol` / `Address::protocol` itself, with the class as a spec function.)
//  * fvm_shared Address::protocol(): the address class as a function of the address (`addr_protocol`); the model's `proto == 0` is the ID
//    class (same convention as prelude/address_protocol.rs, which only states the ID case).
//  * fvm_shared SignatureType / Signature (external crate types, fields as in fvm_shared 4.8.2 crypto/signature.rs).
//  * Runtime::verify_signature (runtime/src/runtime/fvm.rs: `Ok(())` exactly when the verify_signature syscall answered `Ok(true)`,
//    `Err(anyhow "invalid signature")` otherwise): an opaque deterministic predicate of (signature type, signature bytes, signer address,
//    plaintext). The error is a plain anyhow message (no ActorError inside), so `downcast_default(c, ..)` gives code c.
//  * Runtime::lookup_delegated_address, Address::payload, Payload / DelegatedAddress::namespace (fvm_shared): the f4 address of an actor id is a
//    function of the id (an actor's f4 address never changes); of the payload only "is it delegated, and in which namespace" is kept.
verus! {
#[derive(Clone, Copy, PartialEq, Eq, Structural)]
pub enum Protocol { ID, Secp256k1, Actor, BLS, Delegated }
pub uninterp spec fn addr_protocol(a: Address) -> Protocol;
impl Address {
    #[verifier::external_body]
    pub fn protocol(&self) -> (r: Protocol) ensures r == addr_protocol(*self), (r == Protocol::ID) == (self.proto == 0) { unimplemented!() }
}

#[derive(Clone, Copy, PartialEq, Eq, Structural)]
pub enum SignatureType { Secp256k1, BLS }
pub struct Signature { pub sig_type: SignatureType, pub bytes: Vec<u8> }
/// the FVM verify_signature syscall answered Ok(true) for this (type, signature bytes, signer, plaintext)
pub uninterp spec fn sig_valid(t: SignatureType, sig: Seq<u8>, signer: Address, plaintext: Seq<u8>) -> bool;
impl Rt {
    /// the real parameter `plaintext` is `&[u8]` (a `&Vec<u8>` derefs to it)
    #[verifier::external_body]
    pub fn verify_signature(&self, signature: &Signature, signer: &Address, plaintext: &Vec<u8>) -> (r: Result<(), AnyhowError>)
        ensures
            r.is_ok() == sig_valid(signature.sig_type, signature.bytes@, *signer, plaintext@),
            r.is_err() ==> r->Err_0.actor_code.is_none(),
    { unimplemented!() }
}

#[derive(Clone, Copy, PartialEq, Eq, Structural)]
pub struct DelegatedAddress { pub ns: ActorID, pub sub: u64 }
impl DelegatedAddress {
    pub fn namespace(&self) -> (r: ActorID) ensures r == self.ns { self.ns }
}
#[derive(Clone, Copy, PartialEq, Eq, Structural)]
pub enum Payload { ID(u64), Secp256k1(u64), Actor(u64), BLS(u64), Delegated(DelegatedAddress) }
pub uninterp spec fn addr_payload(a: Address) -> Payload;
/// FVM lookup_delegated_address(id): the actor's f4 address, if it has one
pub uninterp spec fn rt_delegated_address(id: ActorID) -> Option<Address>;
impl Address {
    #[verifier::external_body]
    pub fn payload(&self) -> (r: &Payload) ensures *r == addr_payload(*self) { unimplemented!() }
}
impl Rt {
    #[verifier::external_body]
    pub fn lookup_delegated_address(&self, id: ActorID) -> (r: Option<Address>) ensures r == rt_delegated_address(id) { unimplemented!() }
}
} // verus!
