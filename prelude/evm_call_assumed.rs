// prelude/evm_call_assumed.rs — ASSUMED contracts of repo functions that the EVM CALL / CREATE unit does NOT verify. Included inside the
// unit's `verus!{ mod evm {` after the extracted items System / ExecutionState / CallKind / PrecompileContext / ContractType.
//  * System::call_gas_limit (system.rs): min(requested, 63/64 of the gas left) — a number; gas is not modelled ("gas parameter only bounds").
//  * is_reserved_precompile_address (precompiles/mod.rs): a pure predicate of the 20 address bytes — uninterpreted `eth_is_reserved_precompile`.
//  * Precompiles::call_precompile (precompiles/mod.rs + evm.rs / fvm.rs / bls*.rs): the precompile dispatch as an OPAQUE callee. Assumed
//    only what every System method guarantees (frame: `readonly`, the transient lifespan, the message and `in_tx` are unchanged; messages
//    are only appended; when it returns Ok the cache is coherent, given that `readonly` reflects the runtime (`ro_inv`) — its only side
//    effects are `System::send_raw` (call_actor; an outer error of send_raw makes the precompile fail) and `System::transfer`, both under
//    contract here / in units/C19/evm_system.vx.rs). Its result is unconstrained: any bytes, any error.
//  * Precompiles::is_precompile: uninterpreted `eth_is_precompile` (a pure predicate of the address bytes).
//  * get_contract_type (instructions/ext.rs): ASSUMED at the meaning of its body (an Option::and_then / map / unwrap_or closure chain
//    Verus cannot take): `contract_type_spec`, written from the code — Precompile for precompile addresses; otherwise resolve the
//    address, look up the code CID, classify by built-in type: Account / Placeholder / EthAccount -> Account, EVM -> EVM(id address),
//    any other code -> Native(code), unresolvable or no code -> NotFound. Pure (reads the runtime only).
pub const IPLD_RAW: u64 = 0x55;
impl<'r> System<'r> {
    #[verifier::external_body]
    pub fn call_gas_limit(&self, gas: U256) -> (r: u64) { unimplemented!() }
}
pub uninterp spec fn eth_is_reserved_precompile(a: EthAddress) -> bool;
#[verifier::external_body]
pub fn is_reserved_precompile_address(addr: &EthAddress) -> (r: bool) ensures r == eth_is_reserved_precompile(*addr) { unimplemented!() }
pub uninterp spec fn eth_is_precompile(a: EthAddress) -> bool;

pub struct PrecompileError { pub h: u64 }
pub mod precompiles {
    use super::*;
    pub struct Precompiles {}
    impl Precompiles {
        #[verifier::external_body]
        pub fn call_precompile(system: &mut System, precompile_addr: &EthAddress, input: &[u8], context: PrecompileContext) -> (r: Result<Vec<u8>, PrecompileError>)
            requires coh(old(system)), !old(system).rt.in_tx@,
            ensures sys_frame(old(system), final(system)), sends_extended(old(system).rt, final(system).rt),
                r.is_ok() && ro_inv(old(system)) ==> coh(final(system)),
        { unimplemented!() }
        #[verifier::external_body]
        pub fn is_precompile(addr: &EthAddress) -> (r: bool) ensures r == eth_is_precompile(*addr) { unimplemented!() }
    }
}
use precompiles::Precompiles;

pub open spec fn contract_type_spec(rt: &Rt, addr: EthAddress) -> ContractType {
    if eth_is_precompile(addr) { ContractType::Precompile } else {
        match rt_resolve(fil_of_eth(addr), rt.sends@.len()) {
            None => ContractType::NotFound,
            Some(id) => match rt_code_of(id) {
                None => ContractType::NotFound,
                Some(cid) => match rt_builtin_type(cid) {
                    Some(Type::Account) | Some(Type::Placeholder) | Some(Type::EthAccount) => ContractType::Account,
                    Some(Type::EVM) => ContractType::EVM(Address { id: id, proto: 0 }),
                    _ => ContractType::Native(cid),
                },
            },
        }
    }
}
#[verifier::external_body]
pub fn get_contract_type(rt: &Rt, addr: &EthAddress) -> (r: ContractType) ensures r == contract_type_spec(rt, *addr) { unimplemented!() }
