// prelude/miner_prove_notify_assumed.rs — TRUSTED / ASSUMED pieces for notifications.rs (notify_data_consumers, send_notification,
// validate_notification_response) in the unit `miner_prove`. Included INSIDE the unit's `verus!{}` block after the items ActivationNotifications,
// PieceChange, SectorChanges, SectorContentChangedParams / Return.

// ---- std::collections::BTreeMap as a finite map; only what notifications.rs uses -----------------------------------------------------------------
#[verifier::external_body]
#[verifier::reject_recursive_types(K)]
#[verifier::reject_recursive_types(V)]
pub struct BTreeMap<K, V> { p: PhantomData<(K, V)> }
/// std's `Entry` without the Vacant/Occupied case split: the map, borrowed, together with the key
#[verifier::reject_recursive_types(K)]
#[verifier::reject_recursive_types(V)]
pub struct VxEntry<'a, K, V> { pub key: K, pub map: &'a mut BTreeMap<K, V> }
/// `Default::default()` of the two value types stored in the maps of notifications.rs: the empty map, the empty vector
pub trait VxDefault { spec fn is_default(&self) -> bool; }
impl<K, V> VxDefault for BTreeMap<K, V> { open spec fn is_default(&self) -> bool { self.view() == Map::<K, V>::empty() } }
impl<T> VxDefault for Vec<T> { open spec fn is_default(&self) -> bool { self@.len() == 0 } }
impl<K, V> BTreeMap<K, V> {
    pub uninterp spec fn view(&self) -> Map<K, V>;
    /// `BTreeMap::new()`: the empty map
    #[verifier::external_body]
    pub fn new() -> (r: BTreeMap<K, V>) ensures r.view() == Map::<K, V>::empty() { unimplemented!() }
    /// `BTreeMap::get(&k)`
    #[verifier::external_body]
    pub fn get(&self, k: &K) -> (r: Option<&V>)
        ensures r.is_some() <==> self.view().dom().contains(*k), r.is_some() ==> *r->Some_0 == self.view()[*k]
    { unimplemented!() }
    /// `BTreeMap::entry(k)`
    #[verifier::external_body]
    pub fn entry<'a>(&'a mut self, k: K) -> (e: VxEntry<'a, K, V>)
        ensures e.key == k, *e.map == *old(self), *final(e.map) == *final(self),
    { unimplemented!() }
    /// `for (k, v) in map` (IntoIterator by value): every key exactly once (ascending), with its value
    #[verifier::external_body]
    pub fn vx_into_pairs(self) -> (r: Vec<(K, V)>)
        ensures
            forall|i: int| 0 <= i < r@.len() ==> self.view().dom().contains((#[trigger] r@[i]).0) && r@[i].1 == self.view()[r@[i].0],
            forall|i: int, j: int| 0 <= i < j < r@.len() ==> (#[trigger] r@[i]).0 != (#[trigger] r@[j]).0,
            forall|k: K| self.view().dom().contains(k) ==> exists|i: int| 0 <= i < r@.len() && (#[trigger] r@[i]).0 == k,
    { unimplemented!() }
}
impl<'a, K, V: VxDefault> VxEntry<'a, K, V> {
    /// `Entry::or_default()`: the slot of the key — holding the existing value, or a freshly inserted default one; whatever is written through the
    /// returned reference is the value of the key afterwards; no other key changes
    #[verifier::external_body]
    pub fn or_default(self) -> (r: &'a mut V)
        ensures
            old(self.map).view().dom().contains(self.key) ==> *r == old(self.map).view()[self.key],
            !old(self.map).view().dom().contains(self.key) ==> r.is_default(),
            final(self.map).view() == old(self.map).view().insert(self.key, *final(r)),
    { unimplemented!() }
}

// ---- derives stripped by the extractor --------------------------------------------------------------------------------------------------------------
impl Clone for PieceChange {
    #[verifier::external_body]
    fn clone(&self) -> (r: Self) ensures r == *self { unimplemented!() }
}
impl Clone for SectorChanges {
    #[verifier::external_body]
    fn clone(&self) -> (r: Self) ensures r == *self { unimplemented!() }
}
impl SendFlags { pub fn default() -> (r: SendFlags) ensures r.bits == 0 { SendFlags { bits: 0 } } }
impl IpldBlock {
    /// `IpldBlock::deserialize::<T>()`: decoding of a returned block (deterministic; content unknown to this actor) — same tokens as deserialize_block
    #[verifier::external_body]
    pub fn deserialize<T>(&self) -> (r: Result<T, AnyhowError>)
        ensures r.is_ok() == deser_ok::<T>(Some(*self)), r.is_ok() ==> r->Ok_0 == deser_spec::<T>(Some(*self))
    { unimplemented!() }
}
impl ActorError {
    /// `ActorError::checked(code, msg, data)`: an error with exactly this exit code
    #[verifier::external_body]
    pub fn checked(code: ExitCode, msg: String, data: Option<IpldBlock>) -> (r: ActorError) ensures r.code == code.value { unimplemented!() }
}
// ---- notifications.rs: iterator expressions (body IS the original expression) -------------------------------------------------------------------------
/// `activations.iter().map(|a| (a.sector_number, a.sector_expiration)).collect::<BTreeMap<_, _>>()`: every sector number of the activations is a key,
/// mapped to the expiration of an activation carrying that number (the last one, were a number repeated)
#[verifier::external_body]
pub fn vx_sector_expirations(activations: &Vec<ActivationNotifications>) -> (r: BTreeMap<SectorNumber, ChainEpoch>)
    ensures
        forall|i: int| 0 <= i < activations@.len() ==> r.view().dom().contains((#[trigger] activations@[i]).sector_number),
        forall|s: SectorNumber| #[trigger] r.view().dom().contains(s) ==> exists|i: int| 0 <= i < activations@.len() && (#[trigger] activations@[i]).sector_number == s
            && activations@[i].sector_expiration == r.view()[s],
{ unimplemented!() }
/// `payloads.into_iter().map(|(sector_number, pieces)| SectorChanges { sector: sector_number, minimum_commitment_epoch:
/// *sector_expirations.get(&sector_number).unwrap(), added: pieces }).collect()`: one entry per sector of the group (ascending), carrying the group's
/// pieces for that sector and the expiration recorded for it; PANICS (unwrap) if a sector has no recorded expiration — hence the precondition
#[verifier::external_body]
pub fn vx_sector_changes(payloads: BTreeMap<SectorNumber, Vec<PieceChange>>, sector_expirations: &BTreeMap<SectorNumber, ChainEpoch>) -> (r: Vec<SectorChanges>)
    requires forall|s: SectorNumber| #[trigger] payloads.view().dom().contains(s) ==> sector_expirations.view().dom().contains(s)
    ensures
        forall|t: int| 0 <= t < r@.len() ==> payloads.view().dom().contains((#[trigger] r@[t]).sector) && r@[t].added == payloads.view()[r@[t].sector]
            && r@[t].minimum_commitment_epoch == sector_expirations.view()[r@[t].sector],
        forall|t: int, u: int| 0 <= t < u < r@.len() ==> (#[trigger] r@[t]).sector != (#[trigger] r@[u]).sector,
        forall|s: SectorNumber| payloads.view().dom().contains(s) ==> exists|t: int| 0 <= t < r@.len() && (#[trigger] r@[t]).sector == s,
{ unimplemented!() }
