// prelude/miner_extend_bookkeeping_assumed.rs — TRUSTED stubs for the region of Actor::extend_sector_expiration_inner that records, per
// deadline, which partitions must be named in the deadline's expiration queue.
//  * std::collections::btree_map::{Entry, VacantEntry, OccupiedEntry} over the finite-map view of prelude/btreemap.rs (values: Vec<u64>):
//    entry() hands out the map borrowed; or_default() / VacantEntry::insert() give the slot of the key, everything else in the map stays.
//  * Deadline::add_expiration_partitions (deadline_state.rs, BitFieldQueue over an AMT — not under contract): `dl_exp_has(d, q, e, p)` reads
//    "the deadline's expiration queue names partition p at the quantised epoch of e"; the call only ever ADDS, and adds every given partition.
verus! {
#[verifier::reject_recursive_types(K)]
#[verifier::reject_recursive_types(V)]
pub enum Entry<'a, K, V> { Vacant(VacantEntry<'a, K, V>), Occupied(OccupiedEntry<'a, K, V>) }
#[verifier::reject_recursive_types(K)]
#[verifier::reject_recursive_types(V)]
pub struct VacantEntry<'a, K, V> { pub key: K, pub map: &'a mut BTreeMap<K, V> }
#[verifier::reject_recursive_types(K)]
#[verifier::reject_recursive_types(V)]
pub struct OccupiedEntry<'a, K, V> { pub key: K, pub map: &'a mut BTreeMap<K, V> }
impl<K, V> BTreeMap<K, V> {
    #[verifier::external_body]
    pub fn new() -> (r: BTreeMap<K, V>) ensures r.view() == Map::<K, V>::empty() { unimplemented!() }
    #[verifier::external_body]
    pub fn entry<'a>(&'a mut self, k: K) -> (e: Entry<'a, K, V>)
        ensures
            e is Vacant <==> !old(self).view().dom().contains(k),
            e is Vacant ==> e->Vacant_0.key == k && *e->Vacant_0.map == *old(self) && *final(e->Vacant_0.map) == *final(self),
            e is Occupied ==> e->Occupied_0.key == k && *e->Occupied_0.map == *old(self) && *final(e->Occupied_0.map) == *final(self),
    { unimplemented!() }
}
impl<'a, K> Entry<'a, K, Vec<u64>> {
    pub open spec fn vx_key(self) -> K { match self { Entry::Vacant(v) => v.key, Entry::Occupied(o) => o.key } }
    pub open spec fn vx_old(self) -> BTreeMap<K, Vec<u64>> { match self { Entry::Vacant(v) => *v.map, Entry::Occupied(o) => *o.map } }
    #[verifier::prophetic]
    pub open spec fn vx_fin(self) -> BTreeMap<K, Vec<u64>> { match self { Entry::Vacant(v) => *final(v.map), Entry::Occupied(o) => *final(o.map) } }
    /// the slot of the key (an empty Vec inserted when vacant); all other keys untouched
    #[verifier::external_body]
    pub fn or_default(self) -> (r: &'a mut Vec<u64>)
        ensures
            r@ == (if self is Occupied { self.vx_old().view()[self.vx_key()]@ } else { Seq::<u64>::empty() }),
            self.vx_fin().view().dom() == self.vx_old().view().dom().insert(self.vx_key()),
            self.vx_fin().view()[self.vx_key()] == *final(r),
            forall|k2: K| k2 != self.vx_key() && self.vx_old().view().dom().contains(k2) ==> self.vx_fin().view()[k2] == self.vx_old().view()[k2],
    { unimplemented!() }
}
impl<'a, K> VacantEntry<'a, K, Vec<u64>> {
    #[verifier::external_body]
    pub fn insert(self, value: Vec<u64>) -> (r: &'a mut Vec<u64>)
        ensures
            *r == value,
            final(self.map).view().dom() == old(self.map).view().dom().insert(self.key),
            final(self.map).view()[self.key] == *final(r),
            forall|k2: K| k2 != self.key && old(self.map).view().dom().contains(k2) ==> final(self.map).view()[k2] == old(self.map).view()[k2],
    { unimplemented!() }
}

/// "the deadline's expiration queue names partition `p` at the quantised epoch of `e`"
pub uninterp spec fn dl_exp_has(d: Deadline, quant: QuantSpec, e: ChainEpoch, p: u64) -> bool;
impl Deadline {
    #[verifier::external_body]
    pub fn add_expiration_partitions<BS: Blockstore>(&mut self, store: &BS, expiration_epoch: ChainEpoch, partitions: &[u64], quant: QuantSpec) -> (r: anyhow::Result<()>)
        ensures
            r.is_ok() ==> forall|e: ChainEpoch, p: u64| dl_exp_has(*old(self), quant, e, p) ==> dl_exp_has(*final(self), quant, e, p),
            r.is_ok() ==> forall|p: u64| partitions@.contains(p) ==> dl_exp_has(*final(self), quant, expiration_epoch, p),
    { unimplemented!() }
}
} // verus!
