// prelude/evm_call_core.rs — TRUSTED additions for the EVM CALL / CREATE unit (C18 C19 C20; template .work/evm-call/evm_call.vx.rs).
// Part 1 is a COPY of the pieces of prelude/evm_lifecycle_core.rs this unit needs (that file cannot be included together with
// prelude/evm_instr_bytes.rs: both define `impl Default for U256`); the stubs and their justification are the same as there:
//  * EthAddress and the two conversions U256 -> EthAddress -> Address (opaque deterministic functions `eth_of_word`, `fil_of_eth`),
//    EthAddress::as_id (opaque), SendFlags::default() == empty, TokenAmount::from(&U256) (same number), IpldBlock::serialize_dag_cbor
//    (opaque content-addressed token, like serialize_cbor), ActorError::checked / take_data (exit code kept),
//    vx_method_hash!("InvokeEVM") = 3844450837 (FRC-42 hash, Method::InvokeContract), `<[T]>::to_vec` (element-wise clone).
// Part 2 is new:
//  * `From<&EthAddress> for Address` (address.rs: the same function as `From<EthAddress>`, which just forwards to it).
//  * ErrorNumber (fvm_shared::error::ErrorNumber) as a module of u32 constants with the numeric values of the real `#[repr(u32)]` enum:
//    prelude/rt.rs models `SendError(pub u32)`, so `System::send_raw`'s inner error is a u32 and `match e { ErrorNumber::NotFound => ..}`
//    becomes a match on constants. Only the four names the EVM actor matches on are needed; all thirteen are listed.
//  * IPLD blocks as seen by the EVM: `raw_block(bytes)` = `IpldBlock { codec: IPLD_RAW, data: bytes }` (an opaque token determined by
//    the bytes) and `block_bytes(b)` = `b.deserialize::<BytesDe>().unwrap_or(b.data)` (the byte string in the block, or its raw
//    data when it is not one): deterministic functions of the block, nothing else assumed.
//  * logging helpers (`log::log_enabled!`, `hex::encode`, `String::truncate/push_str`): diagnostics only, no contract.
//  * Rt::gas_available(): a number; ASSUMED not to overflow when multiplied by 63 (the FVM's gas is bounded by the block gas limit
//    10^10 « 2^64 / 63; the same expression `63 * gas_available()` is in System::call_gas_limit).
//  * U256::to_big_endian(): the 32-byte big-endian representation (uint crate), as an opaque injective function of the value.
//  * Blockstore::get (raw block of a CID: content addressing), U256::from(usize), U256::from(BytecodeHash) (opaque word of the digest),
//    BytecodeHash::NATIVE_ACTOR.
//  * two slice helpers whose body IS the original expression (`&m[a..][..n]`, `dst[a..b].copy_from_slice(&vec[c..d])`).
macro_rules! vx_method_hash { ("InvokeEVM") => { 3844450837 }; }
macro_rules! vx_log_enabled { ($($t:tt)*) => { vx_log_enabled_fn() } }
verus! {

// ------------------------------------------------------------------ part 1 (as in evm_lifecycle_core.rs)
#[derive(Clone, Copy, PartialEq, Eq, Structural)]
pub struct EthAddress(pub [u8; 20]);
/// actors/evm/shared/src/address.rs `impl From<U256> for EthAddress`: the low 20 bytes of the word. Opaque, deterministic.
pub uninterp spec fn eth_of_word(w: U256) -> EthAddress;
impl vstd::std_specs::convert::FromSpecImpl<U256> for EthAddress {
    open spec fn obeys_from_spec() -> bool { true }
    open spec fn from_spec(w: U256) -> EthAddress { eth_of_word(w) }
}
impl From<U256> for EthAddress {
    #[verifier::external_body]
    fn from(w: U256) -> (r: EthAddress) { unimplemented!() }
}
/// EthAddress::as_id: Some(id) exactly for the masked-ID form 0xff ‖ 0^11 ‖ id (proved on the real code by Kani, C20). Opaque here.
pub uninterp spec fn eth_as_id(a: EthAddress) -> Option<ActorID>;
impl EthAddress {
    #[verifier::external_body]
    pub fn as_id(&self) -> (r: Option<ActorID>) ensures r == eth_as_id(*self) { unimplemented!() }
}
/// `impl From<EthAddress> for Address`: the ID address for a masked-ID (0xff..) address, else the f4 address in the EAM namespace.
pub uninterp spec fn fil_of_eth(a: EthAddress) -> Address;
impl vstd::std_specs::convert::FromSpecImpl<EthAddress> for Address {
    open spec fn obeys_from_spec() -> bool { true }
    open spec fn from_spec(a: EthAddress) -> Address { fil_of_eth(a) }
}
impl From<EthAddress> for Address {
    #[verifier::external_body]
    fn from(a: EthAddress) -> (r: Address) { unimplemented!() }
}
pub assume_specification<T: Clone>[<[T]>::to_vec](s: &[T]) -> (r: Vec<T>)
    ensures r@.len() == s@.len(), forall|i: int| 0 <= i < s@.len() ==> call_ensures(T::clone, (&#[trigger] s@[i],), r@[i]),
        (forall|i: int| 0 <= i < s@.len() ==> r@[i] == s@[i]) ==> r@ == s@;
impl Default for SendFlags {
    fn default() -> (r: SendFlags) ensures r.bits == 0 { SendFlags { bits: 0 } }
}
impl<'a> vstd::std_specs::convert::FromSpecImpl<&'a U256> for TokenAmount {
    open spec fn obeys_from_spec() -> bool { false }
    uninterp spec fn from_spec(w: &'a U256) -> TokenAmount;
}
impl<'a> From<&'a U256> for TokenAmount {
    #[verifier::external_body]
    fn from(w: &'a U256) -> (r: TokenAmount) ensures r@ == w@ { unimplemented!() }
}
impl IpldBlock {
    #[verifier::external_body]
    pub fn serialize_dag_cbor<T>(v: &T) -> (r: Result<Option<IpldBlock>, ActorError>)
        ensures r.is_ok() ==> r->Ok_0 == Some(IpldBlock { h: cbor_hash(*v) }), r.is_err() ==> r->Err_0.code == 21,
    { unimplemented!() }
}
impl ActorError {
    pub fn checked(code: ExitCode, msg: String, data: Option<IpldBlock>) -> (r: ActorError) ensures r.code == code.value { ActorError { code: code.value } }
}
impl BytecodeHash {
    /// keccak256("") and keccak256([0xfe]) (state.rs): two fixed, distinct opaque values
    pub const EMPTY: BytecodeHash = BytecodeHash { h: 0 };
    pub const NATIVE_ACTOR: BytecodeHash = BytecodeHash { h: 1 };
}

// ------------------------------------------------------------------ part 2 (new)
impl<'a> vstd::std_specs::convert::FromSpecImpl<&'a EthAddress> for Address {
    open spec fn obeys_from_spec() -> bool { true }
    open spec fn from_spec(a: &'a EthAddress) -> Address { fil_of_eth(*a) }
}
impl<'a> From<&'a EthAddress> for Address {
    #[verifier::external_body]
    fn from(a: &'a EthAddress) -> (r: Address) { unimplemented!() }
}

/// fvm_shared::error::ErrorNumber (`#[repr(u32)]`), as constants
#[allow(non_snake_case, non_upper_case_globals)]
pub mod ErrorNumber {
    pub const IllegalArgument: u32 = 1;
    pub const IllegalOperation: u32 = 2;
    pub const LimitExceeded: u32 = 3;
    pub const AssertionFailed: u32 = 4;
    pub const InsufficientFunds: u32 = 5;
    pub const NotFound: u32 = 6;
    pub const InvalidHandle: u32 = 7;
    pub const IllegalCid: u32 = 8;
    pub const IllegalCodec: u32 = 9;
    pub const Serialization: u32 = 10;
    pub const Forbidden: u32 = 11;
    pub const BufferTooSmall: u32 = 12;
    pub const ReadOnly: u32 = 13;
}

/// `IpldBlock { codec: IPLD_RAW, data }`: the block that carries exactly these bytes, uninterpreted
pub uninterp spec fn raw_block(data: Seq<u8>) -> IpldBlock;
#[verifier::external_body]
pub fn vx_raw_block(data: &[u8]) -> (r: IpldBlock) ensures r == raw_block(data@) { unimplemented!() }
/// `b.deserialize().map(|BytesDe(d)| d).unwrap_or_else(|_| b.data)`: the bytes the EVM sees of a returned block, uninterpreted
pub uninterp spec fn block_bytes(b: IpldBlock) -> Seq<u8>;
#[verifier::external_body]
pub fn vx_block_bytes(b: IpldBlock) -> (r: Vec<u8>) ensures r@ == block_bytes(b) { unimplemented!() }
/// the return / revert data of a callee as the EVM sees it: nothing for "returned no block"
pub open spec fn opt_block_bytes(b: Option<IpldBlock>) -> Seq<u8> {
    match b { Some(x) => block_bytes(x), None => Seq::<u8>::empty() }
}
impl ActorError {
    /// ActorError::take_data: removes the attached data, keeps the exit code. `err_data` names WHAT was attached (prelude/core.rs's
    /// ActorError carries only the exit code): for the error returned by `System::send` it is the callee's return block
    /// (`ActorError::checked(exit_code, msg, result.return_data)`), which the unit states as an explicit hypothesis where it is used.
    #[verifier::external_body]
    pub fn take_data(&mut self) -> (r: Option<IpldBlock>) ensures final(self).code == old(self).code { unimplemented!() }
}

// ---- diagnostics only (no contract)
#[verifier::external_body]
pub fn vx_log_enabled_fn() -> (r: bool) { unimplemented!() }
pub struct VxHexString { pub h: u64 }
impl VxHexString {
    #[verifier::external_body]
    pub fn truncate(&mut self, n: usize) { unimplemented!() }
    #[verifier::external_body]
    pub fn push_str(&mut self, s: &str) { unimplemented!() }
}
pub mod hex {
    #[verifier::external_body]
    pub fn encode(d: &[u8]) -> (r: super::VxHexString) { unimplemented!() }
}

impl Rt {
    /// Runtime::gas_available: some number of gas units, bounded so that `63 * gas` does not overflow (block gas limit 10^10)
    #[verifier::external_body]
    pub fn gas_available(&self) -> (r: u64) ensures 63 * (r as int) <= u64::MAX as int { unimplemented!() }
}

/// the 32-byte big-endian representation of a word (uint crate `to_big_endian`), an injective function of the value
pub uninterp spec fn be32_of(v: int) -> [u8; 32];
impl U256 {
    #[verifier::external_body]
    pub fn to_big_endian(&self) -> (r: [u8; 32]) ensures r == be32_of(self@) { unimplemented!() }
}
/// fvm_ipld_blockstore::Blockstore::get on the actor's store: the raw block stored under a CID, a function of the CID (content addressing)
pub uninterp spec fn raw_at(c: Cid) -> Option<Seq<u8>>;
impl Store {
    #[verifier::external_body]
    pub fn get(&self, c: &Cid) -> (r: Result<Option<Vec<u8>>, AnyhowError>)
        ensures r.is_ok() ==> (match r->Ok_0 { Some(v) => raw_at(*c) == Some(v@), None => raw_at(*c).is_none() }),
    { unimplemented!() }
}
/// `U256::from(usize)` (construct_uint!): the same number
impl vstd::std_specs::convert::FromSpecImpl<usize> for U256 {
    open spec fn obeys_from_spec() -> bool { false }
    uninterp spec fn from_spec(v: usize) -> U256;
}
impl From<usize> for U256 {
    #[verifier::external_body]
    fn from(v: usize) -> (r: U256) ensures r@ == v as int { unimplemented!() }
}
/// actors/evm/src/state.rs `impl From<BytecodeHash> for U256`: the 32 digest bytes as a big-endian word — an injective function of the hash, uninterpreted
pub uninterp spec fn hash_word(h: BytecodeHash) -> int;
impl ToBig for BytecodeHash { open spec fn big(self) -> int { hash_word(self) } }
impl vstd::std_specs::convert::FromSpecImpl<BytecodeHash> for U256 {
    open spec fn obeys_from_spec() -> bool { false }
    uninterp spec fn from_spec(v: BytecodeHash) -> U256;
}
impl From<BytecodeHash> for U256 {
    #[verifier::external_body]
    fn from(v: BytecodeHash) -> (r: U256) ensures r@ == hash_word(v) { unimplemented!() }
}
/// `&src[a..][..n]` — std panics unless a <= len and n <= len - a
#[verifier::external_body]
pub fn vx_subslice2(src: &Vec<u8>, a: usize, n: usize) -> (r: &[u8])
    requires a <= src@.len(), n <= src@.len() - a
    ensures r@ == src@.subrange(a as int, a + n)
{ &src[a..][..n] }
/// `dst[a..b].copy_from_slice(&src[c..d])` with the source a Vec (returndatacopy) — std panics unless both ranges are in bounds and equally long
#[verifier::external_body]
pub fn vx_copy_from_vec(dst: &mut Vec<u8>, a: usize, b: usize, src: &Vec<u8>, c: usize, d: usize)
    requires a <= b, b <= old(dst)@.len(), c <= d, d <= src@.len(), b - a == d - c
    ensures
        final(dst)@.len() == old(dst)@.len(),
        forall|i: int| 0 <= i < final(dst)@.len() ==> #[trigger] final(dst)@[i] == (if a <= i < b { src@[c + (i - a)] } else { old(dst)@[i] }),
{ dst[a..b].copy_from_slice(&src[c..d]) }
} // verus!
