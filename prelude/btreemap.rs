// prelude/btreemap.rs — TRUSTED. std::collections::BTreeMap as a finite map (lookup only).
verus! {
#[verifier::external_body]
#[verifier::reject_recursive_types(K)]
#[verifier::reject_recursive_types(V)]
pub struct BTreeMap<K, V> { p: PhantomData<(K, V)> }
impl<K, V> BTreeMap<K, V> {
    pub uninterp spec fn view(&self) -> Map<K, V>;
    #[verifier::external_body]
    pub fn get(&self, k: &K) -> (r: Option<&V>)
        ensures r.is_some() <==> self.view().dom().contains(*k), r.is_some() ==> *r->Some_0 == self.view()[*k]
    { unimplemented!() }
}
} // verus!
