// prelude/miner_expq_types.rs — opaque tags of fvm_shared used as fields of SectorOnChainInfo (TRUSTED stubs; as in prelude/policy.rs, without the runtime)
verus! {
#[derive(Clone, Copy, PartialEq, Eq, Debug, Structural)]
pub struct RegisteredSealProof { pub id: i64 }
} // verus!
