// prelude/paych_method_assumed.rs — TRUSTED stubs for the payment-channel method UpdateChannelState (outside its transaction closure).
//  * fvm_shared Signature: only its byte string is used.
//  * SignedVoucher::signing_bytes (types.rs): CBOR of every field but the signature — an opaque deterministic function of the voucher.
//  * Runtime::hash_blake2b: an opaque deterministic function of the bytes (the property needs "the right secret", i.e. equality of the
//    hash with the voucher's pre-image field, not collision resistance).
//  * byte-slice comparison, Vec<u8> plumbing, and the IpldBlock built from the voucher's `extra.data` (opaque handle, as in prelude/rt.rs).
verus! {
pub struct Signature { pub bytes: Vec<u8> }
pub uninterp spec fn signing_bytes_spec(sv: SignedVoucher) -> Seq<u8>;
impl SignedVoucher {
    #[verifier::external_body]
    pub fn signing_bytes(&self) -> (r: Result<Vec<u8>, AnyhowError>)
        ensures r.is_ok() ==> r->Ok_0@ == signing_bytes_spec(*self)
    { unimplemented!() }
}
pub uninterp spec fn blake2b_spec(data: Seq<u8>) -> Seq<u8>;
impl Rt {
    #[verifier::external_body]
    pub fn hash_blake2b(&self, data: &[u8]) -> (r: [u8; 32]) ensures r@ == blake2b_spec(data@) { unimplemented!() }
}
/// `ext::account::AUTHENTICATE_MESSAGE_METHOD` = frc42 method_hash!("AuthenticateMessage") (a proc-macro constant; its value is not needed)
pub uninterp spec fn authenticate_message_method_spec() -> u64;
#[verifier::external_body]
pub fn authenticate_message_method() -> (r: u64) ensures r == authenticate_message_method_spec() { unimplemented!() }
/// `bytes.to_vec()` on a byte vector / slice: an equal copy
#[verifier::external_body]
pub fn vx_bytes_to_vec(s: &Vec<u8>) -> (r: Vec<u8>) ensures r@ == s@ { s.to_vec() }
/// std Result::and_then: the continuation runs on Ok, an Err passes through
pub assume_specification<T, E, U, F>[Result::<T, E>::and_then](res: Result<T, E>, f: F) -> (r: Result<U, E>)
    where F: FnOnce(T) -> Result<U, E> + std::marker::Destruct
    requires res.is_ok() ==> call_requires(f, (res->Ok_0,)),
    ensures
        res.is_ok() ==> call_ensures(f, (res->Ok_0,), r),
        res.is_err() ==> r.is_err() && r->Err_0 == res->Err_0;
/// the CBOR block of AuthenticateMessageParams is a function of its two byte strings (strict_bytes fields)
pub uninterp spec fn auth_params_hash(signature: Seq<u8>, message: Seq<u8>) -> u64;
pub axiom fn axiom_auth_params_hash()
    ensures forall|p: ext::account::AuthenticateMessageParams| #[trigger] cbor_hash(p) == auth_params_hash(p.signature@, p.message@);
/// `a != b` on byte slices
#[verifier::external_body]
pub fn vx_bytes_ne(a: &[u8], b: &[u8]) -> (r: bool) ensures r == (a@ != b@) { a != b }
/// `Some(IpldBlock { codec: CBOR, data: raw.to_vec() })`: the block carrying exactly these bytes
#[verifier::external_body]
pub fn vx_block_of_raw(raw: &RawBytes) -> (r: Option<IpldBlock>) ensures r == Some(IpldBlock { h: raw.h }) { unimplemented!() }
} // verus!
