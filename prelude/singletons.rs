// singleton actor ids/addresses extracted from /repo (runtime/src/builtin/singletons.rs)
verus! {
//@ const runtime/src/builtin/singletons.rs SYSTEM_ACTOR_ID
//@ const runtime/src/builtin/singletons.rs INIT_ACTOR_ID
//@ const runtime/src/builtin/singletons.rs REWARD_ACTOR_ID
//@ const runtime/src/builtin/singletons.rs CRON_ACTOR_ID
//@ const runtime/src/builtin/singletons.rs STORAGE_POWER_ACTOR_ID
//@ const runtime/src/builtin/singletons.rs STORAGE_MARKET_ACTOR_ID
//@ const runtime/src/builtin/singletons.rs VERIFIED_REGISTRY_ACTOR_ID
//@ const runtime/src/builtin/singletons.rs DATACAP_TOKEN_ACTOR_ID
//@ const runtime/src/builtin/singletons.rs EAM_ACTOR_ID
//@ const runtime/src/builtin/singletons.rs BURNT_FUNDS_ACTOR_ID
//@ const runtime/src/builtin/singletons.rs SYSTEM_ACTOR_ADDR
//@ const runtime/src/builtin/singletons.rs INIT_ACTOR_ADDR
//@ const runtime/src/builtin/singletons.rs REWARD_ACTOR_ADDR
//@ const runtime/src/builtin/singletons.rs CRON_ACTOR_ADDR
//@ const runtime/src/builtin/singletons.rs STORAGE_POWER_ACTOR_ADDR
//@ const runtime/src/builtin/singletons.rs STORAGE_MARKET_ACTOR_ADDR
//@ const runtime/src/builtin/singletons.rs VERIFIED_REGISTRY_ACTOR_ADDR
//@ const runtime/src/builtin/singletons.rs DATACAP_TOKEN_ACTOR_ADDR
//@ const runtime/src/builtin/singletons.rs EAM_ACTOR_ADDR
//@ const runtime/src/builtin/singletons.rs BURNT_FUNDS_ACTOR_ADDR
} // verus!
