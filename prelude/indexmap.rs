// prelude/indexmap.rs — TRUSTED. indexmap::IndexMap as an insertion-ordered association list with unique keys.
verus! {
pub struct IndexMap<K, V> { pub entries: Vec<(K, V)> }
pub open spec fn im_has<K, V>(s: Seq<(K, V)>, k: K) -> bool { exists|i: int| 0 <= i < s.len() && #[trigger] s[i].0 == k }
impl<K, V> IndexMap<K, V> {
    pub open spec fn view(&self) -> Seq<(K, V)> { self.entries@ }
    pub open spec fn has(&self, k: K) -> bool { im_has(self.entries@, k) }
    pub fn new() -> (r: Self) ensures r@.len() == 0 { IndexMap { entries: Vec::new() } }
    /// insert: replaces the value in place when the key is present, appends otherwise
    #[verifier::external_body]
    pub fn insert(&mut self, k: K, v: V) -> (r: Option<V>)
        ensures
            old(self).has(k) ==> final(self)@.len() == old(self)@.len()
                && (forall|i: int| 0 <= i < old(self)@.len() ==> #[trigger] final(self)@[i] == (if old(self)@[i].0 == k { (k, v) } else { old(self)@[i] })),
            !old(self).has(k) ==> final(self)@ == old(self)@.push((k, v)),
            // consequences (keys are kept, k is present, nothing else appears)
            im_has(final(self)@, k), forall|k2: K| im_has(old(self)@, k2) ==> #[trigger] im_has(final(self)@, k2),
            forall|k2: K| #[trigger] im_has(final(self)@, k2) ==> im_has(old(self)@, k2) || k2 == k,
    { unimplemented!() }
    /// by-value iteration order = insertion order (substituted for `in map` by the extractor, listed under substitutions)
    pub fn vx_into_vec(self) -> (r: Vec<(K, V)>) ensures r@ == self@ { self.entries }
}
} // verus!
