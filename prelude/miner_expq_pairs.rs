// prelude/miner_expq_pairs.rs — TRUSTED. The std / itertools expressions of BitFieldQueue::add_many_to_queue_values (bitfield_queue.rs) that are
// outside Verus' subset (iterator adapters with closures, `sort_unstable`, `dedup`, `Peekable`, itertools `peeking_take_while`), each as a small helper
// whose contract is the documented meaning of the expression it stands for; the unit substitutes exactly that expression by the helper call.
// Included INSIDE the unit's verus!{} block, after QuantSpec / quantize_up_spec / q_ok / small.
pub type EpochVal = (ChainEpoch, u64);
/// `values.into_iter().map(|(raw_epoch, value)| (self.quant.quantize_up(raw_epoch), value)).collect()` — Iterator::map + collect: the closure applied
/// to every element, in order (the body IS that expression, with `self.quant` passed as `quant`; the precondition is quantize_up's, for every element)
#[verifier::external_body]
pub fn vx_quantize_pairs(quant: &QuantSpec, values: Vec<EpochVal>) -> (r: Vec<EpochVal>)
    requires q_ok(*quant), forall|i: int| 0 <= i < values@.len() ==> small((#[trigger] values@[i]).0 as int),
    ensures r@.len() == values@.len(), forall|i: int| 0 <= i < r@.len() ==> (#[trigger] r@[i]).0 == quantize_up_spec(*quant, values@[i].0 as int) && r@[i].1 == values@[i].1,
{ values.into_iter().map(|(raw_epoch, value)| (quant.quantize_up(raw_epoch), value)).collect() }

/// the derived `Ord` of a pair: lexicographic
pub open spec fn pair_le(a: EpochVal, b: EpochVal) -> bool { a.0 < b.0 || (a.0 == b.0 && a.1 <= b.1) }
pub open spec fn pair_lt(a: EpochVal, b: EpochVal) -> bool { a.0 < b.0 || (a.0 == b.0 && a.1 < b.1) }
/// `<[T]>::sort_unstable()`: a permutation of the input, in non-decreasing order
#[verifier::external_body]
pub fn vx_sort_unstable_pairs(v: &mut Vec<EpochVal>)
    ensures final(v)@.to_multiset() == old(v)@.to_multiset(), forall|i: int, j: int| 0 <= i < j < final(v)@.len() ==> pair_le(#[trigger] final(v)@[i], #[trigger] final(v)@[j]),
{ v.sort_unstable() }
/// `Vec::dedup()`: "removes consecutive repeated elements" (keeps the first of every run of equal elements)
pub open spec fn seq_dedup(s: Seq<EpochVal>) -> Seq<EpochVal>
    decreases s.len()
{
    if s.len() <= 1 { s } else if s[s.len() - 2] == s.last() { seq_dedup(s.drop_last()) } else { seq_dedup(s.drop_last()).push(s.last()) }
}
#[verifier::external_body]
pub fn vx_dedup_pairs(v: &mut Vec<EpochVal>) ensures final(v)@ == seq_dedup(old(v)@) { v.dedup() }

/// `Peekable<vec::IntoIter<(ChainEpoch, u64)>>`: viewed as the sequence of items it has still to yield
#[verifier::external_body]
pub struct PairIter { inner: std::iter::Peekable<std::vec::IntoIter<EpochVal>> }
impl View for PairIter { type V = Seq<EpochVal>; uninterp spec fn view(&self) -> Seq<EpochVal>; }
/// `quantized_values.into_iter().peekable()`: yields the elements of the vector in order
#[verifier::external_body]
pub fn vx_peekable_pairs(v: Vec<EpochVal>) -> (r: PairIter) ensures r@ == v@ { PairIter { inner: v.into_iter().peekable() } }
/// the loop header `while let Some(&(epoch, _)) = iter.peek()`: Peekable::peek looks at the next item without consuming it; the loop runs while there is one
/// and binds its first component
#[verifier::external_body]
pub fn vx_peek_epoch(iter: &mut PairIter, epoch: &mut ChainEpoch) -> (more: bool)
    ensures final(iter)@ == old(iter)@, more == (old(iter)@.len() > 0), more ==> *final(epoch) == old(iter)@[0].0, !more ==> *final(epoch) == *old(epoch),
{ match iter.inner.peek() { Some(&(e, _)) => { *epoch = e; true } None => false } }
/// `k` leading items of `s` have epoch `e`, and the next one (if any) has not
pub open spec fn pairs_run_at(s: Seq<EpochVal>, e: ChainEpoch, k: int) -> bool {
    &&& 0 <= k <= s.len()
    &&& forall|i: int| 0 <= i < k ==> (#[trigger] s[i]).0 == e
    &&& k < s.len() ==> s[k].0 != e
}
/// `iter.peeking_take_while(|&(e, _)| e == epoch).map(|(_, v)| v)` (itertools), consumed to its end by the callee (`BitField::try_from_bits(values)`
/// collects all of it before anything else happens): removes the longest prefix of items whose epoch is `epoch` and yields their second components;
/// the first item with another epoch stays in `iter` (peeking_next peeks before it takes). itertools is not available to the single-file check: no body.
#[verifier::external_body]
pub fn vx_take_epoch_run(iter: &mut PairIter, epoch: ChainEpoch) -> (r: Vec<u64>)
    ensures exists|k: int| pairs_run_at(old(iter)@, epoch, k) && r@ == Seq::new(k as nat, |i: int| old(iter)@[i].1) && final(iter)@ == old(iter)@.skip(k),
{ unimplemented!() }
