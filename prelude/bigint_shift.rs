// prelude/bigint_shift.rs — TRUSTED. num-bigint `BigInt << i64` and `BigInt >> i64`: multiplication by 2^k, and FLOOR division by 2^k
// (num-bigint's `>>` on a negative value rounds toward minus infinity). Shift amounts must be non-negative (num-bigint panics otherwise).
verus! {
pub open spec fn pow2i(k: int) -> int { vstd::arithmetic::power2::pow2(k as nat) as int }
impl vstd::std_specs::ops::ShlSpecImpl<i64> for BigInt {
    open spec fn obeys_shl_spec() -> bool { false }
    open spec fn shl_req(self, rhs: i64) -> bool { rhs >= 0 }
    uninterp spec fn shl_spec(self, rhs: i64) -> BigInt;
}
impl Shl<i64> for BigInt { type Output = BigInt;
    #[verifier::external_body]
    fn shl(self, rhs: i64) -> (r: BigInt) ensures r@ == self@ * pow2i(rhs as int) { unimplemented!() } }
impl vstd::std_specs::ops::ShrSpecImpl<i64> for BigInt {
    open spec fn obeys_shr_spec() -> bool { false }
    open spec fn shr_req(self, rhs: i64) -> bool { rhs >= 0 }
    uninterp spec fn shr_spec(self, rhs: i64) -> BigInt;
}
impl Shr<i64> for BigInt { type Output = BigInt;
    #[verifier::external_body]
    fn shr(self, rhs: i64) -> (r: BigInt) ensures r@ == floor_div(self@, pow2i(rhs as int)) { unimplemented!() } }
} // verus!
