// prelude/address_protocol.rs — TRUSTED. fvm_shared Address::protocol(): the address class; the model's `proto == 0` is the ID class.
verus! {
#[derive(Clone, Copy, PartialEq, Eq, Structural)]
pub enum Protocol { ID, Secp256k1, Actor, BLS, Delegated }
impl Address {
    #[verifier::external_body]
    pub fn protocol(&self) -> (r: Protocol) ensures (r == Protocol::ID) == (self.proto == 0) { unimplemented!() }
}
} // verus!
