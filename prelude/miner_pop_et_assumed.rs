// prelude/miner_pop_et_assumed.rs — ASSUMED contracts around State::pop_early_terminations (state.rs); each names the real code it stands for.
/// the miner State as far as this function reads it: the miner-level index of deadlines with early terminations pending, the deadlines root
pub struct State { pub early_terminations: BitField, pub deadlines: Cid, pub rest: Ghost<int> }
/// termination.rs TerminationResult: only its two counters are looked at here; the sector content is carried along opaquely
pub struct TerminationResult { pub partitions_processed: u64, pub sectors_processed: u64, pub content: Ghost<Seq<int>> }
impl TerminationResult {
    /// TerminationResult::new / Default: empty, both counters 0
    #[verifier::external_body]
    pub fn new() -> (r: TerminationResult) ensures r.partitions_processed == 0 && r.sectors_processed == 0 { unimplemented!() }
    #[verifier::external_body]
    pub fn default() -> (r: TerminationResult) ensures r.partitions_processed == 0 && r.sectors_processed == 0 { unimplemented!() }
    /// `impl AddAssign` (termination.rs:18): both counters are added (u64 `+=`: aborts on overflow under overflow-checks, so on return they are the sums)
    #[verifier::external_body]
    pub fn vx_add_assign(&mut self, rhs: TerminationResult)
        ensures final(self).partitions_processed as int == old(self).partitions_processed + rhs.partitions_processed,
                final(self).sectors_processed as int == old(self).sectors_processed + rhs.sectors_processed,
    { unimplemented!() }
}
/// deadline_state.rs Deadlines (the array of deadline roots) and Deadline: opaque values
#[verifier::external_body]
pub struct Deadlines { inner: Box<u8> }
#[verifier::external_body]
pub struct Deadline { inner: Box<u8> }
pub uninterp spec fn dls_of(root: Cid) -> Deadlines;
pub uninterp spec fn dls_load(ds: Deadlines, idx: u64) -> Deadline;
pub uninterp spec fn dls_update(ds: Deadlines, idx: u64, d: Deadline) -> Deadlines;
pub uninterp spec fn dls_root(ds: Deadlines) -> Cid;
/// "this deadline still has early terminations queued" — deadline_state.rs: `!self.early_terminations.is_empty()` after the pop
pub uninterp spec fn dl_et_pending(d: Deadline) -> bool;
pub uninterp spec fn dl_pop_et(d: Deadline, max_partitions: u64, max_sectors: u64) -> Deadline;
impl State {
    /// state.rs load_deadlines: decodes the block under `self.deadlines` — a function of that Cid
    #[verifier::external_body]
    pub fn load_deadlines<BS: Blockstore>(&self, store: &BS) -> (r: Result<Deadlines, ActorError>) ensures r.is_ok() ==> r->Ok_0 == dls_of(self.deadlines) { unimplemented!() }
    /// state.rs save_deadlines: `self.deadlines = store.put_cbor(&deadlines)`; nothing else of the state is written
    #[verifier::external_body]
    pub fn save_deadlines<BS: Blockstore>(&mut self, store: &BS, deadlines: Deadlines) -> (r: anyhow::Result<()>)
        ensures
            r.is_ok() ==> *final(self) == (State { deadlines: dls_root(deadlines), ..*old(self) }) && dls_of(dls_root(deadlines)) == deadlines,
            r.is_err() ==> *final(self) == *old(self),
    { unimplemented!() }
}
impl Deadlines {
    #[verifier::external_body]
    pub fn load_deadline<BS: Blockstore>(&self, store: &BS, idx: u64) -> (r: Result<Deadline, ActorError>) ensures r.is_ok() ==> r->Ok_0 == dls_load(*self, idx) { unimplemented!() }
    /// deadlines.rs update_deadline: stores the deadline and writes its Cid at `due[idx]`: the other entries are untouched, the entry reads back
    #[verifier::external_body]
    pub fn update_deadline<BS: Blockstore>(&mut self, policy: &Policy, store: &BS, deadline_idx: u64, deadline: &Deadline) -> (r: anyhow::Result<()>)
        ensures
            r.is_ok() ==> *final(self) == dls_update(*old(self), deadline_idx, *deadline) && dls_load(*final(self), deadline_idx) == *deadline
                && forall|k: u64| k != deadline_idx ==> #[trigger] dls_load(*final(self), k) == dls_load(*old(self), k),
    { unimplemented!() }
}
impl Deadline {
    /// deadline_state.rs Deadline::pop_early_terminations (UNDER CONTRACT in units/C04/miner_deadline_state.vx.rs, restated at what this caller
    /// needs): "has more" is exactly "some early-termination flag is left on this deadline"; the sector limit is respected, and the partition
    /// limit too when it is at least 1 (each visited partition counts 1 — partition_state.rs:655 — and the loop stops as soon as a limit is reached)
    #[verifier::external_body]
    pub fn pop_early_terminations<BS: Blockstore>(&mut self, store: &BS, max_partitions: u64, max_sectors: u64) -> (r: anyhow::Result<(TerminationResult, bool)>)
        ensures
            r.is_ok() ==> *final(self) == dl_pop_et(*old(self), max_partitions, max_sectors) && r->Ok_0.1 == dl_et_pending(*final(self))
                && r->Ok_0.0.sectors_processed <= max_sectors && (max_partitions >= 1 ==> r->Ok_0.0.partitions_processed <= max_partitions),
    { unimplemented!() }
}
impl BitField {
    /// `bf.iter()` visits every set bit exactly once, in increasing order; modelled as the Vec of the bits (as in prelude/miner_deadline_state_assumed.rs)
    #[verifier::external_body]
    pub fn iter(&self) -> (r: Vec<u64>)
        ensures r@.to_set() == self@, forall|i: int, j: int| 0 <= i < j < r@.len() ==> r@[i] < r@[j],
    { unimplemented!() }
}
