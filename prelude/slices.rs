// prelude/slices.rs — TRUSTED. std slice operations on byte vectors with their documented semantics, as named helpers.
// vx substitutes `X[a..b].copy_from_slice(&Y[c..d])` / `X[a..b].fill(v)` by these helpers (explicit `sub`, listed in the evidence);
// each helper's body IS the original expression, its `requires` are exactly the conditions under which std panics.
verus! {
#[verifier::external_body]
pub fn vx_copy_from_slice(dst: &mut Vec<u8>, a: usize, b: usize, src: &[u8], c: usize, d: usize)
    requires a <= b, b <= old(dst)@.len(), c <= d, d <= src@.len(), b - a == d - c
    ensures
        final(dst)@.len() == old(dst)@.len(),
        forall|i: int| 0 <= i < final(dst)@.len() ==> #[trigger] final(dst)@[i] == (if a <= i < b { src@[c + (i - a)] } else { old(dst)@[i] }),
{ dst[a..b].copy_from_slice(&src[c..d]) }
#[verifier::external_body]
pub fn vx_fill(dst: &mut Vec<u8>, a: usize, b: usize, v: u8)
    requires a <= b, b <= old(dst)@.len()
    ensures
        final(dst)@.len() == old(dst)@.len(),
        forall|i: int| 0 <= i < final(dst)@.len() ==> #[trigger] final(dst)@[i] == (if a <= i < b { v } else { old(dst)@[i] }),
{ dst[a..b].fill(v) }

/// std::num::NonZeroUsize
#[derive(Clone, Copy)]
pub struct NonZeroUsize { pub v: usize }
impl NonZeroUsize {
    /// unsafe in std: undefined behaviour for 0 — hence the precondition
    pub fn new_unchecked(n: usize) -> (r: NonZeroUsize) requires n != 0 ensures r.v == n { NonZeroUsize { v: n } }
    pub fn get(self) -> (r: usize) ensures r == self.v { self.v }
}

pub assume_specification<T, A: core::alloc::Allocator>[Vec::<T, A>::capacity](v: &Vec<T, A>) -> (r: usize)
    ensures r >= v@.len();
/// std `<[T]>::contains`: some element equals x (second clause: for types whose PartialEq is structural equality)
pub assume_specification<T: PartialEq>[<[T]>::contains](s: &[T], x: &T) -> (r: bool)
    ensures
        T::obeys_eq_spec() ==> r == (exists|i: int| 0 <= i < s@.len() && #[trigger] vstd::std_specs::cmp::PartialEqSpec::eq_spec(&s@[i], x)),
        (T::obeys_eq_spec() && forall|a: T, b: T| #[trigger] vstd::std_specs::cmp::PartialEqSpec::eq_spec(&a, &b) == (a == b)) ==> r == s@.contains(*x);
pub assume_specification[usize::div_ceil](a: usize, b: usize) -> (r: usize)
    requires b != 0
    ensures r as int == (a as int + b as int - 1) / (b as int);
} // verus!
