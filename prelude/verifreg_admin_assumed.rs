// prelude/verifreg_admin_assumed.rs — TRUSTED/ASSUMED stubs of the verifreg verifier-management unit (constructor, add_verifier,
// remove_verifier, remove_verified_client_data_cap). Included INSIDE the unit's `verus!{}` block, after the `ext::account` module.
// Every item stands for code outside /repo/actors/verifreg/src; the comment says which and why the contract is true of it.

// ---- fvm_shared::crypto::signature::Signature (external crate): only its byte string is used ---------------------------------
pub struct Signature { pub bytes: Vec<u8> }

// ---- FRC-42 method numbers (values of the proc-macro `frc42_dispatch::method_hash!`): opaque constants -----------------------
/// `ext::datacap::Method::Balance as u64`
pub uninterp spec fn datacap_balance_method_spec() -> u64;
#[verifier::external_body]
pub fn datacap_balance_method() -> (r: u64) ensures r == datacap_balance_method_spec() { unimplemented!() }
/// `ext::account::AUTHENTICATE_MESSAGE_METHOD`
pub uninterp spec fn authenticate_message_method_spec() -> u64;
#[verifier::external_body]
pub fn authenticate_message_method() -> (r: u64) ensures r == authenticate_message_method_spec() { unimplemented!() }

// ---- std Result::and_then: the continuation runs on Ok, an Err passes through (same text as prelude/paych_method_assumed.rs) ---
pub assume_specification<T, E, U, F>[Result::<T, E>::and_then](res: Result<T, E>, f: F) -> (r: Result<U, E>)
    where F: FnOnce(T) -> Result<U, E> + std::marker::Destruct
    requires res.is_ok() ==> call_requires(f, (res->Ok_0,)),
    ensures
        res.is_ok() ==> call_ensures(f, (res->Ok_0,), r),
        res.is_err() ==> r.is_err() && r->Err_0 == res->Err_0;

// ---- the CBOR block of AuthenticateMessageParams is a function of its two byte strings (both fields are `strict_bytes`) -------
pub uninterp spec fn auth_params_hash(signature: Seq<u8>, message: Seq<u8>) -> u64;
pub axiom fn axiom_auth_params_hash()
    ensures forall|p: ext::account::AuthenticateMessageParams| #[trigger] cbor_hash(p) == auth_params_hash(p.signature@, p.message@);

// ---- fvm_ipld_encoding::RawBytes::serialize: the CBOR bytes of a value — an opaque deterministic function of the value ----------
// (same token as IpldBlock::serialize_cbor in prelude/rt.rs: `cbor_hash`); `bytes()` is the byte string behind the token
pub uninterp spec fn raw_seq(b: RawBytes) -> Seq<u8>;
impl RawBytes {
    #[verifier::external_body]
    pub fn serialize<T>(v: T) -> (r: Result<RawBytes, AnyhowError>) ensures r.is_ok() ==> r->Ok_0 == (RawBytes { h: cbor_hash(v) }) { unimplemented!() }
    #[verifier::external_body]
    pub fn bytes(&self) -> (r: &[u8]) ensures r@ == raw_seq(*self) { unimplemented!() }
}
/// `SIGNATURE_DOMAIN_SEPARATION_REMOVE_DATA_CAP` (types.rs): the byte-string constant b"fil_removedatacap:" (byte-string
/// literals have no Verus model; its value is not needed, only that it is a constant)
pub uninterp spec fn sig_domain_spec() -> Seq<u8>;
#[verifier::external_body]
pub fn vx_sig_domain() -> (r: &'static [u8]) ensures r@ == sig_domain_spec() { unimplemented!() }
/// `[a, b].concat()` on two byte slices: a followed by b (std `<[&[u8]]>::concat`)
#[verifier::external_body]
pub fn vx_concat2(a: &[u8], b: &[u8]) -> (r: Vec<u8>) ensures r@ == a@ + b@ { [a, b].concat() }
/// `Vec<u8>::clone()`: an equal vector
#[verifier::external_body]
pub fn vx_clone_bytes(v: &Vec<u8>) -> (r: Vec<u8>) ensures r@ == v@ { v.clone() }

// ---- runtime/src/util/mapmap.rs `MapMap::new`: an empty two-level table (no outer HAMT entries) --------------------------------
impl<'a, BS: Blockstore, V, K1, K2> MapMap<'a, BS, V, K1, K2> {
    #[verifier::external_body]
    pub fn new(store: &'a BS, outer_bitwidth: u32, inner_bitwidth: u32) -> (r: Self)
        ensures r.view() == Map::<(K1, K2), V>::empty()
    { unimplemented!() }
}

// ---- the CBOR bytes of a RemoveDataCapProposal (types.rs: Serialize_tuple of (verified_client, bigint_ser(data_cap_amount),
//      removal_proposal_id)) are a function of the three field VALUES: the client address, the amount as a number, the id ---------
pub uninterp spec fn removal_proposal_hash(client: Address, amount: int, id: u64) -> u64;
pub axiom fn axiom_removal_proposal_hash()
    ensures forall|p: RemoveDataCapProposal| #[trigger] cbor_hash(p) == removal_proposal_hash(p.verified_client, p.data_cap_amount@, p.removal_proposal_id.id);
