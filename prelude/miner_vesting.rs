// ===========================================================================================
// prelude/miner_vesting.rs — ASSUMED contract of miner `VestingFunds` (vesting_state.rs) for the
// units that only *use* the vesting table (miner State funds functions). The same contract is what
// unit C14/vesting tries to establish on the real functions; where that unit only reaches a
// bounded Kani stand-in the assumption is listed in the evidence.
// View: the table as a sequence of (epoch, amount) in epoch order.
// ===========================================================================================
verus! {

pub struct VfEntry { pub epoch: int, pub amount: int }

pub open spec fn vf_sum(s: Seq<VfEntry>) -> int
    decreases s.len()
{
    if s.len() == 0 { 0 } else { s[0].amount + vf_sum(s.subrange(1, s.len() as int)) }
}
/// total of entries that have vested strictly before `e`
pub open spec fn vf_sum_before(s: Seq<VfEntry>, e: int) -> int
    decreases s.len()
{
    if s.len() == 0 { 0 } else { (if s[0].epoch < e { s[0].amount } else { 0 }) + vf_sum_before(s.subrange(1, s.len() as int), e) }
}
pub open spec fn vf_nonneg(s: Seq<VfEntry>) -> bool {
    &&& forall|i: int| 0 <= i < s.len() ==> #[trigger] s[i].amount >= 0
    // representation invariant of the real table (head + tail in strictly increasing epoch order): the real functions look only at the head to
    // decide whether anything has vested, so the contracts below are true of them only for a sorted table; `new` establishes it and every
    // method preserves it (proved on the real code in unit C14/miner_vesting: `vt_ok`)
    &&& forall|i: int, j: int| 0 <= i < j < s.len() ==> (#[trigger] s[i]).epoch < (#[trigger] s[j]).epoch
}

pub proof fn lemma_vf_bounds(s: Seq<VfEntry>, e: int)
    requires vf_nonneg(s)
    ensures 0 <= vf_sum_before(s, e) <= vf_sum(s)
    decreases s.len()
{
    if s.len() > 0 {
        let t = s.subrange(1, s.len() as int);
        assert forall|i: int| 0 <= i < t.len() implies #[trigger] t[i].amount >= 0 by { assert(t[i] == s[i + 1]); }
        assert forall|i: int, j: int| 0 <= i < j < t.len() implies (#[trigger] t[i]).epoch < (#[trigger] t[j]).epoch by { assert(t[i] == s[i + 1] && t[j] == s[j + 1]); }
        lemma_vf_bounds(t, e);
    }
}

#[verifier::external_body]
pub struct VestingFunds { inner: Box<u8> }
impl View for VestingFunds { type V = Seq<VfEntry>; uninterp spec fn view(&self) -> Seq<VfEntry>; }

impl VestingFunds {
    #[verifier::external_body]
    pub fn unlock_vested_funds<BS: Blockstore>(&mut self, store: &BS, current_epoch: ChainEpoch) -> (r: Result<TokenAmount, ActorError>)
        requires vf_nonneg(old(self)@)
        ensures
            vf_nonneg(final(self)@),
            r.is_ok() ==> r->Ok_0@ == vf_sum_before(old(self)@, current_epoch as int)
                && vf_sum(final(self)@) == vf_sum(old(self)@) - r->Ok_0@
                && vf_sum_before(final(self)@, current_epoch as int) == 0,
            r.is_err() ==> final(self)@ == old(self)@,
    { unimplemented!() }

    #[verifier::external_body]
    pub fn add_locked_funds<BS: Blockstore>(&mut self, store: &BS, current_epoch: ChainEpoch, vesting_sum: &TokenAmount,
            proving_period_start: ChainEpoch, spec: &VestSpec) -> (r: Result<TokenAmount, ActorError>)
        requires vf_nonneg(old(self)@), vesting_sum@ >= 0
        ensures
            vf_nonneg(final(self)@),
            // everything released had vested before `current_epoch` in the OLD table: nothing of the new funds is released
            r.is_ok() ==> r->Ok_0@ == vf_sum_before(old(self)@, current_epoch as int)
                && vf_sum(final(self)@) == vf_sum(old(self)@) - r->Ok_0@ + vesting_sum@,
            r.is_err() ==> final(self)@ == old(self)@,
    { unimplemented!() }

    #[verifier::external_body]
    pub fn unlock_vested_and_unvested_funds<BS: Blockstore>(&mut self, store: &BS, current_epoch: ChainEpoch, target: &TokenAmount)
            -> (r: Result<(TokenAmount, TokenAmount), ActorError>)
        requires vf_nonneg(old(self)@), target@ >= 0
        ensures
            vf_nonneg(final(self)@),
            r.is_ok() ==> ({
                let (vested, unvested) = r->Ok_0;
                let avail = vf_sum(old(self)@) - vf_sum_before(old(self)@, current_epoch as int);
                &&& 0 <= vested@ <= vf_sum_before(old(self)@, current_epoch as int)
                &&& unvested@ == (if target@ <= avail { target@ } else { avail })
                &&& vf_sum(final(self)@) == vf_sum(old(self)@) - vested@ - unvested@
            }),
            r.is_err() ==> final(self)@ == old(self)@,
    { unimplemented!() }
}

} // verus!
