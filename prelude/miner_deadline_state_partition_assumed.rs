// prelude/miner_deadline_state_partition_assumed.rs — a STRENGTHENED COPY of prelude/miner_partition_assumed.rs (include one or the other,
// never both). ASSUMED (unverified) contracts of miner code that the Partition methods call but that is not under contract: the expiration
// queue (expiration_queue.rs, ~1 kLoC of AMT rescheduling), select_sectors (sectors.rs), power_for_sectors (lib.rs), Sectors::load_sectors.
// They return SOME power / pledge / fee and touch nothing of the partition. What this copy ADDS to the original (each marked `ADDED`), needed
// by the deadline level to relate the SECTOR COUNT memos (live_sectors / total_sectors) to the partitions' sector sets:
//   * sector infos have a sector number (`soci_number`), `load_sectors(bf)` returns infos whose numbers are exactly `bf`;
//   * ExpirationQueue::pop_until / remove_sectors return an ExpirationSet whose on-time and early sector sets are DISJOINT — the data
//     invariant of the queue "a sector number is scheduled in exactly one entry, either on time or early" (kept by add_active_sectors /
//     reschedule_* / replace_sectors, checked by the state-invariant tests of the miner); remove_sectors removes EXACTLY the given sectors
//     (expiration_queue.rs: non-faulty ones through remove_active_sectors, faulty ones by the scan; `remaining` must end empty);
//   * ExpirationQueue::add_active_sectors returns the bitfield of exactly the given sectors' numbers (expiration_queue.rs: the union of
//     the groups' sector numbers).
verus! {
#[verifier::external_body]
pub struct SectorOnChainInfo { inner: Box<u8> }
/// ADDED: the `sector_number` field of an info, and the set of numbers of a slice of infos
pub uninterp spec fn soci_number(s: SectorOnChainInfo) -> u64;
pub open spec fn soci_numbers(s: Seq<SectorOnChainInfo>) -> Set<u64> { s.map_values(|x: SectorOnChainInfo| soci_number(x)).to_set() }
#[derive(Clone, Copy)]
pub struct SectorSize { pub v: u64 }
pub struct ExpAmt {}
impl ExpAmt {
    #[verifier::external_body]
    pub fn flush(&mut self) -> (r: Result<Cid, AnyhowError>) { unimplemented!() }
}
pub struct ExpirationQueue { pub amt: ExpAmt }
impl ExpirationQueue {
    #[verifier::external_body]
    pub fn new<BS: Blockstore>(store: &BS, root: &Cid, quant: QuantSpec) -> (r: Result<ExpirationQueue, AnyhowError>) { unimplemented!() }
    #[verifier::external_body]
    pub fn reschedule_as_faults(&mut self, new_expiration: ChainEpoch, sectors: &[SectorOnChainInfo], sector_size: SectorSize) -> (r: anyhow::Result<PowerPair>) { unimplemented!() }
    #[verifier::external_body]
    pub fn reschedule_all_as_faults(&mut self, fault_expiration: ChainEpoch) -> (r: anyhow::Result<()>) { unimplemented!() }
    #[verifier::external_body]
    pub fn reschedule_recovered(&mut self, sectors: Vec<SectorOnChainInfo>, sector_size: SectorSize) -> (r: anyhow::Result<PowerPair>) { unimplemented!() }
    /// (sector numbers, power, pledge, daily fee) of the sectors scheduled: SOME values, nothing of the partition touched
    #[verifier::external_body]
    pub fn add_active_sectors(&mut self, sectors: &[SectorOnChainInfo], sector_size: SectorSize) -> (r: anyhow::Result<(BitField, PowerPair, TokenAmount, TokenAmount)>)
        ensures r.is_ok() ==> r->Ok_0.0@ == soci_numbers(sectors@)   // ADDED
    { unimplemented!() }
    #[verifier::external_body]
    pub fn replace_sectors(&mut self, old_sectors: &[SectorOnChainInfo], new_sectors: &[SectorOnChainInfo], sector_size: SectorSize) -> (r: anyhow::Result<(BitField, BitField, PowerPair, TokenAmount, TokenAmount)>) { unimplemented!() }
    #[verifier::external_body]
    pub fn remove_sectors(&mut self, policy: &Policy, sectors: &[SectorOnChainInfo], faults: &BitField, recovering: &BitField, sector_size: SectorSize) -> (r: anyhow::Result<(ExpirationSet, PowerPair)>)
        ensures r.is_ok() ==> r->Ok_0.0.on_time_sectors@.disjoint(r->Ok_0.0.early_sectors@)                               // ADDED
            && r->Ok_0.0.on_time_sectors@.union(r->Ok_0.0.early_sectors@) =~= soci_numbers(sectors@)                      // ADDED
    { unimplemented!() }
    #[verifier::external_body]
    pub fn pop_until(&mut self, until: ChainEpoch) -> (r: anyhow::Result<ExpirationSet>)
        ensures r.is_ok() ==> r->Ok_0.on_time_sectors@.disjoint(r->Ok_0.early_sectors@)                                   // ADDED
    { unimplemented!() }
}
pub struct Policy { pub vx_opaque: u8 }
/// ADDED (the original has no model of this queue): bitfield_queue.rs BitFieldQueue = AMT[quantised epoch] -> BitField, viewed as the finite set of
/// (quantised epoch, value) pairs it holds; content addressed like the other AMTs (`bfq_decode(root)`); `bfq_quant` stands for QuantSpec::quantize_up.
#[verifier::external_body]
pub struct BfqAmt { inner: Box<u8> }
pub uninterp spec fn bfq_decode(root: Cid) -> Set<(ChainEpoch, u64)>;
pub uninterp spec fn bfq_quant(q: QuantSpec, e: ChainEpoch) -> ChainEpoch;
impl BfqAmt {
    pub uninterp spec fn view(&self) -> Set<(ChainEpoch, u64)>;
    #[verifier::external_body]
    pub fn flush(&mut self) -> (r: Result<Cid, AnyhowError>)
        ensures final(self).view() == old(self).view(), r.is_ok() ==> bfq_decode(r->Ok_0) == old(self).view()
    { unimplemented!() }
}
pub struct BitFieldQueue { pub amt: BfqAmt, pub quant: QuantSpec }
impl BitFieldQueue {
    /// `Ok(Self { amt: Array::load(root, store)?, quant })`
    #[verifier::external_body]
    pub fn new<BS: Blockstore>(store: &BS, root: &Cid, quant: QuantSpec) -> (r: Result<BitFieldQueue, AnyhowError>)
        ensures r.is_ok() ==> r->Ok_0.amt.view() == bfq_decode(*root) && r->Ok_0.quant == quant
    { unimplemented!() }
    /// adds `values` to the entry of the quantised epoch; nothing else moves (bitfield_queue.rs: get / `|` / set on one key)
    #[verifier::external_body]
    pub fn add_to_queue(&mut self, raw_epoch: ChainEpoch, values: &BitField) -> (r: anyhow::Result<()>)
        ensures
            final(self).quant == old(self).quant,
            r.is_ok() ==> forall|e: ChainEpoch, v: u64| #![trigger final(self).amt.view().contains((e, v))]
                final(self).amt.view().contains((e, v)) <==> old(self).amt.view().contains((e, v)) || (e == bfq_quant(old(self).quant, raw_epoch) && values@.contains(v)),
    { unimplemented!() }
}
/// ADDED: termination.rs TerminationResult { sectors: BTreeMap<ChainEpoch, BitField>, partitions_processed, sectors_processed } — the map is opaque here
#[verifier::external_body]
pub struct TermSectors { inner: Box<u8> }
pub struct TerminationResult { pub sectors: TermSectors, pub partitions_processed: u64, pub sectors_processed: u64 }
impl TerminationResult {
    /// `Default::default()`
    #[verifier::external_body]
    pub fn new() -> (r: TerminationResult) ensures r.partitions_processed == 0, r.sectors_processed == 0 { unimplemented!() }
}
impl vstd::std_specs::ops::AddAssignSpecImpl<TerminationResult> for TerminationResult {
    open spec fn obeys_add_assign_spec() -> bool { false }
    open spec fn add_assign_req(&self, rhs: TerminationResult) -> bool { true }
    uninterp spec fn add_assign_spec(&self, rhs: TerminationResult) -> &TerminationResult;
}
impl AddAssign<TerminationResult> for TerminationResult {
    /// termination.rs: both counters are added (`+=` on u64: the call does not return normally on overflow), the sector maps are merged
    #[verifier::external_body]
    fn add_assign(&mut self, rhs: TerminationResult)
        ensures
            old(self).partitions_processed + rhs.partitions_processed <= u64::MAX ==> final(self).partitions_processed == old(self).partitions_processed + rhs.partitions_processed,
            old(self).sectors_processed + rhs.sectors_processed <= u64::MAX ==> final(self).sectors_processed == old(self).sectors_processed + rhs.sectors_processed,
    { unimplemented!() }
}
/// ADDED: "the partition's early-termination queue (AMT behind `early_terminated`) is not empty" — a function of that root
pub uninterp spec fn et_pending(early_terminated: Cid) -> bool;
impl Partition {
    /// ADDED, ASSUMED (partition_state.rs Partition::pop_early_terminations, ~60 lines over the early-termination BitFieldQueue, not under contract):
    /// pops up to max_sectors sectors from the partition's early-termination queue. Only the queue root moves; the result counts ONE partition and
    /// at most max_sectors sectors (each callback adds min(limit, count) with limit = max_sectors - processed and stops at the limit); the flag
    /// is `early_terminated_queue.amt.count() > 0` after the flush.
    #[verifier::external_body]
    pub fn pop_early_terminations<BS: Blockstore>(&mut self, store: &BS, max_sectors: u64) -> (r: anyhow::Result<(TerminationResult, bool)>)
        ensures
            *final(self) == (Partition { early_terminated: final(self).early_terminated, ..*old(self) }),
            r.is_ok() ==> r->Ok_0.0.partitions_processed == 1 && r->Ok_0.0.sectors_processed <= max_sectors && r->Ok_0.1 == et_pending(final(self).early_terminated),
    { unimplemented!() }
}
#[verifier::external_body]
pub fn select_sectors(sectors: &[SectorOnChainInfo], field: &BitField) -> (r: anyhow::Result<Vec<SectorOnChainInfo>>) { unimplemented!() }
#[verifier::external_body]
pub fn power_for_sectors(sector_size: SectorSize, sectors: &[SectorOnChainInfo]) -> (r: PowerPair) { unimplemented!() }
#[verifier::external_body]
#[verifier::accept_recursive_types(BS)]
pub struct Sectors<'db, BS> { p: PhantomData<&'db BS> }
impl<'db, BS: Blockstore> Sectors<'db, BS> {
    #[verifier::external_body]
    /// one info per named sector (an unknown sector number is an error)
    pub fn load_sectors(&self, sector_numbers: &BitField) -> (r: Result<Vec<SectorOnChainInfo>, ActorError>)
        ensures r.is_ok() ==> r->Ok_0@.len() == sector_numbers@.len()
            && soci_numbers(r->Ok_0@) == sector_numbers@                                                                   // ADDED
    { unimplemented!() }
}
} // verus!
