// prelude/small_actors_reward_assumed.rs — TRUSTED stubs for the reward actor's Constructor / ThisEpochReward / UpdateNetworkKPI (unit
// small_actors). Included inside `pub mod reward { .. }` after the extracted items `State`, `FilterEstimate`.
//  * fvm_shared bigint_ser::BigIntDe: the tuple wrapper `BigIntDe(pub BigInt)` used for (de)serialisation.
//  * State::new (state.rs): builds the genesis reward state from the realized power — a pure function of that number (it reads
//    lazy_static constants and calls update_to_next_epoch_with_reward once); kept opaque (`reward_state_new`).
//  * State::update_to_next_epoch (state.rs): `epoch += 1`, then advances this_epoch_baseline_power, cumsum_realized and — in a catch-up loop
//    whose iteration count is not bounded by anything in the code — effective_network_time / effective_baseline_power / cumsum_baseline.
//    ASSUMED frame, read off the body: epoch + 1; this_epoch_reward, this_epoch_reward_smoothed, total_storage_power_reward, simple_total,
//    baseline_total untouched. (The real body was tried: its only unprovable obligation is the `effective_network_time += 1` overflow of
//    that loop, so the function is assumed rather than verified; termination is not claimed.)
//  * State::update_to_next_epoch_with_reward (state.rs): calls update_to_next_epoch exactly once (epoch + 1) and then assigns ONLY
//    this_epoch_reward (compute_r_theta / compute_reward are fixed-point maths, not specified). ASSUMED frame, read off the body:
//    epoch + 1; total_storage_power_reward, simple_total, baseline_total, this_epoch_reward_smoothed untouched.
//  * State::update_smoothed_estimates (state.rs, alpha-beta filter): assigns ONLY this_epoch_reward_smoothed (same assumption as the power
//    actor's update_smoothed_estimate in prelude/power_cron_assumed.rs).
verus! {
pub struct BigIntDe(pub BigInt);
pub uninterp spec fn reward_state_new(power: int) -> State;
impl State {
    #[verifier::external_body]
    pub fn new(curr_realized_power: StoragePower) -> (r: State) ensures r == reward_state_new(curr_realized_power@) { unimplemented!() }
    #[verifier::external_body]
    pub fn update_to_next_epoch(&mut self, curr_realized_power: &StoragePower)
        requires old(self).epoch < i64::MAX
        ensures
            final(self).epoch == old(self).epoch + 1,
            final(self).total_storage_power_reward == old(self).total_storage_power_reward,
            final(self).simple_total == old(self).simple_total, final(self).baseline_total == old(self).baseline_total,
            final(self).this_epoch_reward == old(self).this_epoch_reward, final(self).this_epoch_reward_smoothed == old(self).this_epoch_reward_smoothed,
    { unimplemented!() }
    #[verifier::external_body]
    pub fn update_to_next_epoch_with_reward(&mut self, curr_realized_power: &StoragePower)
        requires old(self).epoch < i64::MAX
        ensures
            final(self).epoch == old(self).epoch + 1,
            final(self).total_storage_power_reward == old(self).total_storage_power_reward,
            final(self).simple_total == old(self).simple_total, final(self).baseline_total == old(self).baseline_total,
            final(self).this_epoch_reward_smoothed == old(self).this_epoch_reward_smoothed,
    { unimplemented!() }
    #[verifier::external_body]
    pub fn update_smoothed_estimates(&mut self, delta: ChainEpoch)
        ensures *final(self) == (State { this_epoch_reward_smoothed: final(self).this_epoch_reward_smoothed, ..*old(self) }),
    { unimplemented!() }
}
} // verus!
