// prelude/power_create_assumed.rs — TRUSTED stubs of the power actor's CreateMiner / constructor unit (power_create.vx.rs).
// Included in the middle of the unit, after the extracted items `State`, `CreateMinerParams`, `ext::init::ExecParams`,
// `ext::miner::MinerConstructorParams` and after prelude/power_cron_assumed.rs (which declares `Multimap`).
// Each stub names the real code it stands for and says why the stated contract is true of it.

/// fvm_ipld_encoding::BytesDe (a byte string that (de)serialises as CBOR bytes): an opaque token — only passed through
pub struct BytesDe { pub h: u64 }

impl RawBytes {
    /// fvm_ipld_encoding RawBytes::serialize(value): the CBOR bytes of the value — an opaque deterministic function of the value
    /// (the same token as IpldBlock::serialize_cbor in prelude/rt.rs: `cbor_hash`). May fail (serialization error).
    #[verifier::external_body]
    pub fn serialize<T>(v: T) -> (r: Result<RawBytes, ActorError>)
        ensures r.is_ok() ==> r->Ok_0 == (RawBytes { h: cbor_hash(v) }), r.is_err() ==> r->Err_0.code == 21
    { unimplemented!() }
}
impl Rt {
    /// Runtime::get_code_cid_for_type: the code CID registered in the builtin-actors manifest for this type; the manifest is
    /// a bijection between the builtin types and their code CIDs, so `resolve_builtin_actor_type` maps it back to `t`
    /// (same stub as in prelude/init_assumed.rs / prelude/eam_assumed.rs, which re-declare other items and cannot be included here)
    #[verifier::external_body]
    pub fn get_code_cid_for_type(&self, t: Type) -> (r: Cid) ensures rt_builtin_type(r) == Some(t) { unimplemented!() }
}

/// The CBOR encoding of `ext::miner::MinerConstructorParams` (Serialize_tuple: the fields in declaration order) is a function
/// of the CONTENT of its fields: the two addresses, the list of control addresses, the proof type, the peer-id bytes and the
/// multiaddress byte strings — not of the identity of the Vec objects that carry them.
pub uninterp spec fn mcp_hash(owner: Address, worker: Address, control: Seq<Address>, proof: RegisteredPoStProof, peer: Seq<u8>, multiaddrs: Seq<BytesDe>) -> u64;
pub axiom fn axiom_mcp_hash()
    ensures forall|p: ext::miner::MinerConstructorParams| #[trigger] cbor_hash(p)
        == mcp_hash(p.owner, p.worker, p.control_addresses@, p.window_post_proof_type, p.peer_id@, p.multi_addresses@);

impl<BS: Blockstore> Multimap<BS> {
    /// runtime/src/util/multimap.rs Multimap::new: an empty HAMT — no key, so every epoch's event list is empty
    #[verifier::external_body]
    pub fn new(store: BS, outer_bitwidth: u32, inner_bitwidth: u32) -> (r: Self)
        ensures r.view() == Map::<BytesKey, Seq<CronEvent>>::empty()
    { unimplemented!() }
}

/// state.rs lazy_static INITIAL_QA_POWER_ESTIMATE_POSITION / _VELOCITY (`StoragePower::from(k) * (1 << 30)`): two constants of
/// the smoothing filter's initial estimate; their values play no part in the properties — opaque.
#[verifier::external_body]
pub fn vx_initial_qa_power_estimate_position() -> (r: StoragePower) { unimplemented!() }
#[verifier::external_body]
pub fn vx_initial_qa_power_estimate_velocity() -> (r: StoragePower) { unimplemented!() }
impl FilterEstimate {
    /// runtime/src/builtin/reward/smooth/alpha_beta_filter.rs FilterEstimate::new (both arguments shifted left by the
    /// fixed-point precision): fixed-point set-up of the smoothing filter, outside the properties — opaque.
    #[verifier::external_body]
    pub fn new(position: BigInt, velocity: BigInt) -> (r: Self) { unimplemented!() }
}
