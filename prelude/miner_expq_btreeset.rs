// prelude/miner_expq_btreeset.rs — TRUSTED. std::collections::BTreeSet operations used by sectors.rs select_sectors (additions to prelude/btreeset.rs,
// which must be included first).
verus! {
// ---- std::collections::BTreeSet (additions to prelude/btreeset.rs; used by sectors.rs select_sectors) -------------------------------------------------
impl<T> BTreeSet<T> {
    /// BTreeSet::remove: "returns whether the value was present in the set"
    #[verifier::external_body]
    pub fn remove(&mut self, v: &T) -> (r: bool)
        ensures r == old(self).view().contains(*v), final(self).view() == old(self).view().remove(*v)
    { unimplemented!() }
    #[verifier::external_body]
    pub fn is_empty(&self) -> (r: bool) ensures r == (self.view() =~= Set::<T>::empty()) { unimplemented!() }
}
/// `field.iter().collect::<BTreeSet<_>>()`: the set of the bits of the bitfield
#[verifier::external_body]
pub fn vx_bits_to_btreeset(field: &BitField) -> (r: BTreeSet<u64>) ensures r.view() == field@ { unimplemented!() }
} // verus!
