// prelude/btreeset.rs — TRUSTED. std::collections::BTreeSet as a finite set (new / insert / contains).
verus! {
#[verifier::external_body]
#[verifier::reject_recursive_types(T)]
pub struct BTreeSet<T> { p: PhantomData<T> }
impl<T> BTreeSet<T> {
    pub uninterp spec fn view(&self) -> Set<T>;
    #[verifier::external_body]
    pub fn new() -> (r: BTreeSet<T>) ensures r.view() == Set::<T>::empty() { unimplemented!() }
    /// true iff the value was not present
    #[verifier::external_body]
    pub fn insert(&mut self, v: T) -> (r: bool)
        ensures r == !old(self).view().contains(v), final(self).view() == old(self).view().insert(v)
    { unimplemented!() }
    #[verifier::external_body]
    pub fn contains(&self, v: &T) -> (r: bool) ensures r == self.view().contains(*v) { unimplemented!() }
}
} // verus!
