// prelude/eam_assumed.rs — TRUSTED stubs of the EAM unit.
//  * EthAddress (actors/evm/shared/src/address.rs): 20 opaque bytes; the three "reserved range" predicates at their documented
//    meaning (is_id / is_null are proved on the real code by Kani, kani/evm eth_reserved_ranges_spec; is_precompile is not).
//  * Address::new_delegated(EAM, bytes): an f4 address, an injective function of the 20 bytes, never an ID address.
//  * RawBytes::serialize / `.into()` conversions of byte containers: opaque handles.
#[derive(Clone, Copy, PartialEq, Eq, Structural)]
pub struct EthAddress(pub [u8; 20]);
pub uninterp spec fn eth_is_precompile(a: EthAddress) -> bool;
pub uninterp spec fn eth_is_id(a: EthAddress) -> bool;
pub uninterp spec fn eth_is_null(a: EthAddress) -> bool;
impl EthAddress {
    #[verifier::external_body]
    pub fn is_precompile(&self) -> (r: bool) ensures r == eth_is_precompile(*self) { unimplemented!() }
    #[verifier::external_body]
    pub fn is_id(&self) -> (r: bool) ensures r == eth_is_id(*self) { unimplemented!() }
    #[verifier::external_body]
    pub fn is_null(&self) -> (r: bool) ensures r == eth_is_null(*self) { unimplemented!() }
}
pub uninterp spec fn f4_of(ns: ActorID, sub: [u8; 20]) -> Address;
#[derive(Debug)]
pub struct AddrErr {}
impl Address {
    #[verifier::external_body]
    pub fn new_delegated(ns: ActorID, sub: &[u8; 20]) -> (r: Result<Address, AddrErr>)
        ensures r.is_ok(), r->Ok_0 == f4_of(ns, *sub), r->Ok_0.proto != 0
    { unimplemented!() }
}
impl RawBytes {
    #[verifier::external_body]
    pub fn serialize<T>(v: T) -> (r: Result<RawBytes, ActorError>) ensures r.is_ok() ==> r->Ok_0.h == cbor_hash(v) { unimplemented!() }
    #[verifier::external_body]
    pub fn vx_from_vec(v: Vec<u8>) -> (r: RawBytes) { unimplemented!() }
}
impl vstd::std_specs::convert::FromSpecImpl<RawBytes> for Option<IpldBlock> {
    open spec fn obeys_from_spec() -> bool { true }
    open spec fn from_spec(b: RawBytes) -> Option<IpldBlock> { Some(IpldBlock { h: b.h }) }
}
impl From<RawBytes> for Option<IpldBlock> {
    #[verifier::external_body]
    fn from(b: RawBytes) -> (r: Option<IpldBlock>) { unimplemented!() }
}
impl Rt {
    #[verifier::external_body]
    pub fn get_code_cid_for_type(&self, t: Type) -> (r: Cid) ensures rt_builtin_type(r) == Some(t) { unimplemented!() }
}
pub assume_specification<T: Clone>[<[T]>::to_vec](s: &[T]) -> (r: Vec<T>) ensures r@.len() == s@.len();
/// lib.rs compute_address_create / compute_address_create2: keccak-256 over RLP(sender, nonce) resp. 0xff ‖ sender ‖ salt ‖ keccak(initcode),
/// last 20 bytes (Ethereum's CREATE / CREATE2 formulas). ASSUMED at that meaning: opaque deterministic functions of exactly those inputs.
pub uninterp spec fn create_addr_spec(from: EthAddress, nonce: u64) -> EthAddress;
pub uninterp spec fn create2_addr_spec(from: EthAddress, salt: [u8; 32], initcode: Seq<u8>) -> EthAddress;
#[verifier::external_body]
pub fn compute_address_create(rt: &Rt, from: &EthAddress, nonce: u64) -> (r: EthAddress) ensures r == create_addr_spec(*from, nonce) { unimplemented!() }
#[verifier::external_body]
pub fn compute_address_create2(rt: &Rt, from: &EthAddress, salt: &[u8; 32], initcode: &Vec<u8>) -> (r: EthAddress) ensures r == create2_addr_spec(*from, *salt, initcode@) { unimplemented!() }
/// lib.rs resolve_eth_address: the caller's f4 address in the EAM namespace (FVM lookup_delegated_address)
pub uninterp spec fn eth_addr_of(id: ActorID) -> Option<EthAddress>;
#[verifier::external_body]
pub fn resolve_eth_address(rt: &Rt, actor_id: ActorID) -> (r: Result<EthAddress, ActorError>)
    ensures r.is_ok() ==> eth_addr_of(actor_id) == Some(r->Ok_0), r.is_err() ==> r->Err_0.code == 18
{ unimplemented!() }
