// prelude/batch.rs — ASSUMED contract of runtime/src/util/batch_return.rs (BatchReturnGen / BatchReturn):
// a batch result is the sequence of per-item exit codes (0 = success), built in order.
verus! {
#[verifier::external_body]
pub struct BatchReturnGen { inner: Box<u8> }
#[verifier::external_body]
pub struct BatchReturn { inner: Box<u8> }
impl BatchReturnGen {
    pub uninterp spec fn codes(&self) -> Seq<u32>;
    pub uninterp spec fn expect(&self) -> nat;
    #[verifier::external_body]
    pub fn new(expect_count: usize) -> (r: BatchReturnGen) ensures r.codes() == Seq::<u32>::empty(), r.expect() == expect_count as nat { unimplemented!() }
    #[verifier::external_body]
    pub fn add_success(&mut self) -> (r: &mut Self)
        ensures final(self).codes() == old(self).codes().push(0), final(self).expect() == old(self).expect() { unimplemented!() }
    #[verifier::external_body]
    pub fn add_fail(&mut self, code: ExitCode) -> (r: &mut Self)
        ensures final(self).codes() == old(self).codes().push(code.value), final(self).expect() == old(self).expect() { unimplemented!() }
    /// panics unless exactly the expected number of items was recorded
    #[verifier::external_body]
    pub fn generate(&self) -> (r: BatchReturn)
        requires self.codes().len() == self.expect()
        ensures r.codes() == self.codes() { unimplemented!() }
}
impl BatchReturn {
    pub uninterp spec fn codes(&self) -> Seq<u32>;
}
} // verus!
