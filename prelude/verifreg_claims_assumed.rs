// prelude/verifreg_claims_assumed.rs — TRUSTED stubs of the verifreg claim unit
/// emit.rs `emit::claim`: one actor event, nothing else (substituted for the path `emit::claim`, the module name clashes with prelude/verifreg.rs)
#[verifier::external_body]
pub fn vx_emit_claim(rt: &mut Rt, id: ClaimID, claim: &Claim) -> (r: Result<(), ActorError>)
    ensures r.is_ok() ==> *final(rt) == (Rt { events: Ghost(old(rt).events@ + 1), ..*old(rt) }), r.is_err() ==> *final(rt) == *old(rt)
{ unimplemented!() }
impl BatchReturn {
    /// batch_return.rs all_ok: every item succeeded
    #[verifier::external_body]
    pub fn all_ok(&self) -> (r: bool) ensures r == (forall|i: int| 0 <= i < self.codes().len() ==> self.codes()[i] == 0) { unimplemented!() }
}
impl ActorError {
    #[verifier::external_body]
    pub fn checked(code: ExitCode, msg: String, data: Option<IpldBlock>) -> (r: ActorError) ensures r.code == code.value { unimplemented!() }
}
