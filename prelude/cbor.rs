// prelude/cbor.rs — TRUSTED. CBOR (de)serialisation through a blockstore is content-addressed and lossless:
// `put_cbor(x)` returns c with `cbor_decode(c) == Some(x)`; `get_cbor(c)` returns `cbor_decode(c)`.
verus! {
pub enum Code { Blake2b256 }
pub uninterp spec fn cbor_decode<T>(c: Cid) -> Option<T>;
/// values that can be stored; `base` strips references (`put_cbor(&&x)` stores x)
pub trait CborVal {
    type Base;
    spec fn base(&self) -> Self::Base;
}
impl<'a, T: CborVal> CborVal for &'a T {
    type Base = T::Base;
    open spec fn base(&self) -> T::Base { (**self).base() }
}
pub trait CborStore {
    fn get_cbor<T>(&self, c: &Cid) -> (r: Result<Option<T>, AnyhowError>)
        ensures r.is_ok() ==> r->Ok_0 == cbor_decode::<T>(*c);
    fn put_cbor<T: CborVal>(&self, obj: &T, code: Code) -> (r: Result<Cid, AnyhowError>)
        ensures r.is_ok() ==> cbor_decode::<T::Base>(r->Ok_0) == Some(obj.base());
}
impl<BS: Blockstore> CborStore for BS {
    #[verifier::external_body]
    fn get_cbor<T>(&self, c: &Cid) -> (r: Result<Option<T>, AnyhowError>) { unimplemented!() }
    #[verifier::external_body]
    fn put_cbor<T: CborVal>(&self, obj: &T, code: Code) -> (r: Result<Cid, AnyhowError>) { unimplemented!() }
}
/// runtime/src/actor_error.rs deserialize_block: decoding of a returned block (content unknown to this actor)
pub uninterp spec fn deser_spec<T>(ret: Option<IpldBlock>) -> T;
/// whether the block decodes as a T (deterministic)
pub uninterp spec fn deser_ok<T>(ret: Option<IpldBlock>) -> bool;
#[verifier::external_body]
pub fn deserialize_block<T>(ret: Option<IpldBlock>) -> (r: Result<T, ActorError>)
    ensures r.is_ok() == deser_ok::<T>(ret), r.is_ok() ==> r->Ok_0 == deser_spec::<T>(ret)
{ unimplemented!() }
} // verus!
