// prelude/verifreg_hook_miner_assumed.rs — TRUSTED/ASSUMED stubs of the miner unit `miner_extend_decl` (validate_extension_declarations,
// get_claims). Included INSIDE the unit's `verus!{}` block after prelude/btreemap.rs, prelude/batch.rs and the items ExpirationExtension2 /
// ValidatedExpirationExtension.
// Every item stands for std / runtime code outside actors/miner/src; the comment says which and why the contract is true of it.

// ---- std::collections::BTreeMap (beyond the lookup of prelude/btreemap.rs), over its finite-map view ---------------------------------
#[verifier::reject_recursive_types(K)]
#[verifier::reject_recursive_types(V)]
pub struct VxEntry<'a, K, V> { pub key: K, pub map: &'a mut BTreeMap<K, V> }
impl<K, V> BTreeMap<K, V> {
    /// `BTreeMap::new()`: the empty map
    #[verifier::external_body]
    pub fn new() -> (r: BTreeMap<K, V>) ensures r.view() == Map::<K, V>::empty() { unimplemented!() }
    /// `BTreeMap::contains_key(&k)`
    #[verifier::external_body]
    pub fn contains_key(&self, k: &K) -> (r: bool) ensures r == self.view().dom().contains(*k) { unimplemented!() }
    /// `BTreeMap::get_mut(&k)`: the slot of `k` if present; whatever is written through it is the new value of `k`; nothing else changes
    #[verifier::external_body]
    pub fn get_mut<'a>(&'a mut self, k: &K) -> (r: Option<&'a mut V>)
        ensures
            r.is_some() <==> old(self).view().dom().contains(*k),
            r.is_some() ==> *r->Some_0 == old(self).view()[*k] && final(self).view() == old(self).view().insert(*k, *final(r->Some_0)),
            r.is_none() ==> final(self).view() == old(self).view(),
    { unimplemented!() }
    /// `BTreeMap::entry(k)`: the map, borrowed, together with the key (std's Entry, here without the Vacant/Occupied case split)
    #[verifier::external_body]
    pub fn entry<'a>(&'a mut self, k: K) -> (e: VxEntry<'a, K, V>)
        ensures e.key == k, *e.map == *old(self), *final(e.map) == *final(self),
    { unimplemented!() }
}
impl<'a, K, V> VxEntry<'a, K, V> {
    /// `Entry::or_insert(v)`: inserts `v` when the key is absent, leaves an existing value alone (the returned slot is not used by the caller)
    #[verifier::external_body]
    pub fn or_insert(self, v: V)
        ensures final(self.map).view() == (if old(self.map).view().dom().contains(self.key) { old(self.map).view() } else { old(self.map).view().insert(self.key, v) }),
    { unimplemented!() }
}

// ---- runtime/src/util/batch_return.rs: the public field `success_count` of BatchReturn ------------------------------------------------
/// number of verdicts 0 among `codes` (batch_return.rs keeps `success_count` and the list of failed indices; `codes()` is their joint view)
pub open spec fn succ_count(codes: Seq<u32>) -> nat
    decreases codes.len()
{ if codes.len() == 0 { 0 } else { succ_count(codes.drop_last()) + (if codes.last() == 0 { 1nat } else { 0nat }) } }
impl BatchReturn {
    /// stands for reading the field `batch_info.success_count` (substituted: BatchReturn is opaque in prelude/batch.rs)
    #[verifier::external_body]
    pub fn vx_success_count(&self) -> (r: u32) ensures r as nat == succ_count(self.codes()) { unimplemented!() }
}

/// `<[u64]>::to_owned()`: a vector with the same elements
#[verifier::external_body]
pub fn vx_slice_to_vec(s: &[u64]) -> (r: Vec<u64>) ensures r@ == s@ { unimplemented!() }

// ---- actors/miner/src/lib.rs: the last expression of validate_extension_declarations ------------------------------------------------
/// `extensions.into_iter().map(|e2| e2.into()).collect()` with `impl From<ExpirationExtension2> for ValidatedExpirationExtension` (lib.rs): one
/// validated declaration per declaration, in order, with the same deadline / partition / new expiration and sectors = plain sectors ∪ sectors with claims
#[verifier::external_body]
pub fn vx_into_validated(extensions: Vec<ExpirationExtension2>) -> (r: Vec<ValidatedExpirationExtension>)
    ensures r@.len() == extensions@.len(),
        forall|d: int| 0 <= d < r@.len() ==> (#[trigger] r@[d]).deadline == extensions@[d].deadline && r@[d].partition == extensions@[d].partition
            && r@[d].new_expiration == extensions@[d].new_expiration,
{ unimplemented!() }

// ---- fvm_ipld_bitfield::BitField::iter (prelude/bitfield.rs views a BitField as a finite set of u64) ---------------------------------
/// the members of a bit field in the order `iter()` yields them
pub uninterp spec fn bf_members(s: vstd::set::Set<u64>) -> Seq<u64>;
impl BitField {
    /// `bf.iter()`: the members of the bit field, each exactly once, in ascending order (the unit iterates the returned vector)
    #[verifier::external_body]
    pub fn iter(&self) -> (r: Vec<u64>)
        ensures
            r@ == bf_members(self@),
            forall|x: u64| #[trigger] r@.contains(x) <==> self@.contains(x),
            forall|i: int, j: int| 0 <= i < j < r@.len() ==> r@[i] < r@[j],
    { unimplemented!() }
}
