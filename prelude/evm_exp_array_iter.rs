// ===========================================================================================
// prelude/evm_exp_array_iter.rs — TRUSTED. By-value iteration over a fixed-size array (`for x in [T; N]`), which this
// vstd does not specify ("`core::array::iter::IntoIter` is not supported"). Models two std functions:
//   * `<[T; N] as IntoIterator>::into_iter(a)`  — an iterator that will yield a[0], a[1], …, a[N-1] in index order
//     (core::array::IntoIter: "A by-value array iterator", `alive = 0..N`, `next` takes `data[alive.start]`),
//   * `<core::array::IntoIter<T, N> as Iterator>::next` — yields the first remaining element, or None when exhausted
//     (and stays exhausted: the alive range is empty).
// `arr_iter_rest(it)` is the ghost sequence of the elements the iterator has still to yield. Nothing here stands for
// code of /repo. Used with vx `desugar_for` (the `for` becomes `let mut it = into_iter(E); loop { match it.next() … }`).
// ===========================================================================================
verus! {

#[verifier::reject_recursive_types(T)]
#[verifier::external_type_specification]
#[verifier::external_body]
pub struct ExArrayIntoIter<T, const N: usize>(core::array::IntoIter<T, N>);

pub uninterp spec fn arr_iter_rest<T, const N: usize>(it: core::array::IntoIter<T, N>) -> Seq<T>;

pub assume_specification<T, const N: usize>[<[T; N] as core::iter::IntoIterator>::into_iter](a: [T; N]) -> (r: <[T; N] as core::iter::IntoIterator>::IntoIter)
    ensures arr_iter_rest(r) == a@;

pub assume_specification<T, const N: usize>[<core::array::IntoIter<T, N> as core::iter::Iterator>::next](it: &mut core::array::IntoIter<T, N>) -> (r: Option<<core::array::IntoIter<T, N> as core::iter::Iterator>::Item>)
    ensures
        arr_iter_rest(*old(it)).len() == 0 ==> r is None && arr_iter_rest(*final(it)) == arr_iter_rest(*old(it)),
        arr_iter_rest(*old(it)).len() > 0 ==> r == Some(arr_iter_rest(*old(it))[0]) && arr_iter_rest(*final(it)) == arr_iter_rest(*old(it)).skip(1);

} // verus!
