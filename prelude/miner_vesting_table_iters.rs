// ===========================================================================================
// prelude/miner_vesting_table_iters.rs — TRUSTED. Sequence-level contracts of the std / itertools (0.14) iterator
// adapters that actors/miner/src/vesting_state.rs builds over `VestingFund`s. Included INSIDE the unit's `verus!{}` block,
// after the `VestingFund` item. Nothing in this file stands for code of /repo: every item models a library function
// (the comment names it and says why the contract is true of it). The closures the real code hands to these adapters are
// NOT modelled here: they stay in the extracted bodies (annotated by the unit with a postcondition) and are verified.
//
// One type, `VfIter`, stands for every *iterator of VestingFund* the file builds (`Peekable<vec::IntoIter<_>>`,
// `Peekable<Map<MergeJoinBy<..>, _>>`, `PutBack<vec::IntoIter<_>>`); its view is the sequence of items it has still to
// yield. This is adequate because every source is a finished `Vec` (no side effects while iterating), so an adapter
// that is driven to its end inside the expression that creates it (`.sum()`, `collect_vec()`, the `while let` loop)
// has the same effect whether it is evaluated lazily or at once.
// ===========================================================================================

/// itertools::EitherOrBoth — the three variants `merge_join_by` produces
pub enum EitherOrBoth<A, B> { Both(A, B), Left(A), Right(B) }

#[verifier::external_body]
pub struct VfIter { inner: Box<u8> }
impl View for VfIter { type V = Seq<VestingFund>; uninterp spec fn view(&self) -> Seq<VestingFund>; }
impl VfIter {
    /// itertools::PutBack has ONE slot: `put_back` on a full slot would overwrite (lose) the earlier item. True after
    /// `put_back`, false after creation and after every `next`. (Irrelevant for the Peekable-backed uses.)
    pub uninterp spec fn slot_full(&self) -> bool;
}

/// `MergeJoinBy<vec::IntoIter<VestingFund>, _, F>` with F returning `Ordering`: items are `EitherOrBoth`
#[verifier::external_body]
pub struct VfJoinIter { inner: Box<u8> }
impl View for VfJoinIter {
    type V = Seq<EitherOrBoth<VestingFund, VestingFund>>;
    uninterp spec fn view(&self) -> Seq<EitherOrBoth<VestingFund, VestingFund>>;
}

pub open spec fn vf_epoch_ord(a: int, b: int) -> Ordering {
    if a < b { Ordering::Less } else if a == b { Ordering::Equal } else { Ordering::Greater }
}

/// itertools merge_join.rs, `MergeBy::next` with `MergeFuncLR<F, Ordering>`: take one item of each side (an exhausted side
/// gives Left / Right of the other); on `Less` emit Left(l) and put r back, on `Greater` emit Right(r) and put l back, on
/// `Equal` emit Both(l, r). Written for a comparator that orders by `epoch` (the precondition of `merge_join_by` below).
pub open spec fn vf_mj(a: Seq<VestingFund>, b: Seq<VestingFund>) -> Seq<EitherOrBoth<VestingFund, VestingFund>>
    decreases a.len() + b.len()
{
    if a.len() == 0 && b.len() == 0 { Seq::empty() }
    else if a.len() == 0 { seq![EitherOrBoth::Right(b[0])] + vf_mj(a, b.skip(1)) }
    else if b.len() == 0 { seq![EitherOrBoth::Left(a[0])] + vf_mj(a.skip(1), b) }
    else if a[0].epoch < b[0].epoch { seq![EitherOrBoth::Left(a[0])] + vf_mj(a.skip(1), b) }
    else if a[0].epoch > b[0].epoch { seq![EitherOrBoth::Right(b[0])] + vf_mj(a, b.skip(1)) }
    else { seq![EitherOrBoth::Both(a[0], b[0])] + vf_mj(a.skip(1), b.skip(1)) }
}

/// `peeking_take_while(accept)` driven to its end: `k` items were taken — `accept` returned true on each of them, and false on
/// the next one if there is one (which is NOT consumed: Peekable::peeking_next peeks before it takes)
pub open spec fn vf_ptw_at<F: Fn(&VestingFund) -> bool>(s: Seq<VestingFund>, accept: F, k: int) -> bool {
    &&& 0 <= k <= s.len()
    &&& forall|i: int| 0 <= i < k ==> accept.ensures((&#[trigger] s[i],), true)
    &&& k < s.len() ==> accept.ensures((&s[k],), false)
}

/// sum of the `amount`s of a sequence of funds (what `.map(|f| f.amount).sum()` folds: `TokenAmount::zero()` and `+`)
pub open spec fn vf_amounts(s: Seq<VestingFund>) -> int
    decreases s.len()
{
    if s.len() == 0 { 0 } else { s[0].amount@ + vf_amounts(s.skip(1)) }
}

/// `Vec<VestingFund>::into_iter()` (std): yields the elements in order. (A method of its own name because a second trait
/// method called `into_iter` on `Vec` would be ambiguous; the unit substitutes the method name, nothing else.)
pub trait VfIntoIter: Sized {
    spec fn vx_items(self) -> Seq<VestingFund>;
    fn vx_into_iter(self) -> (r: VfIter)
        ensures r@ == self.vx_items(), !r.slot_full();
}
impl VfIntoIter for Vec<VestingFund> {
    open spec fn vx_items(self) -> Seq<VestingFund> { self@ }
    #[verifier::external_body]
    fn vx_into_iter(self) -> (r: VfIter) { unimplemented!() }
}

impl VfIter {
    /// `IntoIterator::into_iter` of an iterator is the identity (blanket impl in core)
    #[verifier::external_body]
    pub fn into_iter(self) -> (r: VfIter) ensures r@ == self@, r.slot_full() == self.slot_full() { unimplemented!() }

    /// `Iterator::peekable`: same items (Peekable only buffers the next one)
    #[verifier::external_body]
    pub fn peekable(self) -> (r: VfIter) ensures r@ == self@, r.slot_full() == self.slot_full() { unimplemented!() }

    /// `Iterator::next` of vec::IntoIter / Peekable / PutBack: the first remaining item (a put-back item first), or None at the end
    #[verifier::external_body]
    pub fn next(&mut self) -> (r: Option<VestingFund>)
        ensures
            !final(self).slot_full(),
            old(self)@.len() == 0 ==> r.is_none() && final(self)@ == old(self)@,
            old(self)@.len() > 0 ==> r == Some(old(self)@[0]) && final(self)@ == old(self)@.skip(1),
    { unimplemented!() }

    /// itertools `PutBack::put_back(x)`: x becomes the next item. The slot must be empty (else the item in it would be dropped).
    #[verifier::external_body]
    pub fn put_back(&mut self, x: VestingFund)
        requires !old(self).slot_full()
        ensures final(self)@ == seq![x] + old(self)@, final(self).slot_full()
    { unimplemented!() }

    /// itertools `peeking_take_while(accept)` on a Peekable, driven to its end by the consumer in the same expression
    /// (`.map(..).sum()`): removes the longest prefix on which `accept` answers true and hands it on; the first item on
    /// which it answers false stays in `self`.
    #[verifier::external_body]
    pub fn peeking_take_while<F: Fn(&VestingFund) -> bool>(&mut self, accept: F) -> (r: VfIter)
        requires forall|x: &VestingFund| accept.requires((x,))
        ensures
            exists|k: int| vf_ptw_at(old(self)@, accept, k) && r@ == old(self)@.take(k) && final(self)@ == old(self)@.skip(k),
            final(self).slot_full() == old(self).slot_full(),
    { unimplemented!() }

    /// `.map(|f| f.amount).sum()`: `impl Sum for TokenAmount` folds with `+` from zero over the amounts of all remaining items
    #[verifier::external_body]
    pub fn vx_sum_amounts(self) -> (r: TokenAmount) ensures r@ == vf_amounts(self@) { unimplemented!() }

    /// itertools `collect_vec()` = `collect::<Vec<_>>()`: all remaining items, in order
    #[verifier::external_body]
    pub fn collect_vec(self) -> (r: Vec<VestingFund>) ensures r@ == self@ { unimplemented!() }

    /// itertools `merge_join_by(other, ord)` with `ord` returning `Ordering` (see `vf_mj`). The comparator must answer by
    /// epoch; the real closure stays in the extracted body and is verified against exactly that.
    #[verifier::external_body]
    pub fn merge_join_by<F: Fn(&VestingFund, &VestingFund) -> Ordering>(self, other: Vec<VestingFund>, ord: F) -> (r: VfJoinIter)
        requires
            forall|x: &VestingFund, y: &VestingFund| ord.requires((x, y)),
            forall|x: &VestingFund, y: &VestingFund, o: Ordering| ord.ensures((x, y), o) ==> o == vf_epoch_ord(x.epoch as int, y.epoch as int),
        ensures r@ == vf_mj(self@, other@)
    { unimplemented!() }
}

impl VfJoinIter {
    /// `Iterator::map(f)` (consumed to its end by the caller): one output per input, each related to its input by `f`'s postcondition
    #[verifier::external_body]
    pub fn map<F: Fn(EitherOrBoth<VestingFund, VestingFund>) -> VestingFund>(self, f: F) -> (r: VfIter)
        requires forall|x: EitherOrBoth<VestingFund, VestingFund>| f.requires((x,))
        ensures
            r@.len() == self@.len(),
            forall|i: int| 0 <= i < r@.len() ==> f.ensures((#[trigger] self@[i],), r@[i]),
            !r.slot_full(),
    { unimplemented!() }
}

pub mod itertools {
    use super::*;
    /// itertools `put_back(iterable)`: an iterator over the same items with an (empty) one-item put-back slot
    #[verifier::external_body]
    pub fn put_back(v: Vec<VestingFund>) -> (r: VfIter) ensures r@ == v@, !r.slot_full() { unimplemented!() }
}
