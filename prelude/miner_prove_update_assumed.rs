// prelude/miner_prove_update_assumed.rs — TRUSTED / ASSUMED pieces for ProveReplicaUpdates3 (update_existing_sector_info, update_replica_states,
// validate_replica_updates, prove_replica_updates3) in the unit `miner_prove`. Included INSIDE the unit's `verus!{}` block after
// prelude/miner_prove_notify_assumed.rs (BTreeMap) and the items ReplicaUpdateInner, UpdateAndSectorInfo, ReplicaUpdateStateInputs, ...

// ---- bitflags! SectorOnChainInfoFlags::set(flag, value): insert or remove the flag's bits (bitflags crate) ------------------------------------------
impl SectorOnChainInfoFlags {
    #[verifier::external_body]
    pub fn set(&mut self, other: SectorOnChainInfoFlags, value: bool)
        ensures final(self).bits == (if value { old(self).bits | other.bits } else { old(self).bits & !other.bits })
    { unimplemented!() }
}
/// policy.rs daily_proof_fee_adjust (fee scaled by the power ratio): SOME amount, a function of the inputs (the fee is outside the properties)
#[verifier::external_body]
pub fn daily_proof_fee_adjust(daily_fee: &TokenAmount, old_qa_power: &StoragePower, new_qa_power: &StoragePower) -> (r: TokenAmount) { unimplemented!() }

// ---- partition_state.rs Partition, seen from update_replica_states: opaque; what replace_sectors reports ------------------------------------------------
#[verifier::external_body]
pub struct Partition { inner: Box<u8> }
/// QA power of a sector info (policy.rs qa_power_for_sector: qa_power_for_weight over expiration - power_base_epoch and the verified weight)
pub open spec fn qa_of(size: SectorSize, s: SectorOnChainInfo) -> int { qapw_spec(size, (s.expiration - s.power_base_epoch) as ChainEpoch, s.verified_deal_weight@) }
/// `std::slice::from_ref(x)`: the one-element slice
#[verifier::external_body]
pub fn vx_slice_from_ref<T>(x: &T) -> (r: &[T]) ensures r@ == seq![*x] { std::slice::from_ref(x) }
impl Partition {
    /// partition_state.rs Partition::replace_sectors (under contract in units/C04/partition.vx.rs + miner_expq.vx.rs): refuses unless every old
    /// sector is ACTIVE in this partition (live, not faulty, not unproven — `active_sectors().contains_all(old)`); the deltas it returns are computed
    /// by ExpirationQueue::replace_sectors from the GIVEN infos: power_for_sectors(new) - power_for_sectors(old) (raw = size x count, qa = sum of
    /// qa_power_for_sector), sum of initial_pledge(new) - sum of initial_pledge(old). Used here with one old and one new info (precondition).
    #[verifier::external_body]
    pub fn replace_sectors<BS: Blockstore>(&mut self, store: &BS, old_sectors: &[SectorOnChainInfo], new_sectors: &[SectorOnChainInfo], sector_size: SectorSize,
            quant: QuantSpec) -> (r: anyhow::Result<(PowerPair, TokenAmount, TokenAmount)>)
        requires old_sectors@.len() == 1, new_sectors@.len() == 1
        ensures r.is_ok() ==> r->Ok_0.0.raw@ == 0 && r->Ok_0.0.qa@ == qa_of(sector_size, new_sectors@[0]) - qa_of(sector_size, old_sectors@[0])
            && r->Ok_0.1@ == new_sectors@[0].initial_pledge@ - old_sectors@[0].initial_pledge@
    { unimplemented!() }
}
impl Deadline {
    /// deadline_state.rs Deadline::partitions_amt: the partitions AMT of this deadline
    #[verifier::external_body]
    pub fn partitions_amt<BS: Blockstore>(&self, store: BS) -> (r: anyhow::Result<Array<Partition, BS>>) { unimplemented!() }
    /// the three assignments `deadline.live_power += &d; deadline.daily_fee += &f; deadline.partitions = root;` of update_replica_states (Deadline is
    /// opaque in prelude/miner_onboard_assumed.rs: memo fields of the deadline, outside this unit's properties)
    #[verifier::external_body]
    pub fn vx_add_live_power(&mut self, d: &PowerPair) { unimplemented!() }
    #[verifier::external_body]
    pub fn vx_add_daily_fee(&mut self, d: &TokenAmount) { unimplemented!() }
}
impl<K: Copy, V> BTreeMap<K, V> {
    /// the (key, value) pairs of the map in ascending key order (what iterating `&map` yields): a function of the map
    pub uninterp spec fn ref_pairs(&self) -> Seq<(K, V)>;
    /// `for (&k, v) in &map`: every key exactly once (ascending), with a reference to its value
    #[verifier::external_body]
    pub fn vx_ref_pairs(&self) -> (r: Vec<(K, &V)>)
        ensures
            r@.len() == self.ref_pairs().len(), forall|i: int| 0 <= i < r@.len() ==> (#[trigger] r@[i]).0 == self.ref_pairs()[i].0 && *r@[i].1 == self.ref_pairs()[i].1,
            forall|i: int| 0 <= i < r@.len() ==> self.view().dom().contains((#[trigger] self.ref_pairs()[i]).0) && self.ref_pairs()[i].1 == self.view()[self.ref_pairs()[i].0],
            forall|i: int, j: int| 0 <= i < j < r@.len() ==> (#[trigger] self.ref_pairs()[i]).0 != (#[trigger] self.ref_pairs()[j]).0,
            forall|k: K| self.view().dom().contains(k) ==> exists|i: int| 0 <= i < r@.len() && (#[trigger] self.ref_pairs()[i]).0 == k,
    { unimplemented!() }
}
impl Deadline {
    /// `deadline.partitions = root` written as `*deadline.vx_partitions_mut() = root` (Deadline is opaque here)
    #[verifier::external_body]
    pub fn vx_partitions_mut(&mut self) -> (r: &mut Cid) { unimplemented!() }
}
/// #[derive(Clone)] of Partition (std `Option<&Partition>::cloned()` is specified by vstd through it): SOME partition value
impl Clone for Partition {
    #[verifier::external_body]
    fn clone(&self) -> (r: Self) { unimplemented!() }
}

// ---- proof verification of a replica update (cryptography: SOME verdict, deterministic) ----------------------------------------------------------------
pub struct VxProofBytes { pub raw: RawBytes }
impl RawBytes {
    /// `RawBytes -> Vec<u8>` (`.into()`): the same bytes
    pub fn into(self) -> (r: VxProofBytes) ensures r.raw == self { VxProofBytes { raw: self } }
}
/// fvm_shared ReplicaUpdateInfo: everything one replica-update proof is checked against
pub struct ReplicaUpdateInfo { pub update_proof_type: RegisteredUpdateProof, pub new_sealed_cid: Cid, pub old_sealed_cid: Cid, pub new_unsealed_cid: Cid, pub proof: VxProofBytes }
pub uninterp spec fn replica_verdict(i: ReplicaUpdateInfo) -> bool;
impl Rt {
    /// Runtime::verify_replica_update (syscall): Ok iff the proofs library accepts; changes nothing of the activation
    #[verifier::external_body]
    pub fn verify_replica_update(&self, replica: &ReplicaUpdateInfo) -> (r: Result<(), AnyhowError>) ensures r.is_ok() == replica_verdict(*replica) { unimplemented!() }
}
impl RegisteredSealProof {
    /// fvm_shared: the update proof type that goes with a seal proof type (Err for unknown types): a table
    pub uninterp spec fn update_proof_spec(self) -> Option<RegisteredUpdateProof>;
    #[verifier::external_body]
    pub fn registered_update_proof(self) -> (r: Result<RegisteredUpdateProof, String>)
        ensures r.is_ok() == self.update_proof_spec().is_some(), r.is_ok() ==> r->Ok_0 == self.update_proof_spec()->Some_0
    { unimplemented!() }
}
/// state.rs check_sector_active(store, deadline, partition, sector, require_proven): loads the partition and answers Ok(true) iff the sector is a member
/// of the partition and is NOT faulty, NOT terminated and (require_proven) NOT unproven; Err if it is not a member. Opaque verdict of the state.
pub uninterp spec fn sector_active_in(s: State, deadline_idx: u64, partition_idx: u64, sector_number: SectorNumber, require_proven: bool) -> bool;
impl State {
    #[verifier::external_body]
    pub fn check_sector_active<BS: Blockstore>(&self, store: &BS, deadline_idx: u64, partition_idx: u64, sector_number: SectorNumber, require_proven: bool) -> (r: Result<bool, ActorError>)
        ensures r.is_ok() ==> r->Ok_0 == sector_active_in(*self, deadline_idx, partition_idx, sector_number, require_proven)
    { unimplemented!() }
}
// ---- std::collections::HashMap (insert / get) -------------------------------------------------------------------------------------------------------------
#[verifier::external_body]
#[verifier::reject_recursive_types(K)]
#[verifier::reject_recursive_types(V)]
pub struct HashMap<K, V> { p: PhantomData<(K, V)> }
impl<K, V> HashMap<K, V> {
    pub uninterp spec fn view(&self) -> Map<K, V>;
    #[verifier::external_body]
    pub fn with_capacity(n: usize) -> (r: HashMap<K, V>) ensures r.view() == Map::<K, V>::empty() { unimplemented!() }
    #[verifier::external_body]
    pub fn insert(&mut self, k: K, v: V) -> (r: Option<V>) ensures final(self).view() == old(self).view().insert(k, v) { unimplemented!() }
    #[verifier::external_body]
    pub fn get(&self, k: &K) -> (r: Option<&V>)
        ensures r.is_some() <==> self.view().dom().contains(*k), r.is_some() ==> *r->Some_0 == self.view()[*k]
    { unimplemented!() }
}
// ---- iterator expressions of prove_replica_updates3 / validate_replica_updates (body IS the original expression) ---------------------------------------
/// `updates.iter().zip(sector_infos).enumerate()` materialised: (index, (update, sector info)), in order, up to the shorter length
#[verifier::external_body]
pub fn vx_zip_enumerate<'a, S, T>(a: &'a Vec<S>, b: &'a Vec<T>) -> (r: Vec<(usize, (&'a S, &'a T))>)
    ensures r@.len() == min_len(a@.len() as int, b@.len() as int), forall|i: int| 0 <= i < r@.len() ==> (#[trigger] r@[i]).0 == i && *r@[i].1.0 == a@[i] && *r@[i].1.1 == b@[i]
{ a.iter().zip(b).enumerate().collect() }
/// `params.sector_proofs.get(i).unwrap_or(&RawBytes::default()).clone()`: the i-th proof, or the empty byte string when there is none
#[verifier::external_body]
pub fn vx_proof_or_default(proofs: &Vec<RawBytes>, i: usize) -> (r: RawBytes)
    ensures i < proofs@.len() ==> r == proofs@[i as int], i >= proofs@.len() ==> raw_len(r) == 0
{ proofs.get(i).unwrap_or(&RawBytes::default()).clone() }
/// lib.rs `proven_manifests.iter().map(|(update, info)| SectorPiecesActivationInput { piece_manifests: update.pieces.clone(), sector_expiry:
/// info.expiration, sector_number: info.sector_number, sector_type: info.seal_proof, expected_commd: None }).collect()`: one data-activation input per
/// proven update, in order: ITS manifest's pieces, ITS sector's expiration / number / proof type, no CommD to check
#[verifier::external_body]
pub fn vx_update_activation_inputs(v: &Vec<(&SectorUpdateManifest, &SectorOnChainInfo)>) -> (r: Vec<SectorPiecesActivationInput>)
    ensures r@.len() == v@.len(), forall|k: int| 0 <= k < r@.len() ==> (#[trigger] r@[k]).piece_manifests@ == v@[k].0.pieces@ && r@[k].sector_expiry == v@[k].1.expiration
        && r@[k].sector_number == v@[k].1.sector_number && r@[k].sector_type == v@[k].1.seal_proof && r@[k].expected_commd.is_none()
{ unimplemented!() }
/// `ref_pairs` lists exactly the entries of the map, each key once (BTreeMap iteration: ascending keys) — the facts vx_ref_pairs hands to exec code,
/// available to specifications that talk about the pairs without iterating
pub axiom fn axiom_ref_pairs<K: Copy, V>(m: &BTreeMap<K, V>)
    ensures
        forall|i: int| 0 <= i < m.ref_pairs().len() ==> m.view().dom().contains((#[trigger] m.ref_pairs()[i]).0) && m.ref_pairs()[i].1 == m.view()[m.ref_pairs()[i].0],
        forall|i: int, j: int| 0 <= i < j < m.ref_pairs().len() ==> (#[trigger] m.ref_pairs()[i]).0 != (#[trigger] m.ref_pairs()[j]).0,
        forall|k: K| m.view().dom().contains(k) ==> exists|i: int| 0 <= i < m.ref_pairs().len() && (#[trigger] m.ref_pairs()[i]).0 == k;
