// prelude/miner_expq_groups.rs — TRUSTED. `expiration_groups.sort_by_key(|g| g.sector_epoch_set.epoch)` in ExpirationQueue::find_sectors_by_expiration
// (slice::sort_by_key with a closure; outside Verus' subset). Included INSIDE the unit's verus!{} block, after the SectorExpirationSet item.
/// `p` is a permutation of 0..n
pub open spec fn is_perm(p: Seq<int>, n: nat) -> bool {
    &&& p.len() == n
    &&& forall|i: int| 0 <= i < n ==> 0 <= #[trigger] p[i] < n
    &&& forall|i: int, j: int| 0 <= i < j < n ==> #[trigger] p[i] != #[trigger] p[j]
    &&& forall|j: int| 0 <= j < n ==> #[trigger] perm_hits(p, j)
}
/// index j is the image of some index
pub open spec fn perm_hits(p: Seq<int>, j: int) -> bool { exists|i: int| 0 <= i < p.len() && #[trigger] p[i] == j }
/// slice::sort_by_key: the elements are rearranged (a permutation of the input) into non-decreasing key order. The body IS the original statement.
#[verifier::external_body]
pub fn vx_sort_groups_by_epoch(v: &mut Vec<SectorExpirationSet>)
    ensures
        final(v)@.len() == old(v)@.len(),
        exists|p: Seq<int>| is_perm(p, old(v)@.len()) && forall|i: int| 0 <= i < old(v)@.len() ==> #[trigger] final(v)@[i] == old(v)@[p[i]],
        forall|i: int, j: int| 0 <= i < j < final(v)@.len() ==> (#[trigger] final(v)@[i]).sector_epoch_set.epoch <= (#[trigger] final(v)@[j]).sector_epoch_set.epoch,
{ v.sort_by_key(|g| g.sector_epoch_set.epoch) }
