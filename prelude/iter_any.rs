// prelude/iter_any.rs — TRUSTED. Targets of extraction rule R23: `v.into_iter().any(|a| *a == x)` and `.all(..)` over a vector (or a
// reference to one) whose element type has structural (derived) equality: membership of x / every element equal to x.
verus! {
#[verifier::external_body]
pub fn vx_any_eq<T>(v: &Vec<T>, x: T) -> (r: bool) ensures r == v@.contains(x) { unimplemented!() }
#[verifier::external_body]
pub fn vx_all_eq<T>(v: &Vec<T>, x: T) -> (r: bool) ensures r == (forall|i: int| 0 <= i < v@.len() ==> v@[i] == x) { unimplemented!() }
} // verus!
