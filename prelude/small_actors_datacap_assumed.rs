// prelude/small_actors_datacap_assumed.rs — TRUSTED model of the external crates the DataCap actor delegates to (frc46_token 15.0.0,
// fvm_actor_utils 15.0.0), for unit small_actors. Included inside `pub mod datacap { .. }` BEFORE the extracted items (state.rs `State`
// names `token::state::TokenState`). The token library itself is OPAQUE: nothing is assumed about balances, supply or allowances.
//  * TokenState: an opaque value plus a GHOST HISTORY `log` of the requests the library has served on it (auxiliary variable, no runtime
//    content): every mutating `Token` method that returns Ok has appended exactly its own request (operation + arguments as received) to the
//    log of the state it wraps. This is what lets a contract say "the library was asked to do X with these arguments" without saying what
//    X does. On Err nothing is said about the wrapped state (the actor's transaction discards it).
//  * Token<'st, S, BS> { runtime, granularity, state: &'st mut TokenState } and Token::wrap: the three fields as given (frc46 token/mod.rs:81).
//  * ActorRuntime<S, BS>::new(syscalls, blockstore), SyscallProvider { rt } (lib.rs: the messenger handed to the library).
//  * Read-only queries total_supply / balance_of / allowance: opaque deterministic functions of the wrapped state and the arguments.
//  * ReceiverHook<T>::call, Token::{mint_return, transfer_return, transfer_from_return}: unconstrained (the receiver hook is a send made by the
//    library through interior mutability of the runtime: NOT visible in the ghost runtime, so units must claim nothing about sends there).
//  * lib.rs `AsActorResult::actor_result` (both impls): `map_err` to an ActorError carrying the library's exit code — Ok-ness and value kept.
//  * lib.rs lazy_static INFINITE_ALLOWANCE = TOKEN_PRECISION * 10^21 atto: `vx_infinite_allowance()`.
verus! {
pub const TOKEN_PRECISION: u64 = 1_000_000_000_000_000_000;
pub enum TokenOp {
    Mint { operator: Address, to: Address, amount: int },
    SetAllowance { owner: Address, operator: Address, amount: int },
    IncreaseAllowance { owner: Address, operator: Address, delta: int },
    DecreaseAllowance { owner: Address, operator: Address, delta: int },
    RevokeAllowance { owner: Address, operator: Address },
    Burn { owner: Address, amount: int },
    BurnFrom { operator: Address, owner: Address, amount: int },
    Transfer { from: Address, to: Address, amount: int, operator_data: RawBytes },
    TransferFrom { operator: Address, from: Address, to: Address, amount: int, operator_data: RawBytes },
}
pub mod token { pub mod state {
    use super::super::*;
    pub struct TokenState { pub h: u64, pub log: Ghost<Seq<TokenOp>> }
    impl TokenState {
        /// TokenState::new(store): a fresh, empty token state (nothing served yet); fails only if the store does
        #[verifier::external_body]
        pub fn new(store: &Store) -> (r: Result<TokenState, AnyhowError>) ensures r.is_ok() ==> r->Ok_0.log@.len() == 0 { unimplemented!() }
    }
} }
pub struct TokenError { pub code: u32 }
pub struct ReceiverHookError { pub code: u32 }
pub struct SyscallProvider<'a, RT> { pub rt: &'a RT }
#[verifier::external_body]
#[verifier::reject_recursive_types(S)]
#[verifier::reject_recursive_types(BS)]
pub struct ActorRuntime<S, BS> { p: PhantomData<(S, BS)> }
impl<S, BS> ActorRuntime<S, BS> {
    #[verifier::external_body]
    pub fn new(syscalls: S, blockstore: BS) -> (r: ActorRuntime<S, BS>) { unimplemented!() }
}
pub struct BurnReturn { pub balance: TokenAmount }
pub struct BurnFromReturn { pub balance: TokenAmount, pub allowance: TokenAmount }
pub struct MintReturn { pub balance: TokenAmount, pub supply: TokenAmount, pub recipient_data: RawBytes }
pub struct MintIntermediate { pub recipient: Address, pub recipient_data: RawBytes }
pub struct TransferParams { pub to: Address, pub amount: TokenAmount, pub operator_data: RawBytes }
pub struct TransferReturn { pub from_balance: TokenAmount, pub to_balance: TokenAmount, pub recipient_data: RawBytes }
pub struct TransferIntermediate { pub from: Address, pub to: Address, pub recipient_data: RawBytes }
pub struct TransferFromParams { pub from: Address, pub to: Address, pub amount: TokenAmount, pub operator_data: RawBytes }
pub struct TransferFromReturn { pub from_balance: TokenAmount, pub to_balance: TokenAmount, pub allowance: TokenAmount, pub recipient_data: RawBytes }
pub struct TransferFromIntermediate { pub operator: Address, pub from: Address, pub to: Address, pub recipient_data: RawBytes }
pub struct IncreaseAllowanceParams { pub operator: Address, pub increase: TokenAmount }
pub struct DecreaseAllowanceParams { pub operator: Address, pub decrease: TokenAmount }
pub struct RevokeAllowanceParams { pub operator: Address }
pub struct GetAllowanceParams { pub owner: Address, pub operator: Address }
pub struct BurnParams { pub amount: TokenAmount }
pub struct BurnFromParams { pub owner: Address, pub amount: TokenAmount }
impl RawBytes {
    pub fn default() -> (r: RawBytes) ensures r.h == 0 { RawBytes { h: 0 } }
}

#[verifier::external_body]
#[verifier::reject_recursive_types(T)]
pub struct ReceiverHook<T> { p: PhantomData<T> }
impl<T> ReceiverHook<T> {
    /// sends the receiver hook through the messenger (not visible in the ghost runtime); Ok iff the recipient accepted
    #[verifier::external_body]
    pub fn call<S, BS>(&mut self, msg: &ActorRuntime<S, BS>) -> (r: Result<T, ReceiverHookError>) { unimplemented!() }
}

pub uninterp spec fn token_total_supply(s: token::state::TokenState) -> int;
pub uninterp spec fn token_balance(s: token::state::TokenState, owner: Address) -> int;
pub uninterp spec fn token_allowance(s: token::state::TokenState, owner: Address, operator: Address) -> int;

#[verifier::reject_recursive_types(S)]
#[verifier::reject_recursive_types(BS)]
pub struct Token<'st, S, BS> { pub runtime: &'st ActorRuntime<S, BS>, pub granularity: u64, pub state: &'st mut token::state::TokenState }
/// what every mutating library call leaves alone: which state is wrapped (the reference's prophecy), runtime handle, granularity
#[verifier::prophetic]
pub open spec fn token_same<'st, S, BS>(o: Token<'st, S, BS>, f: Token<'st, S, BS>) -> bool {
    *final(f.state) == *final(o.state) && f.granularity == o.granularity
}
impl<'st, S, BS> Token<'st, S, BS> {
    #[verifier::external_body]
    pub fn wrap(runtime: &'st ActorRuntime<S, BS>, granularity: u64, state: &'st mut token::state::TokenState) -> (r: Self)
        ensures *r.state == *old(state), *final(r.state) == *final(state), r.granularity == granularity
    { unimplemented!() }
    #[verifier::external_body]
    pub fn total_supply(&self) -> (r: TokenAmount) ensures r@ == token_total_supply(*old(self.state)) { unimplemented!() }
    #[verifier::external_body]
    pub fn balance_of(&self, owner: &Address) -> (r: Result<TokenAmount, TokenError>) ensures r.is_ok() ==> r->Ok_0@ == token_balance(*old(self.state), *owner) { unimplemented!() }
    #[verifier::external_body]
    pub fn allowance(&self, owner: &Address, operator: &Address) -> (r: Result<TokenAmount, TokenError>)
        ensures r.is_ok() ==> r->Ok_0@ == token_allowance(*old(self.state), *owner, *operator) { unimplemented!() }
    #[verifier::external_body]
    pub fn mint(&mut self, operator: &Address, initial_owner: &Address, amount: &TokenAmount, operator_data: RawBytes, token_data: RawBytes) -> (r: Result<ReceiverHook<MintIntermediate>, TokenError>)
        ensures token_same(*old(self), *final(self)),
            r.is_ok() ==> final(self).state.log@ == old(self).state.log@.push(TokenOp::Mint { operator: *operator, to: *initial_owner, amount: amount@ }),
    { unimplemented!() }
    #[verifier::external_body]
    pub fn set_allowance(&mut self, owner: &Address, operator: &Address, amount: &TokenAmount) -> (r: Result<TokenAmount, TokenError>)
        ensures token_same(*old(self), *final(self)),
            r.is_ok() ==> final(self).state.log@ == old(self).state.log@.push(TokenOp::SetAllowance { owner: *owner, operator: *operator, amount: amount@ }),
    { unimplemented!() }
    #[verifier::external_body]
    pub fn increase_allowance(&mut self, owner: &Address, operator: &Address, delta: &TokenAmount) -> (r: Result<TokenAmount, TokenError>)
        ensures token_same(*old(self), *final(self)),
            r.is_ok() ==> final(self).state.log@ == old(self).state.log@.push(TokenOp::IncreaseAllowance { owner: *owner, operator: *operator, delta: delta@ }),
    { unimplemented!() }
    #[verifier::external_body]
    pub fn decrease_allowance(&mut self, owner: &Address, operator: &Address, delta: &TokenAmount) -> (r: Result<TokenAmount, TokenError>)
        ensures token_same(*old(self), *final(self)),
            r.is_ok() ==> final(self).state.log@ == old(self).state.log@.push(TokenOp::DecreaseAllowance { owner: *owner, operator: *operator, delta: delta@ }),
    { unimplemented!() }
    #[verifier::external_body]
    pub fn revoke_allowance(&mut self, owner: &Address, operator: &Address) -> (r: Result<TokenAmount, TokenError>)
        ensures token_same(*old(self), *final(self)),
            r.is_ok() ==> final(self).state.log@ == old(self).state.log@.push(TokenOp::RevokeAllowance { owner: *owner, operator: *operator }),
    { unimplemented!() }
    #[verifier::external_body]
    pub fn burn(&mut self, owner: &Address, amount: &TokenAmount) -> (r: Result<BurnReturn, TokenError>)
        ensures token_same(*old(self), *final(self)),
            r.is_ok() ==> final(self).state.log@ == old(self).state.log@.push(TokenOp::Burn { owner: *owner, amount: amount@ }),
    { unimplemented!() }
    #[verifier::external_body]
    pub fn burn_from(&mut self, operator: &Address, owner: &Address, amount: &TokenAmount) -> (r: Result<BurnFromReturn, TokenError>)
        ensures token_same(*old(self), *final(self)),
            r.is_ok() ==> final(self).state.log@ == old(self).state.log@.push(TokenOp::BurnFrom { operator: *operator, owner: *owner, amount: amount@ }),
    { unimplemented!() }
    #[verifier::external_body]
    pub fn transfer(&mut self, from: &Address, to: &Address, amount: &TokenAmount, operator_data: RawBytes, token_data: RawBytes) -> (r: Result<ReceiverHook<TransferIntermediate>, TokenError>)
        ensures token_same(*old(self), *final(self)),
            r.is_ok() ==> final(self).state.log@ == old(self).state.log@.push(TokenOp::Transfer { from: *from, to: *to, amount: amount@, operator_data }),
    { unimplemented!() }
    #[verifier::external_body]
    pub fn transfer_from(&mut self, operator: &Address, from: &Address, to: &Address, amount: &TokenAmount, operator_data: RawBytes, token_data: RawBytes) -> (r: Result<ReceiverHook<TransferFromIntermediate>, TokenError>)
        ensures token_same(*old(self), *final(self)),
            r.is_ok() ==> final(self).state.log@ == old(self).state.log@.push(TokenOp::TransferFrom { operator: *operator, from: *from, to: *to, amount: amount@, operator_data }),
    { unimplemented!() }
    #[verifier::external_body]
    pub fn mint_return(&self, intermediate: MintIntermediate) -> (r: Result<MintReturn, TokenError>) { unimplemented!() }
    #[verifier::external_body]
    pub fn transfer_return(&self, intermediate: TransferIntermediate) -> (r: Result<TransferReturn, TokenError>) { unimplemented!() }
    #[verifier::external_body]
    pub fn transfer_from_return(&self, intermediate: TransferFromIntermediate) -> (r: Result<TransferFromReturn, TokenError>) { unimplemented!() }
}
pub trait AsActorResult<T> {
    fn actor_result(self) -> (r: Result<T, ActorError>);
}
impl<T> AsActorResult<T> for Result<T, TokenError> {
    #[verifier::external_body]
    fn actor_result(self) -> (r: Result<T, ActorError>)
        ensures r.is_ok() == self.is_ok(), r.is_ok() ==> r->Ok_0 == self->Ok_0, r.is_err() ==> r->Err_0.code == self->Err_0.code
    { unimplemented!() }
}
impl<T> AsActorResult<T> for Result<T, ReceiverHookError> {
    #[verifier::external_body]
    fn actor_result(self) -> (r: Result<T, ActorError>)
        ensures r.is_ok() == self.is_ok(), r.is_ok() ==> r->Ok_0 == self->Ok_0, r.is_err() ==> r->Err_0.code == self->Err_0.code
    { unimplemented!() }
}
/// 10^18 * 10^21 atto (lib.rs INFINITE_ALLOWANCE)
pub open spec fn infinite_allowance_spec() -> int { 1_000_000_000_000_000_000int * 1_000_000_000_000_000_000_000int }
#[verifier::external_body]
pub fn vx_infinite_allowance() -> (r: &'static TokenAmount) ensures r@ == infinite_allowance_spec() { unimplemented!() }
} // verus!
