// prelude/evm_lifecycle_assumed.rs — ASSUMED contracts of repo functions that the EVM lifecycle unit does NOT verify (the interpreter
// loop and its helpers). Included inside the unit's `verus!{}` after the extracted items System / ExecutionState / Output.
//  * Stack / Memory: opaque; `Stack::new()`, `Memory::default()` build the empty ones.
//  * Bytecode + load_bytecode (lib.rs): reads the raw block `cid`; `None` for empty code. A deterministic function of the CID
//    (content addressing); nothing else is assumed.
//  * Bytecode::new: "the code made of these bytes" (opaque). System::call_gas_limit: some number (gas is not modelled).
//  * System::resolve_ethereum_address (system.rs): pure lookup (`&self`); succeeds for every ID address (an ID address resolves to itself
//    and `lookup_delegated_address` cannot fail); the result is a function of the address (an actor's f4 address never changes).
//  * execute (interpreter/execution.rs): the interpreter loop. NOT verified. Assumed: (i) its result is RELATED — by the uninterpreted
//    relation `evm_run`, about which nothing is known — to exactly the context it was given (code, caller, receiver, value, input, the
//    storage / transient storage / nonce it started from, read-only flag); this only makes the context passed by the callers observable
//    in their postconditions; (ii) frame: it does not change `readonly`, the lifespan, the message, `in_tx`; (iii) it leaves the cache
//    coherent (`coh`): outside tests every write to a System field goes through a System method, and each of those either clears
//    `saved_state_root` or re-establishes coherence (units/C19/evm_system.vx.rs: set_storage, set_transient_storage, increment_nonce,
//    flush, reload, send_raw, transfer; this unit: mark_selfdestructed).
//  * ActorError::unchecked_with_data, vx_ser_bytes (= `IpldBlock::serialize_cbor(&BytesSer(b)).unwrap()`: serialising a byte string
//    cannot fail): message/data-only, keep the exit code.
pub struct Stack { pub h: VxOpaque }
pub struct Memory { pub h: VxOpaque }
impl Stack {
    #[verifier::external_body]
    pub fn new() -> (r: Stack) { unimplemented!() }
}
impl Default for Memory {
    #[verifier::external_body]
    fn default() -> (r: Memory) { unimplemented!() }
}
pub struct Bytecode { pub h: VxOpaque }
pub uninterp spec fn bytecode_at(cid: Cid) -> Option<Bytecode>;
/// Bytecode::new (interpreter/bytecode.rs; its jump-destination analysis is verified in C18): here just "the code made of these bytes"
pub uninterp spec fn bytecode_of(b: Seq<u8>) -> Bytecode;
impl Bytecode {
    #[verifier::external_body]
    pub fn new(b: Vec<u8>) -> (r: Bytecode) ensures r == bytecode_of(b@) { unimplemented!() }
}
#[verifier::external_body]
pub fn load_bytecode(bs: &Store, cid: &Cid) -> (r: Result<Option<Bytecode>, ActorError>)
    ensures r.is_ok() ==> r->Ok_0 == bytecode_at(*cid),
{ unimplemented!() }

pub uninterp spec fn eth_of_fil(a: Address) -> EthAddress;
impl<'r> System<'r> {
    /// call_gas_limit (system.rs): min(requested, 63/64 of the gas left) — a number; gas is not modelled
    #[verifier::external_body]
    pub fn call_gas_limit(&self, gas: U256) -> (r: u64) { unimplemented!() }
    #[verifier::external_body]
    pub fn resolve_ethereum_address(&self, addr: &Address) -> (r: Result<EthAddress, ActorError>)
        ensures addr.proto == 0 ==> r.is_ok(), r.is_ok() ==> r->Ok_0 == eth_of_fil(*addr),
    { unimplemented!() }
}

/// "running `code` as (caller, receiver, value, input) against a contract whose storage / transient storage / nonce are as given, in a
/// read-only context or not, CAN end with this outcome and return data". Uninterpreted.
pub uninterp spec fn evm_run(code: Bytecode, caller: EthAddress, receiver: EthAddress, value: int, input: Seq<u8>,
    slots: Map<U256, U256>, transient: Map<U256, U256>, nonce: u64, readonly: bool, outcome: Outcome, ret: Seq<u8>) -> bool;
#[verifier::external_body]
pub fn execute(bytecode: &Bytecode, runtime: &mut ExecutionState, system: &mut System) -> (r: Result<Output, ActorError>)
    requires coh(old(system)), !old(system).rt.in_tx@,
    ensures
        r.is_ok() ==> evm_run(*bytecode, old(runtime).caller, old(runtime).receiver, old(runtime).value_received@, old(runtime).input_data@,
            old(system).slots.view(), old(system).transient_slots.view(), old(system).nonce, old(system).readonly, r->Ok_0.outcome, r->Ok_0.return_data@),
        final(system).readonly == old(system).readonly,
        final(system).current_transient_data_lifespan == old(system).current_transient_data_lifespan,
        rt_frame(old(system).rt, final(system).rt),
        coh(final(system)),
{ unimplemented!() }

impl ActorError {
    pub fn unchecked_with_data(code: ExitCode, m: String, data: Option<IpldBlock>) -> (r: ActorError) ensures r.code == code.value { ActorError { code: code.value } }
}
#[verifier::external_body]
pub fn vx_ser_bytes(b: &Vec<u8>) -> (r: Option<IpldBlock>) { unimplemented!() }
