// ===========================================================================================
// prelude/ipld.rs — TRUSTED. IPLD containers of fil_actors_runtime viewed as mathematical maps.
// Content addressing: `flush` returns a Cid `c` with `decode(c) == view`; `load(c)` has view
// `decode(c)`. Hash collisions / lost blocks are outside the property list (DESIGN §2.4).
// ===========================================================================================
verus! {

#[verifier::external_body]
#[verifier::accept_recursive_types(BS)]
#[verifier::reject_recursive_types(K)]
#[verifier::reject_recursive_types(V)]
pub struct Map2<BS, K, V> { p: PhantomData<(BS, K, V)> }

pub uninterp spec fn map2_decode<K, V>(c: Cid) -> Map<K, V>;

#[derive(Clone, Copy)]
pub struct Config { pub bit_width: u32, pub min_data_depth: u32, pub max_array_width: usize }
pub const DEFAULT_HAMT_CONFIG: Config = Config { bit_width: 5, min_data_depth: 0, max_array_width: 1 };
pub const HAMT_BIT_WIDTH: u32 = 5;
pub trait MapKey {}
impl MapKey for Cid {}
impl MapKey for Address {}
impl MapKey for u64 {}
impl MapKey for i64 {}

impl<BS: Blockstore, K, V> Map2<BS, K, V> {
    pub uninterp spec fn view(&self) -> Map<K, V>;

    #[verifier::external_body]
    pub fn empty(store: BS, config: Config, name: &'static str) -> (r: Self)
        ensures r.view() == Map::<K, V>::empty(),
    { unimplemented!() }

    /// content addressing: loading a root yields the map that was flushed to it
    #[verifier::external_body]
    pub fn load(store: BS, root: &Cid, config: Config, name: &'static str) -> (r: Result<Self, ActorError>)
        ensures vx_store_ok() ==> r.is_ok(), r.is_ok() ==> r->Ok_0.view() == map2_decode::<K, V>(*root),
    { unimplemented!() }

    #[verifier::external_body]
    pub fn get(&self, key: &K) -> (r: Result<Option<&V>, ActorError>)
        ensures vx_store_ok() ==> r.is_ok(),
            r.is_ok() ==> (r->Ok_0.is_some() <==> self.view().dom().contains(*key)),
            r.is_ok() && r->Ok_0.is_some() ==> *(r->Ok_0->Some_0) == self.view()[*key],
    { unimplemented!() }

    /// R16 target: the entries `for_each` visits — every key of the map exactly once (in HAMT order), Err on a traversal error
    #[verifier::external_body]
    pub fn vx_entries(&self) -> (r: Result<Vec<(K, &V)>, ActorError>)
        ensures
            r.is_ok() ==> (forall|i: int| 0 <= i < r->Ok_0@.len() ==> self.view().dom().contains(#[trigger] r->Ok_0@[i].0) && *r->Ok_0@[i].1 == self.view()[r->Ok_0@[i].0]),
            r.is_ok() ==> (forall|i: int, j: int| 0 <= i < j < r->Ok_0@.len() ==> r->Ok_0@[i].0 != r->Ok_0@[j].0),
            r.is_ok() ==> (forall|k: K| self.view().dom().contains(k) ==> exists|i: int| 0 <= i < r->Ok_0@.len() && #[trigger] r->Ok_0@[i].0 == k),
    { unimplemented!() }

    #[verifier::external_body]
    pub fn contains_key(&self, key: &K) -> (r: Result<bool, ActorError>)
        ensures vx_store_ok() ==> r.is_ok(), r.is_ok() ==> r->Ok_0 == self.view().dom().contains(*key),
    { unimplemented!() }

    #[verifier::external_body]
    pub fn set(&mut self, key: &K, v: V) -> (r: Result<Option<V>, ActorError>)
        ensures vx_store_ok() ==> r.is_ok(),
            r.is_ok() ==> final(self).view() == old(self).view().insert(*key, v),
            r.is_ok() ==> (r->Ok_0.is_some() <==> old(self).view().dom().contains(*key)),
            r.is_ok() && r->Ok_0.is_some() ==> r->Ok_0->Some_0 == old(self).view()[*key],
            r.is_err() ==> final(self).view() == old(self).view(),
    { unimplemented!() }

    #[verifier::external_body]
    pub fn set_if_absent(&mut self, key: &K, v: V) -> (r: Result<bool, ActorError>)
        ensures
            r.is_ok() ==> r->Ok_0 == !old(self).view().dom().contains(*key),
            r.is_ok() && r->Ok_0 ==> final(self).view() == old(self).view().insert(*key, v),
            r.is_ok() && !r->Ok_0 ==> final(self).view() == old(self).view(),
            r.is_err() ==> final(self).view() == old(self).view(),
    { unimplemented!() }

    #[verifier::external_body]
    pub fn delete(&mut self, key: &K) -> (r: Result<Option<V>, ActorError>)
        ensures vx_store_ok() ==> r.is_ok(),
            r.is_ok() ==> final(self).view() == old(self).view().remove(*key),
            r.is_ok() ==> (r->Ok_0.is_some() <==> old(self).view().dom().contains(*key)),
            r.is_ok() && r->Ok_0.is_some() ==> r->Ok_0->Some_0 == old(self).view()[*key],
            r.is_err() ==> final(self).view() == old(self).view(),
    { unimplemented!() }

    #[verifier::external_body]
    pub fn flush(&mut self) -> (r: Result<Cid, ActorError>)
        ensures vx_store_ok() ==> r.is_ok(),
            final(self).view() == old(self).view(),
            r.is_ok() ==> map2_decode::<K, V>(r->Ok_0) == old(self).view(),
    { unimplemented!() }

    #[verifier::external_body]
    pub fn is_empty(&self) -> (r: bool)
        ensures r == (self.view().dom() =~= vstd::set::Set::<K>::empty()),
    { unimplemented!() }
}


// ---- fvm_ipld_amt::Amt as used through fil_actors_runtime::Array: a finite map from u64 ----------------
#[verifier::external_body]
#[verifier::accept_recursive_types(BS)]
#[verifier::reject_recursive_types(V)]
pub struct Array<V, BS> { p: PhantomData<(V, BS)> }
pub uninterp spec fn array_decode<V>(c: Cid) -> Map<u64, V>;

impl<V, BS: Blockstore> Array<V, BS> {
    pub uninterp spec fn view(&self) -> Map<u64, V>;

    #[verifier::external_body]
    pub fn load(root: &Cid, store: BS) -> (r: Result<Self, AnyhowError>)
        ensures r.is_ok() ==> r->Ok_0.view() == array_decode::<V>(*root),
    { unimplemented!() }
    #[verifier::external_body]
    pub fn get(&self, i: u64) -> (r: Result<Option<&V>, AnyhowError>)
        ensures
            r.is_ok() ==> (r->Ok_0.is_some() <==> self.view().dom().contains(i)),
            r.is_ok() && r->Ok_0.is_some() ==> *(r->Ok_0->Some_0) == self.view()[i],
    { unimplemented!() }
    #[verifier::external_body]
    pub fn set(&mut self, i: u64, v: V) -> (r: Result<(), AnyhowError>)
        ensures
            r.is_ok() ==> final(self).view() == old(self).view().insert(i, v),
            r.is_err() ==> final(self).view() == old(self).view(),
    { unimplemented!() }
    #[verifier::external_body]
    pub fn delete(&mut self, i: u64) -> (r: Result<Option<V>, AnyhowError>)
        ensures
            r.is_ok() ==> final(self).view() == old(self).view().remove(i),
            r.is_ok() ==> (r->Ok_0.is_some() <==> old(self).view().dom().contains(i)),
            r.is_ok() && r->Ok_0.is_some() ==> r->Ok_0->Some_0 == old(self).view()[i],
            r.is_err() ==> final(self).view() == old(self).view(),
    { unimplemented!() }
    #[verifier::external_body]
    pub fn flush(&mut self) -> (r: Result<Cid, AnyhowError>)
        ensures
            final(self).view() == old(self).view(),
            r.is_ok() ==> array_decode::<V>(r->Ok_0) == old(self).view(),
    { unimplemented!() }
}


// ---- runtime MapMap: a two-level HAMT, viewed as a map from key pairs ----------------------------------
#[verifier::external_body]
#[verifier::accept_recursive_types(BS)]
#[verifier::reject_recursive_types(V)]
#[verifier::reject_recursive_types(K1)]
#[verifier::reject_recursive_types(K2)]
pub struct MapMap<'a, BS, V, K1, K2> { p: PhantomData<(&'a BS, V, K1, K2)> }
pub uninterp spec fn mapmap_decode<V, K1, K2>(c: Cid) -> Map<(K1, K2), V>;
impl<'a, BS: Blockstore, V, K1, K2> MapMap<'a, BS, V, K1, K2> {
    pub uninterp spec fn view(&self) -> Map<(K1, K2), V>;
    /// content addressing, as for Map2
    #[verifier::external_body]
    pub fn from_root(store: &'a BS, root: &Cid, outer_bitwidth: u32, inner_bitwidth: u32) -> (r: Result<Self, AnyhowError>)
        ensures vx_store_ok() ==> r.is_ok(), r.is_ok() ==> r->Ok_0.view() == mapmap_decode::<V, K1, K2>(*root),
    { unimplemented!() }
    #[verifier::external_body]
    pub fn flush(&mut self) -> (r: Result<Cid, AnyhowError>)
        ensures vx_store_ok() ==> r.is_ok(), final(self).view() == old(self).view(), r.is_ok() ==> mapmap_decode::<V, K1, K2>(r->Ok_0) == old(self).view(),
    { unimplemented!() }
    #[verifier::external_body]
    pub fn get(&mut self, k1: K1, k2: K2) -> (r: Result<Option<&V>, ActorError>)
        ensures
            final(self).view() == old(self).view(),
            r.is_ok() ==> (r->Ok_0.is_some() <==> old(self).view().dom().contains((k1, k2))),
            r.is_ok() && r->Ok_0.is_some() ==> *(r->Ok_0->Some_0) == old(self).view()[(k1, k2)],
    { unimplemented!() }
    #[verifier::external_body]
    pub fn put(&mut self, k1: K1, k2: K2, v: V) -> (r: Result<(), ActorError>)
        ensures
            r.is_ok() ==> final(self).view() == old(self).view().insert((k1, k2), v),
            r.is_err() ==> final(self).view() == old(self).view(),
    { unimplemented!() }
    #[verifier::external_body]
    pub fn put_if_absent(&mut self, k1: K1, k2: K2, v: V) -> (r: Result<bool, ActorError>)
        ensures
            r.is_ok() ==> r->Ok_0 == !old(self).view().dom().contains((k1, k2)),
            r.is_ok() && r->Ok_0 ==> final(self).view() == old(self).view().insert((k1, k2), v),
            r.is_ok() && !r->Ok_0 ==> final(self).view() == old(self).view(),
            r.is_err() ==> final(self).view() == old(self).view(),
    { unimplemented!() }
    #[verifier::external_body]
    pub fn remove(&mut self, k1: K1, k2: K2) -> (r: Result<Option<V>, ActorError>)
        ensures
            r.is_ok() ==> final(self).view() == old(self).view().remove((k1, k2)),
            r.is_ok() ==> (r->Ok_0.is_some() <==> old(self).view().dom().contains((k1, k2))),
            r.is_ok() && r->Ok_0.is_some() ==> r->Ok_0->Some_0 == old(self).view()[(k1, k2)],
            r.is_err() ==> final(self).view() == old(self).view(),
    { unimplemented!() }
}
} // verus!
