// replay of two situations reported by the verifreg expiry unit (scratch copy only)
mod harness;
use fil_actor_verifreg::State;
use fil_actors_runtime::runtime::policy_constants::{MINIMUM_VERIFIED_ALLOCATION_SIZE, MINIMUM_VERIFIED_ALLOCATION_TERM};
use fvm_shared::ActorID;
use fvm_shared::error::ExitCode;
use harness::*;

const CLIENT1: ActorID = 101;
const PROVIDER1: ActorID = 301;

// at curr_epoch == alloc.expiration the same allocation is BOTH claimable by its provider AND removable (refunded) by anyone
#[test]
fn claimable_and_removable_in_the_same_epoch() {
    let (h, rt) = new_harness();
    let size = MINIMUM_VERIFIED_ALLOCATION_SIZE as u64;
    let mut alloc = make_alloc("1", CLIENT1, PROVIDER1, size);
    alloc.expiration = 0; // the harness hard-codes term-start 0 in the expected claim event, so the shared epoch is 0
    let id = h.create_alloc(&rt, &alloc).unwrap();
    let st0: State = rt.get_state();
    rt.set_epoch(alloc.expiration);

    // world A: the provider claims it at epoch 100
    let sector = 1000;
    let expiry = alloc.expiration + MINIMUM_VERIFIED_ALLOCATION_TERM;
    let reqs = vec![make_claim_reqs(sector, expiry, &[(id, &alloc)])];
    let ret = h.claim_allocations(&rt, PROVIDER1, reqs, size, false, vec![(id, alloc.clone(), sector)]).unwrap();
    assert_eq!(ret.sector_results.codes(), vec![ExitCode::OK]);

    // world B (same prior state, same epoch): anyone removes it as "expired" and the client is refunded
    rt.replace_state(&st0);
    let ret = h.remove_expired_allocations(&rt, CLIENT1, vec![id], vec![(id, alloc.clone())]).unwrap();
    assert_eq!(vec![ExitCode::OK], ret.results.codes());
    assert!(h.load_alloc(&rt, CLIENT1, id).is_none());
}

// naming the same expired allocation twice: both entries get verdict OK, the second `allocs.remove(..)` yields None and `.unwrap()` panics
#[test]
#[should_panic(expected = "called `Option::unwrap()` on a `None` value")]
fn duplicate_id_panics() {
    let (h, rt) = new_harness();
    let size = MINIMUM_VERIFIED_ALLOCATION_SIZE as u64;
    let alloc = make_alloc("1", CLIENT1, PROVIDER1, size);
    let id = h.create_alloc(&rt, &alloc).unwrap();
    rt.set_epoch(alloc.expiration + 1);
    let _ = h.remove_expired_allocations(&rt, CLIENT1, vec![id, id], vec![(id, alloc.clone())]);
}
