// unit (EXPECTED TO FAIL — candidate finding): verified registry — "removed only after they have expired", read strictly: a record may be
// removed only when `expiration < current epoch`, i.e. when it is no longer usable. `can_claim_alloc` still accepts a claim at
// `curr_epoch == alloc.expiration` (`curr_epoch <= alloc.expiration`), while `check_expired` / `find_expired` already release the record at
// `curr_epoch >= expiration`: at the single epoch `curr_epoch == expiration` an allocation is both claimable and removable. (C10, C09)
//@ include prelude/core.rs
//@ include prelude/ipld.rs
//@ include prelude/rt.rs
//@ include prelude/singletons.rs
//@ include prelude/policy.rs
//@ include prelude/batch.rs
//@ include prelude/verifreg.rs
verus! {
#[derive(Clone, Copy, PartialEq, Eq, Structural)]
pub struct PaddedPieceSize(pub u64);
pub type AllocationID = u64;
pub type ClaimID = u64;
//@ item actors/verifreg/src/state.rs Allocation attr="#[derive(Clone, Copy, PartialEq, Eq, Structural)]"
//@ item actors/verifreg/src/state.rs Claim attr="#[derive(Clone, Copy, PartialEq, Eq, Structural)]"
//@ item actors/verifreg/src/types.rs AllocationClaim
//@ include prelude/verifreg_expiry_assumed.rs

/// "claimed ... by the named provider for the matching data within its terms" (contract of units/C09/verifreg_claims.vx.rs)
pub open spec fn claimable(c: AllocationClaim, provider: ActorID, alloc: Allocation, epoch: ChainEpoch, expiry: ChainEpoch) -> bool {
    provider == alloc.provider && c.client == alloc.client && c.data == alloc.data && c.size == alloc.size && epoch <= alloc.expiration
        && alloc.term_min <= expiry - epoch <= alloc.term_max
}
//@ fn actors/verifreg/src/lib.rs can_claim_alloc
    requires
        0 <= curr_epoch, 0 <= sector_expiry,
    ensures
        r == claimable(*claim_alloc, provider, *alloc, curr_epoch, sector_expiry),
//@ end

pub trait Expires {
    spec fn exp_spec(&self) -> int;
    fn expiration(&self) -> (r: ChainEpoch)
        requires i64::MIN <= self.exp_spec() <= i64::MAX,
        ensures r as int == self.exp_spec();
}
impl Expires for Allocation {
    open spec fn exp_spec(&self) -> int { self.expiration as int }
//@ fn actors/verifreg/src/expiration.rs <Allocation as Expires>::expiration free novac
//@ end
}
impl Expires for Claim {
    open spec fn exp_spec(&self) -> int { self.term_start + self.term_max }
//@ fn actors/verifreg/src/expiration.rs <Claim as Expires>::expiration free novac
//@ end
}
pub open spec fn exp_in_range<T: Expires>(m: Map<(ActorID, u64), T>) -> bool {
    forall|k: (ActorID, u64)| m.dom().contains(k) ==> i64::MIN <= (#[trigger] m[k]).exp_spec() <= i64::MAX
}
/// a verdict is acceptable if "success" (0) is given only to a record of `owner` whose expiration epoch lies strictly in the past
pub open spec fn verdict_strict<T: Expires>(m: Map<(ActorID, u64), T>, owner: ActorID, id: u64, curr: int, code: u32) -> bool {
    code == 0 ==> m.dom().contains((owner, id)) && m[(owner, id)].exp_spec() < curr
}
/// an allocation that may be removed at `curr` can no longer be claimed at `curr` (the two ways an allocation ends exclude each other at every epoch)
pub proof fn lemma_strict_excludes_claim(m: Map<(ActorID, u64), Allocation>, owner: ActorID, id: u64, curr: ChainEpoch, c: AllocationClaim, provider: ActorID, expiry: ChainEpoch)
    requires verdict_strict(m, owner, id, curr as int, 0),
    ensures !claimable(c, provider, m[(owner, id)], curr, expiry),
{}

//@ fn actors/verifreg/src/expiration.rs check_expired
    requires
        exp_in_range(old(collection).view()),
    ensures
        final(collection).view() == old(collection).view(),
        r.is_ok() ==> r->Ok_0.codes().len() == candidates@.len()
            && forall|i: int| 0 <= i < candidates@.len() ==> verdict_strict(old(collection).view(), owner, candidates@[i], curr_epoch as int, #[trigger] r->Ok_0.codes()[i]),
//@ loop 0 iter=it
            invariant
                it.seq().len() == candidates@.len(),
                forall|j: int| 0 <= j < candidates@.len() ==> *(#[trigger] it.seq()[j]) == candidates@[j],
                collection.view() == old(collection).view(),
                ret_gen.expect() == candidates@.len(),
                ret_gen.codes().len() == it.index@,
                exp_in_range(collection.view()),
                forall|i: int| 0 <= i < it.index@ ==> verdict_strict(collection.view(), owner, candidates@[i], curr_epoch as int, #[trigger] ret_gen.codes()[i]),
//@ end
} // verus!
fn main() {}
