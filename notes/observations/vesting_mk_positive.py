# builds miner_vesting_positive.vx.rs from miner_vesting.vx.rs: the same unit plus ONE more extraction of add_locked_funds
# (renamed add_locked_funds_keeps_positive) whose only postcondition is the task's `well_formed` clause "positive amounts",
# UNCONDITIONALLY. It is expected to FAIL: see the report (zero-amount steps for vesting sums below ~1 attoFIL per epoch).
import re
src=open('/verif/.work/miner-vesting/miner_vesting.vx.rs').read()
i=src.index('//@ fn actors/miner/src/vesting_state.rs VestingFunds::add_locked_funds')
j=src.index('//@ end', i)+len('//@ end')
blk=src[i:j]
head,rest=blk.split('\n',1)
head=head.replace('VestingFunds::add_locked_funds ','VestingFunds::add_locked_funds as=add_locked_funds_keeps_positive ',1)
a=rest.index('    ensures'); b=rest.index('//@ entry')
rest=rest[:a]+'''    ensures
        // the task's `well_formed`: every entry of the table has a POSITIVE amount (also what actors/miner/src/testing.rs
        // check_miner_balances demands: "non-positive amount in miner vesting table entry")
        r.is_ok() && vf_pos(vt_table(*old(self))) ==> vf_pos(vt_table(*final(self))),
'''+rest[b:]
twin='''
// =====================================================================================================================
// CANDIDATE DEFECT PROBE (expected to fail): add_locked_funds keeps all amounts positive -- without any lower bound on vesting_sum
// =====================================================================================================================
'''+head+'\n'+rest+'\n'
k=src.rindex('} // verus!')
open('/verif/.work/miner-vesting/miner_vesting_positive.vx.rs','w').write(src[:k]+twin.lstrip('\n')+'\n'+src[k:])
