// replay of the candidate defect: add_locked_funds writes zero-amount entries for tiny vesting sums
use fil_actor_miner::{REWARD_VESTING_SPEC, VestingFunds};
use fil_actors_runtime::test_blockstores::MemoryBlockstore;
use fvm_shared::econ::TokenAmount;

#[test]
fn tiny_vesting_sum_leaves_zero_amount_entries() {
    let store = MemoryBlockstore::default();
    let mut vf = VestingFunds::new();
    // 1 attoFIL locked at epoch 0 with the production vesting spec (180 days, daily steps, 12 h lattice)
    let unlocked = vf.add_locked_funds(&store, 0, &TokenAmount::from_atto(1), 0, &REWARD_VESTING_SPEC).unwrap();
    assert!(unlocked.is_zero());
    let funds = vf.load(&store).unwrap();
    let total: TokenAmount = funds.iter().map(|f| f.amount.clone()).sum();
    println!("entries: {}, total: {}, zero entries: {}", funds.len(), total, funds.iter().filter(|f| f.amount.is_zero()).count());
    println!("first: {:?}  last: {:?}", funds.first(), funds.last());
    assert_eq!(total, TokenAmount::from_atto(1)); // the total is right ...
    // ... but the table is not what check_miner_balances (testing.rs) accepts: "non-positive amount in miner vesting table entry"
    assert!(funds.iter().all(|f| f.amount.is_positive()), "zero-amount entries in the vesting table");
}
