use syn::visit_mut::VisitMut;
use quote::ToTokens;
struct R;
impl VisitMut for R {
    fn visit_expr_mut(&mut self, e: &mut syn::Expr) {
        syn::visit_mut::visit_expr_mut(self, e);
        if let syn::Expr::Binary(b) = e {
            let (l, r) = (&b.left, &b.right);
            let path = match b.op {
                syn::BinOp::Add(_) => Some(quote::quote!(::core::ops::Add::add)),
                syn::BinOp::Sub(_) => Some(quote::quote!(::core::ops::Sub::sub)),
                syn::BinOp::Mul(_) => Some(quote::quote!(::core::ops::Mul::mul)),
                _ => None,
            };
            if let Some(p) = path {
                *e = syn::parse_quote!(#p(#l, #r));
            }
        }
    }
}
fn main() {
    let src = std::fs::read_to_string(std::env::args().nth(1).unwrap()).unwrap();
    let mut f: syn::File = syn::parse_file(&src).unwrap();
    let want = std::env::args().nth(2).unwrap();
    for item in f.items.iter_mut() {
        if let syn::Item::Impl(im) = item {
            for ii in im.items.iter_mut() {
                if let syn::ImplItem::Fn(m) = ii {
                    if m.sig.ident == want {
                        R.visit_impl_item_fn_mut(m);
                        println!("{}", m.to_token_stream());
                    }
                }
            }
        }
    }
}
