use fvm_shared::error::ExitCode;
pub const EVM_CONTRACT_STACK_UNDERFLOW: ExitCode = ExitCode::new(37);
pub const EVM_CONTRACT_STACK_OVERFLOW: ExitCode = ExitCode::new(38);

#[path = "/repo/actors/evm/src/interpreter/stack.rs"]
#[allow(dead_code)]
pub mod stack;

#[cfg(kani)]
mod proofs {
    use super::stack::*;
    use fil_actors_evm_shared::uints::U256;
    fn any_u256() -> U256 { U256([kani::any(), kani::any(), kani::any(), kani::any()]) }

    fn eq(a: &U256, b: &U256) -> bool { a.0[0]==b.0[0] && a.0[1]==b.0[1] && a.0[2]==b.0[2] && a.0[3]==b.0[3] }
    #[kani::proof]
    #[kani::unwind(5)]
    fn pop_many_2() {
        let mut s = Stack::new();
        let n: usize = kani::any();
        kani::assume(n <= 3);
        let mut vals = [U256::ZERO; 3];
        let mut i = 0;
        while i < 3 { if i < n { vals[i] = any_u256(); s.push_unchecked(vals[i]); } i += 1; }
        let before = s.len();
        kani::assume(before >= 2);
        let arr = s.pop_many::<2>();
        match arr {
            Ok(arr) => {
                let a = *arr;
                assert!(eq(&a[0], &vals[before - 2]) && eq(&a[1], &vals[before - 1]));
            }
            Err(_) => { assert!(false); }
        }
        assert!(s.len() == before - 2);
    }
}
