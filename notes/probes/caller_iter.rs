use vstd::prelude::*;
verus! {
#[derive(Debug, PartialEq, Eq, Clone, Copy)]
pub struct Address { pub id: u64 }
#[derive(Debug)]
pub struct ActorError { pub code: u32 }

#[verifier::reject_recursive_types(T)]
#[verifier::external_type_specification]
#[verifier::external_body]
pub struct ExOnce<T>(std::iter::Once<T>);
#[verifier::reject_recursive_types(A)]
#[verifier::reject_recursive_types(B)]
#[verifier::external_type_specification]
#[verifier::external_body]
pub struct ExChain<A, B>(std::iter::Chain<A, B>);

pub trait CallerIter: Sized {
    spec fn addrs(self) -> Set<u64>;
}
impl<'a> CallerIter for std::iter::Once<&'a Address> {
    open spec fn addrs(self) -> Set<u64> { set![once_val(self).id] }
}
impl<'a, const N: usize> CallerIter for &'a [Address; N] {
    open spec fn addrs(self) -> Set<u64> { self@.map_values(|a: Address| a.id).to_set() }
}
impl<'a> CallerIter for &'a Vec<Address> {
    open spec fn addrs(self) -> Set<u64> { self@.map_values(|a: Address| a.id).to_set() }
}
impl<'a> CallerIter for std::slice::Iter<'a, Address> {
    uninterp spec fn addrs(self) -> Set<u64>;
}
impl<'a> CallerIter for std::iter::Chain<std::slice::Iter<'a, Address>, std::slice::Iter<'a, Address>> {
    uninterp spec fn addrs(self) -> Set<u64>;
}

pub uninterp spec fn once_val<T>(o: std::iter::Once<T>) -> T;
pub assume_specification<T>[std::iter::once](v: T) -> (r: std::iter::Once<T>)
    ensures once_val(r) == v;

#[verifier::external_body]
pub fn vec_iter<'a>(v: &'a Vec<Address>) -> (r: std::slice::Iter<'a, Address>)
    ensures r.addrs() == v.addrs()
{ v.iter() }

pub struct Rt { pub caller: u64, pub validated: Option<Set<u64>> }
impl Rt {
    #[verifier::external_body]
    pub fn validate_immediate_caller_is<I: CallerIter>(&mut self, a: I) -> (r: Result<(), ActorError>)
        ensures
            r.is_ok() <==> (old(self).validated.is_none() && a.addrs().contains(old(self).caller)),
            r.is_ok() ==> final(self).validated == Some(a.addrs()),
            r.is_err() ==> final(self).validated == old(self).validated,
            final(self).caller == old(self).caller,
    { unimplemented!() }
}

pub struct Info { pub owner: Address, pub beneficiary: Address, pub worker: Address, pub control: Vec<Address> }

fn prefix_withdraw(rt: &mut Rt, info: &Info) -> (r: Result<(), ActorError>)
    ensures r.is_ok() ==> final(rt).validated == Some(set![info.owner.id, info.beneficiary.id])
{
    rt.validate_immediate_caller_is(&[info.owner, info.beneficiary])?;
    Ok(())
}
fn prefix_owner(rt: &mut Rt, info: &Info) -> (r: Result<(), ActorError>)
    ensures r.is_ok() ==> final(rt).validated == Some(set![info.owner.id])
{
    rt.validate_immediate_caller_is(std::iter::once(&info.owner))?;
    Ok(())
}
}
fn main() {}
