use vstd::prelude::*;
use std::ops::{Add, Sub, Neg};
use std::cmp::Ordering;
use std::marker::PhantomData;

macro_rules! actor_error {
    ($code:ident; $($t:tt)*) => { ActorError::$code() };
    ($code:ident, $($t:tt)*) => { ActorError::$code() };
}

verus! {

// ---------- prelude (trusted) ----------
#[verifier::external_body]
pub struct TokenAmount { inner: Box<u8> }
impl View for TokenAmount { type V = int; uninterp spec fn view(&self) -> int; }
impl TokenAmount {
    #[verifier::external_body]
    pub fn zero() -> (r: TokenAmount) ensures r@ == 0 { unimplemented!() }
    #[verifier::external_body]
    pub fn is_negative(&self) -> (r: bool) ensures r == (self@ < 0) { unimplemented!() }
    #[verifier::external_body]
    pub fn is_positive(&self) -> (r: bool) ensures r == (self@ > 0) { unimplemented!() }
    #[verifier::external_body]
    pub fn is_zero(&self) -> (r: bool) ensures r == (self@ == 0) { unimplemented!() }
}
impl Clone for TokenAmount {
    #[verifier::external_body]
    fn clone(&self) -> (r: TokenAmount) ensures r@ == self@ { unimplemented!() }
}
impl vstd::std_specs::cmp::PartialEqSpecImpl for TokenAmount {
    open spec fn obeys_eq_spec() -> bool { true }
    open spec fn eq_spec(&self, other: &TokenAmount) -> bool { self@ == other@ }
}
impl PartialEq for TokenAmount {
    #[verifier::external_body]
    fn eq(&self, other: &TokenAmount) -> (r: bool) ensures r == (self@ == other@) { unimplemented!() }
}
impl Eq for TokenAmount {}
impl vstd::std_specs::cmp::PartialOrdSpecImpl for TokenAmount {
    open spec fn obeys_partial_cmp_spec() -> bool { true }
    open spec fn partial_cmp_spec(&self, other: &TokenAmount) -> Option<Ordering> {
        if self@ < other@ { Some(Ordering::Less) } else if self@ == other@ { Some(Ordering::Equal) } else { Some(Ordering::Greater) }
    }
}
impl PartialOrd for TokenAmount {
    #[verifier::external_body]
    fn partial_cmp(&self, other: &TokenAmount) -> (r: Option<Ordering>) { unimplemented!() }
}
impl vstd::std_specs::cmp::OrdSpecImpl for TokenAmount {
    open spec fn obeys_cmp_spec() -> bool { true }
    open spec fn cmp_spec(&self, other: &TokenAmount) -> Ordering {
        if self@ < other@ { Ordering::Less } else if self@ == other@ { Ordering::Equal } else { Ordering::Greater }
    }
}
impl Ord for TokenAmount {
    #[verifier::external_body]
    fn cmp(&self, other: &TokenAmount) -> (r: Ordering) { unimplemented!() }
}
macro_rules! binop {
    ($tr:ident, $specimpl:ident, $m:ident, $req:ident, $spec:ident, $obeys:ident, $l:ty, $r:ty, $op:tt) => {
        verus!{
        impl<'a,'b> vstd::std_specs::ops::$specimpl<$r> for $l {
            open spec fn $obeys() -> bool { false }
            open spec fn $req(self, rhs: $r) -> bool { true }
            uninterp spec fn $spec(self, rhs: $r) -> TokenAmount;
        }
        impl<'a,'b> $tr<$r> for $l { type Output = TokenAmount;
            #[verifier::external_body]
            fn $m(self, rhs: $r) -> (r: TokenAmount) ensures r@ == self@ $op rhs@ { unimplemented!() } }
        }
    }
}
binop!(Add, AddSpecImpl, add, add_req, add_spec, obeys_add_spec, &'a TokenAmount, &'b TokenAmount, +);
binop!(Sub, SubSpecImpl, sub, sub_req, sub_spec, obeys_sub_spec, TokenAmount, &'b TokenAmount, -);
impl vstd::std_specs::ops::NegSpecImpl for TokenAmount {
    open spec fn obeys_neg_spec() -> bool { false }
    open spec fn neg_req(self) -> bool { true }
    uninterp spec fn neg_spec(self) -> TokenAmount;
}
impl Neg for TokenAmount { type Output = TokenAmount;
    #[verifier::external_body]
    fn neg(self) -> (r: TokenAmount) ensures r@ == -self@ { unimplemented!() } }
impl<'a> vstd::std_specs::ops::NegSpecImpl for &'a TokenAmount {
    open spec fn obeys_neg_spec() -> bool { false }
    open spec fn neg_req(self) -> bool { true }
    uninterp spec fn neg_spec(self) -> TokenAmount;
}
impl<'a> Neg for &'a TokenAmount { type Output = TokenAmount;
    #[verifier::external_body]
    fn neg(self) -> (r: TokenAmount) ensures r@ == -self@ { unimplemented!() } }

#[derive(Debug)]
pub struct ActorError { pub code: u32 }
impl ActorError {
    pub fn illegal_argument() -> ActorError { ActorError { code: 16 } }
}
pub trait ActorContext<T> { fn context(self, msg: &'static str) -> Result<T, ActorError>; }
impl<T> ActorContext<T> for Result<T, ActorError> {
    #[verifier::external_body]
    fn context(self, msg: &'static str) -> (r: Result<T, ActorError>) ensures r.is_ok() == self.is_ok(), r.is_ok() ==> r->Ok_0 == self->Ok_0, r.is_err() ==> r->Err_0.code == self->Err_0.code { unimplemented!() }
}

pub struct Address { pub id: u64 }
pub trait Blockstore {}

#[verifier::external_body]
#[verifier::accept_recursive_types(BS)]
#[verifier::reject_recursive_types(K)]
#[verifier::reject_recursive_types(V)]
pub struct Map2<BS, K, V> { p: PhantomData<(BS, K, V)> }
impl<BS: Blockstore> Map2<BS, Address, TokenAmount> {
    pub uninterp spec fn view(&self) -> Map<u64, int>;
    #[verifier::external_body]
    pub fn get(&self, key: &Address) -> (r: Result<Option<&TokenAmount>, ActorError>)
        ensures r.is_ok() ==> (r.unwrap().is_some() <==> self.view().dom().contains(key.id)),
                r.is_ok() && r.unwrap().is_some() ==> r.unwrap().unwrap()@ == self.view()[key.id],
    { unimplemented!() }
    #[verifier::external_body]
    pub fn set(&mut self, key: &Address, v: TokenAmount) -> (r: Result<Option<TokenAmount>, ActorError>)
        ensures r.is_ok() ==> final(self).view() == old(self).view().insert(key.id, v@),
                r.is_err() ==> final(self).view() == old(self).view(),
    { unimplemented!() }
    #[verifier::external_body]
    pub fn delete(&mut self, key: &Address) -> (r: Result<Option<TokenAmount>, ActorError>)
        ensures r.is_ok() ==> final(self).view() == old(self).view().remove(key.id),
                r.is_err() ==> final(self).view() == old(self).view(),
    { unimplemented!() }
}

#[verifier::external_body]
pub fn cmp_max(a: TokenAmount, b: TokenAmount) -> (r: TokenAmount) ensures r@ == (if a@ >= b@ { a@ } else { b@ }) { unimplemented!() }
#[verifier::external_body]
pub fn cmp_min<'a>(a: &'a TokenAmount, b: &'a TokenAmount) -> (r: &'a TokenAmount) ensures r@ == (if a@ <= b@ { a@ } else { b@ }) { unimplemented!() }

// ---------- spec ----------
pub open spec fn bal(m: Map<u64,int>, k: u64) -> int { if m.dom().contains(k) { m[k] } else { 0 } }
pub open spec fn wf(m: Map<u64,int>) -> bool { forall|k: u64| m.dom().contains(k) ==> #[trigger] m[k] >= 0 }

// ---------- extracted (bodies verbatim modulo R1/R4) ----------
pub struct BalanceTable<BS: Blockstore>(pub Map2<BS, Address, TokenAmount>);

impl<BS> BalanceTable<BS>
where
    BS: Blockstore,
{
    pub fn get(&self, key: &Address) -> (r: Result<TokenAmount, ActorError>)
        ensures r.is_ok() ==> r.unwrap()@ == bal(self.0.view(), key.id)
    {
        if let Some(v) = self.0.get(key)? { Ok(v.clone()) } else { Ok(TokenAmount::zero()) }
    }

    pub fn add(&mut self, key: &Address, value: &TokenAmount) -> (r: Result<(), ActorError>)
        requires wf(old(self).0.view())
        ensures
            wf(final(self).0.view()),
            r.is_ok() ==> bal(old(self).0.view(), key.id) + value@ >= 0
                && forall|k: u64| bal(final(self).0.view(), k) == (if k == key.id { bal(old(self).0.view(), k) + value@ } else { bal(old(self).0.view(), k) }),
            r.is_err() ==> final(self).0.view() == old(self).0.view(),
    {
        let prev = self.get(key)?;
        let sum = ::core::ops::Add::add(&prev, value);
        if sum.is_negative() {
            Err(actor_error!(
                illegal_argument,
                "negative balance for {} adding {} to {}",
                key,
                value,
                prev
            ))
        } else if sum.is_zero() && !prev.is_zero() {
            self.0.delete(key).context("adding balance")?;
            Ok(())
        } else {
            self.0.set(key, sum).context("adding balance")?;
            Ok(())
        }
    }

    pub fn subtract_with_minimum(
        &mut self,
        key: &Address,
        req: &TokenAmount,
        floor: &TokenAmount,
    ) -> (r: Result<TokenAmount, ActorError>)
        requires wf(old(self).0.view())
        ensures
            wf(final(self).0.view()),
            r.is_ok() ==> ({
                let prev = bal(old(self).0.view(), key.id);
                let avail = if prev - floor@ > 0 { prev - floor@ } else { 0 };
                let sub = if avail <= req@ { avail } else { req@ };
                &&& r.unwrap()@ == sub
                &&& (sub > 0 ==> forall|k: u64| bal(final(self).0.view(), k) == (if k == key.id { prev - sub } else { bal(old(self).0.view(), k) }))
                &&& (sub <= 0 ==> final(self).0.view() == old(self).0.view())
            }),
    {
        let prev = self.get(key)?;
        let available = std::cmp::max(TokenAmount::zero(), ::core::ops::Sub::sub(prev, floor));
        let sub: TokenAmount = std::cmp::min(&available, req).clone();

        if sub.is_positive() {
            self.add(key, &::core::ops::Neg::neg(sub.clone())).context("subtracting balance")?;
        }

        Ok(sub)
    }
}
}

use vstd::std_specs::cmp::OrdSpec;
verus!{
pub assume_specification<T: Ord>[std::cmp::max](a: T, b: T) -> (r: T)
    ensures r == (if a.cmp_spec(&b) == Ordering::Greater { a } else { b });
pub assume_specification<T: Ord>[std::cmp::min](a: T, b: T) -> (r: T)
    ensures r == (if a.cmp_spec(&b) == Ordering::Greater { b } else { a });
}
fn main() {}
