use vstd::prelude::*;
verus! {
#[derive(Debug)]
pub struct ActorError { pub code: u32 }
#[derive(Debug)]
pub struct E2 { pub x: u32 }

fn g(x: u32) -> (r: Result<u32, E2>) ensures r.is_ok() <==> x < 10, r.is_ok() ==> r.unwrap() == x { if x < 10 { Ok(x) } else { Err(E2{x}) } }

fn f1(x: u32) -> (r: Result<u32, ActorError>)
    ensures r.is_ok() <==> x < 10
{
    let v = g(x).map_err(|e: E2| ActorError { code: 20 })?;
    Ok(v)
}
fn f2(o: Option<u32>) -> (r: Result<u32, ActorError>)
    ensures r.is_ok() <==> o.is_some()
{
    let v = o.ok_or_else(|| ActorError { code: 20 })?;
    Ok(v)
}
fn f3(v: &Vec<u32>) -> (r: u64)
{
    let mut s: u64 = 0;
    let mut i: usize = 0;
    'outer: while i < v.len()
        invariant s <= i * 10, i <= v.len()
        decreases v.len() - i
    {
        if v[i] > 10 { i = i + 1; continue 'outer; }
        s = s + v[i] as u64;
        i = i + 1;
    }
    s
}
fn f4(a: Option<u32>, b: u32) -> (r: bool)
{
    if let Some(p) = a { if p == b { true } else { false } } else { false }
}
fn f5(a: Option<u32>) -> bool { matches!(a, Some(3)) }
fn f6(v: Vec<(u32,u32)>) -> (r: u64)
{
    let mut s: u64 = 0;
    for (a, b) in v.iter()
        invariant s == 0
    {
    }
    s
}
}
fn main() {}
