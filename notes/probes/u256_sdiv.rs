use vstd::prelude::*;
use std::ops::{Add, Div, Not};
verus! {

pub open spec fn p128() -> int { 0x1_0000000000000000_0000000000000000int }
pub open spec fn P256f() -> int { p128() * p128() }
pub open spec fn P255f() -> int { p128() * 0x8000000000000000_0000000000000000int }

#[verifier::external_body]
#[derive(Clone, Copy)]
pub struct U256 { limbs: [u64; 4] }
impl View for U256 { type V = int; uninterp spec fn view(&self) -> int; }
pub broadcast axiom fn u256_range(x: U256) ensures #[trigger] x@ >= 0 && x@ < P256f();

impl U256 {
    #[verifier::external_body]
    pub const fn zero_() -> (r: U256) ensures r@ == 0 { unimplemented!() }
    #[verifier::external_body]
    pub const fn one_() -> (r: U256) ensures r@ == 1 { unimplemented!() }
    #[verifier::external_body]
    pub fn is_zero(&self) -> (r: bool) ensures r == (self@ == 0) { unimplemented!() }
    #[verifier::external_body]
    pub const fn i256_is_negative(&self) -> (r: bool) ensures r == (self@ >= P255f()) { unimplemented!() }
}
impl vstd::std_specs::ops::DivSpecImpl<U256> for U256 {
    open spec fn obeys_div_spec() -> bool { false }
    open spec fn div_req(self, rhs: U256) -> bool { rhs@ != 0 }
    uninterp spec fn div_spec(self, rhs: U256) -> U256;
}
impl Div<U256> for U256 { type Output = U256;
    #[verifier::external_body]
    fn div(self, rhs: U256) -> (r: U256) ensures r@ == self@ / rhs@ { unimplemented!() } }
impl vstd::std_specs::ops::AddSpecImpl<U256> for U256 {
    open spec fn obeys_add_spec() -> bool { false }
    open spec fn add_req(self, rhs: U256) -> bool { self@ + rhs@ < P256f() }
    uninterp spec fn add_spec(self, rhs: U256) -> U256;
}
impl Add<U256> for U256 { type Output = U256;
    #[verifier::external_body]
    fn add(self, rhs: U256) -> (r: U256) ensures r@ == self@ + rhs@ { unimplemented!() } }
impl vstd::std_specs::ops::NotSpecImpl for U256 {
    open spec fn obeys_not_spec() -> bool { false }
    open spec fn not_req(self) -> bool { true }
    uninterp spec fn not_spec(self) -> U256;
}
impl Not for U256 { type Output = U256;
    #[verifier::external_body]
    fn not(self) -> (r: U256) ensures r@ == P256f() - 1 - self@ { unimplemented!() } }

// two's complement interpretation
pub open spec fn sval(x: int) -> int { if x >= P255f() { x - P256f() } else { x } }
pub open spec fn uval(x: int) -> int { if x < 0 { x + P256f() } else { x } }
// truncated division on ints
pub open spec fn tdiv(a: int, b: int) -> int
    recommends b != 0
{
    if a >= 0 && b > 0 { a / b } else if a < 0 && b > 0 { -((-a) / b) } else if a >= 0 && b < 0 { -(a / (-b)) } else { (-a) / (-b) }
}
// Yellow Paper SDIV
pub open spec fn sdiv_spec(a: int, b: int) -> int {
    if b == 0 { 0 }
    else if sval(a) == -P255f() && sval(b) == -1 { P255f() }
    else { uval(tdiv(sval(a), sval(b))) }
}

impl U256 {
    pub fn i256_neg(&self) -> (r: U256)
        ensures r@ == (if self@ == 0 { 0 } else { P256f() - self@ })
    {
        broadcast use u256_range;
        if self.is_zero() { U256::zero_() } else { Add::add(Not::not(*self), U256::one_()) }
    }

    pub fn i256_div(&self, other: &U256) -> (r: U256)
        ensures r@ == sdiv_spec(self@, other@)
    {
        broadcast use u256_range;
        proof {
            assert(P256f() == 2 * P255f()) by (compute);
            assert(P255f() > 1) by (compute);
            assert(forall|x: int| x > 0 ==> #[trigger] (0int / x) == 0) by (nonlinear_arith);
        }
        if self.is_zero() || other.is_zero() {
            return U256::zero_();
        }
        let mut first = *self;
        let mut second = *other;
        let first_neg = first.i256_is_negative();
        let second_neg = second.i256_is_negative();
        if first_neg { first = first.i256_neg() }
        if second_neg { second = second.i256_neg() }
        let d = Div::div(first, second);
        proof {
            assert(P256f() == 2 * P255f()) by (compute);
            assert(P255f() > 1) by (compute);
            assert(d@ <= first@) by (nonlinear_arith) requires d@ == first@ / second@, second@ > 0, first@ >= 0;
            assert(d@ >= 0) by (nonlinear_arith) requires d@ == first@ / second@, second@ > 0, first@ >= 0;
            assert(second@ == 1 ==> d@ == first@) by (nonlinear_arith) requires d@ == first@ / second@;
            assert(second@ >= 2 ==> 2 * d@ <= first@) by (nonlinear_arith) requires d@ == first@ / second@, first@ >= 0;
        }
        if d.is_zero() || first_neg == second_neg { d } else { d.i256_neg() }
    }
}
}
fn main() {}
