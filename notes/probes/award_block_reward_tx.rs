use vstd::prelude::*;
use std::ops::{Add, Sub, Mul, AddAssign, SubAssign};
use std::cmp::Ordering;

macro_rules! actor_error {
    ($code:ident; $($t:tt)*) => { ActorError::$code() };
    ($code:ident, $($t:tt)*) => { ActorError::$code() };
}
macro_rules! warn { ($($t:tt)*) => { () } }
macro_rules! error { ($($t:tt)*) => { () } }

verus! {

#[verifier::external_body]
pub struct TokenAmount { inner: Box<u8> }
impl View for TokenAmount { type V = int; uninterp spec fn view(&self) -> int; }
impl TokenAmount {
    #[verifier::external_body]
    pub fn zero() -> (r: TokenAmount) ensures r@ == 0 { unimplemented!() }
    #[verifier::external_body]
    pub fn is_negative(&self) -> (r: bool) ensures r == (self@ < 0) { unimplemented!() }
    #[verifier::external_body]
    pub fn div_floor(&self, d: i64) -> (r: TokenAmount) requires d > 0 ensures r@ == self@ / (d as int) { unimplemented!() }
}
impl Clone for TokenAmount {
    #[verifier::external_body]
    fn clone(&self) -> (r: TokenAmount) ensures r@ == self@ { unimplemented!() }
}
impl vstd::std_specs::cmp::PartialEqSpecImpl for TokenAmount {
    open spec fn obeys_eq_spec() -> bool { true }
    open spec fn eq_spec(&self, other: &TokenAmount) -> bool { self@ == other@ }
}
impl PartialEq for TokenAmount {
    #[verifier::external_body]
    fn eq(&self, other: &TokenAmount) -> (r: bool) ensures r == (self@ == other@) { unimplemented!() }
}
impl vstd::std_specs::cmp::PartialOrdSpecImpl for TokenAmount {
    open spec fn obeys_partial_cmp_spec() -> bool { true }
    open spec fn partial_cmp_spec(&self, other: &TokenAmount) -> Option<Ordering> {
        if self@ < other@ { Some(Ordering::Less) } else if self@ == other@ { Some(Ordering::Equal) } else { Some(Ordering::Greater) }
    }
}
impl PartialOrd for TokenAmount {
    #[verifier::external_body]
    fn partial_cmp(&self, other: &TokenAmount) -> (r: Option<Ordering>) { unimplemented!() }
}

impl<'a,'b> vstd::std_specs::ops::AddSpecImpl<&'b TokenAmount> for &'a TokenAmount {
    open spec fn obeys_add_spec() -> bool { false }
    open spec fn add_req(self, rhs: &'b TokenAmount) -> bool { true }
    uninterp spec fn add_spec(self, rhs: &'b TokenAmount) -> TokenAmount;
}
impl<'a,'b> vstd::std_specs::ops::SubSpecImpl<&'b TokenAmount> for &'a TokenAmount {
    open spec fn obeys_sub_spec() -> bool { false }
    open spec fn sub_req(self, rhs: &'b TokenAmount) -> bool { true }
    uninterp spec fn sub_spec(self, rhs: &'b TokenAmount) -> TokenAmount;
}
impl<'a> vstd::std_specs::ops::MulSpecImpl<i64> for &'a TokenAmount {
    open spec fn obeys_mul_spec() -> bool { false }
    open spec fn mul_req(self, rhs: i64) -> bool { true }
    uninterp spec fn mul_spec(self, rhs: i64) -> TokenAmount;
}
impl<'a,'b> Add<&'b TokenAmount> for &'a TokenAmount {
    type Output = TokenAmount;
    #[verifier::external_body]
    fn add(self, rhs: &'b TokenAmount) -> (r: TokenAmount) ensures r@ == self@ + rhs@ { unimplemented!() }
}
impl<'a,'b> Sub<&'b TokenAmount> for &'a TokenAmount {
    type Output = TokenAmount;
    #[verifier::external_body]
    fn sub(self, rhs: &'b TokenAmount) -> (r: TokenAmount) ensures r@ == self@ - rhs@ { unimplemented!() }
}
impl<'a> Mul<i64> for &'a TokenAmount {
    type Output = TokenAmount;
    #[verifier::external_body]
    fn mul(self, rhs: i64) -> (r: TokenAmount) ensures r@ == self@ * (rhs as int) { unimplemented!() }
}
impl vstd::std_specs::ops::AddAssignSpecImpl<TokenAmount> for TokenAmount {
    open spec fn obeys_add_assign_spec() -> bool { false }
    open spec fn add_assign_req(&self, rhs: TokenAmount) -> bool { true }
    uninterp spec fn add_assign_spec(&self, rhs: TokenAmount) -> &TokenAmount;
}
impl AddAssign<TokenAmount> for TokenAmount {
    #[verifier::external_body]
    fn add_assign(&mut self, rhs: TokenAmount) ensures final(self)@ == old(self)@ + rhs@ { unimplemented!() }
}

#[derive(Debug)]
pub struct ActorError { pub code: u32 }
impl ActorError {
    pub fn illegal_argument() -> ActorError { ActorError { code: 16 } }
    pub fn illegal_state() -> ActorError { ActorError { code: 20 } }
    pub fn not_found() -> ActorError { ActorError { code: 17 } }
    pub fn forbidden() -> ActorError { ActorError { code: 18 } }
}

pub struct Address { pub id: u64 }
pub struct State { pub this_epoch_reward: TokenAmount, pub total_storage_power_reward: TokenAmount }

pub struct SendRec { pub to: u64, pub method: u64, pub value: int, pub ok: bool }

pub struct Rt {
    pub caller: u64,
    pub validated: bool,
    pub balance: Ghost<int>,
    pub sends: Ghost<Seq<SendRec>>,
    pub st: State,
}

impl Rt {
    pub fn validate_immediate_caller_is_one(&mut self, a: u64) -> (r: Result<(), ActorError>)
        ensures
            r.is_ok() ==> old(self).caller == a && !old(self).validated && final(self).validated,
            r.is_ok() <==> (old(self).caller == a && !old(self).validated),
            final(self).caller == old(self).caller, final(self).balance == old(self).balance, final(self).sends == old(self).sends,
            final(self).st == old(self).st,
            r.is_err() ==> final(self).validated == old(self).validated,
    {
        if self.validated { return Err(ActorError{code: 24}); }
        if self.caller == a { self.validated = true; Ok(()) } else { Err(ActorError::forbidden()) }
    }
    #[verifier::external_body]
    pub fn current_balance(&self) -> (r: TokenAmount) ensures r@ == self.balance@ { unimplemented!() }
    #[verifier::external_body]
    pub fn send_simple(&mut self, to: u64, method: u64, value: TokenAmount) -> (r: Result<(), ActorError>)
        ensures
            final(self).caller == old(self).caller, final(self).validated == old(self).validated,
            final(self).sends@ == old(self).sends@.push(SendRec { to, method, value: value@, ok: r.is_ok() }),
            r.is_ok() ==> final(self).balance@ == old(self).balance@ - value@ && 0 <= value@ <= old(self).balance@,
            r.is_err() ==> final(self).balance@ == old(self).balance@,
    { unimplemented!() }
}

pub struct AwardBlockRewardParams { pub miner: u64, pub penalty: TokenAmount, pub gas_reward: TokenAmount, pub win_count: i64 }

pub const EXPECTED_LEADERS_PER_EPOCH: i64 = 5;

fn award_tx0(st: &mut State, rt: &Rt, params: &AwardBlockRewardParams) -> (r: Result<TokenAmount, ActorError>)
    requires params.win_count > 0, params.gas_reward@ >= 0, rt.balance@ >= params.gas_reward@, old(st).this_epoch_reward@ >= 0,
    ensures r.is_ok() ==> r.unwrap()@ <= rt.balance@ && r.unwrap()@ >= params.gas_reward@
        && final(st).total_storage_power_reward@ - old(st).total_storage_power_reward@ == r.unwrap()@ - params.gas_reward@,
{
            let mut block_reward: TokenAmount =
                (Mul::mul(&st.this_epoch_reward, params.win_count)).div_floor(EXPECTED_LEADERS_PER_EPOCH);
            let mut total_reward = Add::add(&params.gas_reward, &block_reward);
            let curr_balance = rt.current_balance();
            if total_reward > curr_balance {
                warn!(
                    "reward actor balance {} below totalReward expected {},\
                    paying out rest of balance",
                    curr_balance, total_reward
                );
                total_reward = curr_balance;
                block_reward = Sub::sub(&total_reward, &params.gas_reward);
                if block_reward.is_negative() {
                    return Err(actor_error!(
                        illegal_state,
                        "programming error, block reward {} below zero",
                        block_reward
                    ));
                }
            }
            st.total_storage_power_reward += block_reward;
            Ok(total_reward)
}

}
fn main() {}
