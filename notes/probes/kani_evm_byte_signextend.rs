#[path = "/repo/actors/evm/src/interpreter/instructions/arithmetic.rs"]
#[allow(dead_code)]
mod arithmetic;
#[path = "/repo/actors/evm/src/interpreter/instructions/bitwise.rs"]
#[allow(dead_code)]
mod bitwise;

#[cfg(kani)]
mod proofs {
    use super::*;
    use fil_actors_evm_shared::uints::U256;

    fn any_u256() -> U256 { U256([kani::any(), kani::any(), kani::any(), kani::any()]) }

    // spec of signextend by bit-level definition (Yellow Paper): for i<32, t = 256 - 8(i+1);
    // result bit k = x[k] for k <= 8i+7 else x[8i+7]
    #[kani::proof]
    fn signextend_spec() {
        let a = any_u256();
        let b = any_u256();
        let r = arithmetic::signextend(a, b);
        let k: usize = kani::any();
        kani::assume(k < 256);
        if a.0[1] == 0 && a.0[2] == 0 && a.0[3] == 0 && a.0[0] < 32 {
            let t = (8 * a.0[0] + 7) as usize;
            if k <= t { assert!(r.bit(k) == b.bit(k)); } else { assert!(r.bit(k) == b.bit(t)); }
        } else {
            assert!(r == b);
        }
    }

    #[kani::proof]
    fn byte_spec() {
        let i = any_u256();
        let x = any_u256();
        let r = bitwise::byte(i, x);
        if i.0[1] == 0 && i.0[2] == 0 && i.0[3] == 0 && i.0[0] < 32 {
            let be = x.to_big_endian();
            assert!(r == U256::from_u64(be[i.0[0] as usize] as u64));
        } else {
            assert!(r == U256::ZERO);
        }
    }
}
