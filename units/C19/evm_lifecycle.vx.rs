// unit: EVM contract lifecycle — transient-storage lifetime, tombstones / SELFDESTRUCT, DELEGATECALL context (C19)
//@ include prelude/core.rs
//@ include prelude/ipld.rs
//@ include prelude/rt.rs
//@ include prelude/cbor.rs
//@ include prelude/singletons.rs
//@ include prelude/u256.rs
//@ include prelude/kamt.rs
//@ include prelude/evm_lifecycle_core.rs
verus! {

pub type ErrorNumber = u32;
//@ item actors/evm/src/state.rs Tombstone attr="#[derive(Clone, Copy, PartialEq, Eq, Structural)]"
//@ item actors/evm/src/state.rs TransientDataLifespan attr="#[derive(Clone, Copy, PartialEq, Eq, Structural)]"
//@ item actors/evm/src/state.rs TransientData attr="#[derive(Clone, Copy, PartialEq, Eq, Structural)]"
//@ item actors/evm/src/state.rs State
//@ item actors/evm/src/interpreter/system.rs EvmBytecode attr="#[derive(Clone, Copy)]"
//@ item actors/evm/src/interpreter/system.rs StateKamt
//@ const actors/evm/src/interpreter/system.rs KAMT_CONFIG
//@ item actors/evm/src/interpreter/system.rs System tsub0="< 'r , RT : Runtime >=>< 'r >" tsub1="& 'r RT=>& 'r mut Rt" tsub2="RT :: Blockstore=>&'static Store"
impl CborVal for State { type Base = State; open spec fn base(&self) -> State { *self } }

//@ include prelude/evm_system_assumed.rs
//@ fn actors/evm/src/interpreter/system.rs EvmBytecode::new
    ensures r.cid == cid, r.evm_hash == evm_hash,
//@ end

/// the top-level message this activation belongs to: (origin actor id, origin's message nonce)
pub open spec fn msg_tomb(rt: &Rt) -> Tombstone { Tombstone { origin: rt.msg.origin.id, nonce: rt.msg.nonce } }
pub open spec fn msg_life(rt: &Rt) -> TransientDataLifespan { TransientDataLifespan { origin: rt.msg.origin.id, nonce: rt.msg.nonce } }

//@ fn actors/evm/src/lib.rs current_tombstone rt=ref
    requires rt.msg.origin.proto == 0,
    ensures r.origin == rt.msg.origin.id, r.nonce == rt.msg.nonce,
//@ end
//@ fn actors/evm/src/interpreter/system.rs get_current_transient_data_lifespan rt=ref
    requires rt.msg.origin.proto == 0,
    ensures r.origin == rt.msg.origin.id, r.nonce == rt.msg.nonce,
//@ end

/// "self-destructed in an EARLIER top-level message": has a tombstone and it is not from (origin, nonce) of the running message
pub open spec fn dead_in(st: &State, origin: ActorID, nonce: u64) -> bool {
    st.tombstone.is_some() && !(st.tombstone->Some_0.origin == origin && st.tombstone->Some_0.nonce == nonce)
}
//@ fn actors/evm/src/lib.rs is_dead rt=ref sub0="state . tombstone . is_some_and=>vx_is_some_and!(state.tombstone," sub1="(rt)=>(rt))"
    requires rt.msg.origin.proto == 0,
    ensures r == dead_in(state, rt.msg.origin.id, rt.msg.nonce),
//@ end

// ======================= the abstract view of a contract's state (same as units/C19/evm_system.vx.rs) =======================
pub struct SysView {
    pub slots: Map<U256, U256>,
    pub transient: Map<U256, U256>,
    pub nonce: u64,
    pub tombstone: Option<Tombstone>,
}
pub open spec fn view_of(s: &System) -> SysView {
    SysView { slots: s.slots.view(), transient: s.transient_slots.view(), nonce: s.nonce, tombstone: s.tombstone }
}
/// a freshly constructed, empty contract: no storage, no transient storage, nonce 1, no code, no tombstone, nothing saved
pub open spec fn is_fresh(s: &System) -> bool {
    s.slots.view() =~= Map::<U256, U256>::empty() && s.transient_slots.view() =~= Map::<U256, U256>::empty()
        && s.nonce == 1 && s.bytecode.is_none() && s.tombstone.is_none() && s.saved_state_root.is_none()
        && s.current_transient_data_lifespan == msg_life(s.rt)
}

//@ fn actors/evm/src/interpreter/system.rs System::new impl="impl<'r> System<'r>" sigsub0="& 'r RT=>& 'r mut Rt" sigsub1="where RT :: Blockstore : Clone=>"
    requires old(rt).msg.origin.proto == 0,
    ensures
        is_fresh(&r), r.readonly == readonly, *r.rt == *old(rt), *final(r.rt) == *final(rt),
//@ end

//@ fn actors/evm/src/interpreter/system.rs System::mark_selfdestructed impl="impl<'r> System<'r>"
    requires old(self).rt.msg.origin.proto == 0,
    ensures
        final(self).tombstone == Some(msg_tomb(old(self).rt)),
        final(self).saved_state_root.is_none(),
        final(self).slots == old(self).slots, final(self).transient_slots == old(self).transient_slots, final(self).nonce == old(self).nonce,
        final(self).bytecode == old(self).bytecode, final(self).readonly == old(self).readonly, *final(self).rt == *old(self).rt,
        final(self).current_transient_data_lifespan == old(self).current_transient_data_lifespan,
//@ end

// ======================= what is persisted (same definitions as units/C19/evm_system.vx.rs) =======================
pub open spec fn persisted(c: Cid, lifespan: TransientDataLifespan) -> Option<SysView> {
    match cbor_decode::<State>(c) {
        None => None,
        Some(st) => Some(SysView {
            slots: kamt_decode::<U256, U256>(st.contract_state),
            transient: match st.transient_data {
                Some(td) => if td.transient_data_lifespan == lifespan { kamt_decode::<U256, U256>(td.transient_data_state) } else { Map::empty() },
                None => Map::empty(),
            },
            nonce: st.nonce,
            tombstone: st.tombstone,
        }),
    }
}
pub open spec fn persisted_is(c: Cid, l: TransientDataLifespan, v: SysView) -> bool {
    persisted(c, l).is_some() && ({
        let p = persisted(c, l)->Some_0;
        p.slots =~= v.slots && p.transient =~= v.transient && p.nonce == v.nonce && p.tombstone == v.tombstone
    })
}
pub open spec fn view_eq(a: SysView, b: SysView) -> bool {
    a.slots =~= b.slots && a.transient =~= b.transient && a.nonce == b.nonce && a.tombstone == b.tombstone
}
pub open spec fn coh(s: &System) -> bool {
    s.saved_state_root.is_some() ==> s.saved_state_root->Some_0 == s.rt.state_root
        && persisted_is(s.rt.state_root, s.current_transient_data_lifespan, view_of(s))
}

// ======================= create / resurrect / load =======================
//@ fn actors/evm/src/interpreter/system.rs System::create impl="impl<'r> System<'r>" sigsub0="& 'r RT=>& 'r mut Rt" sigsub1="where RT :: Blockstore : Clone=>"
    requires old(rt).msg.origin.proto == 0,
    ensures
        // only over an actor that has no state yet
        r.is_ok() ==> old(rt).state_root == EMPTY_ARR_CID && is_fresh(&r->Ok_0) && r->Ok_0.readonly == old(rt).read_only && *r->Ok_0.rt == *old(rt),
        old(rt).state_root != EMPTY_ARR_CID ==> r.is_err(),
        r.is_err() ==> *final(rt) == *old(rt),
//@ end
//@ fn actors/evm/src/interpreter/system.rs System::resurrect impl="impl<'r> System<'r>" sigsub0="& 'r RT=>& 'r mut Rt" sigsub1="where RT :: Blockstore : Clone=>"
    requires old(rt).msg.origin.proto == 0,
    ensures
        // only a contract that self-destructed in an EARLIER top-level message can be resurrected, and it starts empty
        r.is_ok() ==> cbor_decode::<State>(old(rt).state_root).is_some()
            && dead_in(&cbor_decode::<State>(old(rt).state_root)->Some_0, old(rt).msg.origin.id, old(rt).msg.nonce)
            && is_fresh(&r->Ok_0) && r->Ok_0.readonly == old(rt).read_only && *r->Ok_0.rt == *old(rt),
        cbor_decode::<State>(old(rt).state_root).is_some()
            && !dead_in(&cbor_decode::<State>(old(rt).state_root)->Some_0, old(rt).msg.origin.id, old(rt).msg.nonce) ==> r.is_err(),
        r.is_err() ==> *final(rt) == *old(rt),
//@ end

/// the transient store an activation in top-level message `life` must start from, given the persisted state `st`
pub open spec fn transient_for(st: &State, life: TransientDataLifespan) -> Map<U256, U256> {
    match st.transient_data {
        Some(td) => if td.transient_data_lifespan.origin == life.origin && td.transient_data_lifespan.nonce == life.nonce {
            kamt_decode::<U256, U256>(td.transient_data_state) } else { Map::empty() },
        None => Map::empty(),
    }
}
//@ fn actors/evm/src/interpreter/system.rs System::load impl="impl<'r> System<'r>" sigsub0="& 'r RT=>& 'r mut Rt" sigsub1="where RT :: Blockstore : Clone=>"
    requires old(rt).msg.origin.proto == 0,
    ensures
        r.is_ok() ==> *final(r->Ok_0.rt) == *final(rt),
        r.is_ok() ==> *r->Ok_0.rt == *old(rt) && r->Ok_0.current_transient_data_lifespan == msg_life(old(rt)) && coh(&r->Ok_0)
          && cbor_decode::<State>(old(rt).state_root).is_some() && ({
            let st = cbor_decode::<State>(old(rt).state_root)->Some_0;
            let s = &r->Ok_0;
            if dead_in(&st, old(rt).msg.origin.id, old(rt).msg.nonce) {
                // "a self-destructed contract ... is empty afterwards": tombstone of an EARLIER top-level message => empty, read-only
                is_fresh(s) && s.readonly
            } else {
                // never self-destructed, or self-destructed in THIS top-level message ("keeps working until the top-level message ends"): the real state
                s.slots.view() =~= kamt_decode::<U256, U256>(st.contract_state) && s.nonce == st.nonce
                && s.bytecode.is_some() && s.bytecode->Some_0.cid == st.bytecode && s.bytecode->Some_0.evm_hash == st.bytecode_hash
                && s.tombstone == st.tombstone && s.readonly == old(rt).read_only && s.saved_state_root == Some(old(rt).state_root)
                // "transient storage is shared within one top-level message and empty in the next"
                && s.transient_slots.view() =~= transient_for(&st, msg_life(old(rt)))
            }
        }),
//@ end

// ======================= transient writes (contract of units/C19/evm_system.vx.rs) =======================
//@ fn actors/evm/src/interpreter/system.rs System::set_transient_storage impl="impl<'r> System<'r>" r10rmap
    ensures
        r.is_ok() ==> final(self).transient_slots.view() == (if value@ == 0 { old(self).transient_slots.view().remove(key) } else { old(self).transient_slots.view().insert(key, value) }),
        r.is_ok() ==> final(self).saved_state_root == (if (value@ == 0 && old(self).transient_slots.view().dom().contains(key))
                || (value@ != 0 && !(old(self).transient_slots.view().dom().contains(key) && old(self).transient_slots.view()[key]@ == value@)) { None::<Cid> } else { old(self).saved_state_root }),
        final(self).slots == old(self).slots, final(self).nonce == old(self).nonce, final(self).tombstone == old(self).tombstone,
        final(self).bytecode == old(self).bytecode, final(self).readonly == old(self).readonly, *final(self).rt == *old(self).rt,
        final(self).current_transient_data_lifespan == old(self).current_transient_data_lifespan,
//@ end

// ======================= flush: the C19 contract of units/C19/evm_system.vx.rs, plus WHICH lifespan is written =======================
//@ fn actors/evm/src/interpreter/system.rs System::flush impl="impl<'r> System<'r>"
    requires coh(old(self)),
    ensures
        view_eq(view_of(final(self)), view_of(old(self))), final(self).readonly == old(self).readonly,
        final(self).current_transient_data_lifespan == old(self).current_transient_data_lifespan,
        old(self).saved_state_root.is_some() ==> r.is_ok() && *final(self).rt == *old(self).rt && final(self).saved_state_root == old(self).saved_state_root,
        old(self).saved_state_root.is_none() && old(self).readonly ==> r.is_err() && final(self).rt.state_root == old(self).rt.state_root,
        r.is_ok() ==> final(self).saved_state_root.is_some() && coh(final(self))
            && persisted_is(final(self).rt.state_root, final(self).current_transient_data_lifespan, view_of(old(self))),
        r.is_err() ==> final(self).rt.state_root == old(self).rt.state_root,
        final(self).rt.sends == old(self).rt.sends, final(self).rt.balance == old(self).rt.balance, final(self).rt.read_only == old(self).rt.read_only,
        final(self).rt.in_tx == old(self).rt.in_tx, rt_frame(old(self).rt, final(self).rt),
        // transient-storage lifetime: a dirty flush stamps the transient slots with the CURRENT lifespan (and stores none when there are none)
        r.is_ok() && old(self).saved_state_root.is_none() ==> cbor_decode::<State>(final(self).rt.state_root).is_some()
            && stamped(&cbor_decode::<State>(final(self).rt.state_root)->Some_0, old(self).current_transient_data_lifespan, old(self).transient_slots.view()),
//@ end

/// persisted state `st` carries exactly the transient slots `tr`, stamped with lifespan `life` (nothing at all when `tr` is empty)
pub open spec fn stamped(st: &State, life: TransientDataLifespan, tr: Map<U256, U256>) -> bool {
    if tr.dom() =~= Set::<U256>::empty() { st.transient_data.is_none() }
    else { st.transient_data.is_some() && st.transient_data->Some_0.transient_data_lifespan == life
        && kamt_decode::<U256, U256>(st.transient_data->Some_0.transient_data_state) =~= tr }
}

// ======================= SELFDESTRUCT (whole body) =======================
pub struct VxOpaque { pub h: u64 }
//@ item actors/evm/src/interpreter/output.rs Outcome attr="#[derive(Clone, Copy, PartialEq, Eq, Structural)]"
//@ item actors/evm/src/interpreter/output.rs Output
//@ include prelude/evm_lifecycle_assumed.rs
//@ item actors/evm/src/interpreter/execution.rs ExecutionState
//@ fn actors/evm/src/interpreter/execution.rs ExecutionState::new
    ensures r.caller == caller, r.receiver == receiver, r.value_received@ == value_received@, r.input_data == input_data,
//@ end
//@ const actors/evm/src/lib.rs EVM_CONTRACT_SELFDESTRUCT_FAILED
pub open spec fn sys_same(a: &System, b: &System) -> bool {
    view_eq(view_of(a), view_of(b)) && a.saved_state_root == b.saved_state_root && a.readonly == b.readonly && *a.rt == *b.rt
        && a.bytecode == b.bytecode && a.current_transient_data_lifespan == b.current_transient_data_lifespan
}
/// the Filecoin address SELFDESTRUCT pays: the low 20 bytes of the stack word as an Ethereum address, mapped to f0 / f410
pub open spec fn beneficiary_addr(w: U256) -> Address { fil_of_eth(eth_of_word(w)) }

//@ fn actors/evm/src/interpreter/instructions/lifecycle.rs selfdestruct sigsub0="System < impl Runtime >=>System" sub0="use crate :: interpreter :: output :: Outcome ;=>"
    requires !old(system).rt.in_tx@, old(system).rt.msg.origin.proto == 0,
    ensures
        *final(_state) == *old(_state),
        final(system).readonly == old(system).readonly, final(system).bytecode == old(system).bytecode,
        final(system).current_transient_data_lifespan == old(system).current_transient_data_lifespan,
        rt_frame(old(system).rt, final(system).rt),
        // static context: refused before anything happens (C18)
        old(system).readonly ==> r.is_err() && r->Err_0.code == 25 && sys_same(old(system), final(system)),
        // otherwise exactly ONE message leaves: a bare value transfer of the WHOLE balance to the beneficiary
        !old(system).readonly ==> rt_pushed(old(system).rt, final(system).rt) && ({
            let m = final(system).rt.sends@.last();
            m.to == beneficiary_addr(beneficiary) && m.method == METHOD_SEND && m.params.is_none() && !m.read_only
                && m.value == old(system).rt.balance@ && r.is_ok() == m.ok
        }),
        // transfer succeeded: marked self-destructed in THIS top-level message, cache dirty (so the exit flush persists the tombstone),
        // storage / transient storage / nonce / code untouched ("keeps working until the top-level message ends"), normal stop with empty output
        r.is_ok() ==> final(system).tombstone == Some(msg_tomb(old(system).rt)) && final(system).saved_state_root.is_none()
            && final(system).slots == old(system).slots && final(system).transient_slots == old(system).transient_slots && final(system).nonce == old(system).nonce
            && r->Ok_0.outcome == Outcome::Return && r->Ok_0.return_data@.len() == 0 && r->Ok_0.pc == pc
            && final(system).rt.state_root == old(system).rt.state_root,
        // "its balance moved to the beneficiary": nothing is left in the contract — stated for a beneficiary that is NOT the contract itself
        // (for beneficiary == self the transfer comes back: the balance stays in the dead contract — prelude/rt.rs `rt_is_self`)
        r.is_ok() && !rt_is_self(*old(system).rt, beneficiary_addr(beneficiary)) ==> final(system).rt.balance@ == 0,
        r.is_ok() && rt_is_self(*old(system).rt, beneficiary_addr(beneficiary)) ==> final(system).rt.balance@ == old(system).rt.balance@,
        // transfer failed: the instruction fails (the whole activation aborts) and the contract is NOT marked; nothing moved
        r.is_err() ==> view_eq(view_of(final(system)), view_of(old(system))) && final(system).saved_state_root == old(system).saved_state_root
            && final(system).rt.balance == old(system).rt.balance && final(system).rt.state_root == old(system).rt.state_root,
//@ end

// ======================= what others see of a dead contract: no code, the empty code hash =======================
//@ item actors/evm/src/types.rs BytecodeReturn
//@ fn actors/evm/src/lib.rs EvmContractActor::bytecode free
    requires old(rt).msg.origin.proto == 0,
    ensures
        r.is_ok() ==> r->Ok_0.0.code == (if dead_in(&rt_state::<State>(old(rt).state_id@), old(rt).msg.origin.id, old(rt).msg.nonce) { None::<Cid> }
            else { Some(rt_state::<State>(old(rt).state_id@).bytecode) }),
        final(rt).state_id == old(rt).state_id, final(rt).state_root == old(rt).state_root, final(rt).sends == old(rt).sends, final(rt).balance == old(rt).balance,
//@ end
//@ fn actors/evm/src/lib.rs EvmContractActor::bytecode_hash free
    requires old(rt).msg.origin.proto == 0,
    ensures
        r.is_ok() ==> r->Ok_0 == (if dead_in(&rt_state::<State>(old(rt).state_id@), old(rt).msg.origin.id, old(rt).msg.nonce) { BytecodeHash::EMPTY }
            else { rt_state::<State>(old(rt).state_id@).bytecode_hash }),
        final(rt).state_id == old(rt).state_id, final(rt).state_root == old(rt).state_root, final(rt).sends == old(rt).sends, final(rt).balance == old(rt).balance,
//@ end

//@ item actors/evm/src/types.rs GetStorageAtParams
//@ item actors/evm/src/types.rs GetStorageAtReturn
//@ fn actors/evm/src/interpreter/system.rs System::get_storage impl="impl<'r> System<'r>"
    ensures
        r.is_ok() ==> r->Ok_0@ == (if old(self).slots.view().dom().contains(key) { old(self).slots.view()[key]@ } else { 0 }),
        final(self).slots == old(self).slots, *final(self).rt == *old(self).rt,
//@ end

//@ fn actors/evm/src/lib.rs EvmContractActor::storage_at free
    requires old(rt).msg.origin.proto == 0, old(rt).validated@.is_none(),
    ensures
        // off-chain only: the caller is the system actor f00
        r.is_ok() ==> old(rt).msg.caller == (Address { id: 0, proto: 0 }),
        r.is_ok() ==> cbor_decode::<State>(old(rt).state_root).is_some() && ({
            let st = cbor_decode::<State>(old(rt).state_root)->Some_0;
            let sl = kamt_decode::<U256, U256>(st.contract_state);
            // "is empty afterwards": every slot of a dead contract reads 0; otherwise the stored value (0 when absent)
            r->Ok_0.storage@ == (if dead_in(&st, old(rt).msg.origin.id, old(rt).msg.nonce) || !sl.dom().contains(params.storage_key) { 0 } else { sl[params.storage_key]@ })
        }),
//@ end

// ======================= DELEGATECALL: whose storage, value and sender the foreign code runs against =======================
//@ const actors/evm/src/lib.rs EVM_CONTRACT_REVERTED
//@ item actors/evm/src/types.rs DelegateCallParams
//@ item actors/evm/src/types.rs DelegateCallReturn
//@ item actors/evm/src/types.rs InvokeContractParams
//@ item actors/evm/src/types.rs InvokeContractReturn

//@ fn actors/evm/src/lib.rs invoke_contract_inner sigsub0="System < Rt >=>System" sub0="IpldBlock :: serialize_cbor (& BytesSer (& output . return_data)) . unwrap ()=>vx_ser_bytes(&output.return_data)"
    requires coh(old(system)), !old(system).rt.in_tx@, old(system).rt.msg.receiver.proto == 0,
    ensures
        final(system).readonly == old(system).readonly, rt_frame(old(system).rt, final(system).rt),
        // a contract without code returns immediately; nothing is touched
        bytecode_at(*bytecode_cid).is_none() && r.is_ok() ==> r->Ok_0@.len() == 0 && sys_same(old(system), final(system)),
        // otherwise the result is the RETURN of a run of exactly that code, for exactly that caller, value and input, with THIS contract as
        // receiver and against the storage of the System it was handed; and what the run wrote is persisted (flush) before returning
        bytecode_at(*bytecode_cid).is_some() && r.is_ok() ==>
            evm_run(bytecode_at(*bytecode_cid)->Some_0, *caller, eth_of_fil(old(system).rt.msg.receiver), value_received@, input_data@,
                old(system).slots.view(), old(system).transient_slots.view(), old(system).nonce, old(system).readonly, Outcome::Return, r->Ok_0@)
            && final(system).saved_state_root.is_some() && coh(final(system)),
//@ end

//@ fn actors/evm/src/interpreter/system.rs System::get_bytecode impl="impl<'r> System<'r>" r10map
    ensures r == (match self.bytecode { Some(b) => Some(b.cid), None => None::<Cid> }),
//@ end

/// what an activation in top-level message (o, n) sees of the contract persisted as `st` (the contract of System::load above)
pub open spec fn seen_slots(st: &State, o: ActorID, n: u64) -> Map<U256, U256> {
    if dead_in(st, o, n) { Map::empty() } else { kamt_decode::<U256, U256>(st.contract_state) }
}
pub open spec fn seen_transient(st: &State, o: ActorID, n: u64) -> Map<U256, U256> {
    if dead_in(st, o, n) { Map::empty() } else { transient_for(st, TransientDataLifespan { origin: o, nonce: n }) }
}
pub open spec fn seen_nonce(st: &State, o: ActorID, n: u64) -> u64 { if dead_in(st, o, n) { 1 } else { st.nonce } }

//@ fn actors/evm/src/lib.rs EvmContractActor::invoke_contract_delegate free
    requires
        old(rt).msg.origin.proto == 0, old(rt).msg.receiver.proto == 0, old(rt).validated@.is_none(), !old(rt).in_tx@,
    ensures
        // InvokeContractDelegate is how DELEGATECALL is implemented: only the contract ITSELF may make itself run foreign code
        r.is_ok() ==> old(rt).msg.caller == old(rt).msg.receiver,
        // "delegate-called code runs against the caller's storage, value and sender": the foreign code `params.code` runs with receiver = THIS
        // contract, against THIS contract's persisted storage / transient storage / nonce (the delegate-caller's: caller == receiver), and
        // with the sender (`params.caller`) and value (`params.value`) handed over by the DELEGATECALL site — not the message's own
        r.is_ok() && bytecode_at(params.0.code).is_some() ==> cbor_decode::<State>(old(rt).state_root).is_some() && ({
            let st = cbor_decode::<State>(old(rt).state_root)->Some_0;
            let (o, n) = (old(rt).msg.origin.id, old(rt).msg.nonce);
            evm_run(bytecode_at(params.0.code)->Some_0, params.0.caller, eth_of_fil(old(rt).msg.receiver), params.0.value@, params.0.input@,
                seen_slots(&st, o, n), seen_transient(&st, o, n), seen_nonce(&st, o, n), old(rt).read_only || dead_in(&st, o, n), Outcome::Return, r->Ok_0.return_data@)
        }),
//@ end

//@ fn actors/evm/src/lib.rs EvmContractActor::invoke_contract free
    requires
        old(rt).msg.origin.proto == 0, old(rt).msg.receiver.proto == 0, old(rt).msg.caller.proto == 0, old(rt).validated@.is_none(), !old(rt).in_tx@,
    ensures
        // an ordinary call runs the contract's OWN code for the message's caller and value, against its own storage;
        // a dead contract (self-destructed in an earlier top-level message) has no code and returns nothing
        r.is_ok() ==> cbor_decode::<State>(old(rt).state_root).is_some() && ({
            let st = cbor_decode::<State>(old(rt).state_root)->Some_0;
            let (o, n) = (old(rt).msg.origin.id, old(rt).msg.nonce);
            if dead_in(&st, o, n) { r->Ok_0.output_data@.len() == 0 }
            else if bytecode_at(st.bytecode).is_none() { r->Ok_0.output_data@.len() == 0 }
            else { evm_run(bytecode_at(st.bytecode)->Some_0, eth_of_fil(old(rt).msg.caller), eth_of_fil(old(rt).msg.receiver), old(rt).msg.value_received@, params.input_data@,
                seen_slots(&st, o, n), seen_transient(&st, o, n), seen_nonce(&st, o, n), old(rt).read_only, Outcome::Return, r->Ok_0.output_data@) }
        }),
//@ end

// ======================= the DELEGATECALL site (call.rs): what it hands to InvokeContractDelegate =======================
// reload / send_raw: contracts of units/C19/evm_system.vx.rs, re-verified here because System::send below is proved from them
//@ fn actors/evm/src/interpreter/system.rs System::reload impl="impl<'r> System<'r>"
    ensures
        *final(self).rt == *old(self).rt, final(self).readonly == old(self).readonly,
        final(self).current_transient_data_lifespan == old(self).current_transient_data_lifespan,
        old(self).readonly ==> r.is_ok(),
        (old(self).readonly || old(self).saved_state_root == Some(old(self).rt.state_root)) ==> view_eq(view_of(final(self)), view_of(old(self)))
            && final(self).saved_state_root == old(self).saved_state_root,
        r.is_ok() && !old(self).readonly && old(self).saved_state_root != Some(old(self).rt.state_root) ==>
            persisted_is(old(self).rt.state_root, old(self).current_transient_data_lifespan, view_of(final(self)))
            && final(self).saved_state_root == Some(old(self).rt.state_root),
//@ end
//@ fn actors/evm/src/interpreter/system.rs System::send_raw impl="impl<'r> System<'r>" ret=res r13
    requires coh(old(self)), !old(self).rt.in_tx@,
    ensures
        final(self).readonly == old(self).readonly,
        final(self).current_transient_data_lifespan == old(self).current_transient_data_lifespan,
        rt_frame(old(self).rt, final(self).rt),
        res.is_err() ==> final(self).rt.sends@.len() <= old(self).rt.sends@.len() + 1,
        res.is_ok() ==> final(self).rt.sends@.len() == old(self).rt.sends@.len() + 1 && ({
            let rec = final(self).rt.sends@.last();
            &&& persisted_is(rec.root, old(self).current_transient_data_lifespan, view_of(old(self)))
            &&& rec.to == *to && rec.method == method && rec.value == value@ && rec.params == params && rec.read_only == (send_flags.bits % 2 == 1)
            &&& (rec.ok && !old(self).readonly ==> persisted_is(final(self).rt.state_root, old(self).current_transient_data_lifespan, view_of(final(self))) && coh(final(self)))
            &&& (!rec.ok ==> final(self).rt.state_root == rec.root && view_eq(view_of(final(self)), view_of(old(self))) && coh(final(self)))
            &&& (res->Ok_0.is_ok() && res->Ok_0->Ok_0.exit_code.value == 0) == rec.ok
        }),
//@ end
//@ fn actors/evm/src/interpreter/system.rs System::send impl="impl<'r> System<'r>"
    requires coh(old(self)), !old(self).rt.in_tx@,
    ensures
        final(self).readonly == old(self).readonly, rt_frame(old(self).rt, final(self).rt),
        final(self).rt.sends@.len() <= old(self).rt.sends@.len() + 1,
        // Ok exactly when the message was sent and the callee exited 0
        r.is_ok() ==> final(self).rt.sends@.len() == old(self).rt.sends@.len() + 1 && ({
            let rec = final(self).rt.sends@.last();
            &&& rec.ok && rec.to == *to && rec.method == method && rec.value == value@ && rec.params == params && rec.read_only == (send_flags.bits % 2 == 1)
            // what the callee (possibly this very contract, re-entered) finds persisted is the caller's cache at the moment of the call
            &&& persisted_is(rec.root, old(self).current_transient_data_lifespan, view_of(old(self)))
        }),
//@ end

//@ item actors/evm/src/lib.rs Method attr="#[repr(u64)]" tsub0="frc42_dispatch :: method_hash !=>vx_method_hash !" tsub1="METHOD_CONSTRUCTOR=>1"
//@ fn actors/evm/src/interpreter/instructions/call.rs call_generic region="let params = DelegateCallParams=>system . send" as=delegatecall_site params="state: &ExecutionState, system: &mut System, code: Cid, input_data: &[u8], value: U256, gas: U256" retty="Result<Result<Option<IpldBlock>, Option<IpldBlock>>, ActorError>" sub0="system . send=>Ok(system.send" sub1="(| mut ae | ae . take_data ())=>(|mut ae| ae.take_data()))"
    requires coh(old(system)), !old(system).rt.in_tx@,
    ensures
        final(system).readonly == old(system).readonly, rt_frame(old(system).rt, final(system).rt),
        final(system).rt.sends@.len() <= old(system).rt.sends@.len() + 1,
        // the delegate call went through (inner Ok): exactly one message, to THIS contract itself, method InvokeContractDelegate (6), carrying
        // no FVM value of its own beyond `value` (0 for DELEGATECALL), whose parameters name the code to run and hand over the CURRENT frame's
        // sender and value ("delegate-called code runs against the caller's ... value and sender"); and the persisted state the re-entered
        // contract loads is the caller's cache as of the call ("... the caller's storage")
        r.is_ok() && r->Ok_0.is_ok() ==> final(system).rt.sends@.len() == old(system).rt.sends@.len() + 1 && ({
            let m = final(system).rt.sends@.last();
            &&& m.ok && m.to == old(system).rt.msg.receiver && m.method == 6 && m.value == value@ && !m.read_only
            &&& exists|p: DelegateCallParams| m.params == Some(IpldBlock { h: #[trigger] cbor_hash(p) }) && p.code == code && p.caller == state.caller && p.value@ == state.value_received@
            &&& persisted_is(m.root, old(system).current_transient_data_lifespan, view_of(old(system)))
        }),
//@ end

// ======================= Constructor / Resurrect: a new life starts from nothing =======================
//@ item actors/evm/src/types.rs ConstructorParams
//@ item actors/evm/src/types.rs ResurrectParams
//@ fn actors/evm/src/lib.rs initialize_evm_contract sigsub0="System < impl Runtime >=>System" sub0="IpldBlock :: serialize_cbor (& BytesSer (& output . return_data)) . unwrap ()=>vx_ser_bytes(&output.return_data)"
    requires coh(old(system)), !old(system).rt.in_tx@, old(system).rt.msg.receiver.proto == 0,
    ensures
        final(system).readonly == old(system).readonly, rt_frame(old(system).rt, final(system).rt),
        // "an EVM actor may only be constructed by the EAM": the receiver must have a real (non masked-ID) Ethereum address
        r.is_ok() ==> eth_as_id(eth_of_fil(old(system).rt.msg.receiver)).is_none(),
        // success: the contract is persisted (its root decodes to the final cache)
        r.is_ok() ==> final(system).saved_state_root.is_some() && coh(final(system)),
        // no initcode: exactly the System it was handed is persisted
        r.is_ok() && initcode@.len() == 0 ==> persisted_is(final(system).rt.state_root, old(system).current_transient_data_lifespan, view_of(old(system))),
        // with initcode: the constructor ran for `caller` and the message's value, with empty input, against the System it was handed
        r.is_ok() && initcode@.len() != 0 ==> exists|code: Seq<u8>| evm_run(bytecode_of(initcode@), caller, eth_of_fil(old(system).rt.msg.receiver),
            old(system).rt.msg.value_received@, Seq::<u8>::empty(), old(system).slots.view(), old(system).transient_slots.view(), old(system).nonce, old(system).readonly,
            Outcome::Return, code),
//@ end

//@ fn actors/evm/src/lib.rs EvmContractActor::constructor free
    requires old(rt).msg.origin.proto == 0, old(rt).msg.receiver.proto == 0, old(rt).validated@.is_none(), !old(rt).in_tx@,
    ensures
        // only the init actor constructs, only over an actor without state, and the constructor starts from an EMPTY contract
        r.is_ok() ==> old(rt).msg.caller == INIT_ACTOR_ADDR && old(rt).state_root == EMPTY_ARR_CID,
        r.is_ok() && raw_bytes_of(params.initcode).len() != 0 ==> exists|code: Seq<u8>| evm_run(bytecode_of(raw_bytes_of(params.initcode)), params.creator, eth_of_fil(old(rt).msg.receiver),
            old(rt).msg.value_received@, Seq::<u8>::empty(), Map::<U256, U256>::empty(), Map::<U256, U256>::empty(), 1, old(rt).read_only, Outcome::Return, code),
//@ end
//@ fn actors/evm/src/lib.rs EvmContractActor::resurrect free
    requires old(rt).msg.origin.proto == 0, old(rt).msg.receiver.proto == 0, old(rt).validated@.is_none(), !old(rt).in_tx@,
    ensures
        // only the EAM resurrects, and only a contract that self-destructed in an EARLIER top-level message
        r.is_ok() ==> old(rt).msg.caller == EAM_ACTOR_ADDR && cbor_decode::<State>(old(rt).state_root).is_some()
            && dead_in(&cbor_decode::<State>(old(rt).state_root)->Some_0, old(rt).msg.origin.id, old(rt).msg.nonce),
        // alive (no tombstone, or self-destructed in THIS top-level message): refused
        cbor_decode::<State>(old(rt).state_root).is_some()
            && !dead_in(&cbor_decode::<State>(old(rt).state_root)->Some_0, old(rt).msg.origin.id, old(rt).msg.nonce) ==> r.is_err(),
        // "is empty afterwards": the new life's constructor sees NOTHING of the old one — empty storage, empty transient storage, nonce 1
        r.is_ok() && raw_bytes_of(params.initcode).len() != 0 ==> exists|code: Seq<u8>| evm_run(bytecode_of(raw_bytes_of(params.initcode)), params.creator, eth_of_fil(old(rt).msg.receiver),
            old(rt).msg.value_received@, Seq::<u8>::empty(), Map::<U256, U256>::empty(), Map::<U256, U256>::empty(), 1, old(rt).read_only, Outcome::Return, code),
//@ end

// ======================= the two lifetime clauses, end to end (compositions of the contracts above; no repository code) =======================
/// what `flush` stamps is what `load` compares: within the SAME top-level message the transient slots come back; in ANY other they are gone
pub proof fn lemma_transient_lifetime(st: State, life: TransientDataLifespan, tr: Map<U256, U256>, other: TransientDataLifespan)
    requires stamped(&st, life, tr),
    ensures
        transient_for(&st, life) =~= tr,
        (other.origin != life.origin || other.nonce != life.nonce) ==> transient_for(&st, other) =~= Map::<U256, U256>::empty(),
{}
/// a tombstone written in top-level message (o, n): alive in (o, n), dead in every other; no tombstone: never dead
pub proof fn lemma_tombstone_lifetime(st: State, o: ActorID, n: u64, o2: ActorID, n2: u64)
    ensures
        st.tombstone == Some(Tombstone { origin: o, nonce: n }) ==> !dead_in(&st, o, n),
        st.tombstone == Some(Tombstone { origin: o, nonce: n }) && (o2 != o || n2 != n) ==> dead_in(&st, o2, n2),
        st.tombstone.is_none() ==> !dead_in(&st, o2, n2),
{}

/// SCENARIO A — "transient storage is shared within one top-level message and empty in the next". An activation writes transient slot
/// `k := v` (v != 0) and flushes (as it does before any nested call and at exit). `same` is any later activation of the contract in the
/// same top-level message, `next` one in a different top-level message; both start from the root the first one left.
fn scenario_transient(rt: &mut Rt, same: &mut Rt, next: &mut Rt, k: U256, v: U256) -> (r: Result<(), ActorError>)
    requires
        old(rt).msg.origin.proto == 0, v@ != 0,
        old(same).msg.origin == old(rt).msg.origin && old(same).msg.nonce == old(rt).msg.nonce,
        old(next).msg.origin.proto == 0 && (old(next).msg.origin.id != old(rt).msg.origin.id || old(next).msg.nonce != old(rt).msg.nonce),
{
    let root = {
        let mut s = System::load(rt)?;
        if s.readonly { return Ok(()); }
        s.set_transient_storage(k, v)?;
        if s.saved_state_root.is_some() { return Ok(()); }     // the slot already held v: nothing was written
        s.flush()?;
        s.rt.state_root
    };
    if same.state_root == root {
        let s2 = System::load(same)?;
        assert(s2.transient_slots.view().dom().contains(k) && s2.transient_slots.view()[k] == v);     // shared within the message
    }
    if next.state_root == root {
        let s3 = System::load(next)?;
        assert(s3.transient_slots.view() =~= Map::<U256, U256>::empty());                              // empty in the next
    }
    Ok(())
}

/// SCENARIO B — "a self-destructed contract keeps working until the top-level message ends and is empty afterwards". A live contract
/// executes SELFDESTRUCT and exits normally (flush). A later activation in the same top-level message still loads the real storage, nonce and
/// code; an activation in another top-level message gets an empty read-only contract (no code, no storage, nonce 1).
fn scenario_selfdestruct(rt: &mut Rt, same: &mut Rt, next: &mut Rt, es: &mut ExecutionState, w: U256) -> (r: Result<(), ActorError>)
    requires
        old(rt).msg.origin.proto == 0, !old(rt).in_tx@,
        old(same).msg.origin == old(rt).msg.origin && old(same).msg.nonce == old(rt).msg.nonce,
        old(next).msg.origin.proto == 0 && (old(next).msg.origin.id != old(rt).msg.origin.id || old(next).msg.nonce != old(rt).msg.nonce),
{
    let ghost slots0;
    let ghost nonce0;
    let ghost code0;
    let root = {
        let mut s = System::load(rt)?;
        if s.readonly { return Ok(()); }
        proof { slots0 = s.slots.view(); nonce0 = s.nonce; code0 = s.bytecode; }
        let out = selfdestruct(es, &mut s, 0, w)?;
        s.flush()?;
        s.rt.state_root
    };
    if same.state_root == root {
        let ghost ro = same.read_only;
        let s2 = System::load(same)?;
        assert(s2.slots.view() =~= slots0 && s2.nonce == nonce0 && s2.bytecode.is_some() && s2.tombstone.is_some() && s2.readonly == ro);   // keeps working
    }
    if next.state_root == root {
        let s3 = System::load(next)?;
        assert(is_fresh(&s3) && s3.readonly);                                                                          // empty afterwards
    }
    Ok(())
}

} // verus!
fn main() {}
