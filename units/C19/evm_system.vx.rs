// unit: EVM `System` — the state cache protocol that makes nested and re-entrant calls coherent (C19; read-only guards for C18)
//@ include prelude/core.rs
//@ include prelude/ipld.rs
//@ include prelude/rt.rs
//@ include prelude/cbor.rs
//@ include prelude/u256.rs
//@ include prelude/kamt.rs
verus! {

pub type ErrorNumber = u32;
//@ item actors/evm/src/state.rs Tombstone attr="#[derive(Clone, Copy, PartialEq, Eq, Structural)]"
//@ item actors/evm/src/state.rs TransientDataLifespan attr="#[derive(Clone, Copy, PartialEq, Eq, Structural)]"
//@ item actors/evm/src/state.rs TransientData attr="#[derive(Clone, Copy, PartialEq, Eq, Structural)]"
//@ item actors/evm/src/state.rs State
//@ item actors/evm/src/interpreter/system.rs EvmBytecode attr="#[derive(Clone, Copy)]"
//@ item actors/evm/src/interpreter/system.rs StateKamt
//@ item actors/evm/src/interpreter/system.rs System tsub0="< 'r , RT : Runtime >=>< 'r >" tsub1="& 'r RT=>& 'r mut Rt" tsub2="RT :: Blockstore=>&'static Store"
impl CborVal for State { type Base = State; open spec fn base(&self) -> State { *self } }

//@ include prelude/evm_system_assumed.rs
//@ fn actors/evm/src/interpreter/system.rs EvmBytecode::new
    ensures r.cid == cid, r.evm_hash == evm_hash,
//@ end

// ======================= the abstract view of a contract's state =======================
pub struct SysView {
    pub slots: Map<U256, U256>,
    pub transient: Map<U256, U256>,
    pub nonce: u64,
    pub tombstone: Option<Tombstone>,
}
pub open spec fn view_of(s: &System) -> SysView {
    SysView { slots: s.slots.view(), transient: s.transient_slots.view(), nonce: s.nonce, tombstone: s.tombstone }
}
/// what a (fresh) activation of this contract in the same top-level message would load from state root `c`
pub open spec fn persisted(c: Cid, lifespan: TransientDataLifespan) -> Option<SysView> {
    match cbor_decode::<State>(c) {
        None => None,
        Some(st) => Some(SysView {
            slots: kamt_decode::<U256, U256>(st.contract_state),
            transient: match st.transient_data {
                Some(td) => if td.transient_data_lifespan == lifespan { kamt_decode::<U256, U256>(td.transient_data_state) } else { Map::empty() },
                None => Map::empty(),
            },
            nonce: st.nonce,
            tombstone: st.tombstone,
        }),
    }
}
/// `persisted(c, l)` is exactly the view v (extensional on the two maps)
pub open spec fn persisted_is(c: Cid, l: TransientDataLifespan, v: SysView) -> bool {
    persisted(c, l).is_some() && ({
        let p = persisted(c, l)->Some_0;
        p.slots =~= v.slots && p.transient =~= v.transient && p.nonce == v.nonce && p.tombstone == v.tombstone
    })
}
pub open spec fn view_eq(a: SysView, b: SysView) -> bool {
    a.slots =~= b.slots && a.transient =~= b.transient && a.nonce == b.nonce && a.tombstone == b.tombstone
}
/// cache coherence: a "clean" cache (saved_state_root = Some(r)) is exactly what is persisted at r, and r is the actor's current root
pub open spec fn coh(s: &System) -> bool {
    s.saved_state_root.is_some() ==> s.saved_state_root->Some_0 == s.rt.state_root
        && persisted_is(s.rt.state_root, s.current_transient_data_lifespan, view_of(s))
}

// ======================= writes mark the cache dirty =======================
//@ fn actors/evm/src/interpreter/system.rs System::set_storage impl="impl<'r> System<'r>" r10rmap
    ensures
        r.is_ok() ==> final(self).slots.view() == (if value@ == 0 { old(self).slots.view().remove(key) } else { old(self).slots.view().insert(key, value) }),
        // dirty exactly when the stored map changed
        r.is_ok() ==> final(self).saved_state_root == (if (value@ == 0 && old(self).slots.view().dom().contains(key))
                || (value@ != 0 && !(old(self).slots.view().dom().contains(key) && old(self).slots.view()[key]@ == value@)) { None::<Cid> } else { old(self).saved_state_root }),
        final(self).transient_slots == old(self).transient_slots, final(self).nonce == old(self).nonce, final(self).tombstone == old(self).tombstone,
        final(self).bytecode == old(self).bytecode, final(self).readonly == old(self).readonly, *final(self).rt == *old(self).rt,
        final(self).current_transient_data_lifespan == old(self).current_transient_data_lifespan,
        r.is_err() ==> final(self).slots.view() == old(self).slots.view() && final(self).saved_state_root == old(self).saved_state_root,
//@ end
//@ fn actors/evm/src/interpreter/system.rs System::set_transient_storage impl="impl<'r> System<'r>" r10rmap
    ensures
        r.is_ok() ==> final(self).transient_slots.view() == (if value@ == 0 { old(self).transient_slots.view().remove(key) } else { old(self).transient_slots.view().insert(key, value) }),
        r.is_ok() ==> final(self).saved_state_root == (if (value@ == 0 && old(self).transient_slots.view().dom().contains(key))
                || (value@ != 0 && !(old(self).transient_slots.view().dom().contains(key) && old(self).transient_slots.view()[key]@ == value@)) { None::<Cid> } else { old(self).saved_state_root }),
        final(self).slots == old(self).slots, final(self).nonce == old(self).nonce, final(self).tombstone == old(self).tombstone,
        final(self).bytecode == old(self).bytecode, final(self).readonly == old(self).readonly, *final(self).rt == *old(self).rt,
        final(self).current_transient_data_lifespan == old(self).current_transient_data_lifespan,
//@ end
//@ fn actors/evm/src/interpreter/system.rs System::increment_nonce impl="impl<'r> System<'r>"
    requires old(self).nonce < u64::MAX,
    ensures
        final(self).nonce == old(self).nonce + 1,       // deployer nonces only grow
        final(self).saved_state_root.is_none(),
        final(self).slots == old(self).slots, final(self).transient_slots == old(self).transient_slots, final(self).tombstone == old(self).tombstone,
        final(self).bytecode == old(self).bytecode, final(self).readonly == old(self).readonly, *final(self).rt == *old(self).rt,
        final(self).current_transient_data_lifespan == old(self).current_transient_data_lifespan,
//@ end

// ======================= flush: persist iff dirty; never in read-only mode =======================
//@ fn actors/evm/src/interpreter/system.rs System::flush impl="impl<'r> System<'r>"
    requires coh(old(self)),
    ensures
        view_eq(view_of(final(self)), view_of(old(self))), final(self).readonly == old(self).readonly,
        final(self).current_transient_data_lifespan == old(self).current_transient_data_lifespan,
        // clean cache: nothing to do
        old(self).saved_state_root.is_some() ==> r.is_ok() && *final(self).rt == *old(self).rt && final(self).saved_state_root == old(self).saved_state_root,
        // "in a static context no storage ... write takes effect": a dirty read-only activation cannot persist anything
        old(self).saved_state_root.is_none() && old(self).readonly ==> r.is_err() && final(self).rt.state_root == old(self).rt.state_root,
        // success: the actor's root now decodes to exactly the cached view, and the cache is clean
        r.is_ok() ==> final(self).saved_state_root.is_some() && coh(final(self))
            && persisted_is(final(self).rt.state_root, final(self).current_transient_data_lifespan, view_of(old(self))),
        r.is_err() ==> final(self).rt.state_root == old(self).rt.state_root,
        final(self).rt.sends == old(self).rt.sends, final(self).rt.balance == old(self).rt.balance, final(self).rt.read_only == old(self).rt.read_only,
        final(self).rt.in_tx == old(self).rt.in_tx,
//@ end

// ======================= reload: adopt what a re-entrant activation persisted =======================
//@ fn actors/evm/src/interpreter/system.rs System::reload impl="impl<'r> System<'r>"
    ensures
        *final(self).rt == *old(self).rt, final(self).readonly == old(self).readonly,
        final(self).current_transient_data_lifespan == old(self).current_transient_data_lifespan,
        // no-op in read-only mode or when nobody changed the root
        old(self).readonly ==> r.is_ok(),
        (old(self).readonly || old(self).saved_state_root == Some(old(self).rt.state_root)) ==> view_eq(view_of(final(self)), view_of(old(self)))
            && final(self).saved_state_root == old(self).saved_state_root,
        // otherwise the cache becomes exactly the persisted state ("writes made by the inner activation are visible to the outer one")
        r.is_ok() && !old(self).readonly && old(self).saved_state_root != Some(old(self).rt.state_root) ==>
            persisted_is(old(self).rt.state_root, old(self).current_transient_data_lifespan, view_of(final(self)))
            && final(self).saved_state_root == Some(old(self).rt.state_root),
//@ end

// ======================= send_raw: flush BEFORE the send, reload AFTER success and only then =======================
//@ fn actors/evm/src/interpreter/system.rs System::send_raw impl="impl<'r> System<'r>" ret=res r13
    requires coh(old(self)), !old(self).rt.in_tx@,
    ensures
        final(self).readonly == old(self).readonly,
        final(self).current_transient_data_lifespan == old(self).current_transient_data_lifespan,
        // outer Err: nothing was sent
        res.is_err() ==> final(self).rt.sends@.len() <= old(self).rt.sends@.len() + 1,
        res.is_ok() ==> final(self).rt.sends@.len() == old(self).rt.sends@.len() + 1 && ({
            let rec = final(self).rt.sends@.last();
            // "the outer activation's earlier writes are visible to the inner one": at the moment of the send the persisted root decodes to the outer cache
            &&& persisted_is(rec.root, old(self).current_transient_data_lifespan, view_of(old(self)))
            &&& rec.to == *to && rec.method == method && rec.value == value@
            // "writes made by the inner activation are visible to the outer one after the call returns" (success, not read-only)
            &&& (rec.ok && !old(self).readonly ==> persisted_is(final(self).rt.state_root, old(self).current_transient_data_lifespan, view_of(final(self))) && coh(final(self)))
            // "a call that reverts or fails leaves no trace": root and cache are as before the call
            &&& (!rec.ok ==> final(self).rt.state_root == rec.root && view_eq(view_of(final(self)), view_of(old(self))) && coh(final(self)))
        }),
//@ end

//@ fn actors/evm/src/interpreter/system.rs System::transfer impl="impl<'r> System<'r>"
    requires !old(self).rt.in_tx@,
    ensures
        // a bare value transfer runs no code: cache and root untouched
        view_eq(view_of(final(self)), view_of(old(self))), final(self).saved_state_root == old(self).saved_state_root,
        final(self).rt.state_root == old(self).rt.state_root,
        final(self).rt.sends@.len() == old(self).rt.sends@.len() + 1 && final(self).rt.sends@.last().method == METHOD_SEND
            && final(self).rt.sends@.last().to == *to && final(self).rt.sends@.last().value == value@,
        r.is_ok() == final(self).rt.sends@.last().ok,
//@ end

// ======================= C18: "in a static (read-only) call context no storage or transient-storage write, log, value transfer,
// contract creation or self-destruct takes effect": every such instruction returns USR_READ_ONLY before touching anything.
// For log / create / create2 / selfdestruct / call_generic only the statements up to the read-only guard are extracted (prefix
// extraction); the remainder of each body is an unconstrained stub, so the guard is proved for ANY continuation.
/// interpreter ExecutionState (stack, memory, return data, ...): opaque here, only its frame matters
pub struct VxOpaque { pub h: u64 }
pub struct ExecutionState { pub stack: VxOpaque, pub memory: VxOpaque, pub return_data: VxOpaque, pub other: VxOpaque }
pub struct Output { pub h: VxOpaque }
#[derive(Clone, Copy, PartialEq, Eq, Structural)]
pub enum CallKind { Call, DelegateCall, StaticCall }
/// everything observable of a System value
pub open spec fn sys_same(a: &System, b: &System) -> bool {
    view_eq(view_of(a), view_of(b)) && a.saved_state_root == b.saved_state_root && a.readonly == b.readonly && *a.rt == *b.rt
        && a.bytecode == b.bytecode && a.current_transient_data_lifespan == b.current_transient_data_lifespan
}
//@ fn actors/evm/src/interpreter/instructions/storage.rs sstore sigsub0="System < impl Runtime >=>System"
    ensures
        old(system).readonly ==> r.is_err() && r->Err_0.code == 25 && sys_same(old(system), final(system)),
//@ end
//@ fn actors/evm/src/interpreter/instructions/storage.rs tstore sigsub0="System < impl Runtime >=>System"
    ensures
        old(system).readonly ==> r.is_err() && r->Err_0.code == 25 && sys_same(old(system), final(system)),
//@ end
//@ fn actors/evm/src/interpreter/instructions/log_event.rs log sigsub0="System < impl Runtime >=>System" prefix="system . readonly"
    ensures
        system.readonly ==> r.is_err() && r->Err_0.code == 25 && *final(state) == *old(state),
//@ end
//@ fn actors/evm/src/interpreter/instructions/lifecycle.rs create sigsub0="System < impl Runtime >=>System" prefix="system . readonly"
    ensures
        old(system).readonly ==> r.is_err() && r->Err_0.code == 25 && sys_same(old(system), final(system)) && *final(state) == *old(state),
//@ end
//@ fn actors/evm/src/interpreter/instructions/lifecycle.rs create2 sigsub0="System < impl Runtime >=>System" prefix="system . readonly"
    ensures
        old(system).readonly ==> r.is_err() && r->Err_0.code == 25 && sys_same(old(system), final(system)) && *final(state) == *old(state),
//@ end
//@ fn actors/evm/src/interpreter/instructions/lifecycle.rs selfdestruct sigsub0="System < impl Runtime >=>System" prefix="system . readonly" sub0="use crate :: interpreter :: output :: Outcome ;=>"
    ensures
        old(system).readonly ==> r.is_err() && r->Err_0.code == 25 && sys_same(old(system), final(system)),
//@ end

//@ fn actors/evm/src/interpreter/instructions/call.rs call_generic sigsub0="System < Rt >=>System" prefix="system . readonly && value"
    ensures
        // "no ... value transfer ... takes effect": a call carrying value from a static context is refused before anything happens
        old(system).readonly && params.2@ > 0 ==> r.is_err() && r->Err_0.code == 25 && sys_same(old(system), final(system)) && *final(state) == *old(state),
//@ end

} // verus!
fn main() {}
