// unit: the production runtime's caller validation and transaction guards (C11) — runtime/src/runtime/fvm.rs
// The test suite runs on MockRuntime / test_vm, never on FvmRuntime: nothing in this file is exercised by a test.
//@ include prelude/core.rs
//@ include prelude/ipld.rs
//@ include prelude/rt.rs
//@ include prelude/policy.rs
//@ include prelude/iter_any.rs
verus! {
//@ item runtime/src/runtime/fvm.rs FvmRuntime tsub0="< B = ActorBlockstore >=><B>"
//@ include prelude/fvm_runtime_assumed.rs

//@ fn runtime/src/runtime/fvm.rs FvmRuntime::assert_not_validated
    ensures r.is_ok() <==> !self.caller_validated.v,
//@ end
//@ fn runtime/src/runtime/fvm.rs FvmRuntime::validate_immediate_caller_accept_any selfmut inherent impl="impl<B> FvmRuntime<B>"
    ensures
        // a method may validate its caller exactly once: a second validation fails and changes nothing
        r.is_ok() <==> !old(self).caller_validated.v,
        r.is_ok() ==> final(self).caller_validated.v,
        r.is_err() ==> final(self).caller_validated.v == old(self).caller_validated.v,
        final(self).in_transaction == old(self).in_transaction,
//@ end
//@ fn runtime/src/runtime/fvm.rs FvmRuntime::validate_immediate_caller_is selfmut inherent impl="impl<B> FvmRuntime<B>" sigsub0="< 'a , I >=>" sigsub1="addresses : I=>addresses : &Vec<Address>" sigsub2="where I : IntoIterator < Item = & 'a Address >=>" sub0="self . message () . caller ()=>fvm_msg_caller()" r23
    ensures
        // Ok exactly when nobody validated before AND the immediate caller is one of the given addresses; only then is the flag set
        r.is_ok() <==> (!old(self).caller_validated.v && addresses@.contains(fvm_caller_spec())),
        r.is_ok() ==> final(self).caller_validated.v,
        r.is_err() ==> final(self).caller_validated.v == old(self).caller_validated.v,
        final(self).in_transaction == old(self).in_transaction,
//@ end
//@ fn runtime/src/runtime/fvm.rs FvmRuntime::validate_immediate_caller_type selfmut inherent impl="impl<B> FvmRuntime<B>" r13 sigsub0="< 'a , I >=>" sigsub1="types : I=>types : &Vec<Type>" sigsub2="where I : IntoIterator < Item = & 'a Type >=>" sub0="self . message () . caller ()=>fvm_msg_caller()" r23
    requires fvm_code_of(fvm_caller_spec().id).is_some(),
    ensures
        r.is_ok() <==> (!old(self).caller_validated.v && fvm_type_of(fvm_code_of(fvm_caller_spec().id)->Some_0).is_some()
                        && types@.contains(fvm_type_of(fvm_code_of(fvm_caller_spec().id)->Some_0)->Some_0)),
        r.is_ok() ==> final(self).caller_validated.v,
        r.is_err() ==> final(self).caller_validated.v == old(self).caller_validated.v,
        final(self).in_transaction == old(self).in_transaction,
//@ end
//@ fn runtime/src/runtime/fvm.rs FvmRuntime::delete_actor inherent impl="impl<B> FvmRuntime<B>" sub0="fvm :: sself :: self_destruct (false)=>fvm_sself_self_destruct(false)"
    ensures
        // state-changing syscalls are refused while a state transaction is open
        self.in_transaction.v ==> r.is_err(),
//@ end
//@ fn runtime/src/runtime/fvm.rs FvmRuntime::create_actor inherent impl="impl<B> FvmRuntime<B>" sub0="fvm :: actor :: create_actor (actor_id , & code_id , predictable_address)=>fvm_actor_create_actor(actor_id, &code_id, predictable_address)"
    ensures
        self.in_transaction.v ==> r.is_err(),
//@ end
//@ fn runtime/src/runtime/fvm.rs FvmRuntime::send inherent impl="impl<B> FvmRuntime<B>" sub0="SendError (ErrorNumber :: IllegalOperation)=>vx_send_error_illegal_operation()" sub1="fvm :: send :: send (to , method , params , value , gas_limit , flags) . map_err (SendError)=>fvm_send_send(to, method, params, value, gas_limit, flags)"
    ensures
        // "During such [a state transaction], sending messages is prohibited": refused before the syscall
        self.in_transaction.v ==> r.is_err() && r->Err_0.0 == illegal_operation_spec(),
//@ end
} // verus!
fn main() {}
