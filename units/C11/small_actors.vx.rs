// unit: the small actors — account, ethaccount, system, cron constructor, reward (constructor / ThisEpochReward / UpdateNetworkKPI), datacap (every
// method), placeholder (C11: who may call, validated exactly once, and the method's essential effect)
//@ include prelude/core.rs
//@ include prelude/ipld.rs
//@ include prelude/rt.rs
//@ include prelude/singletons.rs
//@ include prelude/cbor.rs
//@ include prelude/small_actors_assumed.rs
verus! {

//@ const runtime/src/builtin/shared.rs FIRST_EXPORTED_METHOD_NUMBER

/// "validated its caller exactly once": the activation starts unvalidated and ends with exactly the designated set recorded. The ghost
/// runtime (like FvmRuntime, unit fvm_runtime) refuses a second validation, so `Some(s)` at the end means one successful validation, against `s`.
pub open spec fn validated_once(o: &Rt, f: &Rt, s: CallerSet) -> bool {
    o.validated@.is_none() && f.validated@ == Some(s)
}
pub open spec fn only_system() -> CallerSet { CallerSet::Addrs(set![SYSTEM_ACTOR_ADDR]) }
/// "is rejected and changes nothing": no message sent, no state committed or created, nothing deleted
pub open spec fn nothing_changed(o: &Rt, f: &Rt) -> bool {
    f.sends == o.sends && f.tx_log == o.tx_log && f.state_id == o.state_id && f.state_root == o.state_root && f.created == o.created
        && f.deleted == o.deleted && f.events == o.events && f.balance == o.balance
}

// =================================================== account ===================================================
pub mod account {
    use super::*;
    use SignatureType::{BLS, Secp256k1};
//@ item actors/account/src/state.rs State
//@ item actors/account/src/types.rs ConstructorParams
//@ item actors/account/src/types.rs PubkeyAddressReturn
//@ item actors/account/src/types.rs AuthenticateMessageParams
//@ item actors/account/src/types.rs AuthenticateMessageReturn

    pub open spec fn is_key_address(a: Address) -> bool { addr_protocol(a) == Protocol::Secp256k1 || addr_protocol(a) == Protocol::BLS }
    pub open spec fn sig_type_of(a: Address) -> SignatureType { if addr_protocol(a) == Protocol::Secp256k1 { SignatureType::Secp256k1 } else { SignatureType::BLS } }

//@ fn actors/account/src/lib.rs Actor::constructor free
    ensures
        // "constructors only by init or system": the account actor is created by the system actor (implicitly, by the VM)
        /*C11*/ r.is_ok() ==> old(rt).msg.caller == SYSTEM_ACTOR_ADDR && validated_once(old(rt), final(rt), only_system()),
        /*C11*/ old(rt).msg.caller != SYSTEM_ACTOR_ADDR ==> r.is_err() && *final(rt) == *old(rt),
        // the address must be a key address (secp256k1 or BLS), never an ID / actor / delegated address; it is what the state records
        r.is_ok() ==> is_key_address(params.address) && params.address.proto != 0,
        r.is_ok() ==> rt_state::<State>(final(rt).state_id@).address == params.address,
        r.is_err() ==> nothing_changed(old(rt), final(rt)),
        old(rt).validated@.is_none() && old(rt).msg.caller == SYSTEM_ACTOR_ADDR && !is_key_address(params.address) ==> r.is_err(),
//@ end

//@ fn actors/account/src/lib.rs Actor::pubkey_address free
    ensures
        /*C11*/ r.is_ok() ==> validated_once(old(rt), final(rt), CallerSet::Any),
        r.is_ok() ==> r->Ok_0.address == rt_state::<State>(old(rt).state_id@).address,
        nothing_changed(old(rt), final(rt)),
//@ end

//@ fn actors/account/src/lib.rs Actor::authenticate_message free
    ensures
        /*C11*/ r.is_ok() ==> validated_once(old(rt), final(rt), CallerSet::Any),
        // the callee side of every AuthenticateMessage send: `true` comes back only if the signature over exactly the given message verified
        // against THIS account's key address (with the signature type of that address); there is no Ok(false)
        r.is_ok() ==> ({
            let a = rt_state::<State>(old(rt).state_id@).address;
            &&& r->Ok_0.authenticated
            &&& is_key_address(a)
            &&& sig_valid(sig_type_of(a), params.signature@, a, params.message@)
        }),
        // an invalid signature is an error, never `false` (the exit code chosen inside the map_err closure is not visible to this Verus)
        ({
            let a = rt_state::<State>(old(rt).state_id@).address;
            is_key_address(a) && !sig_valid(sig_type_of(a), params.signature@, a, params.message@)
        }) ==> r.is_err(),
        nothing_changed(old(rt), final(rt)),
//@ end

//@ fn actors/account/src/lib.rs Actor::fallback free as=account_fallback sigsub0="_ : Option < IpldBlock >=>_args : Option<IpldBlock>"
    ensures
        /*C11*/ r.is_ok() ==> validated_once(old(rt), final(rt), CallerSet::Any),
        // accepts (and ignores) every exported method number — plain value transfers with a method number — and nothing below the range
        r.is_ok() <==> old(rt).validated@.is_none() && method >= FIRST_EXPORTED_METHOD_NUMBER,
        r.is_ok() ==> r->Ok_0.is_none(),
        nothing_changed(old(rt), final(rt)),
//@ end
}

// =================================================== ethaccount ===================================================
pub mod ethaccount {
    use super::*;
    /// the actor has an f4 address in the address manager's (EAM) namespace
    pub open spec fn has_eam_address(id: ActorID) -> bool {
        rt_delegated_address(id).is_some()
            && (addr_payload(rt_delegated_address(id)->Some_0) matches Payload::Delegated(da) && da.ns == EAM_ACTOR_ID)
    }
//@ fn actors/ethaccount/src/lib.rs EthAccountActor::constructor free as=ethaccount_constructor r10map
    requires
        old(rt).msg.receiver.proto == 0,     // the receiver of a message is addressed by ID (FVM)
    ensures
        /*C11*/ r.is_ok() ==> old(rt).msg.caller == SYSTEM_ACTOR_ADDR && validated_once(old(rt), final(rt), only_system()),
        /*C11*/ old(rt).msg.caller != SYSTEM_ACTOR_ADDR ==> r.is_err() && *final(rt) == *old(rt),
        // only an actor that lives at an f4 address of the EAM namespace can be an EthAccount; the constructor stores nothing
        r.is_ok() ==> has_eam_address(old(rt).msg.receiver.id),
        old(rt).validated@.is_none() && old(rt).msg.caller == SYSTEM_ACTOR_ADDR && !has_eam_address(old(rt).msg.receiver.id) ==> r.is_err(),
        nothing_changed(old(rt), final(rt)),
//@ end

//@ fn actors/ethaccount/src/lib.rs EthAccountActor::fallback free as=ethaccount_fallback sigsub0="_ : Option < IpldBlock >=>_args : Option<IpldBlock>"
    ensures
        /*C11*/ r.is_ok() ==> validated_once(old(rt), final(rt), CallerSet::Any),
        r.is_ok() <==> old(rt).validated@.is_none() && method >= FIRST_EXPORTED_METHOD_NUMBER,
        r.is_ok() ==> r->Ok_0.is_none(),
        nothing_changed(old(rt), final(rt)),
//@ end
}

// =================================================== system ===================================================
pub mod multihash_codetable { pub use super::Code; }
impl CborVal for Vec<(String, Cid)> { type Base = Vec<(String, Cid)>; open spec fn base(&self) -> Vec<(String, Cid)> { *self } }
pub mod system {
    use super::*;
//@ item actors/system/src/lib.rs State
    /// the root names an EMPTY built-in actor registry
    pub open spec fn empty_registry(c: Cid) -> bool {
        cbor_decode::<Vec<(String, Cid)>>(c).is_some() && cbor_decode::<Vec<(String, Cid)>>(c)->Some_0@.len() == 0
    }
//@ fn actors/system/src/lib.rs State::new sigsub0="< BS : Blockstore >=>" sigsub1="store : & BS=>store : &Store"
    ensures
        r.is_ok() ==> empty_registry(r->Ok_0.builtin_actors),
//@ end
//@ fn actors/system/src/lib.rs Actor::constructor free as=system_constructor
    ensures
        /*C11*/ r.is_ok() ==> old(rt).msg.caller == SYSTEM_ACTOR_ADDR && validated_once(old(rt), final(rt), only_system()),
        /*C11*/ old(rt).msg.caller != SYSTEM_ACTOR_ADDR ==> r.is_err() && *final(rt) == *old(rt),
        // the state created is an empty registry
        r.is_ok() ==> empty_registry(rt_state::<State>(final(rt).state_id@).builtin_actors),
        r.is_err() ==> nothing_changed(old(rt), final(rt)),
//@ end
}

// =================================================== cron (constructor; epoch_tick is unit cron_tick) ===================================================
pub mod cron {
    use super::*;
//@ item actors/cron/src/state.rs State
//@ item actors/cron/src/state.rs Entry
//@ item actors/cron/src/lib.rs ConstructorParams
//@ fn actors/cron/src/lib.rs Actor::constructor free as=cron_constructor
    ensures
        /*C11*/ r.is_ok() ==> old(rt).msg.caller == SYSTEM_ACTOR_ADDR && validated_once(old(rt), final(rt), only_system()),
        /*C11*/ old(rt).msg.caller != SYSTEM_ACTOR_ADDR ==> r.is_err() && *final(rt) == *old(rt),
        // the entries are stored exactly as given
        r.is_ok() ==> rt_state::<State>(final(rt).state_id@).entries == params.entries,
        r.is_err() ==> nothing_changed(old(rt), final(rt)),
//@ end
}

// =================================================== reward (award_block_reward is unit reward_award) ===================================================
pub mod reward {
    use super::*;
    pub type Spacetime = BigInt;
//@ item runtime/src/builtin/reward/smooth/alpha_beta_filter.rs FilterEstimate
//@ item actors/reward/src/state.rs State
//@ item actors/reward/src/types.rs ConstructorParams
//@ item actors/reward/src/types.rs UpdateNetworkKPIParams
//@ item runtime/src/builtin/reward/mod.rs ThisEpochRewardReturn
//@ include prelude/small_actors_reward_assumed.rs

//@ fn actors/reward/src/lib.rs Actor::constructor free as=reward_constructor r10map
    ensures
        /*C11*/ r.is_ok() ==> old(rt).msg.caller == SYSTEM_ACTOR_ADDR && validated_once(old(rt), final(rt), only_system()),
        /*C11*/ old(rt).msg.caller != SYSTEM_ACTOR_ADDR ==> r.is_err() && *final(rt) == *old(rt),
        // the genesis state is the one computed from the given realized power, which must be present
        r.is_ok() ==> params.power.is_some() && rt_state::<State>(final(rt).state_id@) == reward_state_new(params.power->Some_0.0@),
        old(rt).validated@.is_none() && old(rt).msg.caller == SYSTEM_ACTOR_ADDR && params.power.is_none() ==> r.is_err(),
        r.is_err() ==> nothing_changed(old(rt), final(rt)),
//@ end

//@ fn actors/reward/src/lib.rs Actor::this_epoch_reward free
    ensures
        /*C11*/ r.is_ok() ==> validated_once(old(rt), final(rt), CallerSet::Any),
        // a pure read of the two published values
        r.is_ok() ==> ({
            let st = rt_state::<State>(old(rt).state_id@);
            r->Ok_0.this_epoch_baseline_power == st.this_epoch_baseline_power && r->Ok_0.this_epoch_reward_smoothed == st.this_epoch_reward_smoothed
        }),
        nothing_changed(old(rt), final(rt)),
//@ end

//@ fn actors/reward/src/lib.rs Actor::update_network_kpi closure=0 as=kpi_tx0 params="st: &mut State, rt: &Rt, curr_realized_power: BigInt" retty="Result<(), ActorError>"
    requires
        -1 <= old(st).epoch < i64::MAX - 1, rt.epoch < i64::MAX - 1,    // the state's epoch starts at EPOCH_UNDEFINED (-1) and only grows
    ensures
        r.is_ok(),
        // null rounds are caught up: the state ends one epoch past the later of (its old epoch, the current epoch)
        final(st).epoch == (if old(st).epoch < rt.epoch { rt.epoch } else { old(st).epoch }) + 1,
        // what was awarded so far and the two supply constants are not touched
        final(st).total_storage_power_reward == old(st).total_storage_power_reward,
        final(st).simple_total == old(st).simple_total, final(st).baseline_total == old(st).baseline_total,
//@ loop 0
            invariant
                old(st).epoch <= st.epoch, st.epoch <= (if old(st).epoch < rt.epoch { rt.epoch } else { old(st).epoch }),
                prev == old(st).epoch,
                st.total_storage_power_reward == old(st).total_storage_power_reward,
                st.simple_total == old(st).simple_total, st.baseline_total == old(st).baseline_total,
            decreases rt.epoch - st.epoch
//@ end

//@ fn actors/reward/src/lib.rs Actor::update_network_kpi free tx0="State;kpi_tx0;&mut __vx_st, rt, curr_realized_power"
    requires
        !old(rt).in_tx@,
        -1 <= rt_state::<State>(old(rt).state_id@).epoch < i64::MAX - 1, old(rt).epoch < i64::MAX - 1,
    ensures
        // "singleton-only methods ... by that singleton": only the power actor (from its own cron hook)
        /*C11*/ r.is_ok() ==> old(rt).msg.caller == STORAGE_POWER_ACTOR_ADDR && validated_once(old(rt), final(rt), CallerSet::Addrs(set![STORAGE_POWER_ACTOR_ADDR])),
        /*C11*/ old(rt).msg.caller != STORAGE_POWER_ACTOR_ADDR ==> r.is_err() && *final(rt) == *old(rt),
        r.is_ok() ==> ({
            let s0 = rt_state::<State>(old(rt).state_id@);
            let s1 = rt_state::<State>(final(rt).state_id@);
            &&& params.curr_realized_power.is_some()
            &&& s1.epoch == (if s0.epoch < old(rt).epoch { old(rt).epoch } else { s0.epoch }) + 1
            &&& s1.total_storage_power_reward == s0.total_storage_power_reward
            &&& final(rt).tx_log@ == old(rt).tx_log@.push(final(rt).state_id@)
        }),
        final(rt).sends == old(rt).sends,
        r.is_err() ==> nothing_changed(old(rt), final(rt)),
//@ end
}

// =================================================== datacap ===================================================
// mint / destroy / transfer / transfer_from GUARDS are unit datacap_guards (C09). Here: every method as a whole — who may call, validated
// once, and which request (operation + arguments) the frc46 token library is handed; the library itself is opaque (ghost request log).
pub mod datacap {
    use super::*;
//@ include prelude/small_actors_datacap_assumed.rs
//@ item actors/datacap/src/state.rs State
//@ item actors/datacap/src/types.rs ConstructorParams
//@ item actors/datacap/src/types.rs NameReturn
//@ item actors/datacap/src/types.rs SymbolReturn
//@ item actors/datacap/src/types.rs GranularityReturn
//@ item actors/datacap/src/types.rs TotalSupplyReturn
//@ item actors/datacap/src/types.rs BalanceParams
//@ item actors/datacap/src/types.rs BalanceReturn
//@ item actors/datacap/src/types.rs GetAllowanceReturn
//@ item actors/datacap/src/types.rs IncreaseAllowanceReturn
//@ item actors/datacap/src/types.rs DecreaseAllowanceReturn
//@ item actors/datacap/src/types.rs RevokeAllowanceReturn
//@ item actors/datacap/src/types.rs MintParams
//@ item actors/datacap/src/types.rs DestroyParams
//@ const actors/datacap/src/lib.rs DATACAP_GRANULARITY

    pub open spec fn st0(rt: &Rt) -> State { rt_state::<State>(rt.state_id@) }
    /// the transaction committed a state whose token part has served exactly the requests `ops` on top of the old one; governor untouched
    pub open spec fn served(o: &Rt, f: &Rt, ops: Seq<TokenOp>) -> bool {
        st0(f).governor == st0(o).governor && st0(f).token.log@ =~= st0(o).token.log@ + ops
            && f.tx_log@ == o.tx_log@.push(f.state_id@)
    }
    pub open spec fn not_committed(o: &Rt, f: &Rt) -> bool { f.state_id == o.state_id && f.tx_log == o.tx_log }

//@ fn actors/datacap/src/state.rs State::new sigsub0="< BS : Blockstore >=>" sigsub1="store : & BS=>store : &Store"
    ensures
        r.is_ok() ==> r->Ok_0.governor == governor && r->Ok_0.token.log@.len() == 0,
//@ end

//@ fn actors/datacap/src/lib.rs as_token sigsub0="Rt :: Blockstore=>Store"
    ensures
        // the token handle wraps THIS state's token part (and nothing else of the state can change through it), with the DataCap granularity
        *r.state == old(st).token, *final(r.state) == final(st).token, final(st).governor == old(st).governor,
        r.granularity == DATACAP_GRANULARITY,
//@ end

//@ fn actors/datacap/src/lib.rs Actor::constructor free as=datacap_constructor
    ensures
        /*C11*/ r.is_ok() ==> old(rt).msg.caller == SYSTEM_ACTOR_ADDR && validated_once(old(rt), final(rt), only_system()),
        /*C11*/ old(rt).msg.caller != SYSTEM_ACTOR_ADDR ==> r.is_err() && *final(rt) == *old(rt),
        // the governor is recorded as given and must resolve to an actor; the token state starts empty
        r.is_ok() ==> rt_resolve(params.governor, old(rt).sends@.len()).is_some()
            && st0(final(rt)).governor == params.governor && st0(final(rt)).token.log@.len() == 0,
        r.is_err() ==> nothing_changed(old(rt), final(rt)),
//@ end

//@ fn actors/datacap/src/lib.rs Actor::name free nth=0 as=datacap_name
    ensures
        /*C11*/ r.is_ok() ==> validated_once(old(rt), final(rt), CallerSet::Any),
        r.is_ok() <==> old(rt).validated@.is_none(),
        nothing_changed(old(rt), final(rt)),
//@ end
//@ fn actors/datacap/src/lib.rs Actor::symbol free
    ensures
        /*C11*/ r.is_ok() ==> validated_once(old(rt), final(rt), CallerSet::Any),
        r.is_ok() <==> old(rt).validated@.is_none(),
        nothing_changed(old(rt), final(rt)),
//@ end
//@ fn actors/datacap/src/lib.rs Actor::granularity free
    ensures
        /*C11*/ r.is_ok() ==> validated_once(old(rt), final(rt), CallerSet::Any),
        r.is_ok() <==> old(rt).validated@.is_none(),
        r.is_ok() ==> r->Ok_0.granularity == 1_000_000_000_000_000_000u64,
        nothing_changed(old(rt), final(rt)),
//@ end

//@ fn actors/datacap/src/lib.rs Actor::total_supply free
    ensures
        /*C11*/ r.is_ok() ==> validated_once(old(rt), final(rt), CallerSet::Any),
        r.is_ok() ==> r->Ok_0.supply@ == token_total_supply(st0(old(rt)).token),
        nothing_changed(old(rt), final(rt)),
//@ end
//@ fn actors/datacap/src/lib.rs Actor::balance free r10rmap
    ensures
        /*C11*/ r.is_ok() ==> validated_once(old(rt), final(rt), CallerSet::Any),
        r.is_ok() ==> r->Ok_0.balance@ == token_balance(st0(old(rt)).token, params.address),
        nothing_changed(old(rt), final(rt)),
//@ end
//@ fn actors/datacap/src/lib.rs Actor::allowance free r10rmap
    ensures
        /*C11*/ r.is_ok() ==> validated_once(old(rt), final(rt), CallerSet::Any),
        r.is_ok() ==> r->Ok_0.allowance@ == token_allowance(st0(old(rt)).token, params.owner, params.operator),
        nothing_changed(old(rt), final(rt)),
//@ end

// ---- burn: the CALLER's own tokens
//@ fn actors/datacap/src/lib.rs Actor::burn closure=0 as=burn_tx0 params="st: &mut State, rt: &Rt, owner: &Address, params: &BurnParams" retty="Result<BurnReturn, ActorError>"
    ensures
        final(st).governor == old(st).governor,
        r.is_ok() ==> final(st).token.log@ == old(st).token.log@.push(TokenOp::Burn { owner: *owner, amount: params.amount@ }),
//@ end
//@ fn actors/datacap/src/lib.rs Actor::burn free tx0="State;burn_tx0;&mut __vx_st, rt, owner, &params"
    requires !old(rt).in_tx@,
    ensures
        /*C11*/ r.is_ok() ==> validated_once(old(rt), final(rt), CallerSet::Any),
        // anyone may burn — but only THEIR OWN tokens: the library is asked to burn from the immediate caller
        r.is_ok() ==> served(old(rt), final(rt), seq![TokenOp::Burn { owner: old(rt).msg.caller, amount: params.amount@ }]),
        r.is_err() ==> not_committed(old(rt), final(rt)),
//@ end

// ---- burn_from: somebody else's tokens, through the library's allowance-checking entry point
//@ fn actors/datacap/src/lib.rs Actor::burn_from closure=0 as=burn_from_tx0 params="st: &mut State, rt: &Rt, operator: &Address, owner: &Address, params: &BurnFromParams" retty="Result<BurnFromReturn, ActorError>"
    ensures
        final(st).governor == old(st).governor,
        r.is_ok() ==> final(st).token.log@ == old(st).token.log@.push(TokenOp::BurnFrom { operator: *operator, owner: *owner, amount: params.amount@ }),
//@ end
//@ fn actors/datacap/src/lib.rs Actor::burn_from free tx0="State;burn_from_tx0;&mut __vx_st, rt, operator, owner, &params"
    requires !old(rt).in_tx@,
    ensures
        /*C11*/ r.is_ok() ==> validated_once(old(rt), final(rt), CallerSet::Any),
        // the request is BurnFrom (the entry point that consumes the operator's allowance), with the immediate caller as operator
        r.is_ok() ==> served(old(rt), final(rt), seq![TokenOp::BurnFrom { operator: old(rt).msg.caller, owner: params.owner, amount: params.amount@ }]),
        r.is_err() ==> not_committed(old(rt), final(rt)),
//@ end

// ---- allowances: always the CALLER's own allowance table entry
//@ fn actors/datacap/src/lib.rs Actor::increase_allowance closure=0 as=increase_allowance_tx0 params="st: &mut State, rt: &Rt, owner: Address, operator: Address, params: &IncreaseAllowanceParams" retty="Result<IncreaseAllowanceReturn, ActorError>" r10rmap
    ensures
        final(st).governor == old(st).governor,
        r.is_ok() ==> final(st).token.log@ == old(st).token.log@.push(TokenOp::IncreaseAllowance { owner, operator, delta: params.increase@ }),
//@ end
//@ fn actors/datacap/src/lib.rs Actor::increase_allowance free tx0="State;increase_allowance_tx0;&mut __vx_st, rt, owner, operator, &params"
    requires !old(rt).in_tx@,
    ensures
        /*C11*/ r.is_ok() ==> validated_once(old(rt), final(rt), CallerSet::Any),
        r.is_ok() ==> served(old(rt), final(rt), seq![TokenOp::IncreaseAllowance { owner: old(rt).msg.caller, operator: params.operator, delta: params.increase@ }]),
        r.is_err() ==> not_committed(old(rt), final(rt)),
//@ end
//@ fn actors/datacap/src/lib.rs Actor::decrease_allowance closure=0 as=decrease_allowance_tx0 params="st: &mut State, rt: &Rt, owner: &Address, operator: &Address, params: &DecreaseAllowanceParams" retty="Result<DecreaseAllowanceReturn, ActorError>" r10rmap
    ensures
        final(st).governor == old(st).governor,
        r.is_ok() ==> final(st).token.log@ == old(st).token.log@.push(TokenOp::DecreaseAllowance { owner: *owner, operator: *operator, delta: params.decrease@ }),
//@ end
//@ fn actors/datacap/src/lib.rs Actor::decrease_allowance free tx0="State;decrease_allowance_tx0;&mut __vx_st, rt, owner, operator, &params"
    requires !old(rt).in_tx@,
    ensures
        /*C11*/ r.is_ok() ==> validated_once(old(rt), final(rt), CallerSet::Any),
        r.is_ok() ==> served(old(rt), final(rt), seq![TokenOp::DecreaseAllowance { owner: old(rt).msg.caller, operator: params.operator, delta: params.decrease@ }]),
        r.is_err() ==> not_committed(old(rt), final(rt)),
//@ end
//@ fn actors/datacap/src/lib.rs Actor::revoke_allowance closure=0 as=revoke_allowance_tx0 params="st: &mut State, rt: &Rt, owner: &Address, operator: &Address" retty="Result<RevokeAllowanceReturn, ActorError>" r10rmap
    ensures
        final(st).governor == old(st).governor,
        r.is_ok() ==> final(st).token.log@ == old(st).token.log@.push(TokenOp::RevokeAllowance { owner: *owner, operator: *operator }),
//@ end
//@ fn actors/datacap/src/lib.rs Actor::revoke_allowance free tx0="State;revoke_allowance_tx0;&mut __vx_st, rt, owner, operator"
    requires !old(rt).in_tx@,
    ensures
        /*C11*/ r.is_ok() ==> validated_once(old(rt), final(rt), CallerSet::Any),
        r.is_ok() ==> served(old(rt), final(rt), seq![TokenOp::RevokeAllowance { owner: old(rt).msg.caller, operator: params.operator }]),
        r.is_err() ==> not_committed(old(rt), final(rt)),
//@ end

// ---- destroy: "verifreg/datacap privileged calls by that singleton" — the governor recorded in the state (the verified registry)
//@ fn actors/datacap/src/lib.rs Actor::destroy closure=0 as=destroy_tx0 params="st: &mut State, rt: &mut Rt, params: &DestroyParams" retty="Result<BurnReturn, ActorError>"
    ensures
        final(st).governor == old(st).governor,
        /*C11*/ r.is_ok() ==> old(rt).msg.caller == old(st).governor && validated_once(old(rt), final(rt), CallerSet::Addrs(set![old(st).governor])),
        /*C11*/ old(rt).msg.caller != old(st).governor ==> r.is_err() && *final(st) == *old(st) && *final(rt) == *old(rt),
        // burns the named holder's tokens as if the holder had asked (no allowance involved)
        r.is_ok() ==> final(st).token.log@ == old(st).token.log@.push(TokenOp::Burn { owner: params.owner, amount: params.amount@ }),
        final(rt).validated@.is_none() ==> *final(rt) == *old(rt),
        final(rt).validated@.is_some() ==> *final(rt) == (Rt { validated: final(rt).validated, ..*old(rt) }),
//@ end
//@ fn actors/datacap/src/lib.rs Actor::destroy free tx0="State;destroy_tx0;&mut __vx_st, rt, &params"
    requires !old(rt).in_tx@,
    ensures
        /*C11*/ r.is_ok() ==> old(rt).msg.caller == st0(old(rt)).governor && validated_once(old(rt), final(rt), CallerSet::Addrs(set![st0(old(rt)).governor])),
        /*C11*/ old(rt).msg.caller != st0(old(rt)).governor ==> r.is_err() && *final(rt) == *old(rt),
        r.is_ok() ==> served(old(rt), final(rt), seq![TokenOp::Burn { owner: params.owner, amount: params.amount@ }]),
        r.is_err() ==> not_committed(old(rt), final(rt)),
//@ end

// ---- mint: only the governor; one Mint request for the beneficiary, then one SetAllowance(infinite) per named operator, in order
    pub open spec fn mint_requests(governor: Address, p: MintParams, n: int) -> Seq<TokenOp> {
        seq![TokenOp::Mint { operator: governor, to: p.to, amount: p.amount@ }]
            + Seq::new(n as nat, |j: int| TokenOp::SetAllowance { owner: p.to, operator: p.operators@[j], amount: infinite_allowance_spec() })
    }
//@ fn actors/datacap/src/lib.rs Actor::mint closure=0 as=mint_tx0 params="st: &mut State, rt: &mut Rt, params: &MintParams" retty="Result<ReceiverHook<MintIntermediate>, ActorError>" sub0="& INFINITE_ALLOWANCE=>vx_infinite_allowance()" attr="#[verifier::loop_isolation(false)]"
    ensures
        final(st).governor == old(st).governor,
        /*C11*/ r.is_ok() ==> old(rt).msg.caller == old(st).governor && validated_once(old(rt), final(rt), CallerSet::Addrs(set![old(st).governor])),
        /*C11*/ old(rt).msg.caller != old(st).governor ==> r.is_err() && *final(st) == *old(st) && *final(rt) == *old(rt),
        r.is_ok() ==> final(st).token.log@ =~= old(st).token.log@ + mint_requests(old(st).governor, *params, params.operators@.len() as int),
        final(rt).validated@.is_none() ==> *final(rt) == *old(rt),
        final(rt).validated@.is_some() ==> *final(rt) == (Rt { validated: final(rt).validated, ..*old(rt) }),
//@ entry
        let ghost fst: State = *final(st);
//@ loop 0 iter=it
            invariant
                it.seq().len() == params.operators@.len(),
                forall|j: int| 0 <= j < it.seq().len() ==> *(#[trigger] it.seq()[j]) == params.operators@[j],
                operator == old(st).governor,
                *final(token.state) == fst.token, fst.governor == old(st).governor, token.granularity == DATACAP_GRANULARITY,
                ret.is_ok() ==> token.state.log@ =~= old(st).token.log@ + mint_requests(old(st).governor, *params, it.index@ as int),
//@ end

//@ fn actors/datacap/src/lib.rs as_actor_runtime sigsub0="Rt :: Blockstore=>Store"
//@ end
    /// the one transaction of this activation committed a state whose token part served exactly `ops` on top of the old one. (Stated over
    /// tx_log: after the commit the library calls the recipient's receiver hook through the messenger, which the ghost runtime does not see;
    /// nothing is claimed about sends, balance or the state after that hook.)
    pub open spec fn committed(o: &Rt, f: &Rt, ops: Seq<TokenOp>) -> bool {
        f.tx_log@.len() == o.tx_log@.len() + 1 && ({
            let s1 = rt_state::<State>(f.tx_log@.last());
            s1.governor == st0(o).governor && s1.token.log@ =~= st0(o).token.log@ + ops
        })
    }
//@ fn actors/datacap/src/lib.rs Actor::mint free tx0="State;mint_tx0;&mut __vx_st, rt, &params"
    requires !old(rt).in_tx@,
    ensures
        /*C11*/ r.is_ok() ==> old(rt).msg.caller == st0(old(rt)).governor && validated_once(old(rt), final(rt), CallerSet::Addrs(set![st0(old(rt)).governor])),
        /*C11*/ old(rt).msg.caller != st0(old(rt)).governor ==> r.is_err() && *final(rt) == *old(rt),
        r.is_ok() ==> committed(old(rt), final(rt), mint_requests(st0(old(rt)).governor, params, params.operators@.len() as int)),
//@ end

// ---- transfer / transfer_from: anyone may call; DataCap moves only to (or, for transfer, from) the governor
//@ fn actors/datacap/src/lib.rs Actor::transfer closure=0 as=transfer_tx0 params="st: &mut State, rt: &Rt, from: &Address, to_address: Address, params: &TransferParams" retty="Result<ReceiverHook<TransferIntermediate>, ActorError>"
    ensures
        final(st).governor == old(st).governor,
        r.is_ok() ==> to_address == old(st).governor || *from == old(st).governor,
        !(to_address == old(st).governor || *from == old(st).governor) ==> r.is_err() && *final(st) == *old(st),
        r.is_ok() ==> final(st).token.log@ == old(st).token.log@.push(TokenOp::Transfer { from: *from, to: to_address, amount: params.amount@, operator_data: params.operator_data }),
//@ end
//@ fn actors/datacap/src/lib.rs Actor::transfer free tx0="State;transfer_tx0;&mut __vx_st, rt, from, to_address, &params"
    requires !old(rt).in_tx@,
    ensures
        /*C11*/ r.is_ok() ==> validated_once(old(rt), final(rt), CallerSet::Any),
        r.is_ok() ==> ({
            let to = rt_resolve(params.to, old(rt).sends@.len());
            let to_address = Address { id: to->Some_0, proto: 0 };
            &&& to.is_some()
            &&& (to_address == st0(old(rt)).governor || old(rt).msg.caller == st0(old(rt)).governor)
            // the caller's own tokens
            &&& committed(old(rt), final(rt), seq![TokenOp::Transfer { from: old(rt).msg.caller, to: to_address, amount: params.amount@, operator_data: params.operator_data }])
        }),
//@ end
//@ fn actors/datacap/src/lib.rs Actor::transfer_from closure=0 as=transfer_from_tx0 params="st: &mut State, rt: &Rt, operator: Address, from: Address, to_address: Address, params: &TransferFromParams" retty="Result<ReceiverHook<TransferFromIntermediate>, ActorError>"
    ensures
        final(st).governor == old(st).governor,
        r.is_ok() ==> to_address == old(st).governor,
        to_address != old(st).governor ==> r.is_err() && *final(st) == *old(st),
        r.is_ok() ==> final(st).token.log@ == old(st).token.log@.push(TokenOp::TransferFrom { operator, from, to: to_address, amount: params.amount@, operator_data: params.operator_data }),
//@ end
//@ fn actors/datacap/src/lib.rs Actor::transfer_from free tx0="State;transfer_from_tx0;&mut __vx_st, rt, operator, from, to_address, &params"
    requires !old(rt).in_tx@,
    ensures
        /*C11*/ r.is_ok() ==> validated_once(old(rt), final(rt), CallerSet::Any),
        r.is_ok() ==> ({
            let to = rt_resolve(params.to, old(rt).sends@.len());
            let to_address = Address { id: to->Some_0, proto: 0 };
            &&& to.is_some()
            &&& to_address == st0(old(rt)).governor
            // somebody else's tokens: through the library's allowance-checking entry point, the immediate caller being the operator
            &&& committed(old(rt), final(rt), seq![TokenOp::TransferFrom { operator: old(rt).msg.caller, from: params.from, to: to_address, amount: params.amount@, operator_data: params.operator_data }])
        }),
//@ end
}

// =================================================== placeholder ===================================================
// The whole actor is this one wasm entry point (no ActorCode impl, no dispatch table, no runtime, no state access): whatever the method number,
// the parameters or the caller, it returns 0 = "exit code OK, no return block". Nothing is callable in the sense of C11 and nothing validates a
// caller; every message to a placeholder (an address that received funds before an actor was deployed there) is a successful no-op.
//@ fn actors/placeholder/src/lib.rs invoke as=placeholder_invoke sigsub0="_ : u32=>_params : u32"
    ensures r == 0,
//@ end

} // verus!
fn main() {}
