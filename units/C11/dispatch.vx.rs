// unit: runtime/src/dispatch.rs — what `actor_dispatch!` expands to: parameter decoding, running the method, encoding the return value (C11 plumbing)
//@ include prelude/core.rs
//@ include prelude/small_actors_dispatch_assumed.rs
verus! {
//@ include units/shared/dispatch_core.inc

} // verus!
fn main() {}
