// unit: runtime restrict_internal_api — methods below the public-export range are closed to non-built-in callers (C11)
//@ include prelude/core.rs
//@ include prelude/rt.rs
verus! {

//@ const runtime/src/builtin/shared.rs FIRST_EXPORTED_METHOD_NUMBER

//@ fn runtime/src/builtin/shared.rs restrict_internal_api rt=ref
    requires
        rt.msg.caller.proto == 0,      // the immediate caller is addressed by ID (FVM)
    ensures
        // "Methods numbered below the public-export range cannot be invoked by EVM contracts or other non-built-in code at all"
        r.is_ok() <==> (method >= 0x100_0000 || ({
            let code = rt_code_of(rt.msg.caller.id);
            code.is_some() && rt_builtin_type(code->Some_0).is_some() && rt_builtin_type(code->Some_0)->Some_0 != Type::EVM
        })),
//@ end

} // verus!
fn main() {}
