// unit: market AddBalance / WithdrawBalance — who may move escrow, how much, and to whom (C06; caller clauses C11; solvency C01)
//@ include prelude/core.rs
//@ include prelude/ipld.rs
//@ include prelude/rt.rs
//@ include prelude/singletons.rs
//@ include prelude/cbor.rs
use std::cmp::{max, min};
verus! {
//@ include units/shared/market_state.inc
//@ item actors/market/src/types.rs AddBalanceParams
//@ item actors/market/src/types.rs WithdrawBalanceParams
//@ item actors/market/src/types.rs WithdrawBalanceReturn
pub mod ext { pub mod miner {
    use super::super::*;
//@ const actors/market/src/ext.rs CONTROL_ADDRESSES_METHOD
//@ item actors/market/src/ext.rs GetControlAddressesReturnParams
} }

//@ fn actors/market/src/lib.rs request_miner_control_addrs
    requires !old(rt).in_tx@,
    ensures
        rt_pushed(old(rt), final(rt)), rt_frame(old(rt), final(rt)),
        final(rt).sends@.last().to == (Address { id: miner_id, proto: 0 }) && final(rt).sends@.last().method == ext::miner::CONTROL_ADDRESSES_METHOD && final(rt).sends@.last().value == 0,
        r.is_ok() ==> final(rt).sends@.last().ok && ({
            let a = deser_spec::<ext::miner::GetControlAddressesReturnParams>(final(rt).sends@.last().ret);
            r->Ok_0.0 == a.owner && r->Ok_0.1 == a.worker
        }),
        // a read-only style query: if the miner does not call back, this actor's state and balance are as before
        rt_no_reentry(Address { id: miner_id, proto: 0 }, ext::miner::CONTROL_ADDRESSES_METHOD) ==> final(rt).state_id == old(rt).state_id && final(rt).balance == old(rt).balance,
//@ end

/// the miner's answer to ControlAddresses, when `id` is a miner actor (first send of the method)
pub open spec fn miner_ctrl(m: SendRec) -> ext::miner::GetControlAddressesReturnParams { deser_spec::<ext::miner::GetControlAddressesReturnParams>(m.ret) }

//@ fn actors/market/src/lib.rs escrow_address
    requires !old(rt).in_tx@,
    ensures
        rt_frame(old(rt), final(rt)), final(rt).sends@.len() <= old(rt).sends@.len() + 1,
        (forall|a: Address| rt_no_reentry(a, ext::miner::CONTROL_ADDRESSES_METHOD)) ==> final(rt).state_id == old(rt).state_id && final(rt).balance == old(rt).balance,
        r.is_ok() ==> ({
            let n0 = old(rt).sends@.len();
            let (nominal, recipient, approved) = r->Ok_0;
            let id = rt_resolve(*addr, n0)->Some_0;
            &&& rt_resolve(*addr, n0).is_some() && rt_code_of(id).is_some() && nominal == (Address { id: id, proto: 0 })
            // a miner's escrow is paid to its owner and may be moved by its owner or worker; anybody else's only by and to itself
            &&& (rt_builtin_type(rt_code_of(id)->Some_0) == Some(Type::Miner) ==> rt_pushed(old(rt), final(rt)) && final(rt).sends@.last().ok
                    && final(rt).sends@.last().to == nominal
                    && recipient == miner_ctrl(final(rt).sends@.last()).owner
                    && approved@ == seq![miner_ctrl(final(rt).sends@.last()).owner, miner_ctrl(final(rt).sends@.last()).worker])
            &&& (rt_builtin_type(rt_code_of(id)->Some_0) != Some(Type::Miner) ==> final(rt).sends == old(rt).sends && recipient == nominal && approved@ == seq![nominal])
        }),
//@ end

// ======================= WithdrawBalance =======================
//@ fn actors/market/src/lib.rs Actor::withdraw_balance closure=0 as=wb_tx0 params="st: &mut State, rt: &mut Rt, nominal: Address, params: &WithdrawBalanceParams" retty="Result<TokenAmount, ActorError>"
    requires jinv(*old(st)),
    ensures
        *final(rt) == *old(rt),
        r.is_ok() ==> ({
            let avail = bal(esc(*old(st)), nominal) - bal(lck(*old(st)), nominal);
            let ex = if params.amount@ <= avail { params.amount@ } else { avail };
            // "can withdraw exactly its escrow minus its locked amount" (capped by the request); only this party's escrow entry moves
            &&& r->Ok_0@ == ex
            &&& moved(esc(*old(st)), esc(*final(st)), nominal, if ex > 0 { -ex } else { 0 }, nominal, 0)
            &&& final(st).locked_table == old(st).locked_table && rest_eq(*old(st), *final(st)) && totals_eq(*old(st), *final(st))
            &&& jinv(*final(st))
        }),
//@ end
//@ fn actors/market/src/lib.rs Actor::withdraw_balance free tx0="State;wb_tx0;&mut __vx_st, rt, nominal, &params" ret=res
    requires
        !old(rt).in_tx@, old(rt).sends@.len() == 0, old(rt).tx_log@.len() == 0, old(rt).validated@.is_none(),
        jinv(rt_state::<State>(old(rt).state_id@)),
        // the ControlAddresses query does not call back into the market (explicit assumption)
        forall|a: Address| rt_no_reentry(a, ext::miner::CONTROL_ADDRESSES_METHOD),
    ensures
        /*C11*/ res.is_ok() ==> final(rt).validated@.is_some(),
        res.is_ok() ==> final(rt).tx_log@.len() == 1 && ({
            let s0 = rt_state::<State>(old(rt).state_id@);
            let s1 = rt_state::<State>(final(rt).tx_log@[0]);
            let id = rt_resolve(params.provider_or_client, 0)->Some_0;
            let party = Address { id: id, proto: 0 };
            let is_miner = rt_builtin_type(rt_code_of(id)->Some_0) == Some(Type::Miner);
            let avail = bal(esc(s0), party) - bal(lck(s0), party);
            let ex = if params.amount@ <= avail { params.amount@ } else { avail };
            let pay = final(rt).sends@.last();
            &&& params.amount@ >= 0 && rt_resolve(params.provider_or_client, 0).is_some()
            // "nobody else can withdraw it": the caller is the party itself, or — for a miner — its owner or worker
            &&& /*C11*/ (!is_miner ==> old(rt).msg.caller == party)
            &&& /*C11*/ (is_miner ==> final(rt).sends@.len() == 2 && (old(rt).msg.caller == miner_ctrl(final(rt).sends@[0]).owner || old(rt).msg.caller == miner_ctrl(final(rt).sends@[0]).worker))
            // exactly escrow - locked (capped by the request) leaves this party's escrow entry, nothing else moves
            &&& res->Ok_0.amount_withdrawn@ == ex
            &&& moved(esc(s0), esc(s1), party, if ex > 0 { -ex } else { 0 }, party, 0) && s1.locked_table == s0.locked_table && jinv(s1)
            // "paid only to itself (or to a miner's owner)", as one plain send of exactly that amount
            &&& pay.method == METHOD_SEND && pay.value == ex && pay.ok
            &&& pay.to == (if is_miner { miner_ctrl(final(rt).sends@[0]).owner } else { party })
            &&& (!is_miner ==> final(rt).sends@.len() == 1)
        }),
//@ end

// ======================= AddBalance =======================
//@ fn actors/market/src/lib.rs Actor::add_balance closure=0 as=ab_tx0 params="st: &mut State, rt: &mut Rt, nominal: Address, msg_value: TokenAmount" retty="Result<(), ActorError>"
    requires jinv(*old(st)), msg_value@ > 0,
    ensures
        *final(rt) == *old(rt),
        r.is_ok() ==> moved(esc(*old(st)), esc(*final(st)), nominal, msg_value@, nominal, 0) && final(st).locked_table == old(st).locked_table
            && rest_eq(*old(st), *final(st)) && totals_eq(*old(st), *final(st)) && jinv(*final(st)),
//@ end
//@ fn actors/market/src/lib.rs Actor::add_balance free tx0="State;ab_tx0;&mut __vx_st, rt, nominal, msg_value"
    requires
        !old(rt).in_tx@, old(rt).sends@.len() == 0, old(rt).tx_log@.len() == 0, old(rt).validated@.is_none(),
        jinv(rt_state::<State>(old(rt).state_id@)),
        forall|a: Address| rt_no_reentry(a, ext::miner::CONTROL_ADDRESSES_METHOD),
    ensures
        r.is_ok() ==> final(rt).tx_log@.len() == 1 && ({
            let s0 = rt_state::<State>(old(rt).state_id@);
            let s1 = rt_state::<State>(final(rt).tx_log@[0]);
            let id = rt_resolve(params.provider_or_client, 0)->Some_0;
            let party = Address { id: id, proto: 0 };
            // exactly the value received is credited to exactly the named party's escrow; nothing is locked or unlocked
            &&& old(rt).msg.value_received@ > 0 && rt_resolve(params.provider_or_client, 0).is_some()
            &&& moved(esc(s0), esc(s1), party, old(rt).msg.value_received@, party, 0) && s1.locked_table == s0.locked_table && jinv(s1)
        }),
//@ end
} // verus!
fn main() {}
