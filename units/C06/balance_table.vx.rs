// unit: market BalanceTable (C06, also used by C01)
//@ include prelude/core.rs
//@ include prelude/ipld.rs
verus! {

//@ include units/shared/balance_table.inc
} // verus!
fn main() {}
