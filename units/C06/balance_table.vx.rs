// unit: market BalanceTable (C06, also used by C01)
//@ include prelude/core.rs
//@ include prelude/ipld.rs
verus! {

// ---------------- spec ----------------
pub open spec fn bal(m: Map<Address, TokenAmount>, k: Address) -> int {
    if m.dom().contains(k) { m[k]@ } else { 0 }
}
/// representation invariant of a balance table: no negative entry
pub open spec fn bt_wf(m: Map<Address, TokenAmount>) -> bool {
    forall|k: Address| m.dom().contains(k) ==> #[trigger] m[k]@ >= 0
}
/// `m2` equals `m1` except that the balance of `key` is `v` (whole-view frame)
pub open spec fn bal_updated(m1: Map<Address, TokenAmount>, m2: Map<Address, TokenAmount>, key: Address, v: int) -> bool {
    forall|k: Address| bal(m2, k) == (if k == key { v } else { bal(m1, k) })
}

// ---------------- extracted from /repo ----------------
//@ item actors/market/src/balance_table.rs BalanceTable

//@ fn actors/market/src/balance_table.rs BalanceTable::get
    ensures
        r.is_ok() ==> r->Ok_0@ == bal(self.0.view(), *key),
//@ end

//@ fn actors/market/src/balance_table.rs BalanceTable::add
    requires
        bt_wf(old(self).0.view()),
    ensures
        bt_wf(final(self).0.view()),
        r.is_ok() ==> bal(old(self).0.view(), *key) + value@ >= 0
            && bal_updated(old(self).0.view(), final(self).0.view(), *key, bal(old(self).0.view(), *key) + value@),
        r.is_err() ==> final(self).0.view() == old(self).0.view(),
//@ end

//@ fn actors/market/src/balance_table.rs BalanceTable::subtract_with_minimum
    requires
        bt_wf(old(self).0.view()),
    ensures
        bt_wf(final(self).0.view()),
        r.is_ok() ==> ({
            let prev = bal(old(self).0.view(), *key);
            let avail = if prev - floor@ > 0 { prev - floor@ } else { 0 };
            let sub = if avail <= req@ { avail } else { req@ };
            &&& r->Ok_0@ == sub
            &&& (sub > 0 ==> bal_updated(old(self).0.view(), final(self).0.view(), *key, prev - sub))
            &&& (sub <= 0 ==> final(self).0.view() == old(self).0.view())
        }),
        r.is_err() ==> final(self).0.view() == old(self).0.view(),
//@ end

//@ fn actors/market/src/balance_table.rs BalanceTable::must_subtract
    requires
        bt_wf(old(self).0.view()),
    ensures
        bt_wf(final(self).0.view()),
        r.is_ok() ==> req@ <= bal(old(self).0.view(), *key)
            && bal_updated(old(self).0.view(), final(self).0.view(), *key, bal(old(self).0.view(), *key) - req@),
        r.is_err() ==> final(self).0.view() == old(self).0.view(),
//@ end

} // verus!
fn main() {}
