// unit: EthAddress::is_precompile — the reserved precompile ranges of Ethereum-style addresses (C20: "reserved address ranges are never assigned")
// The EAM's can_assign_address (unit eam_create) refuses what this predicate names; Kani cannot compile the sub-slice binding pattern, so the
// predicate is verified here through extraction rule R24.
//@ include prelude/core.rs
//@ include prelude/eth_address_bytes.rs
verus! {
/// the two reserved ranges: first byte 0xfe (native) or 0x00 (EVM), 18 zero bytes, ANY index byte
pub open spec fn precompile_range(a: Seq<u8>) -> bool {
    (a[0] == 0xfe || a[0] == 0x00) && forall|i: int| 0 <= i < 18 ==> #[trigger] a[i + 1] == 0
}
//@ fn actors/evm/shared/src/address.rs EthAddress::is_precompile r24=20 sub0="middle == [0u8 ; 18]=>({ let __vx_z = vx_eq_zero_18(&middle); proof { if __vx_z { assert forall|i: int| 0 <= i < 18 implies #[trigger] self.0@[i + 1] == 0 by { assert(middle@[i] == self.0@[i + 1]); } } else { let i = choose|i: int| 0 <= i < 18 && middle@[i] != 0; assert(middle@[i] == self.0@[i + 1]); } } __vx_z })"
    ensures r == precompile_range(self.0@),
//@ end
} // verus!
fn main() {}
