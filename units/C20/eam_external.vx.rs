// unit: Ethereum Address Manager — CreateExternal and the constructor, whole methods (C20; caller clauses C11)
//@ include prelude/core.rs
//@ include prelude/ipld.rs
//@ include prelude/rt.rs
//@ include prelude/singletons.rs
//@ include prelude/cbor.rs
use std::iter;
verus! {
//@ include prelude/eam_assumed.rs
//@ include prelude/misc_methods_eam.rs
pub mod ext {
    pub mod init {
        use super::super::*;
//@ const actors/eam/src/ext.rs EXEC4_METHOD
//@ item actors/eam/src/ext.rs Exec4Params
//@ item actors/eam/src/ext.rs Exec4Return
    }
    pub mod evm {
        use super::super::*;
//@ item actors/eam/src/ext.rs ConstructorParams
//@ const actors/eam/src/ext.rs RESURRECT_METHOD
    }
    pub mod account {
//@ const actors/eam/src/ext.rs PUBKEY_ADDRESS_METHOD
    }
}
use ext::init::{Exec4Params, Exec4Return};
use ext::evm::RESURRECT_METHOD;
use ext::account::PUBKEY_ADDRESS_METHOD;
//@ item actors/eam/src/lib.rs Return

// ---------------- as in units/C20/eam_create.vx.rs (directive text copied) ----------------
//@ fn actors/eam/src/lib.rs can_assign_address
    ensures
        // "reserved address ranges are never assigned": precompile range, embedded ID addresses, the null address
        r == (!eth_is_precompile(*addr) && !eth_is_id(*addr) && !eth_is_null(*addr)),
//@ end
//@ fn actors/eam/src/lib.rs Return::from_exec4
    requires exec4.id_address.proto == 0,
    ensures r.actor_id == exec4.id_address.id, r.robust_address == Some(exec4.robust_address), r.eth_address == eth_address,
//@ end

//@ fn actors/eam/src/lib.rs create_actor sub0="initcode . into ()=>RawBytes::vx_from_vec(initcode)" sub1="new_addr . 0 . to_vec () . into ()=>RawBytes::vx_from_vec(new_addr.0.to_vec())"
    requires
        !old(rt).in_tx@,
        // a resolved address names an existing actor, which has code (FVM)
        forall|a: Address, n: nat| rt_resolve(a, n).is_some() ==> rt_code_of(#[trigger] rt_resolve(a, n)->Some_0).is_some(),
        // the init actor answers Exec4 with an ID address (its contract, C20 init unit)
        forall|b: Option<IpldBlock>| (#[trigger] deser_spec::<Exec4Return>(b)).id_address.proto == 0,
    ensures
        rt_frame(old(rt), final(rt)),
        // "reserved address ranges are never assigned"
        r.is_ok() ==> !eth_is_precompile(new_addr) && !eth_is_id(new_addr) && !eth_is_null(new_addr) && r->Ok_0.eth_address == new_addr,
        // "a deployment never overwrites an existing actor other than a placeholder or a self-destructed contract":
        // exactly one message leaves the EAM, and which one is decided by what already lives at the f4 address
        r.is_ok() ==> rt_pushed(old(rt), final(rt)) && final(rt).sends@.last().ok && ({
            let f4 = f4_of(EAM_ACTOR_ID, new_addr.0);
            let at = rt_resolve(f4, old(rt).sends@.len());
            let m = final(rt).sends@.last();
            match at {
                // nobody there: create through the init actor
                None => m.to == INIT_ACTOR_ADDR && m.method == ext::init::EXEC4_METHOD,
                Some(id) => match rt_code_of(id) {
                    Some(c) => match rt_builtin_type(c) {
                        // an EVM actor: only Resurrect (which the EVM actor accepts only when it is dead)
                        Some(Type::EVM) => m.to == (Address { id: id, proto: 0 }) && m.method == RESURRECT_METHOD && r->Ok_0.actor_id == id,
                        // a placeholder is upgraded through the init actor
                        Some(Type::Placeholder) => m.to == INIT_ACTOR_ADDR && m.method == ext::init::EXEC4_METHOD,
                        // anything else is never overwritten
                        _ => false,
                    },
                    None => false,
                },
            }
        }),
        // the received value is forwarded, never kept
        r.is_ok() ==> final(rt).sends@.last().value == old(rt).msg.value_received@,
        r.is_err() ==> final(rt).sends@.len() <= old(rt).sends@.len() + 1,
//@ end

// ---------------- CreateExternal ----------------
pub type CreateExternalReturn = Return;
//@ item actors/eam/src/lib.rs CreateExternalParams

/// the caller's "stable" eth address, from which the new contract's address is derived:
/// an Ethereum account's own f410 address; for a native account the last 20 bytes of Keccak-256 of its key (robust) address,
/// where `pubkey_ret` is what the account returned for PubkeyAddress
pub open spec fn stable_addr_spec(t: Type, caller_id: ActorID, pubkey_ret: Option<IpldBlock>) -> EthAddress {
    if t == Type::EthAccount { eth_addr_of(caller_id)->Some_0 } else { EthAddress(hash20_spec(addr_bytes_spec(deser_spec::<Address>(pubkey_ret)))) }
}
/// the address recorded as the new contract's creator ("owner")
pub open spec fn owner_addr_spec(t: Type, caller_id: ActorID) -> EthAddress {
    if t == Type::EthAccount { eth_addr_of(caller_id)->Some_0 } else { eth_from_id_spec(caller_id) }
}
/// the read-only PubkeyAddress query to the caller that succeeded
pub open spec fn pubkey_query(s: SendRec, caller: Address) -> bool {
    s.to == caller && s.method == PUBKEY_ADDRESS_METHOD && s.params.is_none() && s.value == 0 && s.read_only && s.ok && deser_ok::<Address>(s.ret)
}

//@ fn actors/eam/src/lib.rs resolve_caller_external sub0="Zero :: zero ()=>TokenAmount::zero()"
    requires
        !old(rt).in_tx@, old(rt).msg.caller.proto == 0,
        // the immediate caller is an existing actor, which has code (FVM)
        rt_code_of(old(rt).msg.caller.id).is_some(),
    ensures
        rt_frame(old(rt), final(rt)),
        // only native accounts and Ethereum accounts: never a contract (EVM), a placeholder, a multisig, ...
        r.is_ok() ==> ({
            let t = rt_builtin_type(rt_code_of(old(rt).msg.caller.id)->Some_0);
            let id = old(rt).msg.caller.id;
            &&& (t == Some(Type::Account) || t == Some(Type::EthAccount))
            &&& (t == Some(Type::EthAccount) ==> final(rt).sends == old(rt).sends && eth_addr_of(id).is_some()
                    && r->Ok_0.0 == owner_addr_spec(Type::EthAccount, id) && r->Ok_0.1 == stable_addr_spec(Type::EthAccount, id, None))
            &&& (t == Some(Type::Account) ==> rt_pushed(old(rt), final(rt)) && pubkey_query(final(rt).sends@.last(), old(rt).msg.caller)
                    && r->Ok_0.0 == owner_addr_spec(Type::Account, id) && r->Ok_0.1 == stable_addr_spec(Type::Account, id, final(rt).sends@.last().ret))
        }),
        r.is_err() ==> final(rt).sends@.len() <= old(rt).sends@.len() + 1,
        // nothing of value moves
        final(rt).balance@ == old(rt).balance@, final(rt).state_id == old(rt).state_id,
        // refused callers get `forbidden`
        ({ let t = rt_builtin_type(rt_code_of(old(rt).msg.caller.id)->Some_0); t != Some(Type::Account) && t != Some(Type::EthAccount) }) ==> r.is_err() && final(rt).sends == old(rt).sends,
//@ end

//@ fn actors/eam/src/lib.rs compute_address_create_external rt=ref
    ensures r == create_addr_spec(*from, rt.msg.nonce),
//@ end

//@ fn actors/eam/src/lib.rs EamActor::create_external free
    requires
        !old(rt).in_tx@, old(rt).validated@.is_none(), old(rt).msg.caller.proto == 0, old(rt).sends@.len() == 0,
        rt_code_of(old(rt).msg.caller.id).is_some(),
        forall|a: Address, n: nat| rt_resolve(a, n).is_some() ==> rt_code_of(#[trigger] rt_resolve(a, n)->Some_0).is_some(),
        forall|b: Option<IpldBlock>| (#[trigger] deser_spec::<Exec4Return>(b)).id_address.proto == 0,
    ensures
        // CreateExternal is open only to the ORIGIN of the top-level message (an externally-owned account calling the EAM directly) ...
        /*C11*/ /*C20*/ r.is_ok() ==> old(rt).msg.caller == old(rt).msg.origin && final(rt).validated@.is_some(),
        old(rt).msg.caller != old(rt).msg.origin ==> r.is_err() && final(rt).sends@.len() == 0,
        r.is_ok() ==> ({
            let id = old(rt).msg.caller.id;
            let t = rt_builtin_type(rt_code_of(id)->Some_0);
            let n = final(rt).sends@.len();
            // ... which is a native account or an Ethereum account — never an EVM contract (those use Create / Create2)
            &&& (t == Some(Type::Account) || t == Some(Type::EthAccount))
            // a native account is first asked (read-only) for its key address
            &&& n == (if t == Some(Type::Account) { 2nat } else { 1nat })
            &&& (t == Some(Type::Account) ==> pubkey_query(final(rt).sends@[0], old(rt).msg.caller))
            &&& (t == Some(Type::EthAccount) ==> eth_addr_of(id).is_some())
            // "contract addresses follow Ethereum's CREATE ... formula from the deployer's address and nonce": the deployer's stable eth
            // address and the nonce of the top-level message
            &&& r->Ok_0.eth_address == create_addr_spec(stable_addr_spec(t->Some_0, id, final(rt).sends@[0].ret), old(rt).msg.nonce)
            // "reserved address ranges are never assigned"
            &&& !eth_is_precompile(r->Ok_0.eth_address) && !eth_is_id(r->Ok_0.eth_address) && !eth_is_null(r->Ok_0.eth_address)
            // "a deployment never overwrites an existing actor other than a placeholder or a self-destructed contract"
            &&& ({
                let m = final(rt).sends@.last();
                let at = rt_resolve(f4_of(EAM_ACTOR_ID, r->Ok_0.eth_address.0), (n - 1) as nat);
                &&& m.ok && m.value == old(rt).msg.value_received@
                &&& match at {
                    None => m.to == INIT_ACTOR_ADDR && m.method == ext::init::EXEC4_METHOD,
                    Some(aid) => match rt_code_of(aid) {
                        Some(c) => match rt_builtin_type(c) {
                            Some(Type::EVM) => m.to == (Address { id: aid, proto: 0 }) && m.method == RESURRECT_METHOD && r->Ok_0.actor_id == aid,
                            Some(Type::Placeholder) => m.to == INIT_ACTOR_ADDR && m.method == ext::init::EXEC4_METHOD,
                            _ => false,
                        },
                        None => false,
                    },
                }
            })
        }),
        r.is_err() ==> final(rt).sends@.len() <= 2,
//@ end

// ---------------- constructor ----------------
//@ fn actors/eam/src/lib.rs EamActor::constructor free
    requires
        !old(rt).in_tx@, old(rt).validated@.is_none(),
        // the receiver of a message is an existing actor: its own address resolves (FVM)
        rt_resolve(old(rt).msg.receiver, old(rt).sends@.len()).is_some(),
    ensures
        // only the system actor constructs the address manager, and only at its reserved ID
        /*C11*/ /*C20*/ r.is_ok() ==> old(rt).msg.caller == SYSTEM_ACTOR_ADDR && final(rt).validated@.is_some(),
        r.is_ok() ==> rt_resolve(old(rt).msg.receiver, old(rt).sends@.len()) == Some(EAM_ACTOR_ID),
        old(rt).msg.caller != SYSTEM_ACTOR_ADDR ==> r.is_err(),
        // it writes no state and sends nothing
        final(rt).sends == old(rt).sends, final(rt).state_id == old(rt).state_id, final(rt).balance == old(rt).balance, final(rt).tx_log == old(rt).tx_log,
//@ end
} // verus!
fn main() {}
