// unit: Ethereum Address Manager — where a contract may be deployed (C20; caller clauses C11)
//@ include prelude/core.rs
//@ include prelude/ipld.rs
//@ include prelude/rt.rs
//@ include prelude/singletons.rs
//@ include prelude/cbor.rs
verus! {
//@ include prelude/eam_assumed.rs
pub mod ext {
    pub mod init {
        use super::super::*;
//@ const actors/eam/src/ext.rs EXEC4_METHOD
//@ item actors/eam/src/ext.rs Exec4Params
//@ item actors/eam/src/ext.rs Exec4Return
    }
    pub mod evm {
        use super::super::*;
//@ item actors/eam/src/ext.rs ConstructorParams
//@ const actors/eam/src/ext.rs RESURRECT_METHOD
    }
}
use ext::init::{Exec4Params, Exec4Return};
use ext::evm::RESURRECT_METHOD;
//@ item actors/eam/src/lib.rs Return

//@ fn actors/eam/src/lib.rs can_assign_address
    ensures
        // "reserved address ranges are never assigned": precompile range, embedded ID addresses, the null address
        r == (!eth_is_precompile(*addr) && !eth_is_id(*addr) && !eth_is_null(*addr)),
//@ end
//@ fn actors/eam/src/lib.rs Return::from_exec4
    requires exec4.id_address.proto == 0,
    ensures r.actor_id == exec4.id_address.id, r.robust_address == Some(exec4.robust_address), r.eth_address == eth_address,
//@ end

//@ fn actors/eam/src/lib.rs create_actor sub0="initcode . into ()=>RawBytes::vx_from_vec(initcode)" sub1="new_addr . 0 . to_vec () . into ()=>RawBytes::vx_from_vec(new_addr.0.to_vec())"
    requires
        !old(rt).in_tx@,
        // a resolved address names an existing actor, which has code (FVM)
        forall|a: Address, n: nat| rt_resolve(a, n).is_some() ==> rt_code_of(#[trigger] rt_resolve(a, n)->Some_0).is_some(),
        // the init actor answers Exec4 with an ID address (its contract, C20 init unit)
        forall|b: Option<IpldBlock>| (#[trigger] deser_spec::<Exec4Return>(b)).id_address.proto == 0,
    ensures
        rt_frame(old(rt), final(rt)),
        // "reserved address ranges are never assigned"
        r.is_ok() ==> !eth_is_precompile(new_addr) && !eth_is_id(new_addr) && !eth_is_null(new_addr) && r->Ok_0.eth_address == new_addr,
        // "a deployment never overwrites an existing actor other than a placeholder or a self-destructed contract":
        // exactly one message leaves the EAM, and which one is decided by what already lives at the f4 address
        r.is_ok() ==> rt_pushed(old(rt), final(rt)) && final(rt).sends@.last().ok && ({
            let f4 = f4_of(EAM_ACTOR_ID, new_addr.0);
            let at = rt_resolve(f4, old(rt).sends@.len());
            let m = final(rt).sends@.last();
            match at {
                // nobody there: create through the init actor
                None => m.to == INIT_ACTOR_ADDR && m.method == ext::init::EXEC4_METHOD,
                Some(id) => match rt_code_of(id) {
                    Some(c) => match rt_builtin_type(c) {
                        // an EVM actor: only Resurrect (which the EVM actor accepts only when it is dead)
                        Some(Type::EVM) => m.to == (Address { id: id, proto: 0 }) && m.method == RESURRECT_METHOD && r->Ok_0.actor_id == id,
                        // a placeholder is upgraded through the init actor
                        Some(Type::Placeholder) => m.to == INIT_ACTOR_ADDR && m.method == ext::init::EXEC4_METHOD,
                        // anything else is never overwritten
                        _ => false,
                    },
                    None => false,
                },
            }
        }),
        // the received value is forwarded, never kept
        r.is_ok() ==> final(rt).sends@.last().value == old(rt).msg.value_received@,
        r.is_err() ==> final(rt).sends@.len() <= old(rt).sends@.len() + 1,
//@ end

//@ item actors/eam/src/lib.rs CreateParams
//@ item actors/eam/src/lib.rs Create2Params
pub type CreateReturn = Return;
pub type Create2Return = Return;
//@ fn actors/eam/src/lib.rs EamActor::create free
    requires
        !old(rt).in_tx@, old(rt).validated@.is_none(), old(rt).msg.caller.proto == 0,
        forall|a: Address, n: nat| rt_resolve(a, n).is_some() ==> rt_code_of(#[trigger] rt_resolve(a, n)->Some_0).is_some(),
        forall|b: Option<IpldBlock>| (#[trigger] deser_spec::<Exec4Return>(b)).id_address.proto == 0,
    ensures
        // "only the address manager ['s EVM callers] ..." : CREATE is open to EVM contracts only
        /*C11*/ /*C20*/ r.is_ok() ==> old(rt).caller_type@ == Some(Type::EVM) && final(rt).validated@.is_some(),
        // "contract addresses follow Ethereum's CREATE ... formula from the deployer's address and nonce"
        r.is_ok() ==> eth_addr_of(old(rt).msg.caller.id).is_some()
            && r->Ok_0.eth_address == create_addr_spec(eth_addr_of(old(rt).msg.caller.id)->Some_0, params.nonce)
            && !eth_is_precompile(r->Ok_0.eth_address) && !eth_is_id(r->Ok_0.eth_address) && !eth_is_null(r->Ok_0.eth_address),
//@ end
//@ fn actors/eam/src/lib.rs EamActor::create2 free
    requires
        !old(rt).in_tx@, old(rt).validated@.is_none(), old(rt).msg.caller.proto == 0,
        forall|a: Address, n: nat| rt_resolve(a, n).is_some() ==> rt_code_of(#[trigger] rt_resolve(a, n)->Some_0).is_some(),
        forall|b: Option<IpldBlock>| (#[trigger] deser_spec::<Exec4Return>(b)).id_address.proto == 0,
    ensures
        /*C11*/ /*C20*/ r.is_ok() ==> old(rt).caller_type@ == Some(Type::EVM) && final(rt).validated@.is_some(),
        // "... and CREATE2 formula from the deployer's address and ... salt"
        r.is_ok() ==> eth_addr_of(old(rt).msg.caller.id).is_some()
            && r->Ok_0.eth_address == create2_addr_spec(eth_addr_of(old(rt).msg.caller.id)->Some_0, params.salt, params.initcode@)
            && !eth_is_precompile(r->Ok_0.eth_address) && !eth_is_id(r->Ok_0.eth_address) && !eth_is_null(r->Ok_0.eth_address),
//@ end
} // verus!
fn main() {}
