// unit: power actor — CreateMiner (closure + whole method), the constructor and the new-miner statistics (C20, C02)
//   * create_miner: exactly one message leaves before the transaction — Exec to the init actor, MINER code, the requested
//     constructor parameters, the value received; on success the id address init returned gets a ZERO claim with the
//     requested proof type, miner_count grows by one, no other claim and no network total moves; the two addresses init
//     returned are returned; if init fails nothing is recorded.
//   * constructor / State::new: all totals zero, no claims, empty cron queue, first_cron_epoch 0.
//   * update_stats_for_new_miner, and (shared, units/shared/power_state.inc) current_total_power / add_to_claim.
//@ include prelude/core.rs
//@ include prelude/ipld.rs
//@ include prelude/rt.rs
//@ include prelude/singletons.rs
//@ include prelude/policy.rs
//@ include prelude/power.rs
//@ include prelude/cbor.rs
verus! {
//@ include units/shared/power_state.inc
//@ const actors/power/src/state.rs CRON_QUEUE_HAMT_BITWIDTH
//@ const actors/power/src/state.rs CRON_QUEUE_AMT_BITWIDTH
//@ const actors/power/src/state.rs CLAIMS_CONFIG
//@ item actors/power/src/state.rs CronEvent
//@ item actors/power/src/types.rs CreateMinerParams
//@ item actors/power/src/types.rs CreateMinerReturn
//@ include prelude/power_cron_assumed.rs
pub mod ext {
    pub mod init {
        use super::super::*;
//@ const actors/power/src/ext.rs EXEC_METHOD
//@ item actors/power/src/ext.rs ExecParams
//@ item actors/power/src/ext.rs ExecReturn
    }
    pub mod miner {
        use super::super::*;
//@ item actors/power/src/ext.rs MinerConstructorParams
    }
}
use ext::init;
//@ include prelude/power_create_assumed.rs

pub open spec fn claims_of(s: State) -> Map<Address, Claim> { map2_decode::<Address, Claim>(s.claims) }
pub open spec fn queue_of(s: State) -> Map<BytesKey, Seq<CronEvent>> { mmap_decode(s.cron_event_queue) }

//@ fn actors/power/src/state.rs State::load_claims
    ensures vx_store_ok() ==> r.is_ok(), r.is_ok() ==> r->Ok_0.view() == claims_of(*self),
//@ end
//@ fn actors/power/src/state.rs State::save_claims
    ensures
        vx_store_ok() ==> r.is_ok(),
        r.is_ok() ==> claims_of(*final(self)) == old(claims).view() && *final(self) == (State { claims: final(self).claims, ..*old(self) }),
        r.is_err() ==> *final(self) == *old(self),
//@ end

// ======================= the statistics of a new miner (C02) =======================
/// a claim with zero power meets the consensus minimum exactly when the minimum is not positive
//@ fn actors/power/src/state.rs State::update_stats_for_new_miner
    requires old(self).miner_above_min_power_count < i64::MAX,
    ensures
        // whatever the outcome only the above-minimum counter can move
        *final(self) == (State { miner_above_min_power_count: final(self).miner_above_min_power_count, ..*old(self) }),
        // "a miner's power counts toward the network total exactly while it meets the minimum": a new claim has zero raw power, so it is
        // counted as above the minimum iff 0 >= min_power(proof type)
        r.is_ok() ==> final(self).miner_above_min_power_count == old(self).miner_above_min_power_count + above_zero(window_post_proof),
        r.is_err() ==> *final(self) == *old(self),
//@ end

/// the claim CreateMiner records: requested proof type, zero raw and quality-adjusted power
pub open spec fn is_zero_claim(c: Claim, p: RegisteredPoStProof) -> bool {
    c.window_post_proof_type == p && c.raw_byte_power@ == 0 && c.quality_adj_power@ == 0
}
/// what a zero-power claim of proof type p adds to the above-minimum miner counter (== above(c) for every such claim c)
pub open spec fn above_zero(p: RegisteredPoStProof) -> int { if 0 >= min_power_spec(p) { 1 } else { 0 } }

// ======================= CreateMiner: the transaction closure =======================
/// what the CreateMiner transaction does to the state: from s0 to s1, for the new miner `m` with proof type `p`
pub open spec fn cm_post(s0: State, s1: State, m: Address, p: RegisteredPoStProof) -> bool {
    let c0 = claims_of(s0);
    let c1 = claims_of(s1);
    // the new id address gets a claim with ZERO raw and QA power and the requested window-PoSt proof type
    &&& c1.dom().contains(m) && is_zero_claim(c1[m], p)
    // no other claim changes
    &&& c1 == c0.insert(m, c1[m])
    // the miner count grows by one
    &&& s1.miner_count == s0.miner_count + 1
    // the network totals do not move (a zero claim contributes nothing, committed or thresholded)
    &&& s1.total_raw_byte_power == s0.total_raw_byte_power && s1.total_quality_adj_power == s0.total_quality_adj_power
    &&& s1.total_bytes_committed == s0.total_bytes_committed && s1.total_qa_bytes_committed == s0.total_qa_bytes_committed
    // the above-minimum counter counts the new claim under the consensus-minimum rule (only when the minimum is <= 0)
    &&& s1.miner_above_min_power_count == s0.miner_above_min_power_count + above(c1[m])
    // nothing else: pledge total, epoch snapshots, cron queue
    &&& s1 == (State { claims: s1.claims, miner_count: s1.miner_count, miner_above_min_power_count: s1.miner_above_min_power_count, ..s0 })
}
//@ fn actors/power/src/lib.rs Actor::create_miner closure=0 as=cm_tx0 params="st: &mut State, rt: &mut Rt, id_address: Address, window_post_proof_type: RegisteredPoStProof" retty="Result<(), ActorError>"
    requires old(st).miner_count < i64::MAX, old(st).miner_above_min_power_count < i64::MAX,
    ensures
        *final(rt) == *old(rt),
        r.is_ok() ==> cm_post(*old(st), *final(st), id_address, window_post_proof_type),
//@ end

// ======================= CreateMiner: whole method =======================
/// the one message CreateMiner sends: Exec to the init actor, MINER code, the requested constructor parameters, the value received
pub open spec fn exec_params_of(code: Cid, ctor: u64) -> ext::init::ExecParams { ext::init::ExecParams { code_cid: code, constructor_params: RawBytes { h: ctor } } }
pub open spec fn exec_sent(m: SendRec, params: CreateMinerParams, value: int) -> bool {
    &&& m.to == INIT_ACTOR_ADDR && m.method == ext::init::EXEC_METHOD && m.value == value && !m.read_only
    &&& exists|code: Cid| #[trigger] rt_builtin_type(code) == Some(Type::Miner) && m.params == Some(IpldBlock { h: cbor_hash(exec_params_of(code,
            mcp_hash(params.owner, params.worker, Seq::<Address>::empty(), params.window_post_proof_type, params.peer@, params.multiaddrs@))) })
}
//@ fn actors/power/src/lib.rs Actor::create_miner free tx0="State;cm_tx0;&mut __vx_st, rt, id_address, window_post_proof_type"
    requires
        !old(rt).in_tx@, old(rt).sends@.len() == 0, old(rt).tx_log@.len() == 0, old(rt).validated@.is_none(),
        // representation bounds of the two counters hold in every committed power state (the Exec call may re-enter this actor)
        forall|id: int| (#[trigger] rt_state::<State>(id)).miner_count < i64::MAX && rt_state::<State>(id).miner_above_min_power_count < i64::MAX,
    ensures
        /*C11*/ r.is_ok() ==> final(rt).validated@ == Some(CallerSet::Any),
        // exactly one message is sent, whatever the outcome: the Exec (nothing else leaves this actor, before or after the transaction)
        final(rt).sends@.len() <= 1,
        final(rt).sends@.len() == 1 ==> exec_sent(final(rt).sends@[0], params, old(rt).msg.value_received@),
        r.is_ok() ==> final(rt).sends@.len() == 1 && final(rt).sends@[0].ok && deser_ok::<ext::init::ExecReturn>(final(rt).sends@[0].ret) && ({
            let ret = deser_spec::<ext::init::ExecReturn>(final(rt).sends@[0].ret);
            // the method returns the two addresses init returned
            &&& r->Ok_0.id_address == ret.id_address && r->Ok_0.robust_address == ret.robust_address
            // one transaction: the state it started from (the one current after the Exec call returned) and the state it committed
            &&& final(rt).tx_log@.len() == 1
            &&& exists|pre: int| cm_post(#[trigger] rt_state::<State>(pre), rt_state::<State>(final(rt).tx_log@[0]), ret.id_address, params.window_post_proof_type)
                    && (rt_no_reentry(INIT_ACTOR_ADDR, ext::init::EXEC_METHOD) ==> pre == old(rt).state_id@)
        }),
        // if init fails (or anything else does) nothing is recorded
        r.is_err() ==> final(rt).tx_log@.len() == 0,
        final(rt).sends@.len() == 1 && !final(rt).sends@[0].ok ==> r.is_err() && final(rt).state_id == old(rt).state_id,
//@ entry
        proof { axiom_mcp_hash(); }
//@ before "let window_post_proof_type"
        let ghost pre_id = rt.state_id@;
//@ before "CreateMinerReturn"
        proof { assert(cm_post(rt_state::<State>(pre_id), rt_state::<State>(rt.tx_log@[0]), id_address, params.window_post_proof_type)); }
//@ end

// ======================= the constructor: the initial state (C02) =======================
// derive(Default) of State and FilterEstimate re-stated (the extractor strips derives): every field is its type's default.
// Verified, not assumed. (`Cid::default()` is some fixed CID; State::new overwrites both Cid fields, so its value is immaterial.)
impl Default for FilterEstimate {
    fn default() -> (r: Self) ensures r.position@ == 0, r.velocity@ == 0 { FilterEstimate { position: Default::default(), velocity: Default::default() } }
}
impl Default for State {
    fn default() -> (r: Self)
        ensures
            r.total_raw_byte_power@ == 0, r.total_bytes_committed@ == 0, r.total_quality_adj_power@ == 0, r.total_qa_bytes_committed@ == 0,
            r.total_pledge_collateral@ == 0, r.this_epoch_raw_byte_power@ == 0, r.this_epoch_quality_adj_power@ == 0, r.this_epoch_pledge_collateral@ == 0,
            r.miner_count == 0, r.miner_above_min_power_count == 0, r.ramp_start_epoch == 0, r.ramp_duration_epochs == 0, r.first_cron_epoch == 0,
            r.proof_validation_batch.is_none(),
    {
        State {
            total_raw_byte_power: Default::default(), total_bytes_committed: Default::default(), total_quality_adj_power: Default::default(),
            total_qa_bytes_committed: Default::default(), total_pledge_collateral: Default::default(), this_epoch_raw_byte_power: Default::default(),
            this_epoch_quality_adj_power: Default::default(), this_epoch_pledge_collateral: Default::default(), this_epoch_qa_power_smoothed: Default::default(),
            miner_count: 0, miner_above_min_power_count: 0, ramp_start_epoch: 0, ramp_duration_epochs: 0,
            cron_event_queue: Cid { h: 0 }, first_cron_epoch: 0, claims: Cid { h: 0 }, proof_validation_batch: None,
        }
    }
}
/// the power actor's initial state: every total zero, no miner, no claim, no cron event, the scan starts at epoch 0
pub open spec fn initial_state(s: State) -> bool {
    &&& s.total_raw_byte_power@ == 0 && s.total_bytes_committed@ == 0 && s.total_quality_adj_power@ == 0 && s.total_qa_bytes_committed@ == 0
    &&& s.total_pledge_collateral@ == 0
    &&& s.this_epoch_raw_byte_power@ == 0 && s.this_epoch_quality_adj_power@ == 0 && s.this_epoch_pledge_collateral@ == 0
    &&& s.miner_count == 0 && s.miner_above_min_power_count == 0
    &&& claims_of(s) == Map::<Address, Claim>::empty()
    &&& queue_of(s) == Map::<BytesKey, Seq<CronEvent>>::empty()
    &&& s.first_cron_epoch == 0
    &&& s.proof_validation_batch.is_none()
}
//@ fn actors/power/src/state.rs State::new sub0="INITIAL_QA_POWER_ESTIMATE_POSITION . clone ()=>vx_initial_qa_power_estimate_position()" sub1="INITIAL_QA_POWER_ESTIMATE_VELOCITY . clone ()=>vx_initial_qa_power_estimate_velocity()"
    ensures
        vx_store_ok() ==> r.is_ok(),
        r.is_ok() ==> initial_state(r->Ok_0),
//@ end
//@ fn actors/power/src/lib.rs Actor::constructor free
    requires old(rt).validated@.is_none(),
    ensures
        /*C11*/ r.is_ok() ==> old(rt).msg.caller == SYSTEM_ACTOR_ADDR && final(rt).validated@.is_some(),
        // the state created is the initial state; nothing is sent
        r.is_ok() ==> initial_state(rt_state::<State>(final(rt).state_id@)) && final(rt).sends == old(rt).sends && final(rt).tx_log == old(rt).tx_log,
        r.is_err() ==> final(rt).state_id == old(rt).state_id,
//@ end

} // verus!
fn main() {}
