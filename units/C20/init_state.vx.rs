// unit: init actor — fresh, never-reused actor IDs; permitted creator/code combinations (C20)
//@ include prelude/core.rs
//@ include prelude/ipld.rs
//@ include prelude/rt.rs
verus! {

//@ item actors/init/src/state.rs State
//@ item actors/init/src/state.rs AddressMap

pub open spec fn amap(s: State) -> Map<Address, ActorID> { map2_decode::<Address, ActorID>(s.address_map) }
/// every ID handed out so far is below the counter: a fresh ID (== counter) is in nobody's range
pub open spec fn ids_below(m: Map<Address, ActorID>, next: ActorID) -> bool {
    forall|k: Address| m.dom().contains(k) ==> #[trigger] m[k] < next
}

//@ fn actors/init/src/state.rs State::map_addresses_to_id ret=res
    requires
        old(self).next_id < u64::MAX,
        ids_below(amap(*old(self)), old(self).next_id),
    ensures
        res.is_ok() ==> ({
            let (id, existing) = res->Ok_0;
            let m0 = amap(*old(self));
            let m1 = amap(*final(self));
            // the counter only grows
            &&& final(self).next_id >= old(self).next_id
            // a new actor gets the counter value, which no address maps to: never used before
            &&& (!existing ==> id == old(self).next_id && final(self).next_id == old(self).next_id + 1
                    && forall|k: Address| m0.dom().contains(k) ==> #[trigger] m0[k] != id)
            // an existing delegated (f4) mapping is recalled, not re-allocated
            &&& (existing ==> delegated_addr.is_some() && m0.dom().contains(*delegated_addr->Some_0)
                    && id == m0[*delegated_addr->Some_0] && final(self).next_id == old(self).next_id)
            // the stable address was unmapped before and maps to the ID from now on; nothing else changes
            &&& !m0.dom().contains(*robust_addr)
            &&& m1.dom().contains(*robust_addr) && m1[*robust_addr] == id
            &&& (delegated_addr.is_some() ==> m1.dom().contains(*delegated_addr->Some_0) && m1[*delegated_addr->Some_0] == id)
            &&& forall|k: Address| k != *robust_addr && !(delegated_addr.is_some() && k == *delegated_addr->Some_0) ==>
                    (m1.dom().contains(k) == m0.dom().contains(k) && (m0.dom().contains(k) ==> #[trigger] m1[k] == m0[k]))
            &&& ids_below(m1, final(self).next_id)
        }),
//@ end

//@ fn actors/init/src/lib.rs can_exec rt=ref r10
    ensures
        // anyone may create multisigs and payment channels; only the power actor miners; nothing else through Exec
        r == match rt_builtin_type(*exec) {
            Some(Type::Multisig) => true,
            Some(Type::PaymentChannel) => true,
            Some(Type::Miner) => rt_builtin_type(*caller) == Some(Type::Power),
            _ => false,
        },
//@ end

} // verus!
fn main() {}
