// unit: init actor — fresh, never-reused actor IDs; permitted creator/code combinations (C20)
//@ include prelude/core.rs
//@ include prelude/ipld.rs
//@ include prelude/rt.rs
//@ include prelude/singletons.rs
macro_rules! log_trace { ($($t:tt)*) => { () } }
verus! {

//@ item actors/init/src/state.rs State
//@ item actors/init/src/state.rs AddressMap
//@ item actors/init/src/types.rs ExecParams
//@ item actors/init/src/types.rs ExecReturn
//@ item actors/init/src/types.rs Exec4Params
//@ item actors/init/src/types.rs Exec4Return
//@ include prelude/init_assumed.rs

pub open spec fn amap(s: State) -> Map<Address, ActorID> { map2_decode::<Address, ActorID>(s.address_map) }
/// every ID handed out so far is below the counter: a fresh ID (== counter) is in nobody's range
pub open spec fn ids_below(m: Map<Address, ActorID>, next: ActorID) -> bool {
    forall|k: Address| m.dom().contains(k) ==> #[trigger] m[k] < next
}

//@ fn actors/init/src/state.rs State::map_addresses_to_id ret=res
    requires
        old(self).next_id < u64::MAX,
        ids_below(amap(*old(self)), old(self).next_id),
    ensures
        res.is_ok() ==> ({
            let (id, existing) = res->Ok_0;
            let m0 = amap(*old(self));
            let m1 = amap(*final(self));
            // the counter only grows
            &&& final(self).next_id >= old(self).next_id
            // a new actor gets the counter value, which no address maps to: never used before
            &&& (!existing ==> id == old(self).next_id && final(self).next_id == old(self).next_id + 1
                    && forall|k: Address| m0.dom().contains(k) ==> #[trigger] m0[k] != id)
            // an existing delegated (f4) mapping is recalled, not re-allocated
            &&& (existing <==> delegated_addr.is_some() && m0.dom().contains(*delegated_addr->Some_0))
            &&& (existing ==> id == m0[*delegated_addr->Some_0] && final(self).next_id == old(self).next_id)
            // the stable address was unmapped before and maps to the ID from now on; nothing else changes
            &&& !m0.dom().contains(*robust_addr)
            &&& m1.dom().contains(*robust_addr) && m1[*robust_addr] == id
            &&& (delegated_addr.is_some() ==> m1.dom().contains(*delegated_addr->Some_0) && m1[*delegated_addr->Some_0] == id)
            &&& forall|k: Address| #![trigger m1.dom().contains(k)] #![trigger m1[k]] k != *robust_addr && !(delegated_addr.is_some() && k == *delegated_addr->Some_0) ==>
                    (m1.dom().contains(k) == m0.dom().contains(k) && (m0.dom().contains(k) ==> m1[k] == m0[k]))
            &&& ids_below(m1, final(self).next_id)
        }),
//@ end

//@ fn actors/init/src/lib.rs can_exec rt=ref r10
    ensures
        // anyone may create multisigs and payment channels; only the power actor miners; nothing else through Exec
        r == match rt_builtin_type(*exec) {
            Some(Type::Multisig) => true,
            Some(Type::PaymentChannel) => true,
            Some(Type::Miner) => rt_builtin_type(*caller) == Some(Type::Power),
            _ => false,
        },
//@ end

// ======================= Exec / Exec4: the methods =======================
/// the state invariant the ID allocator relies on (established by the constructor, kept by map_addresses_to_id)
pub open spec fn init_inv(s: State) -> bool { s.next_id < u64::MAX && ids_below(amap(s), s.next_id) }

//@ fn actors/init/src/lib.rs Actor::exec closure=0 as=exec_tx0 params="s: &mut State, rt: &Rt, robust_address: Address" retty="Result<(ActorID, bool), ActorError>" ret=res
    requires init_inv(*old(s)),
    ensures
        res.is_ok() ==> ({
            let (id, existing) = res->Ok_0;
            &&& !existing && id == old(s).next_id && final(s).next_id == old(s).next_id + 1
            &&& (forall|k: Address| amap(*old(s)).dom().contains(k) ==> #[trigger] amap(*old(s))[k] != id)
            &&& amap(*final(s)).dom().contains(robust_address) && amap(*final(s))[robust_address] == id && !amap(*old(s)).dom().contains(robust_address)
            &&& (forall|k: Address| #![trigger amap(*final(s)).dom().contains(k)] #![trigger amap(*final(s))[k]] k != robust_address ==> (amap(*final(s)).dom().contains(k) == amap(*old(s)).dom().contains(k)
                    && (amap(*old(s)).dom().contains(k) ==> amap(*final(s))[k] == amap(*old(s))[k])))
            &&& init_inv(*final(s)) || final(s).next_id == u64::MAX
        }),
//@ end
//@ fn actors/init/src/lib.rs Actor::exec4 closure=0 as=exec4_tx0 params="s: &mut State, rt: &Rt, robust_address: Address, delegated_address: Address" retty="Result<(ActorID, bool), ActorError>" ret=res
    requires init_inv(*old(s)),
    ensures
        res.is_ok() ==> ({
            let (id, existing) = res->Ok_0;
            let m0 = amap(*old(s));
            &&& existing == m0.dom().contains(delegated_address)
            &&& (existing ==> id == m0[delegated_address] && final(s).next_id == old(s).next_id)
            &&& (!existing ==> id == old(s).next_id && final(s).next_id == old(s).next_id + 1 && (forall|k: Address| m0.dom().contains(k) ==> #[trigger] m0[k] != id))
            &&& amap(*final(s)).dom().contains(robust_address) && amap(*final(s))[robust_address] == id
            &&& amap(*final(s)).dom().contains(delegated_address) && amap(*final(s))[delegated_address] == id
            &&& init_inv(*final(s)) || final(s).next_id == u64::MAX
        }),
//@ end

//@ fn actors/init/src/lib.rs Actor::exec free tx0="State;exec_tx0;&mut __vx_st, rt, robust_address" ret=res suball0="log :: trace !=>log_trace !" 
    requires
        !old(rt).in_tx@, old(rt).sends@.len() == 0, old(rt).created@.len() == 0,
        init_inv(rt_state::<State>(old(rt).state_id@)),
        old(rt).msg.caller.proto == 0,
    ensures
        res.is_ok() ==> ({
            let s0 = rt_state::<State>(old(rt).state_id@);
            let id = s0.next_id;
            let caller_code = rt_code_of(old(rt).msg.caller.id);
            // only permitted creator/code combinations: anyone may create multisigs and payment channels, only the power actor miners
            &&& caller_code.is_some()
            &&& match rt_builtin_type(params.code_cid) {
                    Some(Type::Multisig) => true,
                    Some(Type::PaymentChannel) => true,
                    Some(Type::Miner) => rt_builtin_type(caller_code->Some_0) == Some(Type::Power),
                    _ => false,
                }
            // exactly one actor is created, with the requested code, under the FRESH id (the old counter value, which no address mapped to)
            &&& final(rt).created@ =~= seq![CreateRec { code: params.code_cid, id: id, predictable: None }]
            &&& (forall|k: Address| amap(s0).dom().contains(k) ==> #[trigger] amap(s0)[k] != id)
            // its constructor is the one message sent, with the value received, and it succeeded
            &&& final(rt).sends@.len() == 1 && final(rt).sends@[0].to == (Address { id: id, proto: 0 }) && final(rt).sends@[0].method == METHOD_CONSTRUCTOR
            &&& final(rt).sends@[0].value == old(rt).msg.value_received@ && final(rt).sends@[0].ok
            // the result names that id and the stable address
            &&& res->Ok_0.id_address == (Address { id: id, proto: 0 })
            &&& res->Ok_0.robust_address == rt_new_actor_address(0, 0)
        }),
        // nothing is created unless the id was allocated in this very call
        res.is_err() ==> final(rt).created@.len() <= 1,
//@ end

//@ fn actors/init/src/lib.rs Actor::exec4 free tx0="State;exec4_tx0;&mut __vx_st, rt, robust_address, delegated_address" ret=res suball0="log :: trace !=>log_trace !"
    requires
        !old(rt).in_tx@, old(rt).sends@.len() == 0, old(rt).created@.len() == 0,
        init_inv(rt_state::<State>(old(rt).state_id@)),
        old(rt).msg.caller.proto == 0,
    ensures
        res.is_ok() ==> ({
            let s0 = rt_state::<State>(old(rt).state_id@);
            let m0 = amap(s0);
            let f4 = f4_addr_spec(old(rt).msg.caller.id, params.subaddress);
            let existing = m0.dom().contains(f4);
            let id = if existing { m0[f4] } else { s0.next_id };
            // only the address manager may deploy under a delegated (f4) address, and the address is in ITS namespace
            &&& old(rt).msg.caller == EAM_ACTOR_ADDR
            // a deployment never overwrites an existing actor other than a placeholder
            &&& (existing ==> rt_code_of(id).is_some() && rt_builtin_type(rt_code_of(id)->Some_0) == Some(Type::Placeholder))
            &&& (!existing ==> forall|k: Address| m0.dom().contains(k) ==> #[trigger] m0[k] != id)
            &&& final(rt).created@ =~= seq![CreateRec { code: params.code_cid, id: id, predictable: Some(f4) }]
            &&& final(rt).sends@.len() == 1 && final(rt).sends@[0].to == (Address { id: id, proto: 0 }) && final(rt).sends@[0].method == METHOD_CONSTRUCTOR
            &&& final(rt).sends@[0].value == old(rt).msg.value_received@ && final(rt).sends@[0].ok
            &&& res->Ok_0.id_address == (Address { id: id, proto: 0 })
        }),
        /*C11*/ res.is_ok() ==> final(rt).validated@.is_some(),
//@ end

} // verus!
fn main() {}
