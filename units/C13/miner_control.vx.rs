// unit: miner control handover — owner, worker key, beneficiary (C13)
//@ include prelude/core.rs
//@ include prelude/ipld.rs
//@ include prelude/bitfield.rs
//@ include prelude/rt.rs
//@ include prelude/singletons.rs
//@ include prelude/policy.rs
//@ include prelude/cbor.rs
verus! {
//@ item actors/miner/src/policy.rs VestSpec
//@ item runtime/src/builtin/reward/smooth/alpha_beta_filter.rs FilterEstimate
}
//@ include prelude/miner_vesting.rs
//@ include prelude/miner_ext.rs
use std::cmp;
verus! {

//@ include units/shared/miner_funds.inc
//@ include units/shared/miner_info.inc

/// frame: every MinerInfo field that a handover step may NOT touch
pub open spec fn info_static_eq(a: MinerInfo, b: MinerInfo) -> bool {
    &&& a.peer_id == b.peer_id && a.multi_address == b.multi_address
    &&& a.window_post_proof_type == b.window_post_proof_type && a.sector_size == b.sector_size
    &&& a.window_post_partition_sectors == b.window_post_partition_sectors
    &&& a.consensus_fault_elapsed == b.consensus_fault_elapsed
}
/// funds and sector bookkeeping of the miner are untouched by control changes
pub open spec fn st_funds_eq(a: State, b: State) -> bool {
    &&& a.pre_commit_deposits == b.pre_commit_deposits && a.locked_funds == b.locked_funds
    &&& a.vesting_funds == b.vesting_funds && a.fee_debt == b.fee_debt && a.initial_pledge == b.initial_pledge
    &&& st_rest_eq_but_info(a, b)
}

// ======================= owner: propose, then the SUCCESSOR ITSELF confirms the same address =======================
//@ fn actors/miner/src/lib.rs Actor::change_owner_address closure=0 as=owner_tx0 params="state: &mut State, rt: &mut Rt, new_address: Address" retty="Result<(), ActorError>"
    requires
        old(rt).validated@.is_none(),
    ensures
        st_funds_eq(*old(state), *final(state)),
        // of the runtime only the "caller validated" flag moves
        *final(rt) == (Rt { validated: final(rt).validated, ..*old(rt) }),
        /*C11*/ r.is_ok() ==> final(rt).validated@.is_some() && (old(rt).msg.caller == info_of(*old(state))->Some_0.owner || info_of(*old(state))->Some_0.pending_owner_address == Some(old(rt).msg.caller)),
        r.is_ok() ==> info_of(*old(state)).is_some() && info_of(*final(state)).is_some() && ({
            let i0 = info_of(*old(state))->Some_0;
            let i1 = info_of(*final(state))->Some_0;
            let caller = old(rt).msg.caller;
            // nobody but the owner or the proposed successor gets through
            &&& (caller == i0.owner || (i0.pending_owner_address.is_some() && caller == i0.pending_owner_address->Some_0))
            // the owner changes only when the pending successor itself confirms exactly the pending address
            &&& (i1.owner != i0.owner ==> i0.pending_owner_address.is_some() && caller == i0.pending_owner_address->Some_0
                    && caller != i0.owner && new_address == i0.pending_owner_address->Some_0 && i1.owner == new_address
                    && i1.pending_owner_address.is_none())
            // a proposal is created / replaced / withdrawn only by the current owner
            &&& (caller == i0.owner ==> i1.owner == i0.owner && i1.beneficiary == i0.beneficiary
                    && i1.pending_beneficiary_term == i0.pending_beneficiary_term
                    && i1.pending_owner_address == (if new_address == i0.owner { None::<Address> } else { Some(new_address) }))
            // on confirmation the beneficiary follows only if it was the old owner; a pending beneficiary change is cancelled
            &&& (i1.owner != i0.owner ==> i1.beneficiary == (if i0.beneficiary == i0.owner { new_address } else { i0.beneficiary })
                    && i1.pending_beneficiary_term.is_none())
            // until the handover completes the previous owner keeps its rights; nothing else moves
            &&& i1.worker == i0.worker && i1.control_addresses == i0.control_addresses && i1.pending_worker_key == i0.pending_worker_key
            &&& i1.beneficiary_term == i0.beneficiary_term && info_static_eq(i0, i1)
        }),
        r.is_err() ==> *final(state) == *old(state),
//@ end

// the whole method: the successor must be named by an ID address; state changes only through the closure above
//@ item actors/miner/src/types.rs ChangeOwnerAddressParams
//@ include prelude/address_protocol.rs
//@ fn actors/miner/src/lib.rs Actor::change_owner_address free tx0="State;owner_tx0;&mut __vx_st, rt, new_address" ret=res
    requires !old(rt).in_tx@, old(rt).validated@.is_none(), old(rt).tx_log@.len() == 0,
    ensures
        res.is_ok() ==> params.new_owner.proto == 0,
        res.is_ok() ==> final(rt).tx_log@.len() == 1 && ({
            let s0 = rt_state::<State>(old(rt).state_id@);
            let s1 = rt_state::<State>(final(rt).state_id@);
            let caller = old(rt).msg.caller;
            &&& info_of(s0).is_some() && info_of(s1).is_some()
            &&& (caller == info_of(s0)->Some_0.owner || info_of(s0)->Some_0.pending_owner_address == Some(caller))
            // the owner changes only when the pending successor itself confirms exactly the pending address
            &&& (info_of(s1)->Some_0.owner != info_of(s0)->Some_0.owner ==> info_of(s0)->Some_0.pending_owner_address == Some(caller)
                    && params.new_owner == caller && info_of(s1)->Some_0.owner == caller)
            &&& st_funds_eq(s0, s1)
        }),
        /*C11*/ res.is_ok() ==> final(rt).validated@.is_some(),
        res.is_err() ==> final(rt).state_id == old(rt).state_id && final(rt).sends == old(rt).sends,
//@ end

// ======================= worker key: requested by the owner, effective only after the security delay =======================
//@ fn actors/miner/src/lib.rs process_pending_worker rt=ref
    requires
        info_of(*old(state)) == Some(*old(info)),
    ensures
        st_funds_eq(*old(state), *final(state)),
        // the worker changes only if a change is pending AND its effective epoch has arrived
        r.is_ok() ==> ({
            let due = old(info).pending_worker_key.is_some() && rt.epoch >= old(info).pending_worker_key->Some_0.effective_at;
            &&& (due ==> final(info).worker == old(info).pending_worker_key->Some_0.new_worker && final(info).pending_worker_key.is_none()
                    && info_of(*final(state)) == Some(*final(info)))
            &&& (!due ==> *final(info) == *old(info) && *final(state) == *old(state))
            &&& final(info).owner == old(info).owner && final(info).control_addresses == old(info).control_addresses
            &&& final(info).beneficiary == old(info).beneficiary && final(info).pending_owner_address == old(info).pending_owner_address
            &&& final(info).beneficiary_term == old(info).beneficiary_term && final(info).pending_beneficiary_term == old(info).pending_beneficiary_term
            &&& info_static_eq(*old(info), *final(info))
        }),
//@ end

//@ fn actors/miner/src/lib.rs Actor::confirm_change_worker_address closure=0 as=confirm_worker_tx0 params="state: &mut State, rt: &mut Rt" retty="Result<(), ActorError>"
    requires
        old(rt).validated@.is_none(),
    ensures
        st_funds_eq(*old(state), *final(state)),
        /*C11*/ r.is_ok() ==> final(rt).validated@.is_some() && old(rt).msg.caller == info_of(*old(state))->Some_0.owner,
        r.is_ok() ==> info_of(*old(state)).is_some() && info_of(*final(state)).is_some() && ({
            let i0 = info_of(*old(state))->Some_0;
            let i1 = info_of(*final(state))->Some_0;
            &&& old(rt).msg.caller == i0.owner
            // "takes effect no earlier than the security delay after the owner requested it"
            &&& (i1.worker != i0.worker ==> i0.pending_worker_key.is_some() && old(rt).epoch >= i0.pending_worker_key->Some_0.effective_at
                    && i1.worker == i0.pending_worker_key->Some_0.new_worker)
            &&& i1.owner == i0.owner && i1.beneficiary == i0.beneficiary && i1.control_addresses == i0.control_addresses
        }),
//@ end

//@ fn actors/miner/src/lib.rs Actor::change_worker_address closure=0 as=change_worker_tx0 params="state: &mut State, rt: &mut Rt, new_worker: Address, control_addresses: Vec<Address>" retty="Result<(), ActorError>"
    requires
        old(rt).validated@.is_none(),
        0 <= old(rt).epoch, 0 <= rt_policy().worker_key_change_delay, old(rt).epoch + rt_policy().worker_key_change_delay <= i64::MAX,
    ensures
        st_funds_eq(*old(state), *final(state)),
        /*C11*/ r.is_ok() ==> final(rt).validated@.is_some() && old(rt).msg.caller == info_of(*old(state))->Some_0.owner,
        r.is_ok() ==> info_of(*old(state)).is_some() && info_of(*final(state)).is_some() && ({
            let i0 = info_of(*old(state))->Some_0;
            let i1 = info_of(*final(state))->Some_0;
            // only the owner; the worker itself does NOT change here, a request is only recorded with the delay, and a pending key is never overwritten
            &&& old(rt).msg.caller == i0.owner
            &&& i1.worker == i0.worker
            &&& (i0.pending_worker_key.is_some() ==> i1.pending_worker_key == i0.pending_worker_key)
            &&& (i0.pending_worker_key.is_none() && new_worker != i0.worker ==> i1.pending_worker_key.is_some()
                    && i1.pending_worker_key->Some_0.new_worker == new_worker
                    && i1.pending_worker_key->Some_0.effective_at == old(rt).epoch + rt_policy().worker_key_change_delay)
            &&& (i0.pending_worker_key.is_none() && new_worker == i0.worker ==> i1.pending_worker_key.is_none())
            &&& i1.control_addresses == control_addresses
            &&& i1.owner == i0.owner && i1.beneficiary == i0.beneficiary && i1.pending_owner_address == i0.pending_owner_address
            &&& i1.beneficiary_term == i0.beneficiary_term && i1.pending_beneficiary_term == i0.pending_beneficiary_term
            &&& info_static_eq(i0, i1)
        }),
        r.is_err() ==> *final(state) == *old(state),
//@ end

// ======================= beneficiary: proposal by the owner, approval by BOTH nominee and current beneficiary =======================
//@ item actors/miner/src/types.rs ChangeBeneficiaryParams
//@ fn actors/miner/src/beneficiary.rs PendingBeneficiaryChange::new
    ensures r.new_beneficiary == new_beneficiary, r.new_quota == new_quota, r.new_expiration == new_expiration,
            !r.approved_by_beneficiary, !r.approved_by_nominee,
//@ end
//@ fn actors/miner/src/beneficiary.rs BeneficiaryTerm::available
    ensures
        // quota left while the term is active, nothing once it has expired
        r@ == (if self.expiration > cur { if self.quota@ - self.used_quota@ > 0 { self.quota@ - self.used_quota@ } else { 0 } } else { 0 }),
//@ end

//@ fn actors/miner/src/lib.rs Actor::change_beneficiary closure=0 as=beneficiary_tx0 params="state: &mut State, rt: &mut Rt, caller: Address, new_beneficiary: Address, params: ChangeBeneficiaryParams" retty="Result<(), ActorError>"
    ensures
        st_funds_eq(*old(state), *final(state)),
        r.is_ok() ==> info_of(*old(state)).is_some() && info_of(*final(state)).is_some() && ({
            let i0 = info_of(*old(state))->Some_0;
            let i1 = info_of(*final(state))->Some_0;
            let term_idle = i0.beneficiary_term.expiration <= old(rt).epoch || i0.beneficiary_term.quota@ - i0.beneficiary_term.used_quota@ <= 0;
            // proposals only by the owner; confirmations only by the nominee or the current beneficiary and only for the SAME (address, quota, expiration)
            &&& (caller == i0.owner || (i0.pending_beneficiary_term.is_some() && (caller == i0.beneficiary || caller == i0.pending_beneficiary_term->Some_0.new_beneficiary)))
            &&& (caller != i0.owner ==> i0.pending_beneficiary_term->Some_0.new_beneficiary == new_beneficiary
                    && i0.pending_beneficiary_term->Some_0.new_quota@ == params.new_quota@
                    && i0.pending_beneficiary_term->Some_0.new_expiration == params.new_expiration)
            // the beneficiary changes only with the nominee's approval AND the current beneficiary's approval
            // (the latter is automatic only when the current term has no quota left or has expired)
            &&& (i1.beneficiary != i0.beneficiary ==> i1.beneficiary == new_beneficiary
                    && (caller == new_beneficiary || (caller != i0.owner && i0.pending_beneficiary_term->Some_0.approved_by_nominee))
                    && (caller == i0.beneficiary
                        || (caller == i0.owner && term_idle)
                        || (caller != i0.owner && i0.pending_beneficiary_term->Some_0.approved_by_beneficiary)))
            // used quota resets only when the beneficiary actually changes
            &&& (i1.beneficiary == i0.beneficiary ==> i1.beneficiary_term.used_quota@ == i0.beneficiary_term.used_quota@)
            // a NEW beneficiary starts a fresh term: nothing used yet, with exactly the approved quota and expiration
            // (otherwise its term would look exhausted and the owner could replace it without its approval)
            &&& (i1.beneficiary != i0.beneficiary ==> i1.beneficiary_term.used_quota@ == 0
                    && i1.beneficiary_term.quota@ == params.new_quota@ && i1.beneficiary_term.expiration == params.new_expiration
                    && i1.pending_beneficiary_term.is_none())
            // while a proposal is only pending, the current term is untouched
            &&& (i1.pending_beneficiary_term.is_some() ==> i1.beneficiary == i0.beneficiary && i1.beneficiary_term.quota@ == i0.beneficiary_term.quota@
                    && i1.beneficiary_term.expiration == i0.beneficiary_term.expiration)
            // owner, worker and control addresses are never touched here
            &&& i1.owner == i0.owner && i1.worker == i0.worker && i1.control_addresses == i0.control_addresses
            &&& i1.pending_owner_address == i0.pending_owner_address && i1.pending_worker_key == i0.pending_worker_key
            &&& info_static_eq(i0, i1)
        }),
        r.is_err() ==> *final(state) == *old(state),
//@ end

} // verus!
fn main() {}
