// unit: miner ExtendSectorExpiration2 — how a declaration's claims are fetched from the registry and turned into per-sector (declared, kept) claim space (C10)
// Under contract: get_claims (one GetClaims query to the registry for THIS miner and exactly the given ids, accepted only with >= ids.len() successes),
// validate_extension_declarations (VERIFIED: per entry one query for maintain ++ drop; every claim returned is this miner's and the entry's sector's; every
// KEPT claim covers the declaration's new expiration; the returned map holds per sector (sum of ALL returned claim sizes, sum of the KEPT ones)),
// lemma_extension_composed (with extend_simple_qap_sector's contract: declared space == sector's verified space, new weight == kept space x new
// duration, a drop only inside end_of_life_claim_drop_period), lemma_cover_when_named_once.
// COMPANION OBLIGATION `validate_extension_declarations_prop` adds the two property clauses `ids_counted_once` and `kept_cover_all`. On the code
// BEFORE the repair it failed on exactly these two (candidate defects D1 / D2, both replayed against the real actor, replay_miner_extend_decl.diff):
//  D1 a claim id listed twice for a sector (`maintain_claims: [A, A]`) is counted twice and can stand in for an undeclared claim B whose term is exceeded;
//  D2 the claim space is keyed by sector only, so a second declaration naming the same sector with a later new expiration reused the entry.
// The repaired code (three checks: a sector is declared with claims once per message — BTreeSet `sectors_declared_with_claims`; no claim id twice in
// maintain ++ drop — BTreeSet `seen_claim_ids`; no plain sector is in `sectors_declared_with_claims`) establishes `sectors_distinct`, `ids_nodup`,
// `plain_not_declared` (part of the base contract), and `lemma_prop_clauses` derives both property clauses from them with NO assumption on the registry's
// answers. This template addresses the SIX loops of the repaired function by ordinal: on the unrepaired source vx answers exit 2 (UNDECIDED, "names loop 3");
// the template for the unrepaired shape is kept next to this file as miner_extend_decl_unfixed.vx.rs.bak.
// Tool-limit rewrites (listed in the evidence): `entry(k).and_modify(|(check, maintain)| BODY).or_insert(v)` becomes
// `if let Some((check, maintain)) = m.get_mut(&k) BODY; m.entry(k).or_insert(v)` (std identity; BODY and v stay the extracted text);
// `for (i, claim) in claims.iter().enumerate()` becomes `for i in 0..claims.len()` + `let claim = &claims[i]` (loopstart 2); the final
// `extensions.into_iter().map(|e2| e2.into()).collect()` is the stub vx_into_validated; `batch_info.success_count` reads through vx_success_count.
// Assumptions stated as preconditions: answers_wf(cap) (registry answers have representable claim terms and bounded total size — the u64 running totals do
// not overflow; the actor is built with overflow checks, an overflow aborts).
//@ include prelude/core.rs
//@ include prelude/ipld.rs
//@ include prelude/bitfield.rs
//@ include prelude/rt.rs
//@ include prelude/singletons.rs
//@ include prelude/policy.rs
//@ include prelude/cbor.rs
//@ include prelude/batch.rs
//@ include prelude/btreemap.rs
//@ include prelude/btreeset.rs
verus! {
#[derive(Clone, Copy, PartialEq, Eq, Structural)]
pub struct PaddedPieceSize(pub u64);
pub type ClaimID = u64;
//@ item actors/miner/src/types.rs SectorClaim
//@ item actors/miner/src/types.rs ExpirationExtension2
//@ item actors/miner/src/lib.rs ValidatedExpirationExtension
//@ item actors/miner/src/lib.rs ExtendExpirationsInner
// (ext::verifreg of the miner crate; the items sit at top level because `derive(Structural)` inside a nested module crashes this Verus)
//@ item actors/miner/src/ext.rs Claim attr="#[derive(Clone, Copy, PartialEq, Eq, Structural)]"
//@ item actors/miner/src/ext.rs GetClaimsParams
//@ item actors/miner/src/ext.rs GetClaimsReturn
pub mod ext {
    pub mod verifreg {
        pub type ClaimID = u64;
        pub type Claim = super::super::Claim;
        pub type GetClaimsParams = super::super::GetClaimsParams;
        pub type GetClaimsReturn = super::super::GetClaimsReturn;
//@ const actors/miner/src/ext.rs GET_CLAIMS_METHOD
    }
}
//@ include prelude/verifreg_hook_miner_assumed.rs

/// the claims a registry answer decodes to
pub open spec fn resp_claims(ret: Option<IpldBlock>) -> Seq<Claim> { deser_spec::<ext::verifreg::GetClaimsReturn>(ret).claims@ }

//@ fn actors/miner/src/lib.rs get_claims sub0="ids . to_owned ()=>vx_slice_to_vec(ids)" sub1="claims_ret . batch_info . success_count=>claims_ret.batch_info.vx_success_count()"
    requires !old(rt).in_tx@, old(rt).msg.receiver.proto == 0,
    ensures
        rt_frame(old(rt), final(rt)),
        r.is_err() ==> (rt_pushed(old(rt), final(rt)) || *final(rt) == *old(rt)),
        // Ok: exactly one query was sent to the verified registry, naming THIS miner as provider and exactly the given ids; the answer decodes,
        // reports at least as many successes as ids were asked, and its claims are what is returned
        r.is_ok() ==> rt_pushed(old(rt), final(rt)) && ({
            let s = final(rt).sends@.last();
            &&& s.ok && s.to == VERIFIED_REGISTRY_ACTOR_ADDR && s.method == ext::verifreg::GET_CLAIMS_METHOD && s.value == 0
            &&& exists|p: ext::verifreg::GetClaimsParams| s.params == Some(IpldBlock { h: #[trigger] cbor_hash(p) }) && p.provider == old(rt).msg.receiver.id && p.claim_ids@ == ids@
            &&& deser_ok::<ext::verifreg::GetClaimsReturn>(s.ret)
            &&& succ_count(deser_spec::<ext::verifreg::GetClaimsReturn>(s.ret).batch_info.codes()) >= ids@.len()
            &&& r->Ok_0@ == resp_claims(s.ret)
        }),
//@ end


pub type Ext = ExpirationExtension2;
pub type SMap = Map<SectorNumber, (u64, u64)>;
// ---------------- vocabulary ----------------
/// the ids one sector entry sends to the registry: the claims to maintain followed by the claims to drop
pub open spec fn entry_ids(sc: SectorClaim) -> Seq<ClaimID> { sc.maintain_claims@ + sc.drop_claims@ }
/// number of registry queries made for the declarations before `d` (one per sector-with-claims entry)
pub open spec fn ent_off(exts: Seq<Ext>, d: int) -> int
    decreases d
{ if d <= 0 { 0 } else { ent_off(exts, d - 1) + exts[d - 1].sectors_with_claims@.len() } }
/// the send that queried the claims of entry `j` of declaration `d`
pub open spec fn ent_send(sends: Seq<SendRec>, base: int, exts: Seq<Ext>, d: int, j: int) -> SendRec { sends[base + ent_off(exts, d) + j] }
/// the claims the registry returned for entry `j` of declaration `d`
pub open spec fn ent_claims(sends: Seq<SendRec>, base: int, exts: Seq<Ext>, d: int, j: int) -> Seq<Claim> { resp_claims(ent_send(sends, base, exts, d, j).ret) }
/// the query of one entry: an accepted GetClaims to the verified registry for THIS miner and exactly the entry's ids, answered with at least as many successes as ids
pub open spec fn query_ok(s: SendRec, me: ActorID, ids: Seq<ClaimID>) -> bool {
    &&& s.ok && s.to == VERIFIED_REGISTRY_ACTOR_ADDR && s.method == ext::verifreg::GET_CLAIMS_METHOD && s.value == 0
    &&& exists|p: GetClaimsParams| s.params == Some(IpldBlock { h: #[trigger] cbor_hash(p) }) && p.provider == me && p.claim_ids@ == ids
    &&& succ_count(deser_spec::<GetClaimsReturn>(s.ret).batch_info.codes()) >= ids.len()
}
/// what the declaration checks of the first `n` claims returned for a sector entry: each is a claim of THIS miner for THIS sector, and each KEPT
/// claim (position below `maintain_claims.len()`) still covers the declared new expiration: new_expiration <= term_start + term_max
pub open spec fn entry_ok(me: ActorID, new_exp: ChainEpoch, sc: SectorClaim, cl: Seq<Claim>, n: int) -> bool {
    forall|i: int| 0 <= i < n ==> (#[trigger] cl[i]).provider == me && cl[i].sector == sc.sector_number
        && (i < sc.maintain_claims@.len() ==> new_exp <= cl[i].term_start + cl[i].term_max)
}
/// total size of the first `n` claims / of those among them that are kept (position below `first_drop`)
pub open spec fn sum_all(cl: Seq<Claim>, n: int) -> int
    decreases n
{ if n <= 0 { 0 } else { sum_all(cl, n - 1) + cl[n - 1].size.0 } }
pub open spec fn sum_kept(cl: Seq<Claim>, n: int, first_drop: int) -> int
    decreases n
{ if n <= 0 { 0 } else { sum_kept(cl, n - 1, first_drop) + (if n - 1 < first_drop { cl[n - 1].size.0 as int } else { 0 }) } }
pub open spec fn padd(a: (int, int), b: (int, int)) -> (int, int) { (a.0 + b.0, a.1 + b.1) }
/// (declared, kept) claim space of sector `s` in the first `j` entries of declaration `d`
pub open spec fn decl_tot(sends: Seq<SendRec>, base: int, exts: Seq<Ext>, d: int, j: int, s: SectorNumber) -> (int, int)
    decreases j
{
    if j <= 0 { (0, 0) } else {
        let sc = exts[d].sectors_with_claims@[j - 1];
        let cl = ent_claims(sends, base, exts, d, j - 1);
        padd(decl_tot(sends, base, exts, d, j - 1, s),
             if sc.sector_number == s { (sum_all(cl, cl.len() as int), sum_kept(cl, cl.len() as int, sc.maintain_claims@.len() as int)) } else { (0, 0) })
    }
}
/// (declared, kept) claim space of sector `s` in all entries of the declarations before `d`
pub open spec fn tot(sends: Seq<SendRec>, base: int, exts: Seq<Ext>, d: int, s: SectorNumber) -> (int, int)
    decreases d
{ if d <= 0 { (0, 0) } else { padd(tot(sends, base, exts, d - 1, s), decl_tot(sends, base, exts, d - 1, exts[d - 1].sectors_with_claims@.len() as int, s)) } }
/// what the returned map says about sector `s` (no entry: nothing declared)
pub open spec fn space_of(m: SMap, s: SectorNumber) -> (int, int) { if m.dom().contains(s) { (m[s].0 as int, m[s].1 as int) } else { (0, 0) } }

/// assumption about the verified registry (stated as a precondition): whatever it answers, the claims have representable terms (the registry
/// keeps term_start + term_max within i64, see unit verifreg_hook `claims_wf`) and describe at most `cap` bytes
pub open spec fn answers_wf(cap: int) -> bool {
    forall|b: Option<IpldBlock>| #![trigger resp_claims(b)] sum_all(resp_claims(b), resp_claims(b).len() as int) <= cap
        && forall|i: int| 0 <= i < resp_claims(b).len() ==> i64::MIN <= (#[trigger] resp_claims(b)[i]).term_start + resp_claims(b)[i].term_max <= i64::MAX
}

// ---------------- lemmas: earlier answers do not change when more queries are sent ----------------
pub proof fn lemma_decl_tot_prefix(s1: Seq<SendRec>, s2: Seq<SendRec>, base: int, exts: Seq<Ext>, d: int, j: int, s: SectorNumber)
    requires 0 <= base, 0 <= d, 0 <= j, base + ent_off(exts, d) + j <= s1.len() <= s2.len(), forall|k: int| 0 <= k < s1.len() ==> s1[k] == s2[k], ent_off(exts, d) >= 0,
    ensures decl_tot(s1, base, exts, d, j, s) == decl_tot(s2, base, exts, d, j, s),
    decreases j
{
    if j > 0 { lemma_decl_tot_prefix(s1, s2, base, exts, d, j - 1, s); }
}
pub proof fn lemma_ent_off_nonneg(exts: Seq<Ext>, d: int)
    ensures ent_off(exts, d) >= 0, d > 0 ==> ent_off(exts, d) >= ent_off(exts, d - 1),
    decreases d
{ if d > 0 { lemma_ent_off_nonneg(exts, d - 1); } }
pub proof fn lemma_ent_off_mono(exts: Seq<Ext>, a: int, b: int)
    requires a <= b,
    ensures ent_off(exts, a) <= ent_off(exts, b),
    decreases b - a
{ if a < b { lemma_ent_off_mono(exts, a, b - 1); lemma_ent_off_nonneg(exts, b); } }
/// entry (d, j) comes before entry (d0, j0) in query order
pub proof fn lemma_ent_idx(exts: Seq<Ext>, d: int, j: int, d0: int, j0: int)
    requires 0 <= d <= d0, 0 <= j < exts[d].sectors_with_claims@.len(), d == d0 ==> j < j0, 0 <= j0,
    ensures 0 <= ent_off(exts, d) + j < ent_off(exts, d0) + j0,
{
    lemma_ent_off_nonneg(exts, d);
    if d < d0 { lemma_ent_off_mono(exts, d + 1, d0); assert(ent_off(exts, d + 1) == ent_off(exts, d) + exts[d].sectors_with_claims@.len()); }
}
pub proof fn lemma_tot_prefix(s1: Seq<SendRec>, s2: Seq<SendRec>, base: int, exts: Seq<Ext>, d: int, s: SectorNumber)
    requires 0 <= base, 0 <= d, base + ent_off(exts, d) <= s1.len() <= s2.len(), forall|k: int| 0 <= k < s1.len() ==> s1[k] == s2[k],
    ensures tot(s1, base, exts, d, s) == tot(s2, base, exts, d, s),
    decreases d
{
    if d > 0 {
        lemma_ent_off_nonneg(exts, d); lemma_ent_off_nonneg(exts, d - 1);
        lemma_tot_prefix(s1, s2, base, exts, d - 1, s);
        lemma_decl_tot_prefix(s1, s2, base, exts, d - 1, exts[d - 1].sectors_with_claims@.len() as int, s);
    }
}
/// every (declared, kept) total is bounded by the number of answers counted times the per-answer cap; kept <= declared
pub proof fn lemma_sum_kept_le(cl: Seq<Claim>, n: int, fd: int)
    ensures 0 <= sum_kept(cl, n, fd) <= sum_all(cl, n),
    decreases n
{ if n > 0 { lemma_sum_kept_le(cl, n - 1, fd); } }
pub proof fn lemma_sum_all_mono(cl: Seq<Claim>, i: int, n: int)
    requires 0 <= i <= n,
    ensures sum_all(cl, i) <= sum_all(cl, n),
    decreases n - i
{ if i < n { lemma_sum_all_mono(cl, i + 1, n); } }
pub proof fn lemma_decl_tot_bound(sends: Seq<SendRec>, base: int, exts: Seq<Ext>, d: int, j: int, s: SectorNumber, cap: int)
    requires answers_wf(cap), 0 <= j, 0 <= cap,
    ensures 0 <= decl_tot(sends, base, exts, d, j, s).1 <= decl_tot(sends, base, exts, d, j, s).0 <= j * cap,
    decreases j
{
    if j > 0 {
        lemma_decl_tot_bound(sends, base, exts, d, j - 1, s, cap);
        let cl = ent_claims(sends, base, exts, d, j - 1);
        assert(cl == resp_claims(ent_send(sends, base, exts, d, j - 1).ret));
        lemma_sum_kept_le(cl, cl.len() as int, exts[d].sectors_with_claims@[j - 1].maintain_claims@.len() as int);
        assert((j - 1) * cap + cap == j * cap) by (nonlinear_arith);
    } else { assert(0 * cap == 0); }
}
pub proof fn lemma_tot_bound(sends: Seq<SendRec>, base: int, exts: Seq<Ext>, d: int, s: SectorNumber, cap: int)
    requires answers_wf(cap), 0 <= d, 0 <= cap,
    ensures 0 <= tot(sends, base, exts, d, s).1 <= tot(sends, base, exts, d, s).0 <= ent_off(exts, d) * cap,
    decreases d
{
    if d > 0 {
        lemma_tot_bound(sends, base, exts, d - 1, s, cap);
        let n = exts[d - 1].sectors_with_claims@.len() as int;
        lemma_decl_tot_bound(sends, base, exts, d - 1, n, s, cap);
        assert(ent_off(exts, d - 1) * cap + n * cap == ent_off(exts, d) * cap) by (nonlinear_arith) requires ent_off(exts, d) == ent_off(exts, d - 1) + n;
    } else { assert(0 * cap == 0); }
}

// ---------------- facts about the entries processed so far (position (de, je): all entries of declarations < de and entries < je of declaration de) ----------------
pub open spec fn valid_ent(exts: Seq<Ext>, d: int, j: int) -> bool { 0 <= d < exts.len() && 0 <= j < exts[d].sectors_with_claims@.len() }
pub open spec fn before(d: int, j: int, de: int, je: int) -> bool { d < de || (d == de && j < je) }
pub open spec fn ent_sector(exts: Seq<Ext>, d: int, j: int) -> SectorNumber { exts[d].sectors_with_claims@[j].sector_number }
/// every processed entry was queried correctly and passed the per-claim checks
pub open spec fn entries_ok(sends: Seq<SendRec>, base: int, exts: Seq<Ext>, me: ActorID, de: int, je: int) -> bool {
    forall|d: int, j: int| #![trigger ent_send(sends, base, exts, d, j)] valid_ent(exts, d, j) && before(d, j, de, je) ==>
        query_ok(ent_send(sends, base, exts, d, j), me, entry_ids(exts[d].sectors_with_claims@[j]))
        && entry_ok(me, exts[d].new_expiration, exts[d].sectors_with_claims@[j], resp_claims(ent_send(sends, base, exts, d, j).ret), resp_claims(ent_send(sends, base, exts, d, j).ret).len() as int)
}
/// the set of sectors declared with claims holds the sector of every processed entry
pub open spec fn set_cover(exts: Seq<Ext>, set: vstd::set::Set<SectorNumber>, de: int, je: int) -> bool {
    forall|d: int, j: int| #![trigger ent_sector(exts, d, j)] valid_ent(exts, d, j) && before(d, j, de, je) ==> set.contains(ent_sector(exts, d, j))
}
/// (check 1) no two processed entries name the same sector
pub open spec fn sectors_distinct(exts: Seq<Ext>, de: int, je: int) -> bool {
    forall|d: int, j: int, d2: int, j2: int| #![trigger ent_sector(exts, d, j), ent_sector(exts, d2, j2)]
        valid_ent(exts, d, j) && before(d, j, de, je) && valid_ent(exts, d2, j2) && before(d2, j2, de, je) && (d, j) != (d2, j2)
        ==> ent_sector(exts, d, j) != ent_sector(exts, d2, j2)
}
/// (check 2) no processed entry lists a claim id twice in maintain ++ drop
pub open spec fn ent_ids(exts: Seq<Ext>, d: int, j: int) -> Seq<ClaimID> { entry_ids(exts[d].sectors_with_claims@[j]) }
pub open spec fn ids_nodup(exts: Seq<Ext>, de: int, je: int) -> bool {
    forall|d: int, j: int| #![trigger ent_ids(exts, d, j)] valid_ent(exts, d, j) && before(d, j, de, je) ==> ent_ids(exts, d, j).no_duplicates()
}
/// (check 3) no plain sector of the first `n` declarations is in the set of sectors declared with claims
pub open spec fn plain_free(exts: Seq<Ext>, set: vstd::set::Set<SectorNumber>, n: int) -> bool {
    forall|d: int, x: u64| 0 <= d < n && #[trigger] exts[d].sectors@.contains(x) ==> !set.contains(x)
}
/// no declaration names, among its plain sectors, a sector that some declaration of the message declares with claims
pub open spec fn plain_not_declared(exts: Seq<Ext>) -> bool {
    forall|d: int, d2: int, j2: int| #![trigger exts[d].sectors@.contains(ent_sector(exts, d2, j2))]
        0 <= d < exts.len() && valid_ent(exts, d2, j2) ==> !exts[d].sectors@.contains(ent_sector(exts, d2, j2))
}
/// one more entry (d0, j0): its query is the send just made; the earlier entries keep their answers
pub proof fn lemma_step_entry(s1: Seq<SendRec>, s2: Seq<SendRec>, base: int, exts: Seq<Ext>, me: ActorID, d0: int, j0: int)
    requires
        0 <= base, valid_ent(exts, d0, j0), s1.len() == base + ent_off(exts, d0) + j0, s2.len() == s1.len() + 1, s2 == s1.push(s2.last()),
        entries_ok(s1, base, exts, me, d0, j0),
        query_ok(s2.last(), me, entry_ids(exts[d0].sectors_with_claims@[j0])),
        entry_ok(me, exts[d0].new_expiration, exts[d0].sectors_with_claims@[j0], resp_claims(s2.last().ret), resp_claims(s2.last().ret).len() as int),
    ensures entries_ok(s2, base, exts, me, d0, j0 + 1), ent_send(s2, base, exts, d0, j0) == s2.last(),
{
    lemma_ent_off_nonneg(exts, d0);
    assert(ent_send(s2, base, exts, d0, j0) == s2[s1.len() as int]);
    assert forall|d: int, j: int| #![trigger ent_send(s2, base, exts, d, j)] valid_ent(exts, d, j) && before(d, j, d0, j0 + 1) implies
        query_ok(ent_send(s2, base, exts, d, j), me, entry_ids(exts[d].sectors_with_claims@[j]))
        && entry_ok(me, exts[d].new_expiration, exts[d].sectors_with_claims@[j], resp_claims(ent_send(s2, base, exts, d, j).ret), resp_claims(ent_send(s2, base, exts, d, j).ret).len() as int) by {
        if d == d0 && j == j0 { } else {
            assert(before(d, j, d0, j0));
            lemma_ent_idx(exts, d, j, d0, j0);
            assert(ent_send(s2, base, exts, d, j) == ent_send(s1, base, exts, d, j));
        }
    }
}
/// one more entry (d0, j0) whose sector was NOT yet in the set and whose ids are pairwise distinct
pub proof fn lemma_step_sets(exts: Seq<Ext>, set_pre: vstd::set::Set<SectorNumber>, set_post: vstd::set::Set<SectorNumber>, d0: int, j0: int)
    requires
        valid_ent(exts, d0, j0), set_cover(exts, set_pre, d0, j0), sectors_distinct(exts, d0, j0), ids_nodup(exts, d0, j0),
        !set_pre.contains(ent_sector(exts, d0, j0)), set_post == set_pre.insert(ent_sector(exts, d0, j0)),
        entry_ids(exts[d0].sectors_with_claims@[j0]).no_duplicates(),
    ensures set_cover(exts, set_post, d0, j0 + 1), sectors_distinct(exts, d0, j0 + 1), ids_nodup(exts, d0, j0 + 1),
{
    assert forall|d: int, j: int| #![trigger ent_sector(exts, d, j)] valid_ent(exts, d, j) && before(d, j, d0, j0 + 1) implies set_post.contains(ent_sector(exts, d, j)) by {
        if !(d == d0 && j == j0) { assert(before(d, j, d0, j0)); }
    }
    assert forall|d: int, j: int, d2: int, j2: int| #![trigger ent_sector(exts, d, j), ent_sector(exts, d2, j2)]
        valid_ent(exts, d, j) && before(d, j, d0, j0 + 1) && valid_ent(exts, d2, j2) && before(d2, j2, d0, j0 + 1) && (d, j) != (d2, j2)
        implies ent_sector(exts, d, j) != ent_sector(exts, d2, j2) by {
        if d == d0 && j == j0 { assert(before(d2, j2, d0, j0)); assert(set_pre.contains(ent_sector(exts, d2, j2))); }
        else if d2 == d0 && j2 == j0 { assert(before(d, j, d0, j0)); assert(set_pre.contains(ent_sector(exts, d, j))); }
        else { assert(before(d, j, d0, j0) && before(d2, j2, d0, j0)); }
    }
    assert forall|d: int, j: int| #![trigger ent_ids(exts, d, j)] valid_ent(exts, d, j) && before(d, j, d0, j0 + 1) implies ent_ids(exts, d, j).no_duplicates() by {
        if !(d == d0 && j == j0) { assert(before(d, j, d0, j0)); }
    }
}
/// all entries of declaration d0 are processed: position (d0, len) is position (d0 + 1, 0)
pub proof fn lemma_close_decl(sends: Seq<SendRec>, base: int, exts: Seq<Ext>, me: ActorID, set: vstd::set::Set<SectorNumber>, d0: int)
    requires
        0 <= d0 < exts.len(),
        entries_ok(sends, base, exts, me, d0, exts[d0].sectors_with_claims@.len() as int), set_cover(exts, set, d0, exts[d0].sectors_with_claims@.len() as int),
        sectors_distinct(exts, d0, exts[d0].sectors_with_claims@.len() as int), ids_nodup(exts, d0, exts[d0].sectors_with_claims@.len() as int),
    ensures entries_ok(sends, base, exts, me, d0 + 1, 0), set_cover(exts, set, d0 + 1, 0), sectors_distinct(exts, d0 + 1, 0), ids_nodup(exts, d0 + 1, 0),
{
    let n = exts[d0].sectors_with_claims@.len() as int;
    assert forall|d: int, j: int| valid_ent(exts, d, j) && before(d, j, d0 + 1, 0) implies before(d, j, d0, n) by {}
    assert forall|d: int, j: int| #![trigger ent_ids(exts, d, j)] valid_ent(exts, d, j) && before(d, j, d0 + 1, 0) implies ent_ids(exts, d, j).no_duplicates() by {
        assert(before(d, j, d0, n));
    }
}
pub proof fn lemma_plain_not_declared(exts: Seq<Ext>, set: vstd::set::Set<SectorNumber>)
    requires set_cover(exts, set, exts.len() as int, 0), plain_free(exts, set, exts.len() as int),
    ensures plain_not_declared(exts),
{
    assert forall|d: int, d2: int, j2: int| #![trigger exts[d].sectors@.contains(ent_sector(exts, d2, j2))]
        0 <= d < exts.len() && valid_ent(exts, d2, j2) implies !exts[d].sectors@.contains(ent_sector(exts, d2, j2)) by {
        assert(before(d2, j2, exts.len() as int, 0));
        assert(set.contains(ent_sector(exts, d2, j2)));
    }
}

//@ fn actors/miner/src/lib.rs validate_extension_declarations attr="#[verifier::loop_isolation(false)]" r19=0,1,2,4 sub0="extensions . into_iter () . map (| e2 | e2 . into ()) . collect ()=>vx_into_validated(extensions)" sub1="claim_space_by_sector . entry (sc . sector_number) . and_modify=>vx_unit" sub2="| (check , maintain) |=>if let Some((check, maintain)) = claim_space_by_sector.get_mut(&sc.sector_number)" sub3=". or_insert=>; claim_space_by_sector.entry(sc.sector_number).or_insert" sub4="(i , claim) in claims . iter () . enumerate ()=>i in 0..claims.len()"
    requires
        !old(rt).in_tx@, old(rt).msg.receiver.proto == 0,
        // the running totals fit u64 (the actor is built with overflow checks: an overflow aborts the message): `cap` bounds one registry answer
        exists|cap: int| 0 <= cap && #[trigger] answers_wf(cap) && ent_off(extensions@, extensions@.len() as int) * cap <= u64::MAX,
    ensures
        rt_frame(old(rt), final(rt)),
        r.is_ok() ==> ({
            let exts = extensions@;
            let n = exts.len() as int;
            let base = old(rt).sends@.len() as int;
            let sends = final(rt).sends@;
            let me = old(rt).msg.receiver.id;
            // one registry query per (declaration, sector-with-claims) entry, in order, each for exactly the entry's maintain ++ drop ids
            &&& sends.len() == base + ent_off(exts, n)
            &&& (forall|k: int| 0 <= k < base ==> sends[k] == old(rt).sends@[k])
            // every claim returned is this miner's, for the entry's sector; every KEPT claim covers the declaration's new expiration
            &&& entries_ok(sends, base, exts, me, n, 0)
            // the map returned: per sector, (total size of ALL claims returned for it, total size of those KEPT)
            &&& r->Ok_0.claims.is_some()
            &&& (forall|s: SectorNumber| #[trigger] space_of(r->Ok_0.claims->Some_0.view(), s) == tot(sends, base, exts, n, s))
            // what the three uniqueness checks establish: a sector is declared with claims by ONE entry of the whole message only; no claim id is
            // listed twice in an entry (maintain ++ drop); no declaration names a sector declared with claims among its plain sectors
            &&& sectors_distinct(exts, n, 0)
            &&& ids_nodup(exts, n, 0)
            &&& plain_not_declared(exts)
            // the declarations come back in order with their deadline (in range), partition and new expiration
            &&& r->Ok_0.extensions@.len() == n
            &&& (forall|d: int| 0 <= d < n ==> (#[trigger] r->Ok_0.extensions@[d]).deadline == exts[d].deadline && r->Ok_0.extensions@[d].partition == exts[d].partition
                    && r->Ok_0.extensions@[d].new_expiration == exts[d].new_expiration && exts[d].deadline < rt_policy().wpost_period_deadlines)
        }),
//@ entry
        let ghost exts = extensions@;
        let ghost base = rt.sends@.len() as int;
        let ghost me = rt.msg.receiver.id;
        let ghost s_in = rt.sends@;
        let ghost cap: int = choose|cap: int| 0 <= cap && #[trigger] answers_wf(cap) && ent_off(extensions@, extensions@.len() as int) * cap <= u64::MAX;
        proof { lemma_ent_off_nonneg(exts, 0); }
//@ loop 0
            invariant
                __vx_i0 <= __vx_v0.len(), __vx_v0@ == exts, extensions@ == exts,
                rt_frame(old(rt), rt), !rt.in_tx@,
                rt.sends@.len() == base + ent_off(exts, __vx_i0 as int),
                forall|k: int| 0 <= k < base ==> rt.sends@[k] == s_in[k],
                entries_ok(rt.sends@, base, exts, me, __vx_i0 as int, 0),
                forall|s: SectorNumber| #[trigger] space_of(claim_space_by_sector.view(), s) == tot(rt.sends@, base, exts, __vx_i0 as int, s),
                set_cover(exts, sectors_declared_with_claims.view(), __vx_i0 as int, 0),
                sectors_distinct(exts, __vx_i0 as int, 0),
                ids_nodup(exts, __vx_i0 as int, 0),
                forall|d: int| 0 <= d < __vx_i0 ==> (#[trigger] exts[d]).deadline < rt_policy().wpost_period_deadlines,
            decreases __vx_v0.len() - __vx_i0,
//@ loop 1
                    invariant
                        __vx_i1 <= __vx_v1.len(), __vx_v1@ == decl.sectors_with_claims@, 0 < __vx_i0 <= __vx_v0.len(), *decl == exts[__vx_i0 - 1],
                        rt_frame(old(rt), rt), !rt.in_tx@,
                        rt.sends@.len() == base + ent_off(exts, __vx_i0 - 1) + __vx_i1,
                        forall|k: int| 0 <= k < base ==> rt.sends@[k] == s_in[k],
                        entries_ok(rt.sends@, base, exts, me, __vx_i0 - 1, __vx_i1 as int),
                        forall|s: SectorNumber| #[trigger] space_of(claim_space_by_sector.view(), s)
                            == padd(tot(rt.sends@, base, exts, __vx_i0 - 1, s), decl_tot(rt.sends@, base, exts, __vx_i0 - 1, __vx_i1 as int, s)),
                        set_cover(exts, sectors_declared_with_claims.view(), __vx_i0 - 1, __vx_i1 as int),
                        sectors_distinct(exts, __vx_i0 - 1, __vx_i1 as int),
                        ids_nodup(exts, __vx_i0 - 1, __vx_i1 as int),
                        forall|d: int| 0 <= d < __vx_i0 ==> (#[trigger] exts[d]).deadline < rt_policy().wpost_period_deadlines,
                    decreases __vx_v1.len() - __vx_i1,
//@ loopstart 1
                        let ghost s1 = rt.sends@;
                        let ghost set_pre = sectors_declared_with_claims.view();
                        let ghost d0 = __vx_i0 - 1;
                        let ghost j0 = __vx_i1 as int;
                        proof { lemma_ent_off_nonneg(exts, d0); }
//@ loop 2
                            invariant
                                __vx_i2 <= __vx_v2.len(), __vx_v2@ == all_claim_ids@, all_claim_ids@ =~= entry_ids(*sc),
                                // (check 2) every id seen so far is in the set, and the ids seen so far are pairwise distinct
                                forall|a: int| 0 <= a < __vx_i2 ==> seen_claim_ids.view().contains(#[trigger] all_claim_ids@[a]),
                                forall|a: int, b: int| 0 <= a < b < __vx_i2 ==> all_claim_ids@[a] != all_claim_ids@[b],
                            decreases __vx_v2.len() - __vx_i2,
//@ loop 3
                            invariant
                                rt.sends@.len() == s1.len() + 1, rt.sends@ == s1.push(rt.sends@.last()),
                                claims@ == resp_claims(rt.sends@.last().ret), query_ok(rt.sends@.last(), me, entry_ids(*sc)),
                                first_drop == sc.maintain_claims@.len(), *sc == decl.sectors_with_claims@[j0],
                                __vx_i1 == j0 + 1, d0 == __vx_i0 - 1, *decl == exts[d0], 0 <= d0 < exts.len(), 0 <= j0 < decl.sectors_with_claims@.len(),
                                entry_ok(me, decl.new_expiration, *sc, claims@, i as int),
                                forall|s: SectorNumber| #[trigger] space_of(claim_space_by_sector.view(), s)
                                    == padd(padd(tot(s1, base, exts, d0, s), decl_tot(s1, base, exts, d0, j0, s)),
                                            if s == sc.sector_number { (sum_all(claims@, i as int), sum_kept(claims@, i as int, first_drop as int)) } else { (0int, 0int) }),
//@ loopstart 3
                            let claim = &claims[i];
                            let ghost m0 = claim_space_by_sector.view();
                            proof {
                                let sn = sc.sector_number;
                                let cl = claims@;
                                lemma_tot_bound(s1, base, exts, d0, sn, cap);
                                lemma_decl_tot_bound(s1, base, exts, d0, j0, sn, cap);
                                lemma_sum_kept_le(cl, i as int, first_drop as int);
                                lemma_sum_all_mono(cl, i as int + 1, cl.len() as int);
                                assert(sum_all(cl, cl.len() as int) <= cap);
                                lemma_ent_off_mono(exts, d0 + 1, exts.len() as int);
                                assert(ent_off(exts, d0 + 1) == ent_off(exts, d0) + decl.sectors_with_claims@.len());
                                assert((ent_off(exts, d0) + j0 + 1) * cap <= ent_off(exts, exts.len() as int) * cap) by (nonlinear_arith)
                                    requires ent_off(exts, d0) + j0 + 1 <= ent_off(exts, exts.len() as int), 0 <= cap;
                                assert(ent_off(exts, d0) * cap + j0 * cap + cap == (ent_off(exts, d0) + j0 + 1) * cap) by (nonlinear_arith);
                                assert(space_of(m0, sn).0 + cl[i as int].size.0 <= u64::MAX);
                            }
//@ loopend 3
                            proof {
                                let m1 = claim_space_by_sector.view();
                                let sn = sc.sector_number;
                                assert(m1.dom().contains(sn) && m1[sn].0 == space_of(m0, sn).0 + claim.size.0 && m1[sn].1 == space_of(m0, sn).1 + maintain_delta);
                                assert forall|s: SectorNumber| s != sn implies space_of(m1, s) == space_of(m0, s) by {}
                            }
//@ loopend 1
                        proof {
                            let s2 = rt.sends@;
                            let m2 = claim_space_by_sector.view();
                            assert forall|s: SectorNumber| #[trigger] space_of(m2, s)
                                    == padd(tot(s2, base, exts, d0, s), decl_tot(s2, base, exts, d0, j0 + 1, s)) by {
                                lemma_tot_prefix(s1, s2, base, exts, d0, s);
                                lemma_decl_tot_prefix(s1, s2, base, exts, d0, j0, s);
                            }
                            lemma_step_entry(s1, s2, base, exts, me, d0, j0);
                            // (check 1) the sector was not declared before; (check 2) the entry's ids are pairwise distinct
                            assert(entry_ids(*sc).no_duplicates());
                            lemma_step_sets(exts, set_pre, sectors_declared_with_claims.view(), d0, j0);
                        }
//@ loopend 0
                proof { lemma_close_decl(rt.sends@, base, exts, me, sectors_declared_with_claims.view(), __vx_i0 - 1); }
//@ loop 4
            invariant
                __vx_i4 <= __vx_v4.len(), __vx_v4@ == exts, extensions@ == exts,
                plain_free(exts, sectors_declared_with_claims.view(), __vx_i4 as int),
            decreases __vx_v4.len() - __vx_i4,
//@ loop 5 iter=it
                invariant
                    0 < __vx_i4 <= __vx_v4.len(), *decl == exts[__vx_i4 - 1],
                    it.seq() == bf_members(decl.sectors@),
                    forall|k: int| 0 <= k < it.index@ ==> !sectors_declared_with_claims.view().contains(#[trigger] it.seq()[k]),
//@ loopend 4
                proof {
                    // (check 3) every plain sector of this declaration was looked up in the set of sectors declared with claims
                    let mem = bf_members(decl.sectors@);
                    assert forall|k: int| 0 <= k < mem.len() implies !sectors_declared_with_claims.view().contains(#[trigger] mem[k]) by {}
                    assert forall|x: u64| decl.sectors@.contains(x) implies !sectors_declared_with_claims.view().contains(x) by {
                        assert(mem.contains(x));
                        let k = choose|k: int| 0 <= k < mem.len() && mem[k] == x;
                        assert(!sectors_declared_with_claims.view().contains(mem[k]));
                    }
                }
//@ before "ExtendExpirationsInner"
        proof { lemma_plain_not_declared(exts, sectors_declared_with_claims.view()); }
//@ end

// ---------------- the property clauses the declaration check does NOT establish (companion obligation `validate_extension_declarations_prop`) ----------------
/// (d, j, a) is a declared claim-id position: position `a` of maintain ++ drop in entry `j` of declaration `d`
pub open spec fn id_pos(exts: Seq<Ext>, d: int, j: int, a: int) -> bool {
    0 <= d < exts.len() && 0 <= j < exts[d].sectors_with_claims@.len() && 0 <= a < entry_ids(exts[d].sectors_with_claims@[j]).len()
}
pub open spec fn id_at(exts: Seq<Ext>, d: int, j: int, a: int) -> ClaimID { entry_ids(exts[d].sectors_with_claims@[j])[a] }
/// no claim id is listed twice for the same sector (within one entry, across maintain/drop, or across entries / declarations)
pub open spec fn ids_counted_once(exts: Seq<Ext>) -> bool {
    forall|d: int, j: int, a: int, d2: int, j2: int, b: int| #![trigger id_at(exts, d, j, a), id_at(exts, d2, j2, b)]
        id_pos(exts, d, j, a) && id_pos(exts, d2, j2, b) && (d, j, a) != (d2, j2, b)
        && exts[d].sectors_with_claims@[j].sector_number == exts[d2].sectors_with_claims@[j2].sector_number
        ==> id_at(exts, d, j, a) != id_at(exts, d2, j2, b)
}
/// declaration `e` extends sector `s`: names it among its plain sectors or among its sectors with claims
/// (`From<ExpirationExtension2> for ValidatedExpirationExtension` unions the two)
pub open spec fn names_sector(e: Ext, s: SectorNumber) -> bool {
    e.sectors@.contains(s) || exists|j: int| 0 <= j < e.sectors_with_claims@.len() && (#[trigger] e.sectors_with_claims@[j]).sector_number == s
}
/// every KEPT claim covers the new expiration of EVERY declaration of the message that extends its sector
pub open spec fn kept_cover_all(sends: Seq<SendRec>, base: int, exts: Seq<Ext>) -> bool {
    forall|d: int, j: int, i: int, d2: int| #![trigger ent_claims(sends, base, exts, d, j)[i], exts[d2]]
        0 <= d < exts.len() && 0 <= j < exts[d].sectors_with_claims@.len() && 0 <= i < exts[d].sectors_with_claims@[j].maintain_claims@.len()
        && i < ent_claims(sends, base, exts, d, j).len() && 0 <= d2 < exts.len() && names_sector(exts[d2], exts[d].sectors_with_claims@[j].sector_number)
        ==> exts[d2].new_expiration <= ent_claims(sends, base, exts, d, j)[i].term_start + ent_claims(sends, base, exts, d, j)[i].term_max
}
/// a sector with claims is extended by ONE declaration of the message only
pub open spec fn sector_named_once(exts: Seq<Ext>) -> bool {
    forall|d: int, j: int, d2: int| #![trigger exts[d].sectors_with_claims@[j], exts[d2]]
        0 <= d < exts.len() && 0 <= j < exts[d].sectors_with_claims@.len() && 0 <= d2 < exts.len()
        && names_sector(exts[d2], exts[d].sectors_with_claims@[j].sector_number) ==> d2 == d
}
/// for messages that name every sector-with-claims in one declaration only, the verified contract gives the property clause
pub proof fn lemma_cover_when_named_once(sends: Seq<SendRec>, base: int, exts: Seq<Ext>, me: ActorID)
    requires
        sector_named_once(exts),
        forall|d: int, j: int| 0 <= d < exts.len() && 0 <= j < exts[d].sectors_with_claims@.len() ==>
            entry_ok(me, exts[d].new_expiration, exts[d].sectors_with_claims@[j], resp_claims((#[trigger] ent_send(sends, base, exts, d, j)).ret), resp_claims(ent_send(sends, base, exts, d, j).ret).len() as int),
    ensures kept_cover_all(sends, base, exts),
{
    assert forall|d: int, j: int, i: int, d2: int| #![trigger ent_claims(sends, base, exts, d, j)[i], exts[d2]]
        0 <= d < exts.len() && 0 <= j < exts[d].sectors_with_claims@.len() && 0 <= i < exts[d].sectors_with_claims@[j].maintain_claims@.len()
        && i < ent_claims(sends, base, exts, d, j).len() && 0 <= d2 < exts.len() && names_sector(exts[d2], exts[d].sectors_with_claims@[j].sector_number)
        implies exts[d2].new_expiration <= ent_claims(sends, base, exts, d, j)[i].term_start + ent_claims(sends, base, exts, d, j)[i].term_max by {
        let sc = exts[d].sectors_with_claims@[j];
        assert(d2 == d);
        let cl = resp_claims(ent_send(sends, base, exts, d, j).ret);
        assert(entry_ok(me, exts[d].new_expiration, sc, cl, cl.len() as int));
        assert(cl[i].provider == me);
    }
}

// ---------------- composition with `extend_simple_qap_sector` (contract in units/C10/miner_extend.vx.rs) ----------------
/// the postcondition of `extend_simple_qap_sector` for a sector `sn` with positive verified weight `vdw`, read off its contract: the map entry
/// (expected, kept) must account for the sector's whole verified space; a drop (expected != kept) needs the end-of-life window; the new weight
/// is the KEPT space over the new duration
pub open spec fn simple_qap_post(m: SMap, sn: SectorNumber, vdw: int, expiration: int, power_base: int, curr: int, new_exp: int, drop_period: int, new_vdw: int) -> bool {
    m.dom().contains(sn) && ({
        let (expected, kept) = m[sn];
        &&& (expected as i64) as int == trunc_div(vdw, expiration - power_base)
        &&& (expected != kept ==> expiration - curr <= drop_period)
        &&& new_vdw == kept * (new_exp - curr)
    })
}
/// COMPOSED GUARANTEE (C10) for one sector `sn` extended through ExtendSectorExpiration2, from the two contracts: with (D, K) the total size of
/// ALL claims the registry returned for the sector's declared ids and of the KEPT ones,
pub proof fn lemma_extension_composed(sends: Seq<SendRec>, base: int, exts: Seq<Ext>, m: SMap, sn: SectorNumber,
        vdw: int, expiration: int, power_base: int, curr: int, new_exp: int, drop_period: int, new_vdw: int)
    requires
        forall|s: SectorNumber| #[trigger] space_of(m, s) == tot(sends, base, exts, exts.len() as int, s),   // validate_extension_declarations
        simple_qap_post(m, sn, vdw, expiration, power_base, curr, new_exp, drop_period, new_vdw),             // extend_simple_qap_sector, vdw > 0
        tot(sends, base, exts, exts.len() as int, sn).0 <= i64::MAX,
    ensures ({
        let (dd, kk) = tot(sends, base, exts, exts.len() as int, sn);
        // "backed by registry claims ... whose sizes add up to the sector's verified space"
        &&& dd == trunc_div(vdw, expiration - power_base)
        // "(and its extra power)": the verified weight kept is exactly the space of the claims kept, over the new duration
        &&& new_vdw == kk * (new_exp - curr)
        // "only by dropping that claim within the final 30 days of the sector's life"
        &&& (kk != dd ==> expiration - curr <= drop_period)
    }),
{
    assert(space_of(m, sn) == tot(sends, base, exts, exts.len() as int, sn));
}

/// THE PROPERTY CLAUSES follow from what the three uniqueness checks establish (no assumption about the registry's answers)
pub proof fn lemma_prop_clauses(sends: Seq<SendRec>, base: int, exts: Seq<Ext>, me: ActorID)
    requires
        entries_ok(sends, base, exts, me, exts.len() as int, 0), sectors_distinct(exts, exts.len() as int, 0), ids_nodup(exts, exts.len() as int, 0),
        plain_not_declared(exts),
    ensures ids_counted_once(exts), kept_cover_all(sends, base, exts),
{
    let n = exts.len() as int;
    assert forall|d: int, j: int, a: int, d2: int, j2: int, b: int| #![trigger id_at(exts, d, j, a), id_at(exts, d2, j2, b)]
        id_pos(exts, d, j, a) && id_pos(exts, d2, j2, b) && (d, j, a) != (d2, j2, b)
        && exts[d].sectors_with_claims@[j].sector_number == exts[d2].sectors_with_claims@[j2].sector_number
        implies id_at(exts, d, j, a) != id_at(exts, d2, j2, b) by {
        assert(valid_ent(exts, d, j) && before(d, j, n, 0) && valid_ent(exts, d2, j2) && before(d2, j2, n, 0));
        assert(ent_sector(exts, d, j) == ent_sector(exts, d2, j2));
        assert((d, j) == (d2, j2));
        assert(ent_ids(exts, d, j).no_duplicates());
        assert(id_at(exts, d, j, a) == ent_ids(exts, d, j)[a] && id_at(exts, d2, j2, b) == ent_ids(exts, d, j)[b]);
    }
    assert forall|d: int, j: int, i: int, d2: int| #![trigger ent_claims(sends, base, exts, d, j)[i], exts[d2]]
        0 <= d < exts.len() && 0 <= j < exts[d].sectors_with_claims@.len() && 0 <= i < exts[d].sectors_with_claims@[j].maintain_claims@.len()
        && i < ent_claims(sends, base, exts, d, j).len() && 0 <= d2 < exts.len() && names_sector(exts[d2], exts[d].sectors_with_claims@[j].sector_number)
        implies exts[d2].new_expiration <= ent_claims(sends, base, exts, d, j)[i].term_start + ent_claims(sends, base, exts, d, j)[i].term_max by {
        let sn = ent_sector(exts, d, j);
        assert(valid_ent(exts, d, j) && before(d, j, n, 0));
        // a plain sector of d2? excluded by check 3
        assert(!exts[d2].sectors@.contains(ent_sector(exts, d, j)));
        let j2 = choose|j2: int| 0 <= j2 < exts[d2].sectors_with_claims@.len() && (#[trigger] exts[d2].sectors_with_claims@[j2]).sector_number == sn;
        assert(valid_ent(exts, d2, j2) && before(d2, j2, n, 0) && ent_sector(exts, d2, j2) == sn);
        assert((d2, j2) == (d, j));
        let cl = resp_claims(ent_send(sends, base, exts, d, j).ret);
        assert(entry_ok(me, exts[d].new_expiration, exts[d].sectors_with_claims@[j], cl, cl.len() as int));
        assert(cl[i].provider == me);
    }
}

//@ fn actors/miner/src/lib.rs validate_extension_declarations as=validate_extension_declarations_prop attr="#[verifier::loop_isolation(false)]" r19=0,1,2,4 sub0="extensions . into_iter () . map (| e2 | e2 . into ()) . collect ()=>vx_into_validated(extensions)" sub1="claim_space_by_sector . entry (sc . sector_number) . and_modify=>vx_unit" sub2="| (check , maintain) |=>if let Some((check, maintain)) = claim_space_by_sector.get_mut(&sc.sector_number)" sub3=". or_insert=>; claim_space_by_sector.entry(sc.sector_number).or_insert" sub4="(i , claim) in claims . iter () . enumerate ()=>i in 0..claims.len()"
    requires
        !old(rt).in_tx@, old(rt).msg.receiver.proto == 0,
        // the running totals fit u64 (the actor is built with overflow checks: an overflow aborts the message): `cap` bounds one registry answer
        exists|cap: int| 0 <= cap && #[trigger] answers_wf(cap) && ent_off(extensions@, extensions@.len() as int) * cap <= u64::MAX,
    ensures
        rt_frame(old(rt), final(rt)),
        r.is_ok() ==> ({
            let exts = extensions@;
            let n = exts.len() as int;
            let base = old(rt).sends@.len() as int;
            let sends = final(rt).sends@;
            let me = old(rt).msg.receiver.id;
            // one registry query per (declaration, sector-with-claims) entry, in order, each for exactly the entry's maintain ++ drop ids
            &&& sends.len() == base + ent_off(exts, n)
            &&& (forall|k: int| 0 <= k < base ==> sends[k] == old(rt).sends@[k])
            // every claim returned is this miner's, for the entry's sector; every KEPT claim covers the declaration's new expiration
            &&& entries_ok(sends, base, exts, me, n, 0)
            // the map returned: per sector, (total size of ALL claims returned for it, total size of those KEPT)
            &&& r->Ok_0.claims.is_some()
            &&& (forall|s: SectorNumber| #[trigger] space_of(r->Ok_0.claims->Some_0.view(), s) == tot(sends, base, exts, n, s))
            // what the three uniqueness checks establish: a sector is declared with claims by ONE entry of the whole message only; no claim id is
            // listed twice in an entry (maintain ++ drop); no declaration names a sector declared with claims among its plain sectors
            &&& sectors_distinct(exts, n, 0)
            &&& ids_nodup(exts, n, 0)
            &&& plain_not_declared(exts)
            // PROPERTY (C10), see the unit header:
            // "claims ... whose sizes add up to the sector's verified space": no claim id is counted twice for a sector
            &&& ids_counted_once(exts)
            // "extended past a claim's maximum term only by dropping that claim": every KEPT claim covers the new expiration of EVERY declaration extending its sector
            &&& kept_cover_all(sends, base, exts)
            // the declarations come back in order with their deadline (in range), partition and new expiration
            &&& r->Ok_0.extensions@.len() == n
            &&& (forall|d: int| 0 <= d < n ==> (#[trigger] r->Ok_0.extensions@[d]).deadline == exts[d].deadline && r->Ok_0.extensions@[d].partition == exts[d].partition
                    && r->Ok_0.extensions@[d].new_expiration == exts[d].new_expiration && exts[d].deadline < rt_policy().wpost_period_deadlines)
        }),
//@ entry
        let ghost exts = extensions@;
        let ghost base = rt.sends@.len() as int;
        let ghost me = rt.msg.receiver.id;
        let ghost s_in = rt.sends@;
        let ghost cap: int = choose|cap: int| 0 <= cap && #[trigger] answers_wf(cap) && ent_off(extensions@, extensions@.len() as int) * cap <= u64::MAX;
        proof { lemma_ent_off_nonneg(exts, 0); }
//@ loop 0
            invariant
                __vx_i0 <= __vx_v0.len(), __vx_v0@ == exts, extensions@ == exts,
                rt_frame(old(rt), rt), !rt.in_tx@,
                rt.sends@.len() == base + ent_off(exts, __vx_i0 as int),
                forall|k: int| 0 <= k < base ==> rt.sends@[k] == s_in[k],
                entries_ok(rt.sends@, base, exts, me, __vx_i0 as int, 0),
                forall|s: SectorNumber| #[trigger] space_of(claim_space_by_sector.view(), s) == tot(rt.sends@, base, exts, __vx_i0 as int, s),
                set_cover(exts, sectors_declared_with_claims.view(), __vx_i0 as int, 0),
                sectors_distinct(exts, __vx_i0 as int, 0),
                ids_nodup(exts, __vx_i0 as int, 0),
                forall|d: int| 0 <= d < __vx_i0 ==> (#[trigger] exts[d]).deadline < rt_policy().wpost_period_deadlines,
            decreases __vx_v0.len() - __vx_i0,
//@ loop 1
                    invariant
                        __vx_i1 <= __vx_v1.len(), __vx_v1@ == decl.sectors_with_claims@, 0 < __vx_i0 <= __vx_v0.len(), *decl == exts[__vx_i0 - 1],
                        rt_frame(old(rt), rt), !rt.in_tx@,
                        rt.sends@.len() == base + ent_off(exts, __vx_i0 - 1) + __vx_i1,
                        forall|k: int| 0 <= k < base ==> rt.sends@[k] == s_in[k],
                        entries_ok(rt.sends@, base, exts, me, __vx_i0 - 1, __vx_i1 as int),
                        forall|s: SectorNumber| #[trigger] space_of(claim_space_by_sector.view(), s)
                            == padd(tot(rt.sends@, base, exts, __vx_i0 - 1, s), decl_tot(rt.sends@, base, exts, __vx_i0 - 1, __vx_i1 as int, s)),
                        set_cover(exts, sectors_declared_with_claims.view(), __vx_i0 - 1, __vx_i1 as int),
                        sectors_distinct(exts, __vx_i0 - 1, __vx_i1 as int),
                        ids_nodup(exts, __vx_i0 - 1, __vx_i1 as int),
                        forall|d: int| 0 <= d < __vx_i0 ==> (#[trigger] exts[d]).deadline < rt_policy().wpost_period_deadlines,
                    decreases __vx_v1.len() - __vx_i1,
//@ loopstart 1
                        let ghost s1 = rt.sends@;
                        let ghost set_pre = sectors_declared_with_claims.view();
                        let ghost d0 = __vx_i0 - 1;
                        let ghost j0 = __vx_i1 as int;
                        proof { lemma_ent_off_nonneg(exts, d0); }
//@ loop 2
                            invariant
                                __vx_i2 <= __vx_v2.len(), __vx_v2@ == all_claim_ids@, all_claim_ids@ =~= entry_ids(*sc),
                                // (check 2) every id seen so far is in the set, and the ids seen so far are pairwise distinct
                                forall|a: int| 0 <= a < __vx_i2 ==> seen_claim_ids.view().contains(#[trigger] all_claim_ids@[a]),
                                forall|a: int, b: int| 0 <= a < b < __vx_i2 ==> all_claim_ids@[a] != all_claim_ids@[b],
                            decreases __vx_v2.len() - __vx_i2,
//@ loop 3
                            invariant
                                rt.sends@.len() == s1.len() + 1, rt.sends@ == s1.push(rt.sends@.last()),
                                claims@ == resp_claims(rt.sends@.last().ret), query_ok(rt.sends@.last(), me, entry_ids(*sc)),
                                first_drop == sc.maintain_claims@.len(), *sc == decl.sectors_with_claims@[j0],
                                __vx_i1 == j0 + 1, d0 == __vx_i0 - 1, *decl == exts[d0], 0 <= d0 < exts.len(), 0 <= j0 < decl.sectors_with_claims@.len(),
                                entry_ok(me, decl.new_expiration, *sc, claims@, i as int),
                                forall|s: SectorNumber| #[trigger] space_of(claim_space_by_sector.view(), s)
                                    == padd(padd(tot(s1, base, exts, d0, s), decl_tot(s1, base, exts, d0, j0, s)),
                                            if s == sc.sector_number { (sum_all(claims@, i as int), sum_kept(claims@, i as int, first_drop as int)) } else { (0int, 0int) }),
//@ loopstart 3
                            let claim = &claims[i];
                            let ghost m0 = claim_space_by_sector.view();
                            proof {
                                let sn = sc.sector_number;
                                let cl = claims@;
                                lemma_tot_bound(s1, base, exts, d0, sn, cap);
                                lemma_decl_tot_bound(s1, base, exts, d0, j0, sn, cap);
                                lemma_sum_kept_le(cl, i as int, first_drop as int);
                                lemma_sum_all_mono(cl, i as int + 1, cl.len() as int);
                                assert(sum_all(cl, cl.len() as int) <= cap);
                                lemma_ent_off_mono(exts, d0 + 1, exts.len() as int);
                                assert(ent_off(exts, d0 + 1) == ent_off(exts, d0) + decl.sectors_with_claims@.len());
                                assert((ent_off(exts, d0) + j0 + 1) * cap <= ent_off(exts, exts.len() as int) * cap) by (nonlinear_arith)
                                    requires ent_off(exts, d0) + j0 + 1 <= ent_off(exts, exts.len() as int), 0 <= cap;
                                assert(ent_off(exts, d0) * cap + j0 * cap + cap == (ent_off(exts, d0) + j0 + 1) * cap) by (nonlinear_arith);
                                assert(space_of(m0, sn).0 + cl[i as int].size.0 <= u64::MAX);
                            }
//@ loopend 3
                            proof {
                                let m1 = claim_space_by_sector.view();
                                let sn = sc.sector_number;
                                assert(m1.dom().contains(sn) && m1[sn].0 == space_of(m0, sn).0 + claim.size.0 && m1[sn].1 == space_of(m0, sn).1 + maintain_delta);
                                assert forall|s: SectorNumber| s != sn implies space_of(m1, s) == space_of(m0, s) by {}
                            }
//@ loopend 1
                        proof {
                            let s2 = rt.sends@;
                            let m2 = claim_space_by_sector.view();
                            assert forall|s: SectorNumber| #[trigger] space_of(m2, s)
                                    == padd(tot(s2, base, exts, d0, s), decl_tot(s2, base, exts, d0, j0 + 1, s)) by {
                                lemma_tot_prefix(s1, s2, base, exts, d0, s);
                                lemma_decl_tot_prefix(s1, s2, base, exts, d0, j0, s);
                            }
                            lemma_step_entry(s1, s2, base, exts, me, d0, j0);
                            // (check 1) the sector was not declared before; (check 2) the entry's ids are pairwise distinct
                            assert(entry_ids(*sc).no_duplicates());
                            lemma_step_sets(exts, set_pre, sectors_declared_with_claims.view(), d0, j0);
                        }
//@ loopend 0
                proof { lemma_close_decl(rt.sends@, base, exts, me, sectors_declared_with_claims.view(), __vx_i0 - 1); }
//@ loop 4
            invariant
                __vx_i4 <= __vx_v4.len(), __vx_v4@ == exts, extensions@ == exts,
                plain_free(exts, sectors_declared_with_claims.view(), __vx_i4 as int),
            decreases __vx_v4.len() - __vx_i4,
//@ loop 5 iter=it
                invariant
                    0 < __vx_i4 <= __vx_v4.len(), *decl == exts[__vx_i4 - 1],
                    it.seq() == bf_members(decl.sectors@),
                    forall|k: int| 0 <= k < it.index@ ==> !sectors_declared_with_claims.view().contains(#[trigger] it.seq()[k]),
//@ loopend 4
                proof {
                    // (check 3) every plain sector of this declaration was looked up in the set of sectors declared with claims
                    let mem = bf_members(decl.sectors@);
                    assert forall|k: int| 0 <= k < mem.len() implies !sectors_declared_with_claims.view().contains(#[trigger] mem[k]) by {}
                    assert forall|x: u64| decl.sectors@.contains(x) implies !sectors_declared_with_claims.view().contains(x) by {
                        assert(mem.contains(x));
                        let k = choose|k: int| 0 <= k < mem.len() && mem[k] == x;
                        assert(!sectors_declared_with_claims.view().contains(mem[k]));
                    }
                }
//@ before "ExtendExpirationsInner"
        proof { lemma_plain_not_declared(exts, sectors_declared_with_claims.view()); lemma_prop_clauses(rt.sends@, base, exts, me); }
//@ end
pub fn vx_unit(u: ()) {}
} // verus!
fn main() {}
