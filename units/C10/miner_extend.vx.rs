// unit: miner sector extension with verified claims — weights, claim accounting and the end-of-life drop window (C10)
//@ include prelude/core.rs
//@ include prelude/ipld.rs
//@ include prelude/rt.rs
//@ include prelude/policy.rs
//@ include prelude/btreemap.rs
verus! {
pub type DealWeight = BigInt;
/// bitflags! SectorOnChainInfoFlags (opaque bit set; not used by the functions under contract)
#[derive(Clone, Copy, PartialEq, Eq, Structural)]
pub struct SectorOnChainInfoFlags { pub bits: u32 }
//@ item actors/miner/src/types.rs SectorOnChainInfo
//@ include prelude/miner_sector_clone.rs
pub open spec fn ep_ok(e: ChainEpoch) -> bool { -0x1000_0000_0000_0000 < e < 0x1000_0000_0000_0000 }

//@ fn actors/miner/src/lib.rs extend_simple_qap_sector
    requires
        ep_ok(new_expiration), ep_ok(curr_epoch), ep_ok(sector.expiration), ep_ok(sector.power_base_epoch),
        sector.expiration > sector.power_base_epoch,        // a live sector has a positive power-base duration
    ensures
        r.is_ok() ==> ({
            let n = r->Ok_0;
            let old_duration = sector.expiration - sector.power_base_epoch;
            &&& n.expiration == new_expiration && n.power_base_epoch == curr_epoch
            &&& n.sector_number == sector.sector_number && n.activation == sector.activation && n.initial_pledge@ == sector.initial_pledge@
            &&& n.sealed_cid == sector.sealed_cid && n.flags == sector.flags && n.daily_fee@ == sector.daily_fee@
            // unverified weight keeps its space over the remaining life
            &&& n.deal_weight@ == (if sector.deal_weight@ > 0 { trunc_div(sector.deal_weight@ * (sector.expiration - curr_epoch), old_duration) } else { sector.deal_weight@ })
            &&& (sector.verified_deal_weight@ <= 0 ==> n.verified_deal_weight@ == sector.verified_deal_weight@)
            &&& (sector.verified_deal_weight@ > 0 ==> claim_space_by_sector.view().dom().contains(sector.sector_number) && ({
                    let (expected, kept) = claim_space_by_sector.view()[sector.sector_number];
                    // "backed by registry claims ... whose sizes add up to the sector's verified space"
                    &&& (expected as i64) as int == trunc_div(sector.verified_deal_weight@, old_duration)
                    // "only by dropping that claim ... within the final 30 days of the sector's life" (measured to the sector's expiration)
                    &&& (expected != kept ==> sector.expiration - curr_epoch <= policy.end_of_life_claim_drop_period)
                    // the power kept is exactly the space of the claims kept, over the new duration
                    &&& n.verified_deal_weight@ == kept * (new_expiration - curr_epoch)
                }))
        }),
//@ end

//@ fn actors/miner/src/lib.rs extend_non_simple_qap_sector
    requires
        ep_ok(new_expiration), ep_ok(curr_epoch), ep_ok(sector.expiration), ep_ok(sector.power_base_epoch),
        sector.expiration > sector.power_base_epoch,
    ensures
        r.is_ok() && ({
            let n = r->Ok_0;
            let old_duration = sector.expiration - sector.power_base_epoch;
            &&& n.expiration == new_expiration && n.power_base_epoch == curr_epoch
            &&& n.sector_number == sector.sector_number && n.activation == sector.activation && n.initial_pledge@ == sector.initial_pledge@
            // "spent" weight is removed: what remains is the old space over the remaining life (rounded down)
            &&& n.deal_weight@ == floor_div(sector.deal_weight@ * (sector.expiration - curr_epoch), old_duration)
            &&& n.verified_deal_weight@ == floor_div(sector.verified_deal_weight@ * (sector.expiration - curr_epoch), old_duration)
        }),
//@ end

} // verus!
fn main() {}
