// unit: miner sector ACTIVATION — ProveCommitSectors3, ProveReplicaUpdates3, ProveCommitSectorsNI under machine-checked contracts (C10, C03, C02, C08, C11)
//
// WHOLE functions extracted from /repo (real bodies; rewrites R1-R4, R17, R18, R20 and the token substitutions listed on each directive):
//   lib.rs  Actor::prove_commit_sectors3 (top-level contract pcs3_post / pcs3_ok), validate_precommits, validate_seal_aggregate_proof, activate_sectors_pieces,
//           batch_claim_allocations, activate_new_sector_infos (closure ani_tx0 + function; contract of units/C03/miner_onboard.vx.rs STRENGTHENED: the info
//           stored for each sector carries ITS data-activation output — info_at), request_current_total_power (as vx_request_current_total_power),
//           Actor::prove_replica_updates3 (pru3_post / pru3_ok), update_existing_sector_info, update_replica_states (closure urs_tx0 + function),
//           request_update_power, Actor::prove_commit_sectors_ni (closure ni_tx0 + method; ni_post / ni_ok), consensus_fault_active, enroll_cron_event
//   notifications.rs  notify_data_consumers, send_notification, validate_notification_response
//   state.rs / sectors.rs  get_precommitted_sectors, delete_precommitted_sectors, put_sectors, allocate_sector_numbers, load/save_deadlines, Sectors::{load, store, get, must_get}
//   + the shared miner blocks (units/shared/miner_funds.inc, miner_methods.inc: ledger functions, burn_funds, notify_pledge_changed, ...)
// REGIONS (R21, NOTHING dropped — no slice): validate_replica_updates is a closure `validate_one` capturing `&mut sector_numbers` (outside this Verus) plus
//   a loop: the closure BODY is the region vru_validate_one, the loop is the region vru_loop (its call `validate_one(..)` is substituted by the lifted
//   region); the 4-line function `validate_replica_updates` of this template re-assembles them (GLUE written here, not extracted). The loop of
//   State::assign_sectors_to_deadlines that hands the new sectors to Deadline::add_sectors is the region assign_sectors_unproven (clause (d): proven = false).
// ITERATOR ADAPTERS (outside this Verus): `.iter().map(|(a, b)| -> T { .. }).collect()` closures with a block body stay the EXTRACTED text; the directive
//   adds parameter types and an `ensures` to the closure (sub), and Verus checks the closure body against it (vx_pairs / vx_zip helpers). Expressions
//   whose closure has no block body are replaced WHOLE by a prelude helper whose contract is the expression's meaning (listed on the directive; a
//   change inside such an expression makes vx lose the anchor: exit 2 = UNDECIDED, never a silent pass).
// OPAQUE (prelude/miner_prove_*.rs, miner_onboard_assumed.rs): proof verification verdicts (seal_verdict, agg_seal_verdict, replica_verdict — the verdict
//   is USED: a sector counts as proven only with a positive verdict on ITS OWN proof), CommD computation, deposit / pledge / power formulas, the
//   deadline / partition machinery (Partition::replace_sectors: deltas computed from the given infos; Deadline::add_sectors with the MONITOR
//   precondition `!proven`), validate_ni_sectors, check_sector_active (verdict sector_active_in), BatchReturn (successes / stack), BTreeMap / HashMap.
// EXPLICIT ASSUMPTIONS (preconditions of the top-level methods): registry_contract() — what the verified registry answers to ClaimAllocations;
//   rt_no_reentry for the ClaimAllocations / ThisEpochReward / CurrentTotalPower calls made between loading the state and the transaction;
//   pctable_ok / sectors_ok — records are stored under their own sector number (established by put_precommitted_sectors / Sectors::store), epochs of chain
//   magnitude.
// NOT under contract: activate_sectors_deals (used only by internal_sector_setup_preseal), validate_ni_sectors, verify_aggregate_seal, validate_seal_proofs,
//   unsealed_cid_from_pieces (opaque stubs), State::assign_sectors_to_deadline(s) beyond the region above, COMPLETENESS of the notifications (every
//   notify entry is delivered) — only soundness (nothing is notified that was not asked for) and the failure semantics are proved.
//@ include prelude/core.rs
//@ include prelude/ipld.rs
//@ include prelude/bitfield.rs
//@ include prelude/rt.rs
//@ include prelude/singletons.rs
//@ include prelude/policy.rs
//@ include prelude/cbor.rs
//@ include prelude/batch.rs
verus! {
//@ item actors/miner/src/policy.rs VestSpec
//@ item runtime/src/builtin/reward/smooth/alpha_beta_filter.rs FilterEstimate
}
//@ include prelude/miner_vesting.rs
//@ include prelude/miner_ext.rs
use std::cmp;
use std::cmp::max;
use std::ops;
macro_rules! log_debug { ($($t:tt)*) => { () } }
verus! {
//@ include units/shared/miner_funds.inc
//@ include units/shared/miner_methods.inc
//@ item actors/miner/src/quantize.rs QuantSpec attr="#[derive(Clone, Copy)]"
//@ item actors/miner/src/commd.rs CompactCommD
//@ item actors/miner/src/types.rs SectorPreCommitInfo
//@ item actors/miner/src/types.rs SectorPreCommitOnChainInfo
pub type DealWeight = BigInt;
/// bitflags! SectorOnChainInfoFlags (types.rs): a u32 of flag bits; SIMPLE_QA_POWER = 0x1
#[derive(Clone, Copy, PartialEq, Eq, Structural)]
pub struct SectorOnChainInfoFlags { pub bits: u32 }
impl SectorOnChainInfoFlags { pub const SIMPLE_QA_POWER: SectorOnChainInfoFlags = SectorOnChainInfoFlags { bits: 1 }; }
//@ item actors/miner/src/types.rs SectorOnChainInfo
//@ include prelude/miner_sector_clone.rs
//@ item actors/miner/src/partition_state.rs PowerPair
//@ include units/shared/power_pair.inc
//@ item actors/miner/src/deadline_state.rs Deadlines
impl CborVal for Deadlines { type Base = Deadlines; open spec fn base(&self) -> Deadlines { *self } }
//@ item actors/miner/src/ext.rs CurrentTotalPowerReturn
//@ item actors/miner/src/ext.rs VerifyDealsForActivationReturn
//@ include prelude/miner_onboard_assumed.rs
// ---- parameter / manifest types of the activation methods (types.rs), fvm_shared PaddedPieceSize, the registry interface (ext.rs verifreg) ----
#[derive(Clone, Copy, PartialEq, Eq, Structural)]
pub struct PaddedPieceSize(pub u64);
pub type AllocationID = u64;
pub type ClaimID = u64;
//@ item actors/miner/src/types.rs VerifiedAllocationKey
//@ item actors/miner/src/types.rs DataActivationNotification
//@ item actors/miner/src/types.rs PieceActivationManifest
//@ item actors/miner/src/types.rs SectorActivationManifest
//@ item actors/miner/src/types.rs ProveCommitSectors3Params
//@ item actors/miner/src/types.rs ProveCommitSectors3Return
//@ item actors/miner/src/lib.rs SectorPiecesActivationInput
//@ item actors/miner/src/lib.rs DataActivationOutput tsub0="struct DataActivationOutput=>pub struct DataActivationOutput"
//@ item actors/miner/src/lib.rs NetworkPledgeInputs tsub0="struct NetworkPledgeInputs=>pub struct NetworkPledgeInputs"
//@ item actors/miner/src/lib.rs SectorSealProofInput tsub0="struct SectorSealProofInput=>pub struct SectorSealProofInput"
// the registry interface as the miner sees it (ext.rs `pub mod verifreg`; the shared block already owns module `ext`, hence the name `vreg`)
//@ item actors/miner/src/ext.rs AllocationClaim
//@ item actors/miner/src/ext.rs SectorAllocationClaims
//@ item actors/miner/src/ext.rs ClaimAllocationsParams
//@ item actors/miner/src/ext.rs SectorClaimSummary
//@ item actors/miner/src/ext.rs ClaimAllocationsReturn
pub mod vreg {
    pub type AllocationClaim = super::AllocationClaim;
    pub type SectorAllocationClaims = super::SectorAllocationClaims;
    pub type ClaimAllocationsParams = super::ClaimAllocationsParams;
    pub type SectorClaimSummary = super::SectorClaimSummary;
    pub type ClaimAllocationsReturn = super::ClaimAllocationsReturn;
//@ const actors/miner/src/ext.rs CLAIM_ALLOCATIONS_METHOD
}
//@ include prelude/miner_prove_assumed.rs
pub type PreCommitMap<BS> = Map2<BS, SectorNumber, SectorPreCommitOnChainInfo>;
//@ const actors/miner/src/state.rs PRECOMMIT_CONFIG


// ======================= the abstract view of the pre-commit HAMT and the sums over records =======================
/// the pre-commit table of a miner state: sector number -> on-chain pre-commit record
pub open spec fn pcmap(s: State) -> Map<SectorNumber, SectorPreCommitOnChainInfo> { map2_decode::<SectorNumber, SectorPreCommitOnChainInfo>(s.pre_committed_sectors) }
/// sum of the deposits of the first n records of a sequence
pub open spec fn sum_deposits(recs: Seq<SectorPreCommitOnChainInfo>, n: int) -> int
    decreases n
{ if n <= 0 { 0 } else { sum_deposits(recs, n - 1) + recs[n - 1].pre_commit_deposit@ } }
/// sum of the deposits STORED in table m for the first n sector numbers of ks (a number that has no record counts 0)
pub open spec fn sum_stored(m: Map<SectorNumber, SectorPreCommitOnChainInfo>, ks: Seq<SectorNumber>, n: int) -> int
    decreases n
{ if n <= 0 { 0 } else { sum_stored(m, ks, n - 1) + (if m.dom().contains(ks[n - 1]) { m[ks[n - 1]].pre_commit_deposit@ } else { 0 }) } }
/// m with the first n keys of ks removed
pub open spec fn remove_keys(m: Map<SectorNumber, SectorPreCommitOnChainInfo>, ks: Seq<SectorNumber>, n: int) -> Map<SectorNumber, SectorPreCommitOnChainInfo>
    decreases n
{ if n <= 0 { m } else { remove_keys(m, ks, n - 1).remove(ks[n - 1]) } }
/// a key survives the removal of the first n keys iff it was there and is none of them
pub open spec fn is_key(ks: Seq<SectorNumber>, n: int, k: SectorNumber) -> bool { exists|i: int| 0 <= i < n && #[trigger] ks[i] == k }
pub proof fn lemma_remove_keys_dom(m: Map<SectorNumber, SectorPreCommitOnChainInfo>, ks: Seq<SectorNumber>, n: int)
    requires 0 <= n <= ks.len()
    ensures
        forall|k: SectorNumber| #[trigger] remove_keys(m, ks, n).dom().contains(k) <==> m.dom().contains(k) && !is_key(ks, n, k),
        forall|k: SectorNumber| #[trigger] remove_keys(m, ks, n).dom().contains(k) ==> remove_keys(m, ks, n)[k] == m[k],
    decreases n
{
    if n > 0 {
        lemma_remove_keys_dom(m, ks, n - 1);
        let m1 = remove_keys(m, ks, n - 1);
        assert(remove_keys(m, ks, n) == m1.remove(ks[n - 1]));
        assert forall|k: SectorNumber| #[trigger] remove_keys(m, ks, n).dom().contains(k) <==> m.dom().contains(k) && !is_key(ks, n, k) by {
            assert(remove_keys(m, ks, n).dom().contains(k) <==> k != ks[n - 1] && m1.dom().contains(k));
            if is_key(ks, n - 1, k) { let i = choose|i: int| 0 <= i < n - 1 && #[trigger] ks[i] == k; assert(ks[i] == k); assert(is_key(ks, n, k)); }
            if is_key(ks, n, k) { let i = choose|i: int| 0 <= i < n && #[trigger] ks[i] == k; if i < n - 1 { assert(ks[i] == k); assert(is_key(ks, n - 1, k)); } }
            if k == ks[n - 1] { assert(is_key(ks, n, k)); }
        }
        assert forall|k: SectorNumber| #[trigger] remove_keys(m, ks, n).dom().contains(k) implies remove_keys(m, ks, n)[k] == m[k] by {
            assert(m1.dom().contains(k));
        }
    }
}
/// remove_keys depends only on the first n keys
pub proof fn lemma_remove_keys_ext(m: Map<SectorNumber, SectorPreCommitOnChainInfo>, a: Seq<SectorNumber>, b: Seq<SectorNumber>, n: int)
    requires 0 <= n <= a.len(), n <= b.len(), forall|i: int| 0 <= i < n ==> a[i] == b[i]
    ensures remove_keys(m, a, n) == remove_keys(m, b, n)
    decreases n
{ if n > 0 { lemma_remove_keys_ext(m, a, b, n - 1); } }
//@ fn actors/miner/src/state.rs State::delete_precommitted_sectors
    ensures
        *final(self) == (State { pre_committed_sectors: final(self).pre_committed_sectors, ..*old(self) }),
        // "delete removes exactly the given numbers" (each of which had a record: a missing or repeated number is an error)
        r.is_ok() ==> pcmap(*final(self)) == remove_keys(pcmap(*old(self)), sector_nums@, sector_nums@.len() as int),
        r.is_ok() ==> forall|i: int| 0 <= i < sector_nums@.len() ==> #[trigger] pcmap(*old(self)).dom().contains(sector_nums@[i]),
        r.is_ok() ==> sector_nums@.no_duplicates(),
        r.is_err() ==> *final(self) == *old(self),
//@ loop 0 iter=it
        invariant
            *self == *old(self), it.index@ <= sector_nums@.len(),
            precommitted.view() == remove_keys(pcmap(*old(self)), sector_nums@, it.index@ as int),
            forall|i: int| 0 <= i < it.index@ ==> #[trigger] pcmap(*old(self)).dom().contains(sector_nums@[i]),
            forall|i: int, j: int| 0 <= i < j < it.index@ ==> sector_nums@[i] != sector_nums@[j],
//@ loopstart 0
            proof { lemma_remove_keys_dom(pcmap(*old(self)), sector_nums@, it.index@ as int); }
//@ end

// the loader used by ProveCommitSectors3 / ProveReplicaUpdates: every requested number must have a record; the records returned are the stored ones
//@ fn actors/miner/src/state.rs State::get_precommitted_sectors sigsub0="impl IntoIterator < Item = impl Borrow < SectorNumber > >=>Vec<SectorNumber>" sub0="* sector_no . borrow ()=>sector_no"
    ensures
        r.is_ok() ==> r->Ok_0@.len() == sector_nos@.len() && forall|i: int| 0 <= i < sector_nos@.len() ==>
            pcmap(*self).dom().contains(#[trigger] sector_nos@[i]) && pcv(r->Ok_0@[i]) == pcv(pcmap(*self)[sector_nos@[i]]),
//@ loop 0 iter=it
        invariant
            it.index@ <= sector_nos@.len(), precommitted.view() == pcmap(*self), precommits@.len() == it.index@,
            forall|i: int| 0 <= i < it.index@ ==> pcmap(*self).dom().contains(#[trigger] sector_nos@[i]) && pcv(precommits@[i]) == pcv(pcmap(*self)[sector_nos@[i]]),
//@ end
pub open spec fn small_epoch(e: int) -> bool { -0x1000_0000_0000_0000 < e < 0x1000_0000_0000_0000 }
// ======================= (3) the proving side: activate_new_sector_infos =======================
//@ const runtime/src/runtime/policy.rs MAX_SECTOR_NUMBER

/// sum of the initial_pledge fields of the first n sector infos
pub open spec fn sum_pledge(infos: Seq<SectorOnChainInfo>, n: int) -> int
    decreases n
{ if n <= 0 { 0 } else { sum_pledge(infos, n - 1) + infos[n - 1].initial_pledge@ } }
/// sum of the initial_pledge fields STORED in the sector table under the first n numbers of ks
pub open spec fn sum_pledge_tbl(t: Map<u64, SectorOnChainInfo>, ks: Seq<SectorNumber>, n: int) -> int
    decreases n
{ if n <= 0 { 0 } else { sum_pledge_tbl(t, ks, n - 1) + (if t.dom().contains(ks[n - 1]) { t[ks[n - 1]].initial_pledge@ } else { 0 }) } }
/// sum of the deposits of the first n (referenced) pre-commit records
pub open spec fn sum_deposits_ref(recs: Seq<&SectorPreCommitOnChainInfo>, n: int) -> int
    decreases n
{ if n <= 0 { 0 } else { sum_deposits_ref(recs, n - 1) + recs[n - 1].pre_commit_deposit@ } }
pub open spec fn ref_nums(v: Seq<&SectorPreCommitOnChainInfo>) -> Seq<SectorNumber> { Seq::new(v.len(), |i: int| v[i].info.sector_number) }
pub open spec fn info_nums(v: Seq<SectorOnChainInfo>) -> Seq<SectorNumber> { Seq::new(v.len(), |i: int| v[i].sector_number) }
/// the sector table with the first n infos stored under their own numbers (AMT set: a later entry overwrites)
pub open spec fn store_infos(t: Map<u64, SectorOnChainInfo>, infos: Seq<SectorOnChainInfo>, n: int) -> Map<u64, SectorOnChainInfo>
    decreases n
{ if n <= 0 { t } else { store_infos(t, infos, n - 1).insert(infos[n - 1].sector_number, infos[n - 1]) } }
/// the records handed to the activation are the ones stored under their numbers (same deposit)
pub open spec fn recs_match(m: Map<SectorNumber, SectorPreCommitOnChainInfo>, recs: Seq<&SectorPreCommitOnChainInfo>, n: int) -> bool {
    forall|i: int| 0 <= i < n ==> m.dom().contains((#[trigger] recs[i]).info.sector_number) && m[recs[i].info.sector_number].pre_commit_deposit@ == recs[i].pre_commit_deposit@
}
pub proof fn lemma_store_infos(t: Map<u64, SectorOnChainInfo>, infos: Seq<SectorOnChainInfo>, n: int)
    requires 0 <= n <= infos.len(), forall|i: int, j: int| 0 <= i < j < n ==> (#[trigger] infos[i]).sector_number != (#[trigger] infos[j]).sector_number
    ensures
        forall|i: int| 0 <= i < n ==> store_infos(t, infos, n).dom().contains((#[trigger] infos[i]).sector_number) && store_infos(t, infos, n)[infos[i].sector_number] == infos[i],
        forall|k: u64| #[trigger] store_infos(t, infos, n).dom().contains(k) <==> t.dom().contains(k) || is_key(info_nums(infos), n, k),
        forall|k: u64| #[trigger] t.dom().contains(k) && !is_key(info_nums(infos), n, k) ==> store_infos(t, infos, n)[k] == t[k],
    decreases n
{
    if n > 0 {
        lemma_store_infos(t, infos, n - 1);
        let t1 = store_infos(t, infos, n - 1);
        let kn = infos[n - 1].sector_number;
        let ks = info_nums(infos);
        assert(store_infos(t, infos, n) == t1.insert(kn, infos[n - 1]));
        assert(ks[n - 1] == kn);
        assert forall|i: int| 0 <= i < n implies store_infos(t, infos, n).dom().contains((#[trigger] infos[i]).sector_number) && store_infos(t, infos, n)[infos[i].sector_number] == infos[i] by {
            if i < n - 1 { assert(infos[i].sector_number != infos[n - 1].sector_number); assert(t1.dom().contains(infos[i].sector_number)); }
        }
        assert forall|k: u64| #[trigger] store_infos(t, infos, n).dom().contains(k) <==> t.dom().contains(k) || is_key(ks, n, k) by {
            assert(store_infos(t, infos, n).dom().contains(k) <==> k == kn || t1.dom().contains(k));
            if is_key(ks, n - 1, k) { let i = choose|i: int| 0 <= i < n - 1 && #[trigger] ks[i] == k; assert(ks[i] == k); assert(is_key(ks, n, k)); }
            if is_key(ks, n, k) { let i = choose|i: int| 0 <= i < n && #[trigger] ks[i] == k; if i < n - 1 { assert(ks[i] == k); assert(is_key(ks, n - 1, k)); } }
            if k == kn { assert(is_key(ks, n, k)); }
        }
        assert forall|k: u64| #[trigger] t.dom().contains(k) && !is_key(ks, n, k) implies store_infos(t, infos, n)[k] == t[k] by {
            if k == kn { assert(is_key(ks, n, k)); }
            if is_key(ks, n - 1, k) { let i = choose|i: int| 0 <= i < n - 1 && #[trigger] ks[i] == k; assert(ks[i] == k); assert(is_key(ks, n, k)); }
        }
    }
}
/// the pledges found in the table under the stored numbers add up to the pledges of the stored infos (numbers pairwise distinct)
pub proof fn lemma_sum_pledge_stored(t: Map<u64, SectorOnChainInfo>, infos: Seq<SectorOnChainInfo>, built: Seq<SectorOnChainInfo>, ks: Seq<SectorNumber>, n: int, k: int)
    requires
        0 <= k <= n <= infos.len(), n <= built.len(), n <= ks.len(),
        forall|i: int, j: int| 0 <= i < j < n ==> (#[trigger] infos[i]).sector_number != (#[trigger] infos[j]).sector_number,
        forall|i: int| 0 <= i < n ==> ks[i] == (#[trigger] infos[i]).sector_number && infos[i].initial_pledge@ == built[i].initial_pledge@,
    ensures sum_pledge_tbl(store_infos(t, infos, n), ks, k) == sum_pledge(built, k)
    decreases k
{
    if k > 0 {
        lemma_sum_pledge_stored(t, infos, built, ks, n, k - 1);
        lemma_store_infos(t, infos, n);
        assert(store_infos(t, infos, n)[infos[k - 1].sector_number] == infos[k - 1]);
    }
}
pub proof fn lemma_sum_pledge_ext(a: Seq<SectorOnChainInfo>, b: Seq<SectorOnChainInfo>, n: int)
    requires 0 <= n <= a.len(), n <= b.len(), forall|i: int| 0 <= i < n ==> a[i] == b[i]
    ensures sum_pledge(a, n) == sum_pledge(b, n)
    decreases n
{ if n > 0 { lemma_sum_pledge_ext(a, b, n - 1); } }
/// when the records handed in are the stored ones, the deposits released are the deposits stored under the deleted numbers
pub proof fn lemma_sum_ref_stored(m: Map<SectorNumber, SectorPreCommitOnChainInfo>, recs: Seq<&SectorPreCommitOnChainInfo>, n: int)
    requires 0 <= n <= recs.len(), recs_match(m, recs, n)
    ensures sum_stored(m, ref_nums(recs), n) == sum_deposits_ref(recs, n)
    decreases n
{ if n > 0 { lemma_sum_ref_stored(m, recs, n - 1); assert(ref_nums(recs)[n - 1] == recs[n - 1].info.sector_number); } }

//@ fn actors/miner/src/sectors.rs Sectors::load
    ensures r.is_ok() ==> r->Ok_0.amt.view() == array_decode::<SectorOnChainInfo>(*root),
//@ end
//@ fn actors/miner/src/sectors.rs Sectors::store
    ensures
        r.is_ok() ==> final(self).amt.view() == store_infos(old(self).amt.view(), infos@, infos@.len() as int),
//@ loop 0 iter=it
        invariant it.index@ <= infos@.len(), self.amt.view() == store_infos(old(self).amt.view(), infos@, it.index@ as int),
//@ end
//@ fn actors/miner/src/state.rs State::put_sectors
    ensures
        *final(self) == (State { sectors: final(self).sectors, ..*old(self) }),
        r.is_ok() ==> sectors_tbl(*final(self)) == store_infos(sectors_tbl(*old(self)), new_sectors@, new_sectors@.len() as int),
        r.is_err() ==> *final(self) == *old(self),
//@ end

/// the pledge computed for the i-th activated sector
pub open spec fn pledge_at(pci: SectorPreCommitOnChainInfo, da: DataActivationOutput, pi: NetworkPledgeInputs, info: MinerInfo, activation_epoch: ChainEpoch) -> int {
    let duration = (pci.info.expiration - activation_epoch) as ChainEpoch;
    ip_spec(qapw_spec(info.sector_size, duration, da.verified_space@ * duration), pi.network_baseline@, pi.epoch_reward, pi.network_qap, pi.circulating_supply@,
        pi.epochs_since_ramp_start, pi.ramp_duration_epochs)
}

/// C10 / C02 at activation: the info stored for the i-th activated sector carries ITS data-activation output — verified weight = claimed space x
/// lifetime, deal weight = unverified space x lifetime — counted from the activation epoch (power_base_epoch), under the SIMPLE_QA_POWER flag
pub open spec fn info_at(si: SectorOnChainInfo, pci: SectorPreCommitOnChainInfo, da: DataActivationOutput, activation_epoch: ChainEpoch) -> bool {
    let duration = pci.info.expiration - activation_epoch;
    &&& si.sector_number == pci.info.sector_number && si.activation == activation_epoch && si.expiration == pci.info.expiration
    &&& si.power_base_epoch == activation_epoch
    &&& si.verified_deal_weight@ == da.verified_space@ * duration
    &&& si.deal_weight@ == da.unverified_space@ * duration
    &&& si.sealed_cid == pci.info.sealed_cid && si.seal_proof == pci.info.seal_proof && si.sector_key_cid.is_none()
    &&& si.flags == SectorOnChainInfoFlags::SIMPLE_QA_POWER
}
//@ fn actors/miner/src/lib.rs activate_new_sector_infos closure=0 as=ani_tx0 params="state: &mut State, rt: &mut Rt, precommits: Vec<&SectorPreCommitOnChainInfo>, data_activations: Vec<DataActivationOutput>, pledge_inputs: &NetworkPledgeInputs, info: &MinerInfo, activation_epoch: ChainEpoch" retty="Result<(TokenAmount, TokenAmount), ActorError>" ret=res r17
    requires
        // stored epochs are of chain magnitude (no i64 overflow in `expiration - activation_epoch`)
        small_epoch(activation_epoch as int), forall|i: int| 0 <= i < precommits@.len() ==> small_epoch((#[trigger] precommits@[i]).info.expiration as int),
    ensures
        *final(rt) == *old(rt),
        res.is_ok() ==> ({
            let s0 = *old(state);
            let s1 = *final(state);
            let n = if precommits@.len() <= data_activations@.len() { precommits@.len() as int } else { data_activations@.len() as int };
            let nums = ref_nums(precommits@);
            let (total_pledge, newly_vested) = res->Ok_0;
            // ---- "for every activated sector its pre-commit record is deleted": exactly those numbers (each had a record, all distinct) ----
            &&& pcmap(s1) == remove_keys(pcmap(s0), nums, n)
            &&& (forall|i: int| 0 <= i < n ==> pcmap(s0).dom().contains(#[trigger] nums[i]))
            &&& (forall|i: int, j: int| 0 <= i < j < n ==> #[trigger] nums[i] != #[trigger] nums[j])
            // ---- "and its deposit released": add_pre_commit_deposit(-sum of the deposits of the records handed in) ...
            &&& s1.pre_commit_deposits@ == s0.pre_commit_deposits@ - sum_deposits_ref(precommits@, n)
            // ... which is the sum of the deposits STORED under the deleted numbers when the caller hands in the stored records
            &&& (recs_match(pcmap(s0), precommits@, n) ==> s1.pre_commit_deposits@ == s0.pre_commit_deposits@ - sum_stored(pcmap(s0), nums, n))
            // ---- one sector info per activated sector is stored under the sector's number, carrying the pledge computed for it ----
            &&& (forall|i: int| 0 <= i < n ==> sectors_tbl(s1).dom().contains(#[trigger] nums[i])
                    && sectors_tbl(s1)[nums[i]].initial_pledge@ == pledge_at(*precommits@[i], data_activations@[i], *pledge_inputs, *info, activation_epoch)
                    && sectors_tbl(s1)[nums[i]].sector_number == nums[i] && sectors_tbl(s1)[nums[i]].activation == activation_epoch
                    && sectors_tbl(s1)[nums[i]].expiration == precommits@[i].info.expiration
                    && info_at(sectors_tbl(s1)[nums[i]], *precommits@[i], data_activations@[i], activation_epoch))
            &&& (forall|k: u64| #[trigger] sectors_tbl(s1).dom().contains(k) <==> sectors_tbl(s0).dom().contains(k) || is_key(nums, n, k))
            &&& (forall|k: u64| #[trigger] sectors_tbl(s0).dom().contains(k) && !is_key(nums, n, k) ==> sectors_tbl(s1)[k] == sectors_tbl(s0)[k])
            // ---- add_initial_pledge(+sum of the new sectors' initial_pledge), each term being the value stored in the sector's SectorOnChainInfo ----
            &&& s1.initial_pledge@ == s0.initial_pledge@ + sum_pledge_tbl(sectors_tbl(s1), nums, n)
            // ---- the pledge delta handed back (to be notified to the power actor) is exactly the change of initial_pledge; no vesting change here ----
            &&& total_pledge@ - newly_vested@ == s1.initial_pledge@ - s0.initial_pledge@
            &&& newly_vested@ == 0 && s1.locked_funds == s0.locked_funds && s1.vesting_funds == s0.vesting_funds && s1.fee_debt == s0.fee_debt
            // ---- "the balance invariant is checked": the miner still covers deposits, vesting funds and pledge ----
            &&& st_solvent(s1, old(rt).balance@) && s1.pre_commit_deposits@ >= 0 && s1.initial_pledge@ >= 0 && s1.locked_funds@ >= 0 && s1.fee_debt@ >= 0
            // nothing else is written
            &&& s1 == (State { pre_commit_deposits: s1.pre_commit_deposits, initial_pledge: s1.initial_pledge, pre_committed_sectors: s1.pre_committed_sectors,
                    sectors: s1.sectors, deadlines: s1.deadlines, ..s0 })
        }),
//@ loop 0
        invariant
            *state == *old(state), *rt == *old(rt), small_epoch(activation_epoch as int),
            forall|i: int| 0 <= i < precommits@.len() ==> small_epoch((#[trigger] precommits@[i]).info.expiration as int),
            new_sector_numbers@.len() == __vx_z0, new_sectors@.len() == __vx_z0,
            forall|j: int| 0 <= j < __vx_z0 ==> new_sector_numbers@[j] == precommits@[j].info.sector_number && (#[trigger] new_sectors@[j]).sector_number == precommits@[j].info.sector_number
                && new_sectors@[j].initial_pledge@ == pledge_at(*precommits@[j], data_activations@[j], *pledge_inputs, *info, activation_epoch)
                && new_sectors@[j].activation == activation_epoch && new_sectors@[j].expiration == precommits@[j].info.expiration
                && info_at(new_sectors@[j], *precommits@[j], data_activations@[j], activation_epoch),
            deposit_to_unlock@ == sum_deposits_ref(precommits@, __vx_z0 as int),
            total_pledge@ == sum_pledge(new_sectors@, __vx_z0 as int),
//@ loopstart 0
            let ghost ns0 = new_sectors@;
//@ loopend 0
            proof {
                assert(new_sectors@.drop_last() =~= ns0);
                lemma_sum_pledge_ext(new_sectors@, ns0, ns0.len() as int);
            }
//@ before "let newly_vested"
        proof {
            let n = new_sectors@.len() as int;
            let nums = ref_nums(precommits@);
            let t0 = sectors_tbl(*old(state));
            // the clone of `new_sectors` that was handed to put_sectors
            let ns_cl = choose|x: Seq<SectorOnChainInfo>| sectors_tbl(*state) == #[trigger] store_infos(t0, x, x.len() as int) && x.len() == n
                && forall|i: int| 0 <= i < n ==> secv(#[trigger] x[i]) == secv(new_sectors@[i]);
            assert forall|i: int| 0 <= i < n implies new_sector_numbers@[i] == nums[i] by { assert(new_sectors@[i].sector_number == precommits@[i].info.sector_number); }
            lemma_remove_keys_ext(pcmap(*old(state)), new_sector_numbers@, nums, n);
            assert forall|i: int, j: int| 0 <= i < j < n implies (#[trigger] ns_cl[i]).sector_number != (#[trigger] ns_cl[j]).sector_number by {
                assert(new_sector_numbers@[i] != new_sector_numbers@[j]);
                assert(secv(ns_cl[i]) == secv(new_sectors@[i])); assert(secv(ns_cl[j]) == secv(new_sectors@[j]));
            }
            assert forall|i: int| 0 <= i < n implies nums[i] == (#[trigger] ns_cl[i]).sector_number && ns_cl[i].initial_pledge@ == new_sectors@[i].initial_pledge@ by {
                assert(secv(ns_cl[i]) == secv(new_sectors@[i]));
            }
            lemma_store_infos(t0, ns_cl, n);
            lemma_sum_pledge_stored(t0, ns_cl, new_sectors@, nums, n, n);
            assert forall|k: u64| is_key(info_nums(ns_cl), n, k) <==> is_key(nums, n, k) by {
                if is_key(info_nums(ns_cl), n, k) { let i = choose|i: int| 0 <= i < n && #[trigger] info_nums(ns_cl)[i] == k; assert(nums[i] == ns_cl[i].sector_number); assert(nums[i] == k); }
                if is_key(nums, n, k) { let i = choose|i: int| 0 <= i < n && #[trigger] nums[i] == k; assert(nums[i] == ns_cl[i].sector_number); assert(info_nums(ns_cl)[i] == k); }
            }
            assert forall|i: int| 0 <= i < n implies sectors_tbl(*state).dom().contains(#[trigger] nums[i]) && secv(sectors_tbl(*state)[nums[i]]) == secv(new_sectors@[i]) by {
                assert(nums[i] == ns_cl[i].sector_number);
                assert(secv(ns_cl[i]) == secv(new_sectors@[i]));
            }
            if recs_match(pcmap(*old(state)), precommits@, n) { lemma_sum_ref_stored(pcmap(*old(state)), precommits@, n); }
        }
//@ end

// ---------------- activate_new_sector_infos: whole function ----------------
/// the committed state of activate_new_sector_infos (see ani_tx0): records deleted, deposits released, sector infos stored, pledge added
#[verifier::opaque]
pub open spec fn ani_post(s0: State, s1: State, precommits: Seq<&SectorPreCommitOnChainInfo>, das: Seq<DataActivationOutput>, pi: NetworkPledgeInputs, info: MinerInfo,
        epoch: ChainEpoch, balance: int) -> bool {
    let n = if precommits.len() <= das.len() { precommits.len() as int } else { das.len() as int };
    let nums = ref_nums(precommits);
    &&& pcmap(s1) == remove_keys(pcmap(s0), nums, n)
    &&& s1.pre_commit_deposits@ == s0.pre_commit_deposits@ - sum_deposits_ref(precommits, n)
    &&& s1.initial_pledge@ == s0.initial_pledge@ + sum_pledge_tbl(sectors_tbl(s1), nums, n)
    &&& s1.locked_funds == s0.locked_funds
    &&& st_solvent(s1, balance)
    // the records deleted were there, one per activated sector; handing in the STORED records releases exactly the deposits stored for them
    &&& (forall|i: int| 0 <= i < n ==> pcmap(s0).dom().contains(#[trigger] nums[i]))
    &&& (forall|i: int, j: int| 0 <= i < j < n ==> #[trigger] nums[i] != #[trigger] nums[j])
    &&& (recs_match(pcmap(s0), precommits, n) ==> s1.pre_commit_deposits@ == s0.pre_commit_deposits@ - sum_stored(pcmap(s0), nums, n))
    // the sector table: one new info per activated sector, carrying ITS activation output and the pledge computed for it; nothing else touched
    &&& (forall|i: int| 0 <= i < n ==> sectors_tbl(s1).dom().contains(#[trigger] nums[i])
            && info_at(sectors_tbl(s1)[nums[i]], *precommits[i], das[i], epoch)
            && sectors_tbl(s1)[nums[i]].initial_pledge@ == pledge_at(*precommits[i], das[i], pi, info, epoch))
    &&& (forall|k: u64| #[trigger] sectors_tbl(s1).dom().contains(k) <==> sectors_tbl(s0).dom().contains(k) || is_key(nums, n, k))
    &&& (forall|k: u64| #[trigger] sectors_tbl(s0).dom().contains(k) && !is_key(nums, n, k) ==> sectors_tbl(s1)[k] == sectors_tbl(s0)[k])
    &&& s1 == (State { pre_commit_deposits: s1.pre_commit_deposits, initial_pledge: s1.initial_pledge, pre_committed_sectors: s1.pre_committed_sectors,
            sectors: s1.sectors, deadlines: s1.deadlines, ..s0 })
}
//@ fn actors/miner/src/lib.rs activate_new_sector_infos tx0="State;ani_tx0;&mut __vx_st, rt, precommits, data_activations, pledge_inputs, info, activation_epoch"
    requires
        !old(rt).in_tx@, small_epoch(old(rt).epoch as int),
        forall|i: int| 0 <= i < precommits@.len() ==> small_epoch((#[trigger] precommits@[i]).info.expiration as int),
    ensures
        r.is_ok() ==> final(rt).tx_log@.len() == old(rt).tx_log@.len() + 1 && ({
            let s0 = rt_state::<State>(old(rt).state_id@);
            let s1 = rt_state::<State>(final(rt).tx_log@.last());
            let delta = s1.initial_pledge@ - s0.initial_pledge@;
            let s = final(rt).sends@;
            &&& ani_post(s0, s1, precommits@, data_activations@, *pledge_inputs, *info, old(rt).epoch, old(rt).balance@)
            // C03: "the pledge delta notified to the power actor is exactly the change of initial_pledge" (same sign; no message for a zero change);
            // (d) this is the ONLY message: power is not activated until the first Window PoSt — no UpdateClaimedPower
            &&& (delta == 0 ==> s == old(rt).sends@)
            &&& (delta != 0 ==> s.len() == old(rt).sends@.len() + 1 && s == old(rt).sends@.push(s.last()) && is_pledge_note(s.last()) && s.last().ok && s.last().value == 0
                    && exists|d: TokenAmount| s.last().params == Some(IpldBlock { h: #[trigger] cbor_hash(d) }) && d@ == delta)
        }),
        final(rt).msg == old(rt).msg && final(rt).epoch == old(rt).epoch && final(rt).validated == old(rt).validated && final(rt).in_tx == old(rt).in_tx
            && final(rt).read_only == old(rt).read_only,
        final(rt).tx_log@.len() <= old(rt).tx_log@.len() + 1, forall|i: int| 0 <= i < old(rt).tx_log@.len() ==> final(rt).tx_log@[i] == old(rt).tx_log@[i],
        final(rt).sends@.len() <= old(rt).sends@.len() + 1,
//@ entry
        proof { reveal(ani_post); }
//@ end

// =====================================================================================================================================================
// (5) data activation: the ClaimAllocations request and what is credited from its answer
// =====================================================================================================================================================
/// the claim requested for a piece that names an allocation
pub open spec fn claim_of_piece(p: PieceActivationManifest) -> AllocationClaim {
    AllocationClaim { client: p.verified_allocation_key->Some_0.client, allocation_id: p.verified_allocation_key->Some_0.id, data: p.cid, size: p.size }
}
/// the claims requested for the first n pieces of a manifest: one per piece that names an allocation, in order
pub open spec fn claims_of(pieces: Seq<PieceActivationManifest>, n: int) -> Seq<AllocationClaim>
    decreases n
{ if n <= 0 { Seq::empty() } else if pieces[n - 1].verified_allocation_key.is_some() { claims_of(pieces, n - 1).push(claim_of_piece(pieces[n - 1])) } else { claims_of(pieces, n - 1) } }
/// total size of the first n pieces that name an allocation / that do not
pub open spec fn verified_size(pieces: Seq<PieceActivationManifest>, n: int) -> int
    decreases n
{ if n <= 0 { 0 } else { verified_size(pieces, n - 1) + (if pieces[n - 1].verified_allocation_key.is_some() { pieces[n - 1].size.0 as int } else { 0 }) } }
pub open spec fn unverified_size(pieces: Seq<PieceActivationManifest>, n: int) -> int
    decreases n
{ if n <= 0 { 0 } else { unverified_size(pieces, n - 1) + (if pieces[n - 1].verified_allocation_key.is_none() { pieces[n - 1].size.0 as int } else { 0 }) } }
/// total size of the first n claims of a request entry
pub open spec fn claims_size(claims: Seq<AllocationClaim>, n: int) -> int
    decreases n
{ if n <= 0 { 0 } else { claims_size(claims, n - 1) + claims[n - 1].size.0 } }
pub proof fn lemma_claims_size_ext(a: Seq<AllocationClaim>, b: Seq<AllocationClaim>, n: int)
    requires 0 <= n <= a.len(), n <= b.len(), forall|i: int| 0 <= i < n ==> a[i] == b[i]
    ensures claims_size(a, n) == claims_size(b, n)
    decreases n
{ if n > 0 { lemma_claims_size_ext(a, b, n - 1); } }
/// the sizes of the requested claims add up to the size of the pieces that name an allocation
pub proof fn lemma_claims_of_size(pieces: Seq<PieceActivationManifest>, n: int)
    requires 0 <= n <= pieces.len()
    ensures claims_size(claims_of(pieces, n), claims_of(pieces, n).len() as int) == verified_size(pieces, n), claims_of(pieces, n).len() <= n
    decreases n
{
    if n > 0 {
        lemma_claims_of_size(pieces, n - 1);
        if pieces[n - 1].verified_allocation_key.is_some() {
            let c0 = claims_of(pieces, n - 1);
            let c1 = claims_of(pieces, n);
            assert(c1 == c0.push(claim_of_piece(pieces[n - 1])));
            lemma_claims_size_ext(c1, c0, c0.len() as int);
        }
    }
}
/// the (Cid, size) pairs of the first n pieces (what the sector-activated event lists)
pub open spec fn piece_pairs(pieces: Seq<PieceActivationManifest>, n: int) -> Seq<(Cid, u64)>
    decreases n
{ if n <= 0 { Seq::empty() } else { piece_pairs(pieces, n - 1).push((pieces[n - 1].cid, pieces[n - 1].size.0)) } }

/// the request entry built for one activation input: THAT sector's number, THAT sector's expiration, one claim per verified piece of ITS manifest
pub open spec fn entry_for(e: SectorAllocationClaims, inp: SectorPiecesActivationInput) -> bool {
    e.sector == inp.sector_number && e.expiry == inp.sector_expiry && e.claims@ == claims_of(inp.piece_manifests@, inp.piece_manifests@.len() as int)
}
pub open spec fn is_claim_send(s: SendRec) -> bool { s.to == VERIFIED_REGISTRY_ACTOR_ADDR && s.method == vreg::CLAIM_ALLOCATIONS_METHOD }
/// `s` is a successful, decodable ClaimAllocations call carrying the request `req`
pub open spec fn claim_send_of(s: SendRec, req: ClaimAllocationsParams) -> bool {
    is_claim_send(s) && s.ok && s.params == Some(IpldBlock { h: cbor_hash(req) }) && deser_ok::<ClaimAllocationsReturn>(s.ret)
}
/// what the verified registry guarantees about its answer to a ClaimAllocations request (actors/verifreg/src/lib.rs claim_allocations: one
/// BatchReturnGen verdict per requested sector; one SectorClaimSummary pushed per SUCCESSFUL sector; a sector succeeds only with ALL its claims, and
/// its claimed_space is the sum of their sizes)
pub open spec fn claims_answer_wf(req: ClaimAllocationsParams, ans: ClaimAllocationsReturn) -> bool {
    let codes = ans.sector_results.codes();
    &&& codes.len() == req.sectors@.len()
    &&& ans.sector_claims@.len() == succ_idx(codes).len()
    &&& forall|j: int| 0 <= j < succ_idx(codes).len() ==> (#[trigger] ans.sector_claims@[j]).claimed_space@
            == claims_size(req.sectors@[succ_idx(codes)[j]].claims@, req.sectors@[succ_idx(codes)[j]].claims@.len() as int)
}
/// EXPLICIT ASSUMPTION about another actor: every successful ClaimAllocations call to the verified registry is answered as above
pub open spec fn registry_contract() -> bool {
    forall|s: SendRec, req: ClaimAllocationsParams| #[trigger] claim_send_of(s, req) ==> claims_answer_wf(req, deser_spec::<ClaimAllocationsReturn>(s.ret))
}
pub proof fn lemma_succ_idx(codes: Seq<u32>)
    ensures
        succ_idx(codes).len() <= codes.len(),
        forall|j: int| 0 <= j < succ_idx(codes).len() ==> 0 <= #[trigger] succ_idx(codes)[j] < codes.len() && codes[succ_idx(codes)[j]] == 0,
        forall|j: int, k: int| 0 <= j < k < succ_idx(codes).len() ==> #[trigger] succ_idx(codes)[j] < #[trigger] succ_idx(codes)[k],
        forall|i: int| 0 <= i < codes.len() && codes[i] == 0 ==> exists|j: int| 0 <= j < succ_idx(codes).len() && #[trigger] succ_idx(codes)[j] == i,
    decreases codes.len()
{
    if codes.len() > 0 {
        let c0 = codes.drop_last();
        lemma_succ_idx(c0);
        let s0 = succ_idx(c0);
        let s1 = succ_idx(codes);
        assert forall|i: int| 0 <= i < codes.len() && codes[i] == 0 implies exists|j: int| 0 <= j < s1.len() && #[trigger] s1[j] == i by {
            if i < c0.len() {
                assert(c0[i] == 0);
                let j = choose|j: int| 0 <= j < s0.len() && #[trigger] s0[j] == i;
                assert(s1[j] == i);
            } else {
                assert(s1[s1.len() - 1] == i);
            }
        }
        assert forall|j: int| 0 <= j < s1.len() implies 0 <= #[trigger] s1[j] < codes.len() && codes[s1[j]] == 0 by {
            if j < s0.len() { assert(s1[j] == s0[j]); assert(c0[s0[j]] == codes[s0[j]]); }
        }
        assert forall|j: int, k: int| 0 <= j < k < s1.len() implies #[trigger] s1[j] < #[trigger] s1[k] by {
            if k < s0.len() { assert(s1[j] == s0[j] && s1[k] == s0[k]); } else { if j < s0.len() { assert(s1[j] == s0[j]); } }
        }
    }
}
pub proof fn lemma_succ_idx_zeros(n: nat)
    ensures succ_idx(zeros(n)).len() == n, forall|j: int| 0 <= j < n ==> #[trigger] succ_idx(zeros(n))[j] == j
    decreases n
{
    if n > 0 {
        lemma_succ_idx_zeros((n - 1) as nat);
        assert(zeros(n).drop_last() =~= zeros((n - 1) as nat));
    }
}

//@ fn actors/miner/src/lib.rs validate_seal_aggregate_proof
    ensures
        r.is_ok() ==> (if interactive { policy.min_aggregated_sectors <= sector_count <= policy.max_aggregated_sectors }
                       else { policy.min_aggregated_sectors_ni <= sector_count <= policy.max_aggregated_sectors_ni }) && raw_len(*proof) <= policy.max_aggregated_proof_size,
//@ end

/// the codes / claimed spaces the miner works with after batch_claim_allocations: the registry's answer when a request was sent, n successes of
/// zero space otherwise
pub open spec fn ans_codes(sent: bool, ret: Option<IpldBlock>, n: nat) -> Seq<u32> {
    if sent { deser_spec::<ClaimAllocationsReturn>(ret).sector_results.codes() } else { zeros(n) }
}
pub open spec fn ans_space(sent: bool, ret: Option<IpldBlock>, j: int) -> int {
    if sent { deser_spec::<ClaimAllocationsReturn>(ret).sector_claims@[j].claimed_space@ } else { 0 }
}
pub open spec fn ans_nclaims(sent: bool, ret: Option<IpldBlock>, n: nat) -> nat {
    if sent { deser_spec::<ClaimAllocationsReturn>(ret).sector_claims@.len() } else { n }
}
pub open spec fn all_claims_empty(v: Seq<SectorAllocationClaims>) -> bool { forall|i: int| 0 <= i < v.len() ==> (#[trigger] v[i]).claims@.len() == 0 }

//@ fn actors/miner/src/lib.rs batch_claim_allocations ret=res sigsub0="ext :: verifreg ::=>vreg ::" suball0="ext :: verifreg ::=>vreg ::" sub0="verified_claims . iter () . all (| sector | sector . claims . is_empty ())=>vx_all_claims_empty(&verified_claims)" sub1="vec ! [ext :: verifreg :: SectorClaimSummary { claimed_space : BigInt :: zero () } ; verified_claims . len ()]=>vx_zero_summaries(verified_claims.len())"
    requires !old(rt).in_tx@, verified_claims@.len() <= u32::MAX,
    ensures
        rt_frame(old(rt), final(rt)),
        // "short-circuit the call if there are no claims": no message at all, every sector succeeds with zero claimed space
        all_claims_empty(verified_claims@) ==> *final(rt) == *old(rt) && res.is_ok(),
        // otherwise ONE zero-value ClaimAllocations message to the verified registry carrying exactly the given per-sector groups and the flag
        // (nothing at all leaves the actor when the request cannot be serialised)
        old(rt).sends@.len() <= final(rt).sends@.len() <= old(rt).sends@.len() + 1, forall|i: int| 0 <= i < old(rt).sends@.len() ==> final(rt).sends@[i] == old(rt).sends@[i],
        final(rt).sends@.len() == old(rt).sends@.len() ==> *final(rt) == *old(rt),
        final(rt).sends@.len() == old(rt).sends@.len() + 1 ==> !all_claims_empty(verified_claims@) && is_claim_send(final(rt).sends@.last()) && final(rt).sends@.last().value == 0
            && final(rt).sends@.last().params == Some(IpldBlock { h: cbor_hash(ClaimAllocationsParams { sectors: verified_claims, all_or_nothing }) }),
        res.is_ok() && !all_claims_empty(verified_claims@) ==> final(rt).sends@.len() == old(rt).sends@.len() + 1
            && claim_send_of(final(rt).sends@.last(), ClaimAllocationsParams { sectors: verified_claims, all_or_nothing }),
        rt_no_reentry(VERIFIED_REGISTRY_ACTOR_ADDR, vreg::CLAIM_ALLOCATIONS_METHOD) ==> final(rt).state_id == old(rt).state_id,
        // what is handed back is the registry's answer (or the all-success stand-in)
        res.is_ok() ==> ({
            let sent = !all_claims_empty(verified_claims@);
            let ret = if sent { final(rt).sends@.last().ret } else { None };
            let n = verified_claims@.len();
            &&& res->Ok_0.sector_results.codes() == ans_codes(sent, ret, n)
            &&& res->Ok_0.sector_claims@.len() == ans_nclaims(sent, ret, n)
            &&& forall|j: int| 0 <= j < res->Ok_0.sector_claims@.len() ==> (#[trigger] res->Ok_0.sector_claims@[j]).claimed_space@ == ans_space(sent, ret, j)
        }),
//@ end

macro_rules! vx_assert_or_abort { ($c:expr, $($t:tt)*) => { vx_abort_unless($c) } }
/// the request entries built so far: one per activation input, in order, each for ITS sector (number, expiration, verified pieces)
pub open spec fn entries_ok(vc: Seq<SectorAllocationClaims>, inputs: Seq<SectorPiecesActivationInput>, n: int) -> bool {
    vc.len() == n && forall|i: int| 0 <= i < n ==> entry_for(#[trigger] vc[i], inputs[i])
}
pub open spec fn pieces_ok(sp: Seq<&Vec<PieceActivationManifest>>, inputs: Seq<SectorPiecesActivationInput>, n: int) -> bool {
    sp.len() == n && forall|i: int| 0 <= i < n ==> (#[trigger] sp[i])@ == inputs[i].piece_manifests@
}
/// what activate_sectors_pieces hands back for the j-th SUCCESSFUL sector (input index k): the space the registry reported claimed for it, which
/// (registry_contract) is the total size of ITS pieces that name an allocation; the total size of its other pieces; its (cid, size) list
pub open spec fn output_for(o: DataActivationOutput, inp: SectorPiecesActivationInput, reported: int) -> bool {
    let ps = inp.piece_manifests@;
    &&& o.verified_space@ == reported
    &&& o.verified_space@ == verified_size(ps, ps.len() as int)
    &&& o.unverified_space@ == unverified_size(ps, ps.len() as int)
    &&& o.pieces@ == piece_pairs(ps, ps.len() as int)
}
//@ fn actors/miner/src/lib.rs activate_sectors_pieces ret=res suball0="ext :: verifreg ::=>vreg ::" suball1="assert !=>vx_assert_or_abort !" suball2="claim_res . sector_results . success_count=>claim_res . sector_results . vx_success_count ()" sub0="claim_res . sector_claims . iter () . zip (claim_res . sector_results . successes (& sectors_pieces)) . map=>vx_zip(&claim_res.sector_claims, claim_res.sector_results.successes(&sectors_pieces)).map" sub1="| (sector_claim , sector_pieces) |=>|sector_claim: &vreg::SectorClaimSummary, sector_pieces: &&Vec<PieceActivationManifest>| -> (o: DataActivationOutput) ensures o.verified_space@ == sector_claim.claimed_space@, o.unverified_space@ == unverified_size((**sector_pieces)@, (**sector_pieces)@.len() as int), o.pieces@ == piece_pairs((**sector_pieces)@, (**sector_pieces)@.len() as int)"
    requires !old(rt).in_tx@, activation_inputs@.len() <= u32::MAX, registry_contract(),
    ensures
        rt_frame(old(rt), final(rt)),
        // at most ONE message leaves the actor, and it is the ClaimAllocations request; no message when no piece of any sector names an allocation
        old(rt).sends@.len() <= final(rt).sends@.len() <= old(rt).sends@.len() + 1, forall|i: int| 0 <= i < old(rt).sends@.len() ==> final(rt).sends@[i] == old(rt).sends@[i],
        final(rt).sends@.len() == old(rt).sends@.len() ==> *final(rt) == *old(rt),
        rt_no_reentry(VERIFIED_REGISTRY_ACTOR_ADDR, vreg::CLAIM_ALLOCATIONS_METHOD) ==> final(rt).state_id == old(rt).state_id,
        // the request lists, PER SECTOR and in the order of the inputs: the sector's number, the sector's expiration ("so the registry can check the
        // term") and one claim (client, allocation id, data CID, size) for each piece of THAT sector's manifest that names an allocation
        final(rt).sends@.len() == old(rt).sends@.len() + 1 ==> is_claim_send(final(rt).sends@.last()) && final(rt).sends@.last().value == 0
            && exists|req: ClaimAllocationsParams| final(rt).sends@.last().params == Some(IpldBlock { h: #[trigger] cbor_hash(req) })
                && req.all_or_nothing == all_or_nothing && entries_ok(req.sectors@, activation_inputs@, activation_inputs@.len() as int),
        res.is_ok() ==> ({
            let (batch, outs) = res->Ok_0;
            let n = activation_inputs@.len();
            let sent = final(rt).sends@.len() == old(rt).sends@.len() + 1;
            let ret = if sent { final(rt).sends@.last().ret } else { None };
            let succ = succ_idx(batch.codes());
            // the per-sector verdicts are the registry's (all successful when nothing had to be claimed)
            &&& batch.codes() == ans_codes(sent, ret, n) && batch.codes().len() == n
            &&& (sent ==> final(rt).sends@.last().ok)
            &&& (!sent ==> forall|i: int| 0 <= i < n ==> verified_size((#[trigger] activation_inputs@[i]).piece_manifests@, activation_inputs@[i].piece_manifests@.len() as int) == 0)
            // one output per SUCCESSFUL sector, in order; a sector whose claims failed gets none
            &&& outs@.len() == succ.len()
            &&& (forall|j: int| 0 <= j < outs@.len() ==> 0 <= succ[j] < n && output_for(#[trigger] outs@[j], activation_inputs@[succ[j]], ans_space(sent, ret, j)))
            // all_or_nothing: all sectors succeeded or none did
            &&& (all_or_nothing ==> succ.len() == n || succ.len() == 0)
        }),
//@ loop 0 iter=it
        invariant
            *rt == *old(rt), it.seq().len() == activation_inputs@.len(), forall|i: int| 0 <= i < it.seq().len() ==> *it.seq()[i] == activation_inputs@[i],
            entries_ok(verified_claims@, activation_inputs@, it.index@ as int), pieces_ok(sectors_pieces@, activation_inputs@, it.index@ as int),
//@ loopstart 0
            let ghost vc0 = verified_claims@;
            let ghost sp0 = sectors_pieces@;
//@ loop 1 iter=it1
            invariant
                *rt == *old(rt), verified_claims@ == vc0, sectors_pieces@ == sp0.push(&activation_info.piece_manifests),
                it1.seq().len() == activation_info.piece_manifests@.len(), forall|i: int| 0 <= i < it1.seq().len() ==> *it1.seq()[i] == activation_info.piece_manifests@[i],
                sector_claims@ == claims_of(activation_info.piece_manifests@, it1.index@ as int),
//@ loopend 0
            proof {
                assert(verified_claims@.drop_last() =~= vc0);
                assert(entry_for(verified_claims@[it.index@ as int], activation_inputs@[it.index@ as int]));
            }
//@ loop 2 iter=it2
                invariant
                    it2.seq().len() == (**sector_pieces)@.len(), forall|i: int| 0 <= i < it2.seq().len() ==> *it2.seq()[i] == (**sector_pieces)@[i],
                    unverified_space@ == unverified_size((**sector_pieces)@, it2.index@ as int), pieces@ == piece_pairs((**sector_pieces)@, it2.index@ as int),
//@ before "let claim_res = batch_claim_allocations"
        let ghost vcv = verified_claims;
        let ghost n = activation_inputs@.len();
//@ before "if all_or_nothing"
        let ghost sent = rt.sends@.len() == old(rt).sends@.len() + 1;
        let ghost req = ClaimAllocationsParams { sectors: vcv, all_or_nothing };
        proof {
            lemma_succ_idx(claim_res.sector_results.codes());
            if sent {
                assert(claim_send_of(rt.sends@.last(), req));
                assert(claims_answer_wf(req, deser_spec::<ClaimAllocationsReturn>(rt.sends@.last().ret)));
            } else {
                lemma_succ_idx_zeros(n);
            }
        }
//@ before "Ok ((claim_res . sector_results , activation_outputs))"
        proof {
            let codes = claim_res.sector_results.codes();
            let succ = succ_idx(codes);
            let ret = if sent { rt.sends@.last().ret } else { None };
            assert forall|j: int| 0 <= j < activation_outputs@.len() implies 0 <= succ[j] < n && output_for(#[trigger] activation_outputs@[j], activation_inputs@[succ[j]], ans_space(sent, ret, j)) by {
                let k = succ[j];
                let ps = activation_inputs@[k].piece_manifests@;
                lemma_claims_of_size(ps, ps.len() as int);
                assert(entry_for(vcv@[k], activation_inputs@[k]));
                if !sent { assert(vcv@[k].claims@.len() == 0); }
            }
            if !sent {
                assert forall|i: int| 0 <= i < n implies verified_size((#[trigger] activation_inputs@[i]).piece_manifests@, activation_inputs@[i].piece_manifests@.len() as int) == 0 by {
                    let ps = activation_inputs@[i].piece_manifests@;
                    lemma_claims_of_size(ps, ps.len() as int);
                    assert(entry_for(vcv@[i], activation_inputs@[i]));
                    assert(vcv@[i].claims@.len() == 0);
                }
            }
            if all_or_nothing && succ.len() != 0 && succ.len() != n {
                assert(exists|i: int| 0 <= i < codes.len() && codes[i] != 0) by {
                    if forall|i: int| 0 <= i < codes.len() ==> codes[i] == 0 { assert(codes =~= zeros(n)); lemma_succ_idx_zeros(n); }
                }
            }
        }
//@ end

// =====================================================================================================================================================
// (6) validate_precommits: which pre-commitments may be proven now
// =====================================================================================================================================================
/// "is not expired (prove-commit deadline)" and carries no deal ids unless allowed: the per-sector verdict of validate_precommits
pub open spec fn pc_valid(p: SectorPreCommitOnChainInfo, allow_deal_ids: bool, epoch: ChainEpoch) -> bool {
    &&& (allow_deal_ids || p.info.deal_ids@.len() == 0)
    &&& mpcd_spec(rt_policy(), p.info.seal_proof).is_some()
    &&& epoch <= p.pre_commit_epoch + mpcd_spec(rt_policy(), p.info.seal_proof)->Some_0
}
pub open spec fn pcs_small(pcs: Seq<SectorPreCommitOnChainInfo>) -> bool {
    forall|i: int| 0 <= i < pcs.len() ==> small_epoch((#[trigger] pcs[i]).pre_commit_epoch as int) && small_epoch(pcs[i].info.expiration as int)
}
pub open spec fn policy_small() -> bool {
    &&& small_epoch(rt_policy().pre_commit_challenge_delay as int)
    &&& forall|p: RegisteredSealProof| (#[trigger] mpcd_spec(rt_policy(), p)).is_some() ==> small_epoch(mpcd_spec(rt_policy(), p)->Some_0 as int)
}
//@ fn actors/miner/src/lib.rs validate_precommits rt=ref ret=res sigsub0="& [SectorPreCommitOnChainInfo]=>& Vec<SectorPreCommitOnChainInfo>" sub0="precommits . iter () . enumerate ()=>vx_iter_enumerate(precommits)" sub1="let mut verify_infos = vec ! [] ;=>let mut verify_infos: Vec<SectorSealProofInput> = vec![];"
    requires pcs_small(precommits@), policy_small(), small_epoch(rt.epoch as int),
    ensures
        res.is_ok() ==> ({
            let (batch, inputs) = res->Ok_0;
            let n = precommits@.len();
            &&& batch.codes().len() == n && inputs@.len() == n
            // one proof input per pre-commitment, in order, for THAT sector (also for the invalid ones: witnesses of an aggregate proof)
            &&& (forall|i: int| 0 <= i < n ==> (#[trigger] inputs@[i]).sector_number == precommits@[i].info.sector_number && inputs@[i].sealed_cid == precommits@[i].info.sealed_cid
                    && inputs@[i].registered_proof == precommits@[i].info.seal_proof)
            // a pre-commitment is accepted exactly when it is within its prove-commit deadline and carries no (disallowed) deal ids
            &&& (forall|i: int| 0 <= i < n ==> (#[trigger] batch.codes()[i] == 0 <==> pc_valid(precommits@[i], allow_deal_ids, rt.epoch)))
            // all_or_nothing: an invalid pre-commitment aborts the whole call
            &&& (all_or_nothing ==> forall|i: int| 0 <= i < n ==> #[trigger] batch.codes()[i] == 0)
            // hard conditions of the whole message: the interactive challenge epoch has passed for EVERY sector; one seal proof type
            &&& (forall|i: int| 0 <= i < n ==> rt.epoch > (#[trigger] precommits@[i]).pre_commit_epoch + rt_policy().pre_commit_challenge_delay)
            &&& (forall|i: int| 0 <= i < n ==> (#[trigger] precommits@[i]).info.seal_proof == precommits@[0].info.seal_proof)
        }),
//@ loop 0 iter=it
        invariant
            pcs_small(precommits@), policy_small(), small_epoch(rt.epoch as int),
            it.seq().len() == precommits@.len(), forall|j: int| 0 <= j < it.seq().len() ==> (#[trigger] it.seq()[j]).0 == j && *it.seq()[j].1 == precommits@[j],
            batch.codes().len() == it.index@, batch.expect() == precommits@.len(), verify_infos@.len() == it.index@,
            forall|i: int| 0 <= i < it.index@ ==> (#[trigger] verify_infos@[i]).sector_number == precommits@[i].info.sector_number && verify_infos@[i].sealed_cid == precommits@[i].info.sealed_cid
                && verify_infos@[i].registered_proof == precommits@[i].info.seal_proof,
            forall|i: int| 0 <= i < it.index@ ==> (#[trigger] batch.codes()[i] == 0 <==> pc_valid(precommits@[i], allow_deal_ids, rt.epoch)),
            all_or_nothing ==> forall|i: int| 0 <= i < it.index@ ==> #[trigger] batch.codes()[i] == 0,
            forall|i: int| 0 <= i < it.index@ ==> rt.epoch > (#[trigger] precommits@[i]).pre_commit_epoch + rt_policy().pre_commit_challenge_delay,
            forall|i: int| 0 <= i < it.index@ ==> (#[trigger] precommits@[i]).info.seal_proof == precommits@[0].info.seal_proof,
//@ end

/// the data-activation input built for a proven sector: ITS manifest's pieces, ITS pre-commitment's expiration / number / proof type / CommD
pub open spec fn input_for(o: SectorPiecesActivationInput, a: SectorActivationManifest, p: SectorPreCommitOnChainInfo) -> bool {
    o.piece_manifests@ == a.pieces@ && o.sector_expiry == p.info.expiration && o.sector_number == p.info.sector_number && o.sector_type == p.info.seal_proof
        && o.expected_commd == Some(p.info.unsealed_cid)
}
// =====================================================================================================================================================
// (7) data-consumer notifications
// =====================================================================================================================================================
//@ item actors/miner/src/notifications.rs ActivationNotifications tsub0="& 'a [PieceActivationManifest]=>&'a Vec<PieceActivationManifest>"
//@ item actors/miner/src/types.rs PieceChange
//@ item actors/miner/src/types.rs SectorChanges
//@ item actors/miner/src/types.rs SectorContentChangedParams
/// lib.rs SECTOR_CONTENT_CHANGED = frc42_dispatch::method_hash!("SectorContentChanged") (a proc-macro constant: first 4-byte window >= 2^24 of
/// blake2b-512("1|SectorContentChanged"), computed offline; the same computation gives the documented InvokeEVM = 3844450837)
pub const SECTOR_CONTENT_CHANGED: MethodNum = 2034386435;
pub open spec fn is_notification(s: SendRec) -> bool { s.method == SECTOR_CONTENT_CHANGED && s.value == 0 }
/// what sending notifications may do to the runtime: append zero-value SectorContentChanged messages, nothing else of this activation's bookkeeping
pub open spec fn notify_frame(o: &Rt, f: &Rt) -> bool {
    &&& rt_frame(o, f)
    &&& o.sends@.len() <= f.sends@.len() && forall|i: int| 0 <= i < o.sends@.len() ==> f.sends@[i] == o.sends@[i]
    &&& forall|i: int| o.sends@.len() <= i < f.sends@.len() ==> is_notification(#[trigger] f.sends@[i])
}
//@ item actors/miner/src/types.rs PieceReturn
//@ item actors/miner/src/types.rs SectorReturn
//@ item actors/miner/src/types.rs SectorContentChangedReturn
//@ const actors/miner/src/lib.rs ERR_NOTIFICATION_SEND_FAILED
//@ const actors/miner/src/lib.rs ERR_NOTIFICATION_RECEIVER_ABORTED
//@ const actors/miner/src/lib.rs ERR_NOTIFICATION_RESPONSE_INVALID
//@ const actors/miner/src/lib.rs ERR_NOTIFICATION_REJECTED
//@ include prelude/miner_prove_notify_assumed.rs

/// the change notified for piece p of activation i to its q-th notifee
pub open spec fn change_of(acts: Seq<ActivationNotifications>, i: int, p: int, q: int) -> PieceChange {
    PieceChange { data: acts[i].pieces@[p].cid, size: acts[i].pieces@[p].size, payload: acts[i].pieces@[p].notify@[q].payload }
}
pub open spec fn is_triple(acts: Seq<ActivationNotifications>, i: int, p: int, q: int) -> bool {
    0 <= i < acts.len() && 0 <= p < acts[i].pieces@.len() && 0 <= q < acts[i].pieces@[p].notify@.len()
}
/// c is the change of SOME piece of an activation with sector number s that names `a` as a notifee
pub open spec fn change_from(acts: Seq<ActivationNotifications>, a: Address, s: SectorNumber, c: PieceChange) -> bool {
    exists|i: int, p: int, q: int| #[trigger] is_triple(acts, i, p, q) && acts[i].sector_number == s && acts[i].pieces@[p].notify@[q].address == a && c == change_of(acts, i, p, q)
}
pub open spec fn has_sector(acts: Seq<ActivationNotifications>, s: SectorNumber) -> bool { exists|i: int| 0 <= i < acts.len() && (#[trigger] acts[i]).sector_number == s }
pub type Groups = Map<Address, BTreeMap<SectorNumber, Vec<PieceChange>>>;
/// the regrouping by notifee -> sector holds nothing but changes asked for: every sector key is an activation's sector number, every change listed
/// under (notifee, sector) is a piece of an activation with that number that names that notifee
pub open spec fn group_sound(a: Address, inner: Map<SectorNumber, Vec<PieceChange>>, acts: Seq<ActivationNotifications>) -> bool {
    forall|s: SectorNumber| #[trigger] inner.dom().contains(s) ==> has_sector(acts, s)
        && forall|k: int| 0 <= k < inner[s]@.len() ==> change_from(acts, a, s, #[trigger] inner[s]@[k])
}
pub open spec fn grouped_sound(m: Groups, acts: Seq<ActivationNotifications>) -> bool {
    forall|a: Address| #[trigger] m.dom().contains(a) ==> group_sound(a, m[a].view(), acts)
}
pub proof fn lemma_group_push(m0: Groups, m1: Groups, acts: Seq<ActivationNotifications>, i: int, p: int, q: int)
    requires
        grouped_sound(m0, acts), is_triple(acts, i, p, q),
        ({
            let a = acts[i].pieces@[p].notify@[q].address;
            let s = acts[i].sector_number;
            let inner0 = if m0.dom().contains(a) { m0[a].view() } else { Map::<SectorNumber, Vec<PieceChange>>::empty() };
            let vec0 = if inner0.dom().contains(s) { inner0[s]@ } else { Seq::<PieceChange>::empty() };
            &&& m1 == m0.insert(a, m1[a])
            &&& m1[a].view() == inner0.insert(s, m1[a].view()[s])
            &&& m1[a].view()[s]@ == vec0.push(change_of(acts, i, p, q))
        }),
    ensures grouped_sound(m1, acts),
{
    let a = acts[i].pieces@[p].notify@[q].address;
    let s = acts[i].sector_number;
    let inner0 = if m0.dom().contains(a) { m0[a].view() } else { Map::<SectorNumber, Vec<PieceChange>>::empty() };
    let vec0 = if inner0.dom().contains(s) { inner0[s]@ } else { Seq::<PieceChange>::empty() };
    assert forall|a2: Address| #[trigger] m1.dom().contains(a2) implies group_sound(a2, m1[a2].view(), acts) by {
        if a2 == a {
            let inner1 = m1[a].view();
            if m0.dom().contains(a) { assert(group_sound(a, m0[a].view(), acts)); }
            assert forall|s2: SectorNumber| #[trigger] inner1.dom().contains(s2) implies has_sector(acts, s2)
                && forall|k: int| 0 <= k < inner1[s2]@.len() ==> change_from(acts, a, s2, #[trigger] inner1[s2]@[k]) by {
                if s2 == s {
                    assert(acts[i].sector_number == s);
                    assert forall|k: int| 0 <= k < inner1[s]@.len() implies change_from(acts, a, s, #[trigger] inner1[s]@[k]) by {
                        if k < vec0.len() {
                            assert(inner1[s]@[k] == vec0[k]);
                            assert(inner0.dom().contains(s));
                            assert(change_from(acts, a, s, inner0[s]@[k]));
                        } else {
                            assert(is_triple(acts, i, p, q));
                        }
                    }
                } else {
                    assert(inner0.dom().contains(s2));
                    assert(inner1[s2] == inner0[s2]);
                }
            }
        } else {
            assert(m0.dom().contains(a2) && m1[a2] == m0[a2]);
        }
    }
}
/// what a message to notifee `to` may carry: per entry a sector number of the activations with THAT sector's expiration as minimum_commitment_epoch,
/// and only changes of that sector's pieces that name `to`
pub open spec fn entry_sound(acts: Seq<ActivationNotifications>, to: Address, e: SectorChanges) -> bool {
    &&& exists|i: int| 0 <= i < acts.len() && (#[trigger] acts[i]).sector_number == e.sector && acts[i].sector_expiration == e.minimum_commitment_epoch
    &&& forall|k: int| 0 <= k < e.added@.len() ==> change_from(acts, to, e.sector, #[trigger] e.added@[k])
}
pub open spec fn notif_sound(acts: Seq<ActivationNotifications>, to: Address, sectors: Seq<SectorChanges>) -> bool {
    forall|t: int| 0 <= t < sectors.len() ==> entry_sound(acts, to, #[trigger] sectors[t])
}
pub open spec fn notif_msg_ok(acts: Seq<ActivationNotifications>, s: SendRec) -> bool {
    exists|params: SectorContentChangedParams| s.params == Some(IpldBlock { h: #[trigger] cbor_hash(params) }) && notif_sound(acts, s.to, params.sectors@)
}
/// the receiver answered with the request's shape and accepted every piece
pub open spec fn accepted_all(request: Seq<SectorChanges>, response: SectorContentChangedReturn) -> bool {
    response.sectors@.len() == request.len() && forall|i: int| 0 <= i < request.len() ==> (#[trigger] response.sectors@[i]).added@.len() == request[i].added@.len()
        && forall|j: int| 0 <= j < request[i].added@.len() ==> (#[trigger] response.sectors@[i].added@[j]).accepted
}
/// a notification that went through: delivered, exit code 0, decodable answer accepting everything that was sent
pub open spec fn notif_accepted(s: SendRec) -> bool {
    s.ok && exists|params: SectorContentChangedParams| s.params == Some(IpldBlock { h: #[trigger] cbor_hash(params) })
        && accepted_all(params.sectors@, deser_spec::<SectorContentChangedReturn>(s.ret))
}

//@ fn actors/miner/src/notifications.rs send_notification suball0="crate ::=>"
    requires !old(rt).in_tx@,
    ensures
        rt_frame(old(rt), final(rt)),
        old(rt).sends@.len() <= final(rt).sends@.len() <= old(rt).sends@.len() + 1, forall|i: int| 0 <= i < old(rt).sends@.len() ==> final(rt).sends@[i] == old(rt).sends@[i],
        // nothing is sent only when the request cannot be serialised
        final(rt).sends@.len() == old(rt).sends@.len() ==> *final(rt) == *old(rt) && r.is_err(),
        // ONE zero-value SectorContentChanged message to the notifee carrying exactly `params`
        final(rt).sends@.len() == old(rt).sends@.len() + 1 ==> final(rt).sends@.last().to == *notifee && is_notification(final(rt).sends@.last())
            && final(rt).sends@.last().params == Some(IpldBlock { h: cbor_hash(params) }),
        // Ok iff delivered, exit code 0 and a decodable answer — which is handed back
        r.is_ok() ==> final(rt).sends@.len() == old(rt).sends@.len() + 1 && final(rt).sends@.last().ok
            && r->Ok_0 == deser_spec::<SectorContentChangedReturn>(final(rt).sends@.last().ret),
//@ end
//@ fn actors/miner/src/notifications.rs validate_notification_response r17 sigsub0="& [SectorChanges]=>& Vec<SectorChanges>" suball0="crate ::=>" suball1="response . sectors . iter ()=>& response . sectors" suball2="sresp . added . iter ()=>& sresp . added"
    ensures
        r.is_ok() <==> accepted_all(request@, *response),
//@ loop 0
        invariant
            response.sectors@.len() == request@.len(),
            forall|i: int| 0 <= i < __vx_z1 ==> (#[trigger] response.sectors@[i]).added@.len() == request@[i].added@.len()
                && forall|j: int| 0 <= j < request@[i].added@.len() ==> (#[trigger] response.sectors@[i].added@[j]).accepted,
//@ loop 1
            invariant
                response.sectors@.len() == request@.len(), 0 <= __vx_z1 < request@.len(), *sreq == request@[__vx_z1 as int], *sresp == response.sectors@[__vx_z1 as int],
                sresp.added@.len() == sreq.added@.len(),
                forall|i: int| 0 <= i < __vx_z1 ==> (#[trigger] response.sectors@[i]).added@.len() == request@[i].added@.len()
                    && forall|j: int| 0 <= j < request@[i].added@.len() ==> (#[trigger] response.sectors@[i].added@[j]).accepted,
                forall|j: int| 0 <= j < __vx_z0 ==> (#[trigger] sresp.added@[j]).accepted,
//@ end
//@ fn actors/miner/src/notifications.rs notify_data_consumers sigsub0="& [ActivationNotifications]=>& Vec<ActivationNotifications>" sub0="activations . iter () . map (| a | (a . sector_number , a . sector_expiration)) . collect ()=>vx_sector_expirations(activations)" sub1="activations_by_notifee invariant=>activations_by_notifee.vx_into_pairs() invariant" sub2="payloads . into_iter () . map (| (sector_number , pieces) | SectorChanges { sector : sector_number , minimum_commitment_epoch : * sector_expirations . get (& sector_number) . unwrap () , added : pieces , }) . collect ()=>vx_sector_changes(payloads, &sector_expirations)"
    requires !old(rt).in_tx@,
    ensures
        // only zero-value SectorContentChanged messages are appended; nothing else of the activation's bookkeeping moves
        notify_frame(old(rt), final(rt)),
        // (e) every message goes to a notifee named by a piece and carries, per sector, the sector's number, the sector's expiration as
        // minimum_commitment_epoch and ONLY pieces of that sector that have a notify entry for this receiver
        forall|k: int| old(rt).sends@.len() <= k < final(rt).sends@.len() ==> notif_msg_ok(activations@, #[trigger] final(rt).sends@[k]),
        // failures: ignored altogether without require_success; with it, the first undelivered / failed / undecodable / rejecting notification
        // aborts the call, so Ok means EVERY notification sent was delivered and accepted in full
        !require_success ==> r.is_ok(),
        require_success && r.is_ok() ==> forall|k: int| old(rt).sends@.len() <= k < final(rt).sends@.len() ==> notif_accepted(#[trigger] final(rt).sends@[k]),
//@ loop 0 iter=it0
        invariant
            *rt == *old(rt), it0.seq().len() == activations@.len(), forall|i: int| 0 <= i < it0.seq().len() ==> *it0.seq()[i] == activations@[i],
            grouped_sound(activations_by_notifee.view(), activations@),
//@ loop 1 iter=it1
            invariant
                *rt == *old(rt), 0 <= it0.index@ < activations@.len(), *activation == activations@[it0.index@ as int],
                it1.seq().len() == activation.pieces@.len(), forall|i: int| 0 <= i < it1.seq().len() ==> *it1.seq()[i] == activation.pieces@[i],
                grouped_sound(activations_by_notifee.view(), activations@),
//@ loop 2 iter=it2
                invariant
                    *rt == *old(rt), 0 <= it0.index@ < activations@.len(), *activation == activations@[it0.index@ as int],
                    0 <= it1.index@ < activation.pieces@.len(), *piece == activation.pieces@[it1.index@ as int],
                    it2.seq().len() == piece.notify@.len(), forall|i: int| 0 <= i < it2.seq().len() ==> *it2.seq()[i] == piece.notify@[i],
                    grouped_sound(activations_by_notifee.view(), activations@),
//@ loopstart 2
                    let ghost m0 = activations_by_notifee.view();
//@ loopend 2
                    proof {
                        let m1 = activations_by_notifee.view();
                        let acts = activations@;
                        let (i, p, q) = (it0.index@ as int, it1.index@ as int, it2.index@ as int);
                        assert(*notifee == piece.notify@[q]);
                        let a = notifee.address;
                        let s = activation.sector_number;
                        let inner0 = if m0.dom().contains(a) { m0[a].view() } else { Map::<SectorNumber, Vec<PieceChange>>::empty() };
                        let vec0 = if inner0.dom().contains(s) { inner0[s]@ } else { Seq::<PieceChange>::empty() };
                        assert(is_triple(acts, i, p, q));
                        assert(m1 == m0.insert(a, m1[a]));
                        assert(m1[a].view() == inner0.insert(s, m1[a].view()[s]));
                        assert(m1[a].view()[s]@ == vec0.push(change_of(acts, i, p, q)));
                        lemma_group_push(m0, m1, acts, i, p, q);
                    }
//@ loopstart 3
            let ghost rt_b = *rt;
            proof {
                let j = it3.index@ as int;
                assert(group_sound(it3.seq()[j].0, it3.seq()[j].1.view(), activations@));
            }
//@ before "let response = send_notification"
            proof {
                assert(notif_sound(activations@, notifee, sectors_changes@)) by {
                    assert forall|t: int| 0 <= t < sectors_changes@.len() implies entry_sound(activations@, notifee, #[trigger] sectors_changes@[t]) by {
                        let sc = sectors_changes@[t];
                        assert(payloads.view().dom().contains(sc.sector));
                        assert(has_sector(activations@, sc.sector));
                        assert(sector_expirations.view().dom().contains(sc.sector));
                        assert forall|k: int| 0 <= k < sc.added@.len() implies change_from(activations@, notifee, sc.sector, #[trigger] sc.added@[k]) by {
                            assert(sc.added@[k] == payloads.view()[sc.sector]@[k]);
                        }
                    }
                }
            }
//@ loop 3 iter=it3
        invariant
            notify_frame(old(rt), rt), !rt.in_tx@,
            forall|j: int| 0 <= j < it3.seq().len() ==> group_sound((#[trigger] it3.seq()[j]).0, it3.seq()[j].1.view(), activations@),
            forall|s: SectorNumber| has_sector(activations@, s) ==> #[trigger] sector_expirations.view().dom().contains(s),
            forall|s: SectorNumber| #[trigger] sector_expirations.view().dom().contains(s) ==> exists|i: int| 0 <= i < activations@.len() && (#[trigger] activations@[i]).sector_number == s
                && activations@[i].sector_expiration == sector_expirations.view()[s],
            forall|k: int| old(rt).sends@.len() <= k < rt.sends@.len() ==> notif_msg_ok(activations@, #[trigger] rt.sends@[k]),
            require_success ==> forall|k: int| old(rt).sends@.len() <= k < rt.sends@.len() ==> notif_accepted(#[trigger] rt.sends@[k]),
//@ end

// =====================================================================================================================================================
// (8) ProveCommitSectors3: the whole method
// =====================================================================================================================================================
//@ const actors/miner/src/ext.rs CURRENT_TOTAL_POWER_METHOD
//@ fn actors/miner/src/lib.rs request_current_total_power as=vx_request_current_total_power sigsub1="ext :: power :: CurrentTotalPowerReturn=>CurrentTotalPowerReturn" sub1="ext :: power :: CURRENT_TOTAL_POWER_METHOD=>CURRENT_TOTAL_POWER_METHOD"
    requires !old(rt).in_tx@,
    ensures
        rt_pushed(old(rt), final(rt)), rt_frame(old(rt), final(rt)),
        final(rt).sends@.last().to == STORAGE_POWER_ACTOR_ADDR && final(rt).sends@.last().method == CURRENT_TOTAL_POWER_METHOD && final(rt).sends@.last().value == 0,
        r.is_ok() ==> final(rt).sends@.last().ok && r->Ok_0 == deser_spec::<CurrentTotalPowerReturn>(final(rt).sends@.last().ret),
        rt_no_reentry(STORAGE_POWER_ACTOR_ADDR, CURRENT_TOTAL_POWER_METHOD) ==> final(rt).state_id == old(rt).state_id && final(rt).balance == old(rt).balance,
//@ end

// ---- the activation chain: validation verdicts v (one per requested sector), proof verdicts p (one per valid sector), data-activation verdicts d
// ---- (one per proven sector). A sector is ACTIVATED iff it is successful in all three.
pub open spec fn chain_wf(n: int, v: Seq<u32>, p: Seq<u32>, d: Seq<u32>) -> bool {
    v.len() == n && p.len() == succ_idx(v).len() && d.len() == succ_idx(p).len()
}
/// index (into the parameters) of the k-th PROVEN sector / of the m-th ACTIVATED sector
pub open spec fn prov_idx(v: Seq<u32>, p: Seq<u32>, k: int) -> int { succ_idx(v)[succ_idx(p)[k]] }
pub open spec fn act_idx(v: Seq<u32>, p: Seq<u32>, d: Seq<u32>, m: int) -> int { prov_idx(v, p, succ_idx(d)[m]) }
pub open spec fn param_nums(params: ProveCommitSectors3Params) -> Seq<SectorNumber> { Seq::new(params.sector_activations@.len(), |i: int| params.sector_activations@[i].sector_number) }
/// the sector numbers that end up activated, in order
pub open spec fn act_nums(params: ProveCommitSectors3Params, v: Seq<u32>, p: Seq<u32>, d: Seq<u32>) -> Seq<SectorNumber> {
    Seq::new(succ_idx(d).len(), |m: int| params.sector_activations@[act_idx(v, p, d, m)].sector_number)
}
pub proof fn lemma_chain(n: int, v: Seq<u32>, p: Seq<u32>, d: Seq<u32>)
    requires chain_wf(n, v, p, d)
    ensures
        forall|k: int| 0 <= k < succ_idx(p).len() ==> 0 <= #[trigger] prov_idx(v, p, k) < n && v[prov_idx(v, p, k)] == 0 && p[succ_idx(p)[k]] == 0 && 0 <= succ_idx(p)[k] < succ_idx(v).len(),
        forall|m: int| 0 <= m < succ_idx(d).len() ==> 0 <= #[trigger] act_idx(v, p, d, m) < n && 0 <= succ_idx(d)[m] < succ_idx(p).len() && d[succ_idx(d)[m]] == 0,
        forall|m1: int, m2: int| 0 <= m1 < m2 < succ_idx(d).len() ==> #[trigger] act_idx(v, p, d, m1) < #[trigger] act_idx(v, p, d, m2),
        succ_idx(d).len() <= succ_idx(p).len() <= succ_idx(v).len() <= n,
{
    lemma_succ_idx(v); lemma_succ_idx(p); lemma_succ_idx(d);
    assert forall|m1: int, m2: int| 0 <= m1 < m2 < succ_idx(d).len() implies #[trigger] act_idx(v, p, d, m1) < #[trigger] act_idx(v, p, d, m2) by {
        let a = succ_idx(d)[m1]; let b = succ_idx(d)[m2];
        assert(a < b);
        assert(succ_idx(p)[a] < succ_idx(p)[b]);
    }
}
pub proof fn lemma_succ_push(c: Seq<u32>, x: u32)
    ensures succ_idx(c.push(x)) == (if x == 0 { succ_idx(c).push(c.len() as int) } else { succ_idx(c) })
{ assert(c.push(x).drop_last() =~= c); }
pub proof fn lemma_all_zero(c: Seq<u32>)
    requires forall|i: int| 0 <= i < c.len() ==> c[i] == 0
    ensures succ_idx(c).len() == c.len(), forall|j: int| 0 <= j < c.len() ==> #[trigger] succ_idx(c)[j] == j
{ assert(c =~= zeros(c.len())); lemma_succ_idx_zeros(c.len()); }

// ---- the returned codes: `util::stack(&[validation, proven, data])` — its successes are exactly the activated sectors ----
pub proof fn lemma_stack2_ext(a: Seq<u32>, b: Seq<u32>, c: Seq<u32>)
    requires succ_idx(a).len() <= b.len(), succ_idx(a).len() <= c.len(), forall|i: int| 0 <= i < succ_idx(a).len() ==> b[i] == c[i]
    ensures stack2(a, b) == stack2(a, c)
    decreases a.len()
{
    if a.len() > 0 {
        let a0 = a.drop_last();
        lemma_stack2_ext(a0, b, c);
    }
}
pub open spec fn compose_idx(a: Seq<u32>, b: Seq<u32>) -> Seq<int> { Seq::new(succ_idx(b).len(), |m: int| succ_idx(a)[succ_idx(b)[m]]) }
pub proof fn lemma_stack2(a: Seq<u32>, b: Seq<u32>)
    requires b.len() == succ_idx(a).len()
    ensures stack2(a, b).len() == a.len(), succ_idx(stack2(a, b)) =~= compose_idx(a, b)
    decreases a.len()
{
    lemma_succ_idx(b);
    if a.len() > 0 {
        let a0 = a.drop_last();
        let x = a.last();
        if x != 0 {
            lemma_stack2(a0, b);
            lemma_succ_push(stack2(a0, b), x);
            assert(stack2(a, b) == stack2(a0, b).push(x));
            assert(succ_idx(stack2(a, b)) =~= compose_idx(a, b));
        } else {
            let b0 = b.drop_last();
            let y = b.last();
            assert(succ_idx(a) == succ_idx(a0).push(a0.len() as int));
            lemma_stack2_ext(a0, b, b0);
            lemma_stack2(a0, b0);
            lemma_succ_idx(b0);
            assert(stack2(a, b) == stack2(a0, b0).push(y));
            lemma_succ_push(stack2(a0, b0), y);
            assert(b =~= b0.push(y));
            lemma_succ_push(b0, y);
            assert forall|m: int| 0 <= m < compose_idx(a, b).len() implies succ_idx(stack2(a, b))[m] == #[trigger] compose_idx(a, b)[m] by {
                if m < succ_idx(b0).len() {
                    assert(succ_idx(b)[m] == succ_idx(b0)[m]);
                    assert(compose_idx(a0, b0)[m] == succ_idx(a0)[succ_idx(b0)[m]]);
                }
            }
            assert(succ_idx(stack2(a, b)) =~= compose_idx(a, b));
        }
    } else {
        assert(succ_idx(b).len() == 0);
        assert(succ_idx(stack2(a, b)) =~= compose_idx(a, b));
    }
}
/// "which sectors ended up activated": the successes of the returned (stacked) batch are exactly the activated parameter indices, in order
pub proof fn lemma_result_codes(n: int, v: Seq<u32>, p: Seq<u32>, d: Seq<u32>)
    requires chain_wf(n, v, p, d)
    ensures
        stack2(v, stack2(p, d)).len() == n,
        succ_idx(stack2(v, stack2(p, d))) =~= Seq::new(succ_idx(d).len(), |m: int| act_idx(v, p, d, m)),
{
    lemma_stack2(p, d);
    lemma_stack2(v, stack2(p, d));
    assert forall|m: int| 0 <= m < succ_idx(d).len() implies compose_idx(v, stack2(p, d))[m] == act_idx(v, p, d, m) by {
        assert(succ_idx(stack2(p, d))[m] == compose_idx(p, d)[m]);
    }
}
/// data invariant of the pre-commit table (established by put_precommitted_sectors: every record is stored under its own sector number) and
/// magnitude of the stored epochs
pub open spec fn pctable_ok(s: State) -> bool {
    forall|k: SectorNumber| #[trigger] pcmap(s).dom().contains(k) ==> pcmap(s)[k].info.sector_number == k
        && small_epoch(pcmap(s)[k].pre_commit_epoch as int) && small_epoch(pcmap(s)[k].info.expiration as int)
}
pub open spec fn is_reward_query(s: SendRec) -> bool { s.to == REWARD_ACTOR_ADDR && s.method == ext::reward::THIS_EPOCH_REWARD_METHOD && s.value == 0 }
pub open spec fn is_total_power_query(s: SendRec) -> bool { s.to == STORAGE_POWER_ACTOR_ADDR && s.method == CURRENT_TOTAL_POWER_METHOD && s.value == 0 }
pub open spec fn is_power_update(s: SendRec) -> bool { s.to == STORAGE_POWER_ACTOR_ADDR && s.method == ext::power::UPDATE_CLAIMED_POWER_METHOD }
/// who may prove sectors: a control address, the worker or the owner
pub open spec fn may_operate(i: MinerInfo, a: Address) -> bool { i.control_addresses@.contains(a) || a == i.worker || a == i.owner }

/// (1a) every requested sector has a pre-commitment in the state on entry; a sector passes validation exactly when its STORED pre-commitment is
/// within its prove-commit deadline (and carries no deal ids); the interactive challenge epoch has passed for every requested sector
#[verifier::opaque]
pub open spec fn verdicts_v(s0: State, epoch: ChainEpoch, params: ProveCommitSectors3Params, v: Seq<u32>) -> bool {
    let n = params.sector_activations@.len() as int;
    let nums = param_nums(params);
    let m0 = pcmap(s0);
    &&& v.len() == n
    &&& (forall|i: int| 0 <= i < n ==> m0.dom().contains(#[trigger] nums[i]))
    &&& (forall|i: int| 0 <= i < n ==> (#[trigger] v[i] == 0 <==> pc_valid(m0[nums[i]], false, epoch)))
    &&& (forall|i: int| 0 <= i < n ==> epoch > (#[trigger] m0[nums[i]]).pre_commit_epoch + rt_policy().pre_commit_challenge_delay)
}
/// (1b) the proof verdict is USED: per-sector proofs — a sector counts as proven only if ITS OWN proof bytes verified against ITS sector number and
/// sealed CID; aggregate proof — one positive verdict over all sectors of the message, then every valid sector counts as proven
#[verifier::opaque]
pub open spec fn verdicts_p(s0: State, miner: ActorID, params: ProveCommitSectors3Params, v: Seq<u32>, p: Seq<u32>) -> bool {
    let n = params.sector_activations@.len() as int;
    let nums = param_nums(params);
    let m0 = pcmap(s0);
    &&& (raw_len(params.aggregate_proof) == 0 ==> params.sector_proofs@.len() == n && forall|k: int| 0 <= k < succ_idx(p).len() ==> #[trigger] proven_has_verdict(s0, miner, params, v, p, k))
    &&& (raw_len(params.aggregate_proof) != 0 ==> params.sector_proofs@.len() == 0 && params.aggregate_proof_type == Some(RegisteredAggregateProof::SnarkPackV2)
            && (forall|k: int| 0 <= k < p.len() ==> p[k] == 0)
            && exists|inputs: Seq<SectorSealProofInput>| #[trigger] is_inputs(inputs) && inputs.len() == n && (forall|i: int| 0 <= i < n ==> (#[trigger] inputs[i]).sector_number == nums[i] && inputs[i].sealed_cid == m0[nums[i]].info.sealed_cid)
                && agg_seal_verdict(inputs, miner, m0[nums[0]].info.seal_proof, RegisteredAggregateProof::SnarkPackV2, params.aggregate_proof))
}
pub open spec fn pcs3_verdicts(s0: State, epoch: ChainEpoch, miner: ActorID, params: ProveCommitSectors3Params, v: Seq<u32>, p: Seq<u32>) -> bool {
    verdicts_v(s0, epoch, params, v) && verdicts_p(s0, miner, params, v, p)
}
/// the k-th sector counted as proven: ITS OWN proof bytes (same position of the parameters) were verified against ITS sector number and ITS stored
/// sealed CID for this miner, and the proofs library said yes
pub open spec fn proven_has_verdict(s0: State, miner: ActorID, params: ProveCommitSectors3Params, v: Seq<u32>, p: Seq<u32>, k: int) -> bool {
    let i = prov_idx(v, p, k);
    exists|svi: SealVerifyInfo| #[trigger] seal_verdict(svi) && svi.miner == miner && svi.number == param_nums(params)[i]
        && svi.proof == params.sector_proofs@[i] && svi.sealed_cid == pcmap(s0)[param_nums(params)[i]].info.sealed_cid
}

/// (2) the committed state: records of exactly the activated sectors deleted, their STORED deposits released, one sector info per activated sector
/// carrying its own data-activation output, pledge added == sum of the new infos' pledge, nothing else touched
#[verifier::opaque]
pub open spec fn pcs3_state(s0: State, s1: State, epoch: ChainEpoch, params: ProveCommitSectors3Params, v: Seq<u32>, p: Seq<u32>, d: Seq<u32>) -> bool {
    let an = act_nums(params, v, p, d);
    let mm = an.len() as int;
    let m0 = pcmap(s0);
    &&& mm > 0
    &&& (forall|m: int| 0 <= m < mm ==> m0.dom().contains(#[trigger] an[m]))
    &&& (forall|m1: int, m2: int| 0 <= m1 < m2 < mm ==> #[trigger] an[m1] != #[trigger] an[m2])
    &&& pcmap(s1) == remove_keys(m0, an, mm)
    // (c) "deposits released == deposits stored"
    &&& s1.pre_commit_deposits@ == s0.pre_commit_deposits@ - sum_stored(m0, an, mm)
    // (c) "pledge added == sum of the new infos' pledge"
    &&& s1.initial_pledge@ == s0.initial_pledge@ + sum_pledge_tbl(sectors_tbl(s1), an, mm)
    &&& s1.locked_funds == s0.locked_funds
    &&& (forall|k: u64| #[trigger] sectors_tbl(s1).dom().contains(k) <==> sectors_tbl(s0).dom().contains(k) || is_key(an, mm, k))
    &&& (forall|k: u64| #[trigger] sectors_tbl(s0).dom().contains(k) && !is_key(an, mm, k) ==> sectors_tbl(s1)[k] == sectors_tbl(s0)[k])
    &&& s1 == (State { pre_commit_deposits: s1.pre_commit_deposits, initial_pledge: s1.initial_pledge, pre_committed_sectors: s1.pre_committed_sectors,
            sectors: s1.sectors, deadlines: s1.deadlines, ..s0 })
    // (a), (b): the info stored for the m-th activated sector
    &&& (forall|m: int| 0 <= m < mm ==> sectors_tbl(s1).dom().contains(#[trigger] an[m]) && ({
            let i = act_idx(v, p, d, m);
            let si = sectors_tbl(s1)[an[m]];
            let ps = params.sector_activations@[i].pieces@;
            let dur = m0[an[m]].info.expiration - epoch;
            &&& si.sector_number == an[m] && si.activation == epoch && si.power_base_epoch == epoch && si.expiration == m0[an[m]].info.expiration
            &&& si.sealed_cid == m0[an[m]].info.sealed_cid && si.flags == SectorOnChainInfoFlags::SIMPLE_QA_POWER
            // (a) verified weight = (total size of THIS sector's pieces that name an allocation — all of them reported claimed by the registry) x lifetime
            &&& si.verified_deal_weight@ == verified_size(ps, ps.len() as int) * dur
            // (b) deal weight = (total size of THIS sector's pieces WITHOUT allocation) x lifetime
            &&& si.deal_weight@ == unverified_size(ps, ps.len() as int) * dur
        }))
}
/// (3) the ClaimAllocations request lists, per PROVEN sector and in order: its number, ITS pre-commitment's expiration, one claim per verified piece
/// of ITS manifest; d is the registry's answer; the m-th activated sector is credited the space the registry reported for it
#[verifier::opaque]
pub open spec fn pcs3_claims(s0: State, s1: State, epoch: ChainEpoch, params: ProveCommitSectors3Params, v: Seq<u32>, p: Seq<u32>, d: Seq<u32>, sent: bool, cs: SendRec) -> bool {
    let nums = param_nums(params);
    let m0 = pcmap(s0);
    let np = succ_idx(p).len() as int;
    let an = act_nums(params, v, p, d);
    &&& (sent ==> is_claim_send(cs) && cs.value == 0 && cs.ok && d == deser_spec::<ClaimAllocationsReturn>(cs.ret).sector_results.codes()
            && exists|req: ClaimAllocationsParams| cs.params == Some(IpldBlock { h: #[trigger] cbor_hash(req) }) && req.all_or_nothing == params.require_activation_success
                && req.sectors@.len() == np && forall|k: int| 0 <= k < np ==> (#[trigger] req.sectors@[k]).sector == nums[prov_idx(v, p, k)]
                    && req.sectors@[k].expiry == m0[nums[prov_idx(v, p, k)]].info.expiration
                    && req.sectors@[k].claims@ == claims_of(params.sector_activations@[prov_idx(v, p, k)].pieces@, params.sector_activations@[prov_idx(v, p, k)].pieces@.len() as int))
    &&& (sent ==> forall|m: int| 0 <= m < an.len() ==> (#[trigger] sectors_tbl(s1)[an[m]]).verified_deal_weight@
            == deser_spec::<ClaimAllocationsReturn>(cs.ret).sector_claims@[m].claimed_space@ * (m0[an[m]].info.expiration - epoch))
    // no request: no proven sector has a verified piece, every proven sector's data activation succeeds
    &&& (!sent ==> d == zeros(np as nat) && forall|k: int| 0 <= k < np ==>
            verified_size(params.sector_activations@[#[trigger] prov_idx(v, p, k)].pieces@, params.sector_activations@[prov_idx(v, p, k)].pieces@.len() as int) == 0)
}
/// (4) the messages: [ClaimAllocations?] ThisEpochReward CurrentTotalPower [UpdatePledgeTotal?] SectorContentChanged* — and (d) NO UpdateClaimedPower
#[verifier::opaque]
pub open spec fn pcs3_sends(o: Rt, f: Rt, s0: State, s1: State, sent: bool, notifs: Seq<ActivationNotifications>, require_notification_success: bool) -> bool {
    let k0 = o.sends@.len() as int;
    let s = f.sends@;
    let c: int = if sent { 1 } else { 0 };
    let delta = s1.initial_pledge@ - s0.initial_pledge@;
    let q: int = if delta != 0 { 1 } else { 0 };
    &&& s.len() >= k0 + c + 2 + q && (forall|i: int| 0 <= i < k0 ==> s[i] == o.sends@[i])
    &&& is_reward_query(s[k0 + c]) && is_total_power_query(s[k0 + c + 1])
    &&& (delta != 0 ==> is_pledge_note(s[k0 + c + 2]) && s[k0 + c + 2].ok && s[k0 + c + 2].value == 0
            && exists|dd: TokenAmount| s[k0 + c + 2].params == Some(IpldBlock { h: #[trigger] cbor_hash(dd) }) && dd@ == delta)
    &&& (forall|i: int| k0 + c + 2 + q <= i < s.len() ==> is_notification(#[trigger] s[i]))
    // (e) each notification goes to a receiver named by a piece of an ACTIVATED sector and carries, per sector, that sector's number, that sector's
    // expiration as minimum_commitment_epoch and only pieces of that sector with a notify entry for this receiver
    &&& (forall|i: int| k0 + c + 2 + q <= i < s.len() ==> notif_msg_ok(notifs, #[trigger] s[i]))
    // require_notification_success: an undelivered / failing / rejecting receiver aborts the whole call (nothing is activated); without the flag a
    // notification failure is ignored and the sectors stay activated
    &&& (require_notification_success ==> forall|i: int| k0 + c + 2 + q <= i < s.len() ==> notif_accepted(#[trigger] s[i]))
    // (d) "a sector contributes no power before a PoSt has covered it": ProveCommit tells the power actor about pledge only, never about power
    &&& (forall|i: int| k0 <= i < s.len() ==> !is_power_update(#[trigger] s[i]))
}
/// the top-level postcondition of ProveCommitSectors3 (the existential is wrapped in a predicate so that the witness given in the body is found)
/// the notification inputs: one per ACTIVATED sector, in order — its number, ITS pre-commitment's expiration, ITS manifest's pieces
pub open spec fn act_notifs(params: ProveCommitSectors3Params, s0: State, v: Seq<u32>, p: Seq<u32>, d: Seq<u32>) -> Seq<ActivationNotifications<'static>> {
    Seq::new(succ_idx(d).len(), |m: int| ActivationNotifications {
        sector_number: params.sector_activations@[act_idx(v, p, d, m)].sector_number,
        sector_expiration: pcmap(s0)[params.sector_activations@[act_idx(v, p, d, m)].sector_number].info.expiration,
        pieces: &params.sector_activations@[act_idx(v, p, d, m)].pieces,
    })
}
pub open spec fn pcs3_post(o: Rt, f: Rt, params: ProveCommitSectors3Params, out: Seq<u32>) -> bool {
    exists|v: Seq<u32>, p: Seq<u32>, d: Seq<u32>| #[trigger] pcs3_ok(o, f, params, out, v, p, d)
}
pub open spec fn pcs3_ok(o: Rt, f: Rt, params: ProveCommitSectors3Params, out: Seq<u32>, v: Seq<u32>, p: Seq<u32>, d: Seq<u32>) -> bool {
    let s0 = rt_state::<State>(o.state_id@);
    let s1 = rt_state::<State>(f.tx_log@.last());
    let n = params.sector_activations@.len() as int;
    let k0 = o.sends@.len() as int;
    let sent = f.sends@.len() > k0 && is_claim_send(f.sends@[k0]);
    &&& chain_wf(n, v, p, d) && out == stack2(v, stack2(p, d))
    &&& f.tx_log@.len() == o.tx_log@.len() + 1
    &&& pcs3_verdicts(s0, o.epoch, o.msg.receiver.id, params, v, p)
    &&& pcs3_state(s0, s1, o.epoch, params, v, p, d)
    &&& pcs3_claims(s0, s1, o.epoch, params, v, p, d, sent, f.sends@[k0])
    &&& pcs3_sends(o, f, s0, s1, sent, act_notifs(params, s0, v, p, d), params.require_notification_success)
    // require_activation_success: any failing sector aborts the whole call — so every requested sector is activated
    &&& (params.require_activation_success ==> succ_idx(d).len() == n)
}

/// the pairs (manifest, pre-commitment) carried along the chain: the k-th pair is the manifest / the loaded pre-commitment at parameter index idx(k)
pub open spec fn pairs_at(pairs: Seq<(&SectorActivationManifest, &SectorPreCommitOnChainInfo)>, acts: Seq<SectorActivationManifest>, pcs: Seq<SectorPreCommitOnChainInfo>, v: Seq<u32>, c: Seq<u32>) -> bool {
    pairs.len() == succ_idx(c).len() && forall|k: int| 0 <= k < pairs.len() ==> *(#[trigger] pairs[k]).0 == acts[prov_idx(v, c, k)] && *pairs[k].1 == pcs[prov_idx(v, c, k)]
}
pub open spec fn is_inputs(inputs: Seq<SectorSealProofInput>) -> bool { true }
/// the seal-verification inputs of the VALID pre-commitments, in order: the j-th is built from the j-th valid sector's own number, sealed CID and
/// proof bytes, and verd[j] is the proofs library's verdict on it
pub open spec fn svis_ok(svis: Seq<SealVerifyInfo>, verd: Seq<bool>, s0: State, miner: ActorID, params: ProveCommitSectors3Params, v: Seq<u32>) -> bool {
    let nums = param_nums(params);
    svis.len() == succ_idx(v).len() && verd.len() == svis.len() && forall|j: int| 0 <= j < svis.len() ==> verd[j] == seal_verdict(#[trigger] svis[j]) && svis[j].miner == miner
        && svis[j].number == nums[succ_idx(v)[j]] && svis[j].proof == params.sector_proofs@[succ_idx(v)[j]] && svis[j].sealed_cid == pcmap(s0)[nums[succ_idx(v)[j]]].info.sealed_cid
}

/// the pre-commitments loaded on entry: one per requested sector, each the record stored under that sector's number
pub open spec fn loaded_ok(m0: Map<SectorNumber, SectorPreCommitOnChainInfo>, nums: Seq<SectorNumber>, pcs: Seq<SectorPreCommitOnChainInfo>) -> bool {
    pcs.len() == nums.len() && forall|i: int| 0 <= i < nums.len() ==> m0.dom().contains(#[trigger] nums[i]) && pcv(pcs[i]) == pcv(m0[nums[i]])
}
/// (c) the records handed to the activation are the pre-commitments loaded from the state in this very call, for exactly the activated sector numbers
pub proof fn lemma_handed_in(s0: State, params: ProveCommitSectors3Params, pcs: Seq<SectorPreCommitOnChainInfo>, sp: Seq<&SectorPreCommitOnChainInfo>, v: Seq<u32>, p: Seq<u32>, d: Seq<u32>)
    requires
        pctable_ok(s0), loaded_ok(pcmap(s0), param_nums(params), pcs), chain_wf(params.sector_activations@.len() as int, v, p, d),
        sp.len() == succ_idx(d).len(), forall|m: int| 0 <= m < sp.len() ==> *(#[trigger] sp[m]) == pcs[act_idx(v, p, d, m)],
    ensures
        ref_nums(sp) =~= act_nums(params, v, p, d), recs_match(pcmap(s0), sp, sp.len() as int),
        forall|m: int| 0 <= m < sp.len() ==> small_epoch((#[trigger] sp[m]).info.expiration as int),
        forall|m: int| 0 <= m < sp.len() ==> pcv(*(#[trigger] sp[m])) == pcv(pcmap(s0)[act_nums(params, v, p, d)[m]]) && pcmap(s0).dom().contains(act_nums(params, v, p, d)[m]),
{
    let n = params.sector_activations@.len() as int;
    let nums = param_nums(params);
    let an = act_nums(params, v, p, d);
    let m0 = pcmap(s0);
    lemma_chain(n, v, p, d);
    assert forall|m: int| 0 <= m < sp.len() implies small_epoch((#[trigger] sp[m]).info.expiration as int) && sp[m].info.sector_number == an[m]
        && m0.dom().contains(an[m]) && pcv(*sp[m]) == pcv(m0[an[m]]) && m0[an[m]].pre_commit_deposit@ == sp[m].pre_commit_deposit@ by {
        let i = act_idx(v, p, d, m);
        assert(0 <= i < n);
        assert(*sp[m] == pcs[i]);
        assert(m0.dom().contains(nums[i]) && pcv(pcs[i]) == pcv(m0[nums[i]]));
        assert(an[m] == nums[i]);
    }
    assert forall|m: int| 0 <= m < sp.len() implies ref_nums(sp)[m] == an[m] by {}
}
/// what the data activation handed back for the activated sectors: the m-th output belongs to the m-th activated sector's manifest
#[verifier::opaque]
pub open spec fn outs_ok(outs: Seq<DataActivationOutput>, params: ProveCommitSectors3Params, v: Seq<u32>, p: Seq<u32>, d: Seq<u32>) -> bool {
    outs.len() == succ_idx(d).len() && forall|m: int| 0 <= m < outs.len() ==> ({
        let ps = params.sector_activations@[act_idx(v, p, d, m)].pieces@;
        (#[trigger] outs[m]).verified_space@ == verified_size(ps, ps.len() as int) && outs[m].unverified_space@ == unverified_size(ps, ps.len() as int)
    })
}
pub proof fn lemma_pcs3_state(s0: State, s1: State, epoch: ChainEpoch, balance: int, params: ProveCommitSectors3Params, v: Seq<u32>, p: Seq<u32>, d: Seq<u32>,
        sp: Seq<&SectorPreCommitOnChainInfo>, outs: Seq<DataActivationOutput>, pi: NetworkPledgeInputs, info: MinerInfo)
    requires
        chain_wf(params.sector_activations@.len() as int, v, p, d), succ_idx(d).len() > 0,
        ani_post(s0, s1, sp, outs, pi, info, epoch, balance),
        sp.len() == succ_idx(d).len(), outs_ok(outs, params, v, p, d),
        ref_nums(sp) =~= act_nums(params, v, p, d), recs_match(pcmap(s0), sp, sp.len() as int),
        forall|m: int| 0 <= m < sp.len() ==> pcv(*(#[trigger] sp[m])) == pcv(pcmap(s0)[act_nums(params, v, p, d)[m]]),
    ensures
        pcs3_state(s0, s1, epoch, params, v, p, d),
        forall|m: int| 0 <= m < sp.len() ==> (#[trigger] sectors_tbl(s1)[act_nums(params, v, p, d)[m]]).verified_deal_weight@
            == outs[m].verified_space@ * (pcmap(s0)[act_nums(params, v, p, d)[m]].info.expiration - epoch),
{
    reveal(ani_post); reveal(pcs3_state); reveal(outs_ok);
    let an = act_nums(params, v, p, d);
    let mm = an.len() as int;
    let m0 = pcmap(s0);
    assert(ref_nums(sp) == an);
    assert forall|m: int| 0 <= m < mm implies sectors_tbl(s1).dom().contains(#[trigger] an[m]) && ({
            let i = act_idx(v, p, d, m);
            let si = sectors_tbl(s1)[an[m]];
            let ps = params.sector_activations@[i].pieces@;
            let dur = m0[an[m]].info.expiration - epoch;
            &&& si.sector_number == an[m] && si.activation == epoch && si.power_base_epoch == epoch && si.expiration == m0[an[m]].info.expiration
            &&& si.sealed_cid == m0[an[m]].info.sealed_cid && si.flags == SectorOnChainInfoFlags::SIMPLE_QA_POWER
            &&& si.verified_deal_weight@ == verified_size(ps, ps.len() as int) * dur
            &&& si.deal_weight@ == unverified_size(ps, ps.len() as int) * dur
            &&& si.verified_deal_weight@ == outs[m].verified_space@ * dur
        }) by {
        assert(info_at(sectors_tbl(s1)[an[m]], *sp[m], outs[m], epoch));
        assert(pcv(*sp[m]) == pcv(m0[an[m]]));
        let ps = params.sector_activations@[act_idx(v, p, d, m)].pieces@;
        assert(outs[m].verified_space@ == verified_size(ps, ps.len() as int));
    }
}
/// what activate_sectors_pieces established about the request, the registry's verdicts and the outputs (summary handed to lemma_pcs3_claims)
#[verifier::opaque]
pub open spec fn claims_pre(inputs: Seq<SectorPiecesActivationInput>, flag: bool, d: Seq<u32>, outs: Seq<DataActivationOutput>, sent: bool, cs: SendRec) -> bool {
    &&& d.len() == inputs.len() && outs.len() == succ_idx(d).len()
    &&& (sent ==> is_claim_send(cs) && cs.value == 0 && cs.ok && d == deser_spec::<ClaimAllocationsReturn>(cs.ret).sector_results.codes()
            && exists|req: ClaimAllocationsParams| cs.params == Some(IpldBlock { h: #[trigger] cbor_hash(req) }) && req.all_or_nothing == flag
                && entries_ok(req.sectors@, inputs, inputs.len() as int))
    &&& (!sent ==> d == zeros(inputs.len()) && forall|i: int| 0 <= i < inputs.len() ==> verified_size((#[trigger] inputs[i]).piece_manifests@, inputs[i].piece_manifests@.len() as int) == 0)
    &&& (forall|m: int| 0 <= m < outs.len() ==> (#[trigger] outs[m]).verified_space@ == ans_space(sent, cs.ret, m))
}
#[verifier::opaque]
pub open spec fn inputs_ok(inputs: Seq<SectorPiecesActivationInput>, acts: Seq<SectorActivationManifest>, pcs: Seq<SectorPreCommitOnChainInfo>, v: Seq<u32>, p: Seq<u32>) -> bool {
    inputs.len() == succ_idx(p).len() && forall|k: int| 0 <= k < inputs.len() ==> input_for(#[trigger] inputs[k], acts[prov_idx(v, p, k)], pcs[prov_idx(v, p, k)])
}
pub proof fn lemma_pcs3_claims(s0: State, s1: State, epoch: ChainEpoch, params: ProveCommitSectors3Params, pcs: Seq<SectorPreCommitOnChainInfo>, v: Seq<u32>, p: Seq<u32>, d: Seq<u32>,
        inputs: Seq<SectorPiecesActivationInput>, outs: Seq<DataActivationOutput>, sent: bool, cs0: SendRec, cs: SendRec)
    requires
        pctable_ok(s0), loaded_ok(pcmap(s0), param_nums(params), pcs), chain_wf(params.sector_activations@.len() as int, v, p, d),
        inputs_ok(inputs, params.sector_activations@, pcs, v, p),
        claims_pre(inputs, params.require_activation_success, d, outs, sent, cs0), sent ==> cs == cs0,
        forall|m: int| 0 <= m < outs.len() ==> (#[trigger] sectors_tbl(s1)[act_nums(params, v, p, d)[m]]).verified_deal_weight@
            == outs[m].verified_space@ * (pcmap(s0)[act_nums(params, v, p, d)[m]].info.expiration - epoch),
    ensures pcs3_claims(s0, s1, epoch, params, v, p, d, sent, cs),
{
    reveal(pcs3_claims); reveal(claims_pre); reveal(inputs_ok);
    let n = params.sector_activations@.len() as int;
    let nums = param_nums(params);
    let m0 = pcmap(s0);
    let np = succ_idx(p).len() as int;
    let an = act_nums(params, v, p, d);
    lemma_chain(n, v, p, d);
    assert forall|k: int| 0 <= k < np implies inputs[k].sector_number == nums[prov_idx(v, p, k)] && inputs[k].sector_expiry == m0[nums[prov_idx(v, p, k)]].info.expiration
        && inputs[k].piece_manifests@ == params.sector_activations@[prov_idx(v, p, k)].pieces@ by {
        let i = prov_idx(v, p, k);
        assert(input_for(inputs[k], params.sector_activations@[i], pcs[i]));
        assert(m0.dom().contains(nums[i]) && pcv(pcs[i]) == pcv(m0[nums[i]]));
    }
    if sent {
        let req = choose|req: ClaimAllocationsParams| cs.params == Some(IpldBlock { h: #[trigger] cbor_hash(req) }) && req.all_or_nothing == params.require_activation_success
                && entries_ok(req.sectors@, inputs, inputs.len() as int);
        assert forall|k: int| 0 <= k < np implies (#[trigger] req.sectors@[k]).sector == nums[prov_idx(v, p, k)]
                    && req.sectors@[k].expiry == m0[nums[prov_idx(v, p, k)]].info.expiration
                    && req.sectors@[k].claims@ == claims_of(params.sector_activations@[prov_idx(v, p, k)].pieces@, params.sector_activations@[prov_idx(v, p, k)].pieces@.len() as int) by {
            assert(entry_for(req.sectors@[k], inputs[k]));
        }
        assert(cs.params == Some(IpldBlock { h: cbor_hash(req) }));
    } else {
        assert forall|k: int| 0 <= k < np implies
            verified_size(params.sector_activations@[#[trigger] prov_idx(v, p, k)].pieces@, params.sector_activations@[prov_idx(v, p, k)].pieces@.len() as int) == 0 by {
            assert(verified_size(inputs[k].piece_manifests@, inputs[k].piece_manifests@.len() as int) == 0);
        }
    }
}
//@ fn actors/miner/src/lib.rs Actor::prove_commit_sectors3 free ret=ret sub0="info . control_addresses . iter () . chain (& [info . worker , info . owner])=>&vx_control_worker_owner(&info)" sub1="params . sector_activations . iter () . map (| sa | sa . sector_number)=>vx_activation_numbers(&params.sector_activations)" suball0="batch . success_count=>batch . vx_success_count ()" sub2="valid_activation_inputs . iter () . zip (valid_precommits)=>vx_zip_refs(&valid_activation_inputs, valid_precommits)" sub3="validation_batch . successes (& proof_inputs) . iter () . zip (validation_batch . successes (& params . sector_proofs)) . map (| (info , proof) | -> SealVerifyInfo { info . to_seal_verify_info (miner_id , proof) }) . collect ()=>vx_seal_verify_inputs(&validation_batch, &proof_inputs, &params.sector_proofs, miner_id)" sub4="res . iter () . zip (eligible_activation_inputs_iter)=>vx_zip_flat(&res, eligible_activation_inputs_iter)" sub5="eligible_activation_inputs_iter . map (| (activation , precommit) | (* activation , precommit)) . collect ()=>vx_deref_first(eligible_activation_inputs_iter)" sub6="proven_activation_inputs . iter () . map=>vx_pairs(&proven_activation_inputs).map" sub7="| (activation , precommit) | -> SectorPiecesActivationInput=>|activation: &&SectorActivationManifest, precommit: &&SectorPreCommitOnChainInfo| -> (o: SectorPiecesActivationInput) ensures input_for(o, **activation, **precommit)" sub8="successful_sector_activations . iter () . map (| (_ , second) | * second) . collect ()=>vx_seconds(&successful_sector_activations)" sub9="request_current_total_power (rt)=>vx_request_current_total_power (rt)" sub10="activations . pieces . iter () . map (| p | (p . cid , p . size . 0)) . collect ()=>vx_piece_pairs(&activations.pieces)" sub11="emit :: sector_activated=>vx_emit_sector_activated"
    requires
        !old(rt).in_tx@, old(rt).msg.receiver.proto == 0, params.sector_activations@.len() <= u32::MAX,
        // data invariant of the pre-commit table and magnitudes (no i64 overflow in epoch arithmetic)
        pctable_ok(rt_state::<State>(old(rt).state_id@)), policy_small(), small_epoch(old(rt).epoch as int),
        forall|b: Option<IpldBlock>| small_epoch(#[trigger] deser_spec::<CurrentTotalPowerReturn>(b).ramp_start_epoch as int),
        // EXPLICIT ASSUMPTIONS about other actors: the registry answers ClaimAllocations as its contract says; the registry / reward / power calls made
        // between loading the pre-commitments and the activation transaction do not call back into this miner
        registry_contract(),
        rt_no_reentry(VERIFIED_REGISTRY_ACTOR_ADDR, vreg::CLAIM_ALLOCATIONS_METHOD),
        rt_no_reentry(REWARD_ACTOR_ADDR, ext::reward::THIS_EPOCH_REWARD_METHOD),
        rt_no_reentry(STORAGE_POWER_ACTOR_ADDR, CURRENT_TOTAL_POWER_METHOD),
    ensures
        /*C11*/ ret.is_ok() ==> final(rt).validated@.is_some() && info_of(rt_state::<State>(old(rt).state_id@)).is_some()
            && may_operate(info_of(rt_state::<State>(old(rt).state_id@))->Some_0, old(rt).msg.caller),
        // the returned per-sector codes are the three verdict sequences stacked; for SOME verdict sequences v (validation), p (proof), d (data
        // activation) everything in pcs3_ok holds
        ret.is_ok() ==> pcs3_post(*old(rt), *final(rt), params, ret->Ok_0.activation_results.codes()),
//@ entry
        let ghost s0 = rt_state::<State>(old(rt).state_id@);
        let ghost m0 = pcmap(s0);
        let ghost k0 = old(rt).sends@.len() as int;
        let ghost n = params.sector_activations@.len() as int;
        let ghost nums = param_nums(params);
        let ghost acts = params.sector_activations@;
        let ghost mut svis: Seq<SealVerifyInfo> = Seq::empty();
        let ghost mut verd: Seq<bool> = Seq::empty();
//@ before "if precommits . is_empty ()"
        let ghost pcs = precommits@;
        let ghost rt1 = *rt;
        proof {
            assert(state == s0);
            assert forall|i: int| 0 <= i < n implies m0.dom().contains(#[trigger] nums[i]) && pcv(pcs[i]) == pcv(m0[nums[i]]) by { assert(sector_numbers@[i] == nums[i]); }
            assert(pcs_small(pcs)) by { assert forall|i: int| 0 <= i < pcs.len() implies small_epoch((#[trigger] pcs[i]).pre_commit_epoch as int) && small_epoch(pcs[i].info.expiration as int) by {
                assert(pcv(pcs[i]) == pcv(m0[nums[i]])); } }
        }
//@ before "let valid_precommits ="
        let ghost v = validation_batch.codes();
        let ghost vi = succ_idx(v);
        let ghost pin = proof_inputs@;
        proof {
            assert(verdicts_v(s0, rt.epoch, params, v)) by {
                reveal(verdicts_v);
                assert forall|i: int| 0 <= i < n implies (#[trigger] v[i] == 0 <==> pc_valid(m0[nums[i]], false, rt.epoch)) by { assert(pcv(pcs[i]) == pcv(m0[nums[i]])); }
                assert forall|i: int| 0 <= i < n implies rt.epoch > (#[trigger] m0[nums[i]]).pre_commit_epoch + rt_policy().pre_commit_challenge_delay by { assert(pcv(pcs[i]) == pcv(m0[nums[i]])); }
            }
            assert(params.require_activation_success ==> forall|i: int| 0 <= i < v.len() ==> v[i] == 0);
            assert forall|i: int| 0 <= i < n implies (#[trigger] pin[i]).sector_number == nums[i] && pin[i].sealed_cid == m0[nums[i]].info.sealed_cid by { assert(pcv(pcs[i]) == pcv(m0[nums[i]])); }
        }
//@ before "let mut proven_activation_inputs"
        let ghost elig = eligible_activation_inputs_iter@;
        proof {
            assert forall|j: int| 0 <= j < elig.len() implies **(#[trigger] elig[j]).0 == acts[vi[j]] && *elig[j].1 == pcs[vi[j]] by {}
        }
//@ before "for (verified , (activation , precommit))"
            proof {
                svis = seal_verify_inputs@; verd = res@;
                assert(svis_ok(svis, verd, s0, miner_id, params, v)) by {
                    lemma_succ_idx(v);
                    assert forall|j: int| 0 <= j < svis.len() implies verd[j] == seal_verdict(#[trigger] svis[j]) && svis[j].miner == miner_id && svis[j].number == nums[vi[j]]
                        && svis[j].proof == params.sector_proofs@[vi[j]] && svis[j].sealed_cid == m0[nums[vi[j]]].info.sealed_cid by {
                        assert(pin[vi[j]].sector_number == nums[vi[j]]);
                    }
                }
            }
//@ loop 0 iter=it
                invariant
                    *rt == rt1, vi == succ_idx(v), svis_ok(svis, verd, s0, miner_id, params, v), it.seq().len() == vi.len(), elig.len() == vi.len(), verd.len() == vi.len(),
                    forall|q: int| 0 <= q < vi.len() ==> *(#[trigger] it.seq()[q]).0 == verd[q] && it.seq()[q].1 == elig[q],
                    forall|j: int| 0 <= j < elig.len() ==> **(#[trigger] elig[j]).0 == acts[vi[j]] && *elig[j].1 == pcs[vi[j]],
                    proven_batch_gen.codes().len() == it.index@, proven_batch_gen.expect() == vi.len(),
                    pairs_at(proven_activation_inputs@, acts, pcs, v, proven_batch_gen.codes()),
                    forall|q: int| 0 <= q < it.index@ ==> (#[trigger] proven_batch_gen.codes()[q] == 0) == verd[q],
                    params.require_activation_success ==> forall|q: int| 0 <= q < it.index@ ==> #[trigger] proven_batch_gen.codes()[q] == 0,
//@ loopstart 0
                let ghost c0 = proven_batch_gen.codes();
                let ghost pa0 = proven_activation_inputs@;
//@ loopend 0
                proof {
                    let c1 = proven_batch_gen.codes();
                    lemma_succ_push(c0, c1.last());
                    assert(c1.drop_last() =~= c0);
                    assert forall|k: int| 0 <= k < proven_activation_inputs@.len() implies *(#[trigger] proven_activation_inputs@[k]).0 == acts[prov_idx(v, c1, k)] && *proven_activation_inputs@[k].1 == pcs[prov_idx(v, c1, k)] by {
                        if k < pa0.len() { assert(proven_activation_inputs@[k] == pa0[k]); assert(prov_idx(v, c1, k) == prov_idx(v, c0, k)); }
                        else {
                            let idx = it.index@ as int;
                            assert(c1.last() == 0);
                            assert(succ_idx(c1)[k] == c0.len());
                            assert(proven_activation_inputs@[k] == (*activation, precommit));
                            assert(it.seq()[idx].1 == elig[idx]);
                            assert(**elig[idx].0 == acts[vi[idx]]);
                        }
                    }
                }
//@ before "let proven_batch = proven_batch_gen . generate ()"
        proof {
            if params.sector_proofs@.len() == 0 {
                assert(proven_batch_gen.codes() =~= zeros(vi.len()));
                lemma_succ_idx_zeros(vi.len());
                assert(pairs_at(proven_activation_inputs@, acts, pcs, v, proven_batch_gen.codes()));
            }
        }
//@ before "if proven_batch . success_count == 0"
        let ghost p = proven_batch.codes();
        let ghost pj = succ_idx(p);
        proof {
            assert(params.require_activation_success ==> forall|k: int| 0 <= k < p.len() ==> p[k] == 0);
            assert(verdicts_p(s0, miner_id, params, v, p)) by {
                reveal(verdicts_p);
                if params.sector_proofs@.len() != 0 {
                    assert forall|k: int| 0 <= k < pj.len() implies #[trigger] proven_has_verdict(s0, miner_id, params, v, p, k) by {
                        lemma_succ_idx(p);
                        let q = pj[k];
                        assert(p[q] == 0);
                        assert(verd[q] == seal_verdict(svis[q]));
                        assert(seal_verdict(svis[q]) && svis[q].number == nums[vi[q]]);
                    }
                } else {
                    assert(is_inputs(pin));
                    assert(pcv(pcs[0]) == pcv(m0[nums[0]]));
                }
            }
        }
//@ before "let (data_batch , data_activations) ="
        let ghost inputs = data_activation_inputs@;
        proof {
            assert(pairs_at(proven_activation_inputs@, acts, pcs, v, p));
            assert forall|k: int| 0 <= k < inputs.len() implies input_for(#[trigger] inputs[k], acts[prov_idx(v, p, k)], pcs[prov_idx(v, p, k)]) by {
                assert(*proven_activation_inputs@[k].0 == acts[prov_idx(v, p, k)]);
            }
            assert(inputs_ok(inputs, acts, pcs, v, p)) by { reveal(inputs_ok); }
        }
//@ before "if data_batch . success_count == 0"
        let ghost d = data_batch.codes();
        let ghost dj = succ_idx(d);
        let ghost sent = rt.sends@.len() == k0 + 1;
        let ghost outs = data_activations@;
        let ghost an = act_nums(params, v, p, d);
        let ghost cs0 = rt.sends@[k0];
        proof {
            assert(chain_wf(n, v, p, d));
            assert(claims_pre(inputs, params.require_activation_success, d, outs, sent, cs0)) by { reveal(claims_pre); }
            assert(params.require_activation_success ==> dj.len() == pj.len() || dj.len() == 0);
        }
//@ before "let rew ="
        let ghost sp = successful_precommits@;
        let ghost ssa = successful_sector_activations@;
        proof {
            assert forall|m: int| 0 <= m < sp.len() implies *(#[trigger] sp[m]) == pcs[act_idx(v, p, d, m)] && *(*ssa[m]).0 == acts[act_idx(v, p, d, m)] by {
                lemma_succ_idx(d);
                assert(*ssa[m] == proven_activation_inputs@[dj[m]]);
                assert(*proven_activation_inputs@[dj[m]].1 == pcs[prov_idx(v, p, dj[m])]);
            }
        }
//@ before "activate_new_sector_infos"
        let ghost rt_mid = *rt;
        proof {
            assert(rt.state_id@ == old(rt).state_id@);
            assert(loaded_ok(m0, nums, pcs));
            lemma_handed_in(s0, params, pcs, sp, v, p, d);
        }
//@ before "let mut notifications"
        let ghost s1 = rt_state::<State>(rt.tx_log@.last());
        let ghost rt2 = *rt;
        proof {
            assert(outs_ok(outs, params, v, p, d)) by {
                reveal(outs_ok);
                assert forall|m: int| 0 <= m < outs.len() implies ({
                    let ps = params.sector_activations@[act_idx(v, p, d, m)].pieces@;
                    (#[trigger] outs[m]).verified_space@ == verified_size(ps, ps.len() as int) && outs[m].unverified_space@ == unverified_size(ps, ps.len() as int)
                }) by {
                    assert(output_for(outs[m], inputs[dj[m]], ans_space(sent, if sent { cs0.ret } else { None }, m)));
                    assert(input_for(inputs[dj[m]], acts[prov_idx(v, p, dj[m])], pcs[prov_idx(v, p, dj[m])]));
                }
            }
            lemma_pcs3_state(s0, s1, rt.epoch, rt_mid.balance@, params, v, p, d, sp, outs, pledge_inputs, info);
            assert forall|m: int| 0 <= m < ssa.len() implies *(*(#[trigger] ssa[m])).0 == params.sector_activations@[act_idx(v, p, d, m)]
                    && (*(*ssa[m]).1).info.expiration == pcmap(s0)[params.sector_activations@[act_idx(v, p, d, m)].sector_number].info.expiration by {
                assert((*ssa[m]).1 == sp[m]);
                assert(pcv(*sp[m]) == pcv(m0[an[m]]));
            }
        }
//@ loopstart 1
            let ghost nf0 = notifications@;
//@ loopend 1
            proof {
                let m = it1.index@ as int;
                let want = act_notifs(params, s0, v, p, d);
                assert(*it1.seq()[m] == ssa[m]);
                assert(notifications@ =~= nf0.push(notifications@.last()));
                assert(*activations == params.sector_activations@[act_idx(v, p, d, m)]);
                assert(notifications@.last().sector_number == want[m].sector_number);
                assert(notifications@.last().sector_expiration == want[m].sector_expiration);
                assert(*notifications@.last().pieces == *want[m].pieces);
                assert(notifications@.last() == want[m]);
            }
//@ loop 1 iter=it1
            invariant
                *rt == (Rt { events: rt.events, ..rt2 }), it1.seq().len() == ssa.len(), forall|q: int| 0 <= q < ssa.len() ==> *it1.seq()[q] == ssa[q],
                ssa.len() == succ_idx(d).len(), forall|m: int| 0 <= m < ssa.len() ==> *(*(#[trigger] ssa[m])).0 == params.sector_activations@[act_idx(v, p, d, m)]
                    && (*(*ssa[m]).1).info.expiration == pcmap(s0)[params.sector_activations@[act_idx(v, p, d, m)].sector_number].info.expiration,
                notifications@ =~= act_notifs(params, s0, v, p, d).take(it1.index@ as int),
//@ before "notify_data_consumers"
        let ghost rt3 = *rt;
//@ before "ProveCommitSectors3Return"
        proof {
            assert(chain_wf(n, v, p, d));
            assert(result.codes() == stack2(v, stack2(p, d)));
            assert(rt.tx_log@.len() == old(rt).tx_log@.len() + 1);
            assert(rt.tx_log@.last() == rt2.tx_log@.last());
            assert(sent == (rt.sends@.len() > k0 && is_claim_send(rt.sends@[k0])));
            assert(sent ==> rt.sends@[k0] == cs0);
            lemma_pcs3_claims(s0, s1, rt.epoch, params, pcs, v, p, d, inputs, outs, sent, cs0, rt.sends@[k0]);
            let c: int = if sent { 1 } else { 0 };
            let delta = s1.initial_pledge@ - s0.initial_pledge@;
            let q: int = if delta != 0 { 1 } else { 0 };
            let ss = rt.sends@;
            assert(rt_mid.sends@.len() == k0 + c + 2);
            assert(rt2.sends@.len() == k0 + c + 2 + q);
            assert(rt3.sends@ == rt2.sends@);
            assert(forall|i: int| 0 <= i < rt2.sends@.len() ==> ss[i] == rt2.sends@[i]);
            assert(forall|i: int| 0 <= i < k0 ==> ss[i] == old(rt).sends@[i]);
            assert(is_reward_query(ss[k0 + c]) && is_total_power_query(ss[k0 + c + 1]));
            assert(forall|i: int| k0 + c + 2 + q <= i < ss.len() ==> is_notification(#[trigger] ss[i]));
            assert forall|i: int| k0 <= i < ss.len() implies !is_power_update(#[trigger] ss[i]) by {
                if i >= k0 + c + 2 + q { assert(is_notification(ss[i])); }
                else if i == k0 + c + 2 { assert(is_pledge_note(ss[i])); }
                else if i == k0 + c + 1 { assert(is_total_power_query(ss[i])); }
                else if i == k0 + c { assert(is_reward_query(ss[i])); }
                else { assert(is_claim_send(ss[i])); }
            }
            assert(notifications@ =~= act_notifs(params, s0, v, p, d));
            assert(pcs3_sends(*old(rt), *rt, s0, s1, sent, act_notifs(params, s0, v, p, d), params.require_notification_success)) by { reveal(pcs3_sends); }
            if params.require_activation_success { lemma_all_zero(v); lemma_all_zero(p); }
            assert(params.require_activation_success ==> succ_idx(d).len() == n);
            assert(pcs3_ok(*old(rt), *rt, params, result.codes(), v, p, d));
            assert(pcs3_post(*old(rt), *rt, params, result.codes()));
        }
//@ end

// =====================================================================================================================================================
// (9) ProveReplicaUpdates3
// =====================================================================================================================================================
//@ item actors/miner/src/lib.rs ReplicaUpdateActivatedData tsub0="struct ReplicaUpdateActivatedData=>pub struct ReplicaUpdateActivatedData"
//@ item actors/miner/src/types.rs SectorUpdateManifest
//@ item actors/miner/src/types.rs ProveReplicaUpdates3Params
//@ item actors/miner/src/types.rs ProveReplicaUpdates3Return
//@ item actors/miner/src/lib.rs ReplicaUpdateInner
//@ item actors/miner/src/lib.rs UpdateAndSectorInfo tsub0="struct UpdateAndSectorInfo=>pub struct UpdateAndSectorInfo"
//@ include prelude/btreeset.rs
//@ include prelude/miner_prove_update_assumed.rs
pub open spec fn imax(a: int, b: int) -> int { if a >= b { a } else { b } }
/// the pledge requirement of a sector for given data (monies.rs initial_pledge_for_power over qa_power_for_weight: opaque formulas)
pub open spec fn pledge_for(size: SectorSize, duration: ChainEpoch, verified_weight: int, pi: NetworkPledgeInputs) -> int {
    ip_spec(qapw_spec(size, duration, verified_weight), pi.network_baseline@, pi.epoch_reward, pi.network_qap, pi.circulating_supply@, pi.epochs_since_ramp_start, pi.ramp_duration_epochs)
}
/// the sector info after a replica update: new sealed CID; the data weights REPLACE the old ones and are counted from the update epoch on
/// (power_base_epoch = now) up to the unchanged expiration; pledge = max(old pledge, pledge for the new power); everything else kept
pub open spec fn updated_info(new: SectorOnChainInfo, old: SectorOnChainInfo, ad: ReplicaUpdateActivatedData, pi: NetworkPledgeInputs, size: SectorSize, epoch: ChainEpoch) -> bool {
    let dur = (old.expiration - epoch) as ChainEpoch;
    &&& new.sector_number == old.sector_number && new.activation == old.activation && new.expiration == old.expiration && new.seal_proof == old.seal_proof
    &&& new.sealed_cid == ad.seal_cid
    &&& new.sector_key_cid == (if old.sector_key_cid.is_some() { old.sector_key_cid } else { Some(old.sealed_cid) })
    &&& new.power_base_epoch == epoch
    &&& new.deal_weight@ == ad.unverified_space@ * dur
    &&& new.verified_deal_weight@ == ad.verified_space@ * dur
    // "pledge never decreases on update"
    &&& new.initial_pledge@ == imax(old.initial_pledge@, pledge_for(size, dur, new.verified_deal_weight@, pi))
    &&& new.flags.bits == old.flags.bits | 1
}
//@ fn actors/miner/src/lib.rs update_existing_sector_info
    requires small_epoch(sector_info.expiration as int), small_epoch(curr_epoch as int),
    ensures updated_info(r, *sector_info, *activated_data, *pledge_inputs, sector_size, curr_epoch),
//@ end

//@ item actors/miner/src/lib.rs ReplicaUpdateStateInputs tsub0="struct ReplicaUpdateStateInputs=>pub struct ReplicaUpdateStateInputs"
//@ fn actors/miner/src/state.rs State::load_deadlines
    ensures r.is_ok() ==> cbor_decode::<Deadlines>(self.deadlines) == Some(r->Ok_0),
//@ end
//@ fn actors/miner/src/state.rs State::save_deadlines
    ensures *final(self) == (State { deadlines: final(self).deadlines, ..*old(self) }),
//@ end
pub type Rusi<'a> = ReplicaUpdateStateInputs<'a>;
pub open spec fn upd_dur(u: Rusi, epoch: ChainEpoch) -> ChainEpoch { (u.sector_info.expiration - epoch) as ChainEpoch }
/// QA power of the updated sector minus QA power of the sector as it was: the sector is already proven, so its power changes NOW
pub open spec fn upd_qa_delta(u: Rusi, size: SectorSize, epoch: ChainEpoch) -> int {
    qapw_spec(size, upd_dur(u, epoch), u.activated_data.verified_space@ * upd_dur(u, epoch)) - qa_of(size, *u.sector_info)
}
/// pledge of the updated sector minus its old pledge: max(old, requirement for the new power) - old  (never negative)
pub open spec fn upd_pledge_delta(u: Rusi, pi: NetworkPledgeInputs, size: SectorSize, epoch: ChainEpoch) -> int {
    imax(u.sector_info.initial_pledge@, pledge_for(size, upd_dur(u, epoch), u.activated_data.verified_space@ * upd_dur(u, epoch), pi)) - u.sector_info.initial_pledge@
}
pub open spec fn sum_qa(us: Seq<Rusi>, n: int, size: SectorSize, epoch: ChainEpoch) -> int
    decreases n
{ if n <= 0 { 0 } else { sum_qa(us, n - 1, size, epoch) + upd_qa_delta(us[n - 1], size, epoch) } }
pub open spec fn sum_pl(us: Seq<Rusi>, n: int, pi: NetworkPledgeInputs, size: SectorSize, epoch: ChainEpoch) -> int
    decreases n
{ if n <= 0 { 0 } else { sum_pl(us, n - 1, pi, size, epoch) + upd_pledge_delta(us[n - 1], pi, size, epoch) } }
/// the updates in processing order: deadline by deadline (ascending), within a deadline in the order given
pub open spec fn flat2(pairs: Seq<(u64, Vec<Rusi>)>, n: int) -> Seq<Rusi>
    decreases n
{ if n <= 0 { Seq::empty() } else { flat2(pairs, n - 1) + pairs[n - 1].1@ } }
pub open spec fn upds_small(pairs: Seq<(u64, Vec<Rusi>)>) -> bool {
    forall|j: int, k: int| 0 <= j < pairs.len() && 0 <= k < pairs[j].1@.len() ==> small_epoch((#[trigger] pairs[j].1@[k]).sector_info.expiration as int)
}
/// ns[t] is the updated info of the t-th update
pub open spec fn upd_infos_ok(ns: Seq<SectorOnChainInfo>, fl: Seq<Rusi>, pi: NetworkPledgeInputs, size: SectorSize, epoch: ChainEpoch) -> bool {
    ns.len() == fl.len() && forall|t: int| 0 <= t < ns.len() ==> updated_info(#[trigger] ns[t], *fl[t].sector_info, fl[t].activated_data, pi, size, epoch)
}
pub proof fn lemma_sum_qa_ext(a: Seq<Rusi>, b: Seq<Rusi>, n: int, size: SectorSize, epoch: ChainEpoch)
    requires 0 <= n <= a.len(), n <= b.len(), forall|i: int| 0 <= i < n ==> a[i] == b[i]
    ensures sum_qa(a, n, size, epoch) == sum_qa(b, n, size, epoch)
    decreases n
{ if n > 0 { lemma_sum_qa_ext(a, b, n - 1, size, epoch); } }
pub proof fn lemma_sum_pl_ext(a: Seq<Rusi>, b: Seq<Rusi>, n: int, pi: NetworkPledgeInputs, size: SectorSize, epoch: ChainEpoch)
    requires 0 <= n <= a.len(), n <= b.len(), forall|i: int| 0 <= i < n ==> a[i] == b[i]
    ensures sum_pl(a, n, pi, size, epoch) == sum_pl(b, n, pi, size, epoch)
    decreases n
{ if n > 0 { lemma_sum_pl_ext(a, b, n - 1, pi, size, epoch); } }
/// sums over a concatenation
pub proof fn lemma_sum_concat(a: Seq<Rusi>, b: Seq<Rusi>, n: int, pi: NetworkPledgeInputs, size: SectorSize, epoch: ChainEpoch)
    requires 0 <= n <= b.len()
    ensures
        sum_qa(a + b, a.len() + n, size, epoch) == sum_qa(a, a.len() as int, size, epoch) + sum_qa(b, n, size, epoch),
        sum_pl(a + b, a.len() + n, pi, size, epoch) == sum_pl(a, a.len() as int, pi, size, epoch) + sum_pl(b, n, pi, size, epoch),
    decreases n
{
    if n > 0 {
        lemma_sum_concat(a, b, n - 1, pi, size, epoch);
        assert((a + b)[a.len() + n - 1] == b[n - 1]);
    } else {
        lemma_sum_qa_ext(a + b, a, a.len() as int, size, epoch);
        lemma_sum_pl_ext(a + b, a, a.len() as int, pi, size, epoch);
    }
}
pub proof fn lemma_sum_pl_nonneg(us: Seq<Rusi>, n: int, pi: NetworkPledgeInputs, size: SectorSize, epoch: ChainEpoch)
    requires 0 <= n <= us.len()
    ensures sum_pl(us, n, pi, size, epoch) >= 0
    decreases n
{ if n > 0 { lemma_sum_pl_nonneg(us, n - 1, pi, size, epoch); } }

//@ fn actors/miner/src/lib.rs update_replica_states closure=0 as=urs_tx0 params="state: &mut State, rt: &mut Rt, updates_by_deadline: &BTreeMap<u64, Vec<ReplicaUpdateStateInputs>>, expected_count: usize, sectors: &mut Sectors<&'static Store>, sector_size: SectorSize, pledge_inputs: NetworkPledgeInputs, power_delta: &mut PowerPair, pledge_delta: &mut TokenAmount" retty="Result<(), ActorError>" ret=res derefs=power_delta,pledge_delta sub0="(& dl_idx , updates)=>(dl_idx, updates)" sub1="updates_by_deadline invariant=>updates_by_deadline.vx_ref_pairs() invariant" suball0="std :: slice :: from_ref=>vx_slice_from_ref" sub2="deadline . live_power += & deadline_power_delta=>deadline.vx_add_live_power(&deadline_power_delta)" sub3="deadline . daily_fee += & deadline_daily_fee_delta=>deadline.vx_add_daily_fee(&deadline_daily_fee_delta)" sub4="deadline . partitions = partitions . flush ()=>*deadline.vx_partitions_mut() = partitions.flush()"
    requires small_epoch(old(rt).epoch as int), upds_small(updates_by_deadline.ref_pairs()),
    ensures
        *final(rt) == *old(rt),
        res.is_ok() ==> ({
            let s0 = *old(state);
            let s1 = *final(state);
            let fl = flat2(updates_by_deadline.ref_pairs(), updates_by_deadline.ref_pairs().len() as int);
            let epoch = old(rt).epoch;
            // every update of the request was applied, once
            &&& fl.len() == expected_count
            // C02: the power delta handed back is the sum over the updated sectors of (new QA power - old QA power); raw power does not change
            &&& final(power_delta).raw@ == old(power_delta).raw@
            &&& final(power_delta).qa@ == old(power_delta).qa@ + sum_qa(fl, fl.len() as int, sector_size, epoch)
            // C03: the pledge delta is the sum over the updated sectors of (max(old pledge, new requirement) - old pledge); it is added to the ledger
            &&& final(pledge_delta)@ == old(pledge_delta)@ + sum_pl(fl, fl.len() as int, pledge_inputs, sector_size, epoch)
            &&& s1.initial_pledge@ == s0.initial_pledge@ + final(pledge_delta)@
            &&& st_solvent(s1, old(rt).balance@) && s1.initial_pledge@ >= 0
            // the sector table: exactly the updated infos are (over)written under their own numbers
            &&& exists|ns: Seq<SectorOnChainInfo>| #[trigger] upd_infos_ok(ns, fl, pledge_inputs, sector_size, epoch)
                    && sectors_tbl(s1) == store_infos(old(sectors).amt.view(), ns, ns.len() as int)
            // nothing else of the state moves
            &&& s1 == (State { initial_pledge: s1.initial_pledge, sectors: s1.sectors, deadlines: s1.deadlines, ..s0 })
        }),
//@ entry
        let ghost pairs = updates_by_deadline.ref_pairs();
        let ghost epoch = rt.epoch;
//@ loop 0 iter=it
        invariant
            *rt == *old(rt), *state == *old(state), *sectors == *old(sectors), small_epoch(rt.epoch as int), epoch == rt.epoch, pairs == updates_by_deadline.ref_pairs(), upds_small(pairs),
            it.seq().len() == pairs.len(), forall|j: int| 0 <= j < pairs.len() ==> (#[trigger] it.seq()[j]).0 == pairs[j].0 && *it.seq()[j].1 == pairs[j].1,
            power_delta.raw@ == old(power_delta).raw@,
            power_delta.qa@ == old(power_delta).qa@ + sum_qa(flat2(pairs, it.index@ as int), flat2(pairs, it.index@ as int).len() as int, sector_size, epoch),
            pledge_delta@ == old(pledge_delta)@ + sum_pl(flat2(pairs, it.index@ as int), flat2(pairs, it.index@ as int).len() as int, pledge_inputs, sector_size, epoch),
            upd_infos_ok(new_sectors@, flat2(pairs, it.index@ as int), pledge_inputs, sector_size, epoch),
//@ loopstart 0
            let ghost fl0 = flat2(pairs, it.index@ as int);
            let ghost us = pairs[it.index@ as int].1@;
            let ghost pd0 = *power_delta;
            let ghost pl0 = *pledge_delta;
            proof { assert(*updates == pairs[it.index@ as int].1); }
//@ loop 1 iter=it1
            invariant
                *rt == *old(rt), *state == *old(state), *sectors == *old(sectors), small_epoch(rt.epoch as int), epoch == rt.epoch, upds_small(pairs),
                0 <= it.index@ < pairs.len(), us == pairs[it.index@ as int].1@, updates@ == us, *power_delta == pd0, *pledge_delta == pl0,
                it1.seq().len() == us.len(), forall|k: int| 0 <= k < us.len() ==> *it1.seq()[k] == us[k],
                deadline_power_delta.raw@ == 0, deadline_power_delta.qa@ == sum_qa(us, it1.index@ as int, sector_size, epoch),
                deadline_pledge_delta@ == sum_pl(us, it1.index@ as int, pledge_inputs, sector_size, epoch),
                upd_infos_ok(new_sectors@, fl0 + us.take(it1.index@ as int), pledge_inputs, sector_size, epoch),
//@ loopstart 1
                let ghost ns0 = new_sectors@;
                proof { assert(*update == us[it1.index@ as int]); assert(small_epoch(pairs[it.index@ as int].1@[it1.index@ as int].sector_info.expiration as int)); }
//@ loopend 1
                proof {
                    let k = it1.index@ as int;
                    assert(us.take(k + 1) =~= us.take(k).push(us[k]));
                    assert(fl0 + us.take(k + 1) =~= (fl0 + us.take(k)).push(us[k]));
                    assert(new_sectors@ =~= ns0.push(new_sectors@.last()));
                }
//@ loopend 0
            proof {
                let idx = it.index@ as int;
                assert(us.take(us.len() as int) =~= us);
                assert(flat2(pairs, idx + 1) == fl0 + us);
                lemma_sum_concat(fl0, us, us.len() as int, pledge_inputs, sector_size, epoch);
            }
//@ before "let current_balance ="
        proof {
            let fl = flat2(pairs, pairs.len() as int);
            lemma_sum_pl_nonneg(fl, fl.len() as int, pledge_inputs, sector_size, epoch);
        }
//@ end

/// the pledge inputs update_replica_states works with: the answers of the reward and power actors to its two queries
pub open spec fn pi_from(rew: ThisEpochRewardReturn, pow: CurrentTotalPowerReturn, supply: TokenAmount, epoch: ChainEpoch) -> NetworkPledgeInputs {
    NetworkPledgeInputs { network_qap: pow.quality_adj_power_smoothed, network_baseline: rew.this_epoch_baseline_power, circulating_supply: supply,
        epoch_reward: rew.this_epoch_reward_smoothed, epochs_since_ramp_start: (epoch - pow.ramp_start_epoch) as i64, ramp_duration_epochs: pow.ramp_duration_epochs }
}
/// what update_replica_states did, for the pledge inputs `pi` it assembled from the two queries
#[verifier::opaque]
pub open spec fn urs_ok(o: Rt, f: Rt, pairs: Seq<(u64, Vec<Rusi>)>, expected: usize, tbl0: Map<u64, SectorOnChainInfo>, size: SectorSize, power_delta: PowerPair, pledge_delta: TokenAmount,
        pi: NetworkPledgeInputs) -> bool {
    let k0 = o.sends@.len() as int;
    let s = f.sends@;
    let s0 = rt_state::<State>(o.state_id@);
    let s1 = rt_state::<State>(f.tx_log@.last());
    let fl = flat2(pairs, pairs.len() as int);
    let epoch = o.epoch;
    // two read-only style queries, then ONE transaction; no other message
    &&& f.tx_log@.len() == o.tx_log@.len() + 1 && s.len() == k0 + 2 && is_reward_query(s[k0]) && is_total_power_query(s[k0 + 1]) && (forall|i: int| 0 <= i < k0 ==> s[i] == o.sends@[i])
    &&& pi.network_qap == deser_spec::<CurrentTotalPowerReturn>(s[k0 + 1].ret).quality_adj_power_smoothed
    &&& pi.epoch_reward == deser_spec::<ThisEpochRewardReturn>(s[k0].ret).this_epoch_reward_smoothed
    &&& pi.network_baseline@ == deser_spec::<ThisEpochRewardReturn>(s[k0].ret).this_epoch_baseline_power@
    // every update applied once
    &&& fl.len() == expected
    // C02: power delta == sum over the updated sectors of (new QA power - old QA power); raw power unchanged
    &&& power_delta.raw@ == 0 && power_delta.qa@ == sum_qa(fl, fl.len() as int, size, epoch)
    // C03: pledge delta == sum over the updated sectors of (max(old, new requirement) - old) >= 0, added to the ledger
    &&& pledge_delta@ == sum_pl(fl, fl.len() as int, pi, size, epoch) && pledge_delta@ >= 0
    &&& s1.initial_pledge@ == s0.initial_pledge@ + pledge_delta@
    &&& st_solvent(s1, f.balance@)
    // the updated infos replace the old ones in the sector table; nothing else of the state moves
    &&& (exists|ns: Seq<SectorOnChainInfo>| #[trigger] upd_infos_ok(ns, fl, pi, size, epoch) && sectors_tbl(s1) == store_infos(tbl0, ns, ns.len() as int))
    &&& s1 == (State { initial_pledge: s1.initial_pledge, sectors: s1.sectors, deadlines: s1.deadlines, ..s0 })
}
pub open spec fn urs_post(o: Rt, f: Rt, pairs: Seq<(u64, Vec<Rusi>)>, expected: usize, tbl0: Map<u64, SectorOnChainInfo>, size: SectorSize, power_delta: PowerPair, pledge_delta: TokenAmount) -> bool {
    exists|pi: NetworkPledgeInputs| #[trigger] urs_ok(o, f, pairs, expected, tbl0, size, power_delta, pledge_delta, pi)
}
//@ fn actors/miner/src/lib.rs update_replica_states ret=res sigsub0="Sectors < BS >=>Sectors<&'static Store>" sigsub1="< BS >=>" sigsub2="where BS : Blockstore=>" tx0="State;urs_tx0;&mut __vx_st, rt, updates_by_deadline, expected_count, sectors, sector_size, pledge_inputs, &mut power_delta, &mut pledge_delta" sub0="request_current_total_power (rt)=>vx_request_current_total_power (rt)"
    requires
        !old(rt).in_tx@, small_epoch(old(rt).epoch as int), upds_small(updates_by_deadline.ref_pairs()),
        forall|b: Option<IpldBlock>| small_epoch(#[trigger] deser_spec::<CurrentTotalPowerReturn>(b).ramp_start_epoch as int),
        // EXPLICIT ASSUMPTION: the reward / power queries do not call back into this miner
        rt_no_reentry(REWARD_ACTOR_ADDR, ext::reward::THIS_EPOCH_REWARD_METHOD), rt_no_reentry(STORAGE_POWER_ACTOR_ADDR, CURRENT_TOTAL_POWER_METHOD),
    ensures
        rt_frame(old(rt), final(rt)) || final(rt).tx_log@.len() == old(rt).tx_log@.len() + 1,
        final(rt).msg == old(rt).msg && final(rt).epoch == old(rt).epoch && final(rt).validated == old(rt).validated && final(rt).in_tx == old(rt).in_tx && final(rt).read_only == old(rt).read_only,
        res.is_ok() ==> urs_post(*old(rt), *final(rt), updates_by_deadline.ref_pairs(), expected_count, old(sectors).amt.view(), sector_size, res->Ok_0.0, res->Ok_0.1),
//@ before "let mut power_delta"
        let ghost pi = pledge_inputs;
//@ before "Ok ((power_delta , pledge_delta))"
        proof {
            let fl = flat2(updates_by_deadline.ref_pairs(), updates_by_deadline.ref_pairs().len() as int);
            lemma_sum_pl_nonneg(fl, fl.len() as int, pi, sector_size, rt.epoch);
            reveal(urs_ok);
            assert(urs_ok(*old(rt), *rt, updates_by_deadline.ref_pairs(), expected_count, old(sectors).amt.view(), sector_size, power_delta, pledge_delta, pi));
            assert(urs_post(*old(rt), *rt, updates_by_deadline.ref_pairs(), expected_count, old(sectors).amt.view(), sector_size, power_delta, pledge_delta));
        }
//@ end

// ---- validate_replica_updates: two REGIONS (R21, nothing dropped): the body of its closure `validate_one`, and its loop ----
/// what makes ONE replica update acceptable (the closure `validate_one`): a sane proof size and deadline index, a sealed-CID prefix, a mutable
/// deadline, the sector ACTIVE in the named partition with require_proven = true (live, not faulty, not terminated, PROVEN), a CC sector (no deal
/// weight, no verified weight), the update proof type that goes with the sector's seal proof
pub open spec fn upd_valid(state: State, policy: Policy, update: ReplicaUpdateInner, si: SectorOnChainInfo) -> bool {
    &&& raw_len(update.replica_proof) <= 4096
    &&& update.deadline < policy.wpost_period_deadlines
    &&& sector_active_in(state, update.deadline, update.partition, update.sector_number, true)
    &&& si.deal_weight@ + si.verified_deal_weight@ == 0
    &&& si.seal_proof.update_proof_spec() == Some(update.update_proof_type)
}
//@ fn actors/miner/src/lib.rs validate_replica_updates region="if ! sector_numbers . insert (update . sector_number)=>Ok (())" as=vru_validate_one params="update: &ReplicaUpdateInner, sector_info: &SectorOnChainInfo, sector_numbers: &mut BTreeSet<SectorNumber>, state: &State, policy: &Policy, curr_epoch: ChainEpoch, store: &Store" retty="Result<(), ActorError>" ret=res
    ensures
        // the sector number is recorded whatever the verdict; a number seen before in this message is refused
        final(sector_numbers).view() == old(sector_numbers).view().insert(update.sector_number),
        res.is_ok() ==> !old(sector_numbers).view().contains(update.sector_number) && upd_valid(*state, *policy, *update, *sector_info),
//@ end
/// the verdicts of validate_replica_updates: one pair (update, sector info) per update, in order; an accepted update is valid and its sector number
/// differs from every other accepted one
#[verifier::opaque]
pub open spec fn vru_post(state: State, policy: Policy, updates: Seq<ReplicaUpdateInner>, infos: Seq<SectorOnChainInfo>, all_or_nothing: bool, codes: Seq<u32>,
        usis: Seq<UpdateAndSectorInfo>) -> bool {
    let n = min_len(updates.len() as int, infos.len() as int);
    &&& codes.len() == n && usis.len() == n
    &&& (forall|i: int| 0 <= i < n ==> *(#[trigger] usis[i]).update == updates[i] && *usis[i].sector_info == infos[i])
    &&& (forall|i: int| 0 <= i < n && #[trigger] codes[i] == 0 ==> upd_valid(state, policy, updates[i], infos[i]))
    &&& (forall|i: int, j: int| 0 <= i < j < n && #[trigger] codes[i] == 0 && #[trigger] codes[j] == 0 ==> updates[i].sector_number != updates[j].sector_number)
    &&& (all_or_nothing ==> forall|i: int| 0 <= i < n ==> #[trigger] codes[i] == 0)
}
//@ fn actors/miner/src/lib.rs validate_replica_updates region="let mut batch = BatchReturnGen :: new (updates . len ())=>Ok ((batch . generate () , update_sector_infos))" as="vru_loop<'a>" params="updates: &'a Vec<ReplicaUpdateInner>, sector_infos: &'a Vec<SectorOnChainInfo>, state: &State, policy: &Policy, curr_epoch: ChainEpoch, store: &Store, all_or_nothing: bool, sector_numbers: &mut BTreeSet<SectorNumber>" retty="Result<(BatchReturn, Vec<UpdateAndSectorInfo<'a>>), ActorError>" ret=res sub0="updates . iter () . zip (sector_infos) . enumerate ()=>vx_zip_enumerate(updates, sector_infos)" sub1="validate_one (update , sector_info)=>vru_validate_one(update, sector_info, sector_numbers, state, policy, curr_epoch, store)"
    requires old(sector_numbers).view() == Set::<SectorNumber>::empty(), updates@.len() == sector_infos@.len(),
    ensures
        res.is_ok() ==> vru_post(*state, *policy, updates@, sector_infos@, all_or_nothing, res->Ok_0.0.codes(), res->Ok_0.1@),
//@ entry
        proof { reveal(vru_post); }
//@ loop 0 iter=it
        invariant
            updates@.len() == sector_infos@.len(), it.seq().len() == updates@.len(),
            forall|q: int| 0 <= q < it.seq().len() ==> (#[trigger] it.seq()[q]).0 == q && *it.seq()[q].1.0 == updates@[q] && *it.seq()[q].1.1 == sector_infos@[q],
            batch.codes().len() == it.index@, batch.expect() == updates@.len(), update_sector_infos@.len() == it.index@,
            forall|i: int| 0 <= i < it.index@ ==> *(#[trigger] update_sector_infos@[i]).update == updates@[i] && *update_sector_infos@[i].sector_info == sector_infos@[i],
            forall|i: int| 0 <= i < it.index@ ==> sector_numbers.view().contains((#[trigger] updates@[i]).sector_number),
            forall|x: SectorNumber| sector_numbers.view().contains(x) ==> exists|i: int| 0 <= i < it.index@ && (#[trigger] updates@[i]).sector_number == x,
            forall|i: int| 0 <= i < it.index@ && #[trigger] batch.codes()[i] == 0 ==> upd_valid(*state, *policy, updates@[i], sector_infos@[i]),
            forall|i: int, j: int| 0 <= i < j < it.index@ && #[trigger] batch.codes()[j] == 0 ==> (#[trigger] updates@[i]).sector_number != updates@[j].sector_number,
            all_or_nothing ==> forall|i: int| 0 <= i < it.index@ ==> #[trigger] batch.codes()[i] == 0,
//@ end

/// GLUE (written here, NOT extracted): lib.rs validate_replica_updates is `let mut sector_numbers = BTreeSet::new();` + the closure definition
/// `validate_one` (its body is the region vru_validate_one) + the loop (region vru_loop). A closure capturing `&mut sector_numbers` is outside this
/// Verus' subset, so the function cannot be extracted whole; this re-assembles the two verified regions in the way the source does.
fn validate_replica_updates<'a>(updates: &'a Vec<ReplicaUpdateInner>, sector_infos: &'a Vec<SectorOnChainInfo>, state: &State, policy: &Policy, curr_epoch: ChainEpoch,
        store: &Store, all_or_nothing: bool) -> (res: Result<(BatchReturn, Vec<UpdateAndSectorInfo<'a>>), ActorError>)
    requires updates@.len() == sector_infos@.len(),
    ensures res.is_ok() ==> vru_post(*state, *policy, updates@, sector_infos@, all_or_nothing, res->Ok_0.0.codes(), res->Ok_0.1@),
{
    let mut sector_numbers = BTreeSet::<SectorNumber>::new();
    vru_loop(updates, sector_infos, state, policy, curr_epoch, store, all_or_nothing, &mut sector_numbers)
}
//@ fn actors/miner/src/sectors.rs Sectors::get
    ensures r.is_ok() ==> (r->Ok_0.is_some() <==> self.amt.view().dom().contains(sector_number)),
        r.is_ok() && r->Ok_0.is_some() ==> secv(r->Ok_0->Some_0) == secv(self.amt.view()[sector_number]),
//@ end
//@ fn actors/miner/src/sectors.rs Sectors::must_get
    ensures r.is_ok() ==> self.amt.view().dom().contains(sector_number) && secv(r->Ok_0) == secv(self.amt.view()[sector_number]),
//@ end
//@ fn actors/miner/src/lib.rs request_update_power
    requires !old(rt).in_tx@,
    ensures
        // the power actor is told exactly this delta (nothing when it is zero); the call fails iff the power actor refuses
        delta.raw@ == 0 && delta.qa@ == 0 ==> r.is_ok() && *final(rt) == *old(rt),
        !(delta.raw@ == 0 && delta.qa@ == 0) ==> rt_frame(old(rt), final(rt)) && old(rt).sends@.len() <= final(rt).sends@.len() <= old(rt).sends@.len() + 1
            && (forall|i: int| 0 <= i < old(rt).sends@.len() ==> final(rt).sends@[i] == old(rt).sends@[i]),
        !(delta.raw@ == 0 && delta.qa@ == 0) && r.is_ok() ==> rt_pushed(old(rt), final(rt)) && power_update_of(final(rt).sends@.last(), delta.raw@, delta.qa@),
//@ end
/// the message is a successful UpdateClaimedPower notification carrying exactly (raw, qa)
pub open spec fn power_update_of(s: SendRec, raw: int, qa: int) -> bool {
    is_power_update(s) && s.ok && s.value == 0
        && exists|p: ext::power::UpdateClaimedPowerParams| s.params == Some(IpldBlock { h: #[trigger] cbor_hash(p) }) && p.raw_byte_delta@ == raw && p.quality_adjusted_delta@ == qa
}
// ---- ProveReplicaUpdates3: specification --------------------------------------------------------------------------------------------------------------
/// the update record validated for the i-th manifest: its sector / deadline / partition / new sealed CID, the message's update proof type, ITS proof
pub open spec fn pru_inner(params: ProveReplicaUpdates3Params, i: int) -> ReplicaUpdateInner {
    let m = params.sector_updates@[i];
    ReplicaUpdateInner { sector_number: m.sector, deadline: m.deadline, partition: m.partition, new_sealed_cid: m.new_sealed_cid, update_proof_type: params.update_proofs_type,
        replica_proof: params.sector_proofs@[i] }
}
/// data invariant of the sector table: every info is stored under its own sector number; stored expirations are of chain magnitude
pub open spec fn sectors_ok(s: State) -> bool {
    forall|k: u64| #[trigger] sectors_tbl(s).dom().contains(k) ==> sectors_tbl(s)[k].sector_number == k && small_epoch(sectors_tbl(s)[k].expiration as int)
}
/// (1a) every manifest names a sector of the table; a manifest passes validation only if the sector is ACTIVE in the named partition (live, not
/// faulty, not terminated, PROVEN), holds no data (CC), ...; no sector is updated twice in one message
#[verifier::opaque]
pub open spec fn pru_verdicts_v(s0: State, params: ProveReplicaUpdates3Params, v: Seq<u32>) -> bool {
    let n = params.sector_updates@.len() as int;
    let tbl0 = sectors_tbl(s0);
    &&& v.len() == n && params.sector_proofs@.len() == n
    &&& (forall|i: int| 0 <= i < n ==> tbl0.dom().contains((#[trigger] params.sector_updates@[i]).sector))
    &&& (forall|i: int| 0 <= i < n && #[trigger] v[i] == 0 ==> upd_valid(s0, rt_policy(), pru_inner(params, i), tbl0[params.sector_updates@[i].sector]))
    &&& (forall|i: int, j: int| 0 <= i < j < n && #[trigger] v[i] == 0 && #[trigger] v[j] == 0 ==> params.sector_updates@[i].sector != params.sector_updates@[j].sector)
}
/// the k-th update counted as proven: ITS OWN proof bytes verified for the sector's stored sealed CID -> ITS new sealed CID, and the proofs library said yes
pub open spec fn pru_proven_has_verdict(s0: State, params: ProveReplicaUpdates3Params, v: Seq<u32>, p: Seq<u32>, k: int) -> bool {
    let i = prov_idx(v, p, k);
    let m = params.sector_updates@[i];
    exists|rui: ReplicaUpdateInfo| #[trigger] replica_verdict(rui) && rui.update_proof_type == params.update_proofs_type && rui.new_sealed_cid == m.new_sealed_cid
        && rui.old_sealed_cid == sectors_tbl(s0)[m.sector].sealed_cid && rui.proof.raw == params.sector_proofs@[i]
}
#[verifier::opaque]
pub open spec fn pru_verdicts_p(s0: State, params: ProveReplicaUpdates3Params, v: Seq<u32>, p: Seq<u32>) -> bool {
    forall|k: int| 0 <= k < succ_idx(p).len() ==> #[trigger] pru_proven_has_verdict(s0, params, v, p, k)
}
/// the pairs (manifest, sector info) carried along the chain
pub open spec fn upairs_at(pairs: Seq<(&SectorUpdateManifest, &SectorOnChainInfo)>, mans: Seq<SectorUpdateManifest>, sis: Seq<SectorOnChainInfo>, v: Seq<u32>, c: Seq<u32>) -> bool {
    pairs.len() == succ_idx(c).len() && forall|k: int| 0 <= k < pairs.len() ==> *(#[trigger] pairs[k]).0 == mans[prov_idx(v, c, k)] && *pairs[k].1 == sis[prov_idx(v, c, k)]
}
/// the q-th VALID update has a positive proof verdict: ITS OWN proof bytes verified for its sector's sealed CID -> its new sealed CID
pub open spec fn valid_has_verdict(upds: Seq<ReplicaUpdateInner>, sis: Seq<SectorOnChainInfo>, vi: Seq<int>, q: int) -> bool {
    exists|rui: ReplicaUpdateInfo| #[trigger] replica_verdict(rui) && rui.update_proof_type == upds[vi[q]].update_proof_type && rui.new_sealed_cid == upds[vi[q]].new_sealed_cid
        && rui.old_sealed_cid == sis[vi[q]].sealed_cid && rui.proof.raw == upds[vi[q]].replica_proof
}
/// the state inputs built for one successful update: its manifest's deadline / partition / new sealed CID, its sector's info, ITS data-activation output
pub open spec fn is_want(u: Rusi, man: SectorUpdateManifest, si: SectorOnChainInfo) -> bool {
    &&& u.deadline == man.deadline && u.partition == man.partition && *u.sector_info == si && u.activated_data.seal_cid == man.new_sealed_cid
    &&& u.activated_data.verified_space@ == verified_size(man.pieces@, man.pieces@.len() as int)
    &&& u.activated_data.unverified_space@ == unverified_size(man.pieces@, man.pieces@.len() as int)
}
/// the successful updates as value pairs (manifest, loaded sector info), in order
pub open spec fn upd_wants(params: ProveReplicaUpdates3Params, sis: Seq<SectorOnChainInfo>, v: Seq<u32>, p: Seq<u32>, d: Seq<u32>) -> Seq<(SectorUpdateManifest, SectorOnChainInfo)> {
    Seq::new(succ_idx(d).len(), |m: int| (params.sector_updates@[act_idx(v, p, d, m)], sis[act_idx(v, p, d, m)]))
}
pub open spec fn has_want(fl: Seq<Rusi>, w: (SectorUpdateManifest, SectorOnChainInfo)) -> bool { exists|t: int| 0 <= t < fl.len() && #[trigger] is_want(fl[t], w.0, w.1) }
pub open spec fn from_want(u: Rusi, wants: Seq<(SectorUpdateManifest, SectorOnChainInfo)>, n: int) -> bool { exists|m: int| 0 <= m < n && #[trigger] is_want(u, wants[m].0, wants[m].1) }
/// the updates applied are a REGROUPING (by deadline) of the successful updates: same number, every successful update among them, nothing else
pub open spec fn regroup_of(fl: Seq<Rusi>, wants: Seq<(SectorUpdateManifest, SectorOnChainInfo)>) -> bool {
    &&& fl.len() == wants.len()
    &&& (forall|m: int| 0 <= m < wants.len() ==> has_want(fl, #[trigger] wants[m]))
    &&& (forall|t: int| 0 <= t < fl.len() ==> from_want(#[trigger] fl[t], wants, wants.len() as int))
}
/// the loaded sector infos: one per manifest, each (a clone of) the info stored under the manifest's sector number
pub open spec fn sis_ok(s0: State, params: ProveReplicaUpdates3Params, sis: Seq<SectorOnChainInfo>) -> bool {
    sis.len() == params.sector_updates@.len() && forall|i: int| 0 <= i < sis.len() ==> sectors_tbl(s0).dom().contains(params.sector_updates@[i].sector)
        && secv(#[trigger] sis[i]) == secv(sectors_tbl(s0)[params.sector_updates@[i].sector])
}
/// (2) the committed state and the two deltas
#[verifier::opaque]
pub open spec fn pru3_state(s0: State, s1: State, epoch: ChainEpoch, size: SectorSize, fl: Seq<Rusi>, pi: NetworkPledgeInputs, power: PowerPair, pledge: TokenAmount) -> bool {
    // C02: "the power delta sent equals the sum over updated sectors of new QA power - old QA power" (the sector is already proven: power changes now)
    &&& power.raw@ == 0 && power.qa@ == sum_qa(fl, fl.len() as int, size, epoch)
    // C03: the pledge delta is the sum of max(old, new requirement) - old >= 0, and it is added to the ledger
    &&& pledge@ == sum_pl(fl, fl.len() as int, pi, size, epoch) && pledge@ >= 0
    &&& s1.initial_pledge@ == s0.initial_pledge@ + pledge@
    // the new verified / deal weights replace the old ones from the update epoch on (power_base_epoch): see updated_info
    &&& (exists|ns: Seq<SectorOnChainInfo>| #[trigger] upd_infos_ok(ns, fl, pi, size, epoch) && sectors_tbl(s1) == store_infos(sectors_tbl(s0), ns, ns.len() as int))
    &&& s1 == (State { initial_pledge: s1.initial_pledge, sectors: s1.sectors, deadlines: s1.deadlines, ..s0 })
}
/// (3) the ClaimAllocations request: per PROVEN update its sector's number, its sector's (unchanged) expiration, one claim per verified piece
#[verifier::opaque]
pub open spec fn pru3_claims(s0: State, params: ProveReplicaUpdates3Params, v: Seq<u32>, p: Seq<u32>, d: Seq<u32>, sent: bool, cs: SendRec) -> bool {
    let np = succ_idx(p).len() as int;
    let tbl0 = sectors_tbl(s0);
    &&& (sent ==> is_claim_send(cs) && cs.value == 0 && cs.ok && d == deser_spec::<ClaimAllocationsReturn>(cs.ret).sector_results.codes()
            && exists|req: ClaimAllocationsParams| cs.params == Some(IpldBlock { h: #[trigger] cbor_hash(req) }) && req.all_or_nothing == params.require_activation_success
                && req.sectors@.len() == np && forall|k: int| 0 <= k < np ==> (#[trigger] req.sectors@[k]).sector == params.sector_updates@[prov_idx(v, p, k)].sector
                    && req.sectors@[k].expiry == tbl0[params.sector_updates@[prov_idx(v, p, k)].sector].expiration
                    && req.sectors@[k].claims@ == claims_of(params.sector_updates@[prov_idx(v, p, k)].pieces@, params.sector_updates@[prov_idx(v, p, k)].pieces@.len() as int))
    &&& (!sent ==> d == zeros(np as nat))
}
/// (4) the messages: [ClaimAllocations?] ThisEpochReward CurrentTotalPower [UpdatePledgeTotal?] [UpdateClaimedPower?] SectorContentChanged*
#[verifier::opaque]
pub open spec fn pru3_sends(o: Rt, f: Rt, sent: bool, power: PowerPair, pledge: TokenAmount, notifs: Seq<ActivationNotifications>, require_notification_success: bool) -> bool {
    let k0 = o.sends@.len() as int;
    let s = f.sends@;
    let c: int = if sent { 1 } else { 0 };
    let q: int = if pledge@ != 0 { 1 } else { 0 };
    let w: int = if power.qa@ != 0 || power.raw@ != 0 { 1 } else { 0 };
    &&& s.len() >= k0 + c + 2 + q + w && (forall|i: int| 0 <= i < k0 ==> s[i] == o.sends@[i])
    &&& is_reward_query(s[k0 + c]) && is_total_power_query(s[k0 + c + 1])
    &&& (q == 1 ==> is_pledge_note(s[k0 + c + 2]) && s[k0 + c + 2].ok && s[k0 + c + 2].value == 0 && s[k0 + c + 2].params == Some(IpldBlock { h: cbor_hash(pledge) }))
    // the power actor is told the power delta exactly once (not at all when it is zero)
    &&& (w == 1 ==> power_update_of(s[k0 + c + 2 + q], power.raw@, power.qa@))
    &&& (forall|i: int| k0 <= i < s.len() && i != k0 + c + 2 + q ==> !is_power_update(#[trigger] s[i]))
    &&& (forall|i: int| k0 + c + 2 + q + w <= i < s.len() ==> is_notification(#[trigger] s[i]) && notif_msg_ok(notifs, s[i]))
    &&& (require_notification_success ==> forall|i: int| k0 + c + 2 + q + w <= i < s.len() ==> notif_accepted(#[trigger] s[i]))
}
/// the notification inputs: one per successful update, in order — its sector number, its sector's expiration, ITS manifest's pieces
pub open spec fn upd_notifs(params: ProveReplicaUpdates3Params, s0: State, v: Seq<u32>, p: Seq<u32>, d: Seq<u32>) -> Seq<ActivationNotifications<'static>> {
    Seq::new(succ_idx(d).len(), |m: int| ActivationNotifications {
        sector_number: params.sector_updates@[act_idx(v, p, d, m)].sector,
        sector_expiration: sectors_tbl(s0)[params.sector_updates@[act_idx(v, p, d, m)].sector].expiration,
        pieces: &params.sector_updates@[act_idx(v, p, d, m)].pieces,
    })
}
pub open spec fn pru3_ok(o: Rt, f: Rt, params: ProveReplicaUpdates3Params, out: Seq<u32>, v: Seq<u32>, p: Seq<u32>, d: Seq<u32>, sis: Seq<SectorOnChainInfo>, fl: Seq<Rusi>,
        pi: NetworkPledgeInputs, power: PowerPair, pledge: TokenAmount) -> bool {
    let s0 = rt_state::<State>(o.state_id@);
    let s1 = rt_state::<State>(f.tx_log@.last());
    let n = params.sector_updates@.len() as int;
    let k0 = o.sends@.len() as int;
    let sent = f.sends@.len() > k0 && is_claim_send(f.sends@[k0]);
    &&& info_of(s0).is_some()
    &&& chain_wf(n, v, p, d) && out == stack2(v, stack2(p, d)) && succ_idx(d).len() > 0
    &&& f.tx_log@.len() == o.tx_log@.len() + 1
    &&& raw_len(params.aggregate_proof) == 0 && params.aggregate_proof_type.is_none()
    &&& pru_verdicts_v(s0, params, v) && pru_verdicts_p(s0, params, v, p)
    &&& pru3_claims(s0, params, v, p, d, sent, f.sends@[k0])
    &&& sis_ok(s0, params, sis) && regroup_of(fl, upd_wants(params, sis, v, p, d))
    &&& pru3_state(s0, s1, o.epoch, info_of(s0)->Some_0.sector_size, fl, pi, power, pledge)
    &&& pru3_sends(o, f, sent, power, pledge, upd_notifs(params, s0, v, p, d), params.require_notification_success)
    &&& (params.require_activation_success ==> succ_idx(d).len() == n)
}
pub open spec fn pru3_post(o: Rt, f: Rt, params: ProveReplicaUpdates3Params, out: Seq<u32>) -> bool {
    exists|v: Seq<u32>, p: Seq<u32>, d: Seq<u32>, sis: Seq<SectorOnChainInfo>, fl: Seq<Rusi>, pi: NetworkPledgeInputs, power: PowerPair, pledge: TokenAmount|
        #[trigger] pru3_ok(o, f, params, out, v, p, d, sis, fl, pi, power, pledge)
}

pub type Wants = Seq<(SectorUpdateManifest, SectorOnChainInfo)>;
/// the regrouping by deadline holds nothing but the first n successful updates ...
pub open spec fn grp_sound(mv: Map<u64, Vec<Rusi>>, wants: Wants, n: int) -> bool {
    forall|dl: u64, t: int| mv.dom().contains(dl) && 0 <= t < mv[dl]@.len() ==> from_want(#[trigger] mv[dl]@[t], wants, n)
}
/// ... and every one of them, under its own deadline
pub open spec fn grp_complete(mv: Map<u64, Vec<Rusi>>, wants: Wants, n: int) -> bool {
    forall|m: int| 0 <= m < n ==> mv.dom().contains((#[trigger] wants[m]).0.deadline) && has_want(mv[wants[m].0.deadline]@, wants[m])
}
/// the successful (manifest, sector info) references point at the wanted values, and the m-th data-activation output is the m-th manifest's
pub open spec fn ssa_ok(ssa: Seq<&(&SectorUpdateManifest, &SectorOnChainInfo)>, wants: Wants, outs: Seq<DataActivationOutput>) -> bool {
    ssa.len() == wants.len() && outs.len() == wants.len() && forall|m: int| 0 <= m < ssa.len() ==> *(*(#[trigger] ssa[m])).0 == wants[m].0 && *(*ssa[m]).1 == wants[m].1
        && outs[m].verified_space@ == verified_size(wants[m].0.pieces@, wants[m].0.pieces@.len() as int)
        && outs[m].unverified_space@ == unverified_size(wants[m].0.pieces@, wants[m].0.pieces@.len() as int)
}
/// every successful manifest's CommD was recorded when its proof was verified
pub open spec fn commds_ok(ssa: Seq<&(&SectorUpdateManifest, &SectorOnChainInfo)>, commds: Map<SectorNumber, CompactCommD>) -> bool {
    forall|m: int| 0 <= m < ssa.len() ==> commds.dom().contains((*(#[trigger] ssa[m])).0.sector)
}
pub proof fn lemma_grp_push(mv0: Map<u64, Vec<Rusi>>, mv1: Map<u64, Vec<Rusi>>, wants: Wants, n: int, u: Rusi)
    requires
        grp_sound(mv0, wants, n), grp_complete(mv0, wants, n), 0 <= n < wants.len(), is_want(u, wants[n].0, wants[n].1),
        mv1 == mv0.insert(wants[n].0.deadline, mv1[wants[n].0.deadline]),
        mv1[wants[n].0.deadline]@ == (if mv0.dom().contains(wants[n].0.deadline) { mv0[wants[n].0.deadline]@ } else { Seq::<Rusi>::empty() }).push(u),
    ensures grp_sound(mv1, wants, n + 1), grp_complete(mv1, wants, n + 1),
{
    let dl0 = wants[n].0.deadline;
    let vec0 = if mv0.dom().contains(dl0) { mv0[dl0]@ } else { Seq::<Rusi>::empty() };
    assert forall|dl: u64, t: int| mv1.dom().contains(dl) && 0 <= t < mv1[dl]@.len() implies from_want(#[trigger] mv1[dl]@[t], wants, n + 1) by {
        if dl == dl0 {
            if t < vec0.len() {
                assert(mv1[dl]@[t] == vec0[t]);
                assert(from_want(mv0[dl]@[t], wants, n));
                let m = choose|m: int| 0 <= m < n && #[trigger] is_want(mv0[dl]@[t], wants[m].0, wants[m].1);
                assert(is_want(mv1[dl]@[t], wants[m].0, wants[m].1));
            } else {
                assert(is_want(mv1[dl]@[t], wants[n].0, wants[n].1));
            }
        } else {
            assert(mv0.dom().contains(dl) && mv1[dl] == mv0[dl]);
            assert(from_want(mv0[dl]@[t], wants, n));
            let m = choose|m: int| 0 <= m < n && #[trigger] is_want(mv0[dl]@[t], wants[m].0, wants[m].1);
            assert(is_want(mv1[dl]@[t], wants[m].0, wants[m].1));
        }
    }
    assert forall|m: int| 0 <= m < n + 1 implies mv1.dom().contains((#[trigger] wants[m]).0.deadline) && has_want(mv1[wants[m].0.deadline]@, wants[m]) by {
        if m < n {
            let dl = wants[m].0.deadline;
            assert(has_want(mv0[dl]@, wants[m]));
            let t = choose|t: int| 0 <= t < mv0[dl]@.len() && #[trigger] is_want(mv0[dl]@[t], wants[m].0, wants[m].1);
            if dl == dl0 { assert(mv1[dl]@[t] == vec0[t]); assert(is_want(mv1[dl]@[t], wants[m].0, wants[m].1)); }
            else { assert(mv1[dl] == mv0[dl]); assert(is_want(mv1[dl]@[t], wants[m].0, wants[m].1)); }
        } else {
            assert(mv1[dl0]@[vec0.len() as int] == u);
            assert(is_want(mv1[dl0]@[vec0.len() as int], wants[n].0, wants[n].1));
        }
    }
}
/// members of the flattened list are exactly the members of the groups
pub open spec fn in_groups(pairs: Seq<(u64, Vec<Rusi>)>, n: int, u: Rusi) -> bool { exists|j: int, k: int| 0 <= j < n && 0 <= k < pairs[j].1@.len() && #[trigger] pairs[j].1@[k] == u }
pub proof fn lemma_flat2_members(pairs: Seq<(u64, Vec<Rusi>)>, n: int)
    requires 0 <= n <= pairs.len()
    ensures
        forall|t: int| 0 <= t < flat2(pairs, n).len() ==> in_groups(pairs, n, #[trigger] flat2(pairs, n)[t]),
        forall|j: int, k: int| 0 <= j < n && 0 <= k < pairs[j].1@.len() ==> flat2(pairs, n).contains(#[trigger] pairs[j].1@[k]),
    decreases n
{
    if n > 0 {
        lemma_flat2_members(pairs, n - 1);
        let us = pairs[n - 1].1@;
        assert(flat2(pairs, n) == flat2(pairs, n - 1) + us);
        assert forall|t: int| 0 <= t < flat2(pairs, n).len() implies in_groups(pairs, n, #[trigger] flat2(pairs, n)[t]) by {
            if t < flat2(pairs, n - 1).len() {
                assert(flat2(pairs, n)[t] == flat2(pairs, n - 1)[t]);
                assert(in_groups(pairs, n - 1, flat2(pairs, n - 1)[t]));
                let (j, k) = choose|j: int, k: int| 0 <= j < n - 1 && 0 <= k < pairs[j].1@.len() && #[trigger] pairs[j].1@[k] == flat2(pairs, n - 1)[t];
                assert(pairs[j].1@[k] == flat2(pairs, n)[t]);
            } else {
                assert(pairs[n - 1].1@[t - flat2(pairs, n - 1).len()] == flat2(pairs, n)[t]);
            }
        }
        assert forall|j: int, k: int| 0 <= j < n && 0 <= k < pairs[j].1@.len() implies flat2(pairs, n).contains(#[trigger] pairs[j].1@[k]) by {
            if j < n - 1 {
                assert(flat2(pairs, n - 1).contains(pairs[j].1@[k]));
                let t = choose|t: int| 0 <= t < flat2(pairs, n - 1).len() && #[trigger] flat2(pairs, n - 1)[t] == pairs[j].1@[k];
                assert(flat2(pairs, n)[t] == pairs[j].1@[k]);
            } else {
                assert(flat2(pairs, n)[flat2(pairs, n - 1).len() + k] == pairs[j].1@[k]);
            }
        }
    }
}
/// from the two directions of the grouping invariant and the count: the flattened groups are a regrouping of the successful updates
pub proof fn lemma_regroup(bm: &BTreeMap<u64, Vec<Rusi>>, wants: Wants)
    requires grp_sound(bm.view(), wants, wants.len() as int), grp_complete(bm.view(), wants, wants.len() as int),
        flat2(bm.ref_pairs(), bm.ref_pairs().len() as int).len() == wants.len(),
    ensures regroup_of(flat2(bm.ref_pairs(), bm.ref_pairs().len() as int), wants),
{
    let pairs = bm.ref_pairs();
    let mv = bm.view();
    let fl = flat2(pairs, pairs.len() as int);
    axiom_ref_pairs(bm);
    lemma_flat2_members(pairs, pairs.len() as int);
    assert forall|m: int| 0 <= m < wants.len() implies has_want(fl, #[trigger] wants[m]) by {
        let dl = wants[m].0.deadline;
        assert(has_want(mv[dl]@, wants[m]));
        let t0 = choose|t: int| 0 <= t < mv[dl]@.len() && #[trigger] is_want(mv[dl]@[t], wants[m].0, wants[m].1);
        let j = choose|j: int| 0 <= j < pairs.len() && (#[trigger] pairs[j]).0 == dl;
        assert(pairs[j].1 == mv[dl]);
        assert(fl.contains(pairs[j].1@[t0]));
        let t = choose|t: int| 0 <= t < fl.len() && #[trigger] fl[t] == pairs[j].1@[t0];
        assert(is_want(fl[t], wants[m].0, wants[m].1));
    }
    assert forall|t: int| 0 <= t < fl.len() implies from_want(#[trigger] fl[t], wants, wants.len() as int) by {
        assert(in_groups(pairs, pairs.len() as int, fl[t]));
        let (j, k) = choose|j: int, k: int| 0 <= j < pairs.len() && 0 <= k < pairs[j].1@.len() && #[trigger] pairs[j].1@[k] == fl[t];
        assert(mv.dom().contains(pairs[j].0) && pairs[j].1 == mv[pairs[j].0]);
        assert(from_want(mv[pairs[j].0]@[k], wants, wants.len() as int));
    }
}
pub open spec fn uinputs_ok(inputs: Seq<SectorPiecesActivationInput>, mans: Seq<SectorUpdateManifest>, sis: Seq<SectorOnChainInfo>, v: Seq<u32>, p: Seq<u32>) -> bool {
    inputs.len() == succ_idx(p).len() && forall|k: int| 0 <= k < inputs.len() ==> (#[trigger] inputs[k]).piece_manifests@ == mans[prov_idx(v, p, k)].pieces@
        && inputs[k].sector_expiry == sis[prov_idx(v, p, k)].expiration && inputs[k].sector_number == sis[prov_idx(v, p, k)].sector_number
}
pub proof fn lemma_pru3_claims(s0: State, params: ProveReplicaUpdates3Params, sis: Seq<SectorOnChainInfo>, v: Seq<u32>, p: Seq<u32>, d: Seq<u32>,
        inputs: Seq<SectorPiecesActivationInput>, outs: Seq<DataActivationOutput>, sent: bool, cs0: SendRec, cs: SendRec)
    requires
        sectors_ok(s0), sis_ok(s0, params, sis), chain_wf(params.sector_updates@.len() as int, v, p, d),
        uinputs_ok(inputs, params.sector_updates@, sis, v, p),
        claims_pre(inputs, params.require_activation_success, d, outs, sent, cs0), sent ==> cs == cs0,
    ensures pru3_claims(s0, params, v, p, d, sent, cs),
{
    reveal(pru3_claims); reveal(claims_pre);
    let n = params.sector_updates@.len() as int;
    let np = succ_idx(p).len() as int;
    let tbl0 = sectors_tbl(s0);
    lemma_chain(n, v, p, d);
    if sent {
        let req = choose|req: ClaimAllocationsParams| cs.params == Some(IpldBlock { h: #[trigger] cbor_hash(req) }) && req.all_or_nothing == params.require_activation_success
                && entries_ok(req.sectors@, inputs, inputs.len() as int);
        assert forall|k: int| 0 <= k < np implies (#[trigger] req.sectors@[k]).sector == params.sector_updates@[prov_idx(v, p, k)].sector
                    && req.sectors@[k].expiry == tbl0[params.sector_updates@[prov_idx(v, p, k)].sector].expiration
                    && req.sectors@[k].claims@ == claims_of(params.sector_updates@[prov_idx(v, p, k)].pieces@, params.sector_updates@[prov_idx(v, p, k)].pieces@.len() as int) by {
            let i = prov_idx(v, p, k);
            assert(entry_for(req.sectors@[k], inputs[k]));
            assert(secv(sis[i]) == secv(tbl0[params.sector_updates@[i].sector]));
        }
        assert(cs.params == Some(IpldBlock { h: cbor_hash(req) }));
    }
}
/// the update records built from the manifests (first loop of the method)
pub open spec fn upds_ok(params: ProveReplicaUpdates3Params, upds: Seq<ReplicaUpdateInner>) -> bool {
    upds.len() == params.sector_updates@.len() && params.sector_proofs@.len() == upds.len() && forall|i: int| 0 <= i < upds.len() ==> #[trigger] upds[i] == pru_inner(params, i)
}
pub proof fn lemma_pru_verdicts(s0: State, params: ProveReplicaUpdates3Params, upds: Seq<ReplicaUpdateInner>, sis: Seq<SectorOnChainInfo>, usis: Seq<UpdateAndSectorInfo>, v: Seq<u32>, p: Seq<u32>)
    requires
        sis_ok(s0, params, sis), upds_ok(params, upds), vru_post(s0, rt_policy(), upds, sis, params.require_activation_success, v, usis),
        p.len() == succ_idx(v).len(), forall|q: int| 0 <= q < p.len() && #[trigger] p[q] == 0 ==> valid_has_verdict(upds, sis, succ_idx(v), q),
    ensures pru_verdicts_v(s0, params, v), pru_verdicts_p(s0, params, v, p),
{
    reveal(pru_verdicts_v); reveal(pru_verdicts_p); reveal(vru_post);
    let n = params.sector_updates@.len() as int;
    let tbl0 = sectors_tbl(s0);
    lemma_succ_idx(v); lemma_succ_idx(p);
    assert forall|i: int| 0 <= i < n implies tbl0.dom().contains((#[trigger] params.sector_updates@[i]).sector) by { assert(secv(sis[i]) == secv(tbl0[params.sector_updates@[i].sector])); }
    assert forall|i: int| 0 <= i < n && #[trigger] v[i] == 0 implies upd_valid(s0, rt_policy(), pru_inner(params, i), tbl0[params.sector_updates@[i].sector]) by {
        assert(upd_valid(s0, rt_policy(), upds[i], sis[i]));
        assert(secv(sis[i]) == secv(tbl0[params.sector_updates@[i].sector]));
    }
    assert forall|i: int, j: int| 0 <= i < j < n && #[trigger] v[i] == 0 && #[trigger] v[j] == 0 implies params.sector_updates@[i].sector != params.sector_updates@[j].sector by {
        assert(upds[i].sector_number != upds[j].sector_number);
    }
    assert forall|k: int| 0 <= k < succ_idx(p).len() implies #[trigger] pru_proven_has_verdict(s0, params, v, p, k) by {
        let q = succ_idx(p)[k];
        let i = succ_idx(v)[q];
        assert(p[q] == 0);
        assert(valid_has_verdict(upds, sis, succ_idx(v), q));
        let rui = choose|rui: ReplicaUpdateInfo| #[trigger] replica_verdict(rui) && rui.update_proof_type == upds[i].update_proof_type && rui.new_sealed_cid == upds[i].new_sealed_cid
            && rui.old_sealed_cid == sis[i].sealed_cid && rui.proof.raw == upds[i].replica_proof;
        assert(secv(sis[i]) == secv(tbl0[params.sector_updates@[i].sector]));
        assert(replica_verdict(rui) && rui.old_sealed_cid == tbl0[params.sector_updates@[i].sector].sealed_cid);
    }
}
//@ fn actors/miner/src/lib.rs Actor::prove_replica_updates3 free ret=ret sub0="info . control_addresses . iter () . chain (& [info . worker , info . owner])=>&vx_control_worker_owner(&info)" sub1="params . sector_updates . iter () . enumerate ()=>vx_iter_enumerate(&params.sector_updates)" sub2="params . sector_proofs . get (i) . unwrap_or (& RawBytes :: default ()) . clone ()=>vx_proof_or_default(&params.sector_proofs, i)" suball0="batch . success_count=>batch . vx_success_count ()" sub3="valid_unproven_usis . iter () . zip (valid_manifests)=>vx_zip_refs(&valid_unproven_usis, valid_manifests)" sub4="proven_manifests . iter () . map (| (update , info) | SectorPiecesActivationInput { piece_manifests : update . pieces . clone () , sector_expiry : info . expiration , sector_number : info . sector_number , sector_type : info . seal_proof , expected_commd : None , }) . collect ()=>vx_update_activation_inputs(&proven_manifests)" sub5="successful_manifests . iter () . zip (data_activations)=>vx_zip_refs(&successful_manifests, data_activations)" sub6="update . pieces . iter () . map (| x | (x . cid , x . size . 0)) . collect ()=>vx_piece_pairs(&update.pieces)" sub7="emit :: sector_updated=>vx_emit_sector_updated" sub8="let mut sector_infos = Vec :: with_capacity=>let mut sector_infos: Vec<SectorOnChainInfo> = Vec :: with_capacity" sub9="let mut updates = Vec :: with_capacity=>let mut updates: Vec<ReplicaUpdateInner> = Vec :: with_capacity"
    requires
        !old(rt).in_tx@, params.sector_updates@.len() <= u32::MAX,
        // data invariant of the sector table and magnitudes (no i64 overflow in epoch arithmetic)
        sectors_ok(rt_state::<State>(old(rt).state_id@)), small_epoch(old(rt).epoch as int),
        forall|b: Option<IpldBlock>| small_epoch(#[trigger] deser_spec::<CurrentTotalPowerReturn>(b).ramp_start_epoch as int),
        // EXPLICIT ASSUMPTIONS about other actors (as for ProveCommitSectors3)
        registry_contract(),
        rt_no_reentry(VERIFIED_REGISTRY_ACTOR_ADDR, vreg::CLAIM_ALLOCATIONS_METHOD),
        rt_no_reentry(REWARD_ACTOR_ADDR, ext::reward::THIS_EPOCH_REWARD_METHOD),
        rt_no_reentry(STORAGE_POWER_ACTOR_ADDR, CURRENT_TOTAL_POWER_METHOD),
    ensures
        /*C11*/ ret.is_ok() ==> final(rt).validated@.is_some() && info_of(rt_state::<State>(old(rt).state_id@)).is_some()
            && may_operate(info_of(rt_state::<State>(old(rt).state_id@))->Some_0, old(rt).msg.caller),
        ret.is_ok() ==> pru3_post(*old(rt), *final(rt), params, ret->Ok_0.activation_results.codes()),
//@ entry
        let ghost s0 = rt_state::<State>(old(rt).state_id@);
        let ghost tbl0 = sectors_tbl(s0);
        let ghost k0 = old(rt).sends@.len() as int;
        let ghost n = params.sector_updates@.len() as int;
        let ghost mans = params.sector_updates@;
//@ loop 0 iter=it
            invariant
                *rt == rt1, state == s0, sectors.amt.view() == tbl0, n == params.sector_updates@.len(), mans == params.sector_updates@,
                it.seq().len() == n, forall|j: int| 0 <= j < n ==> (#[trigger] it.seq()[j]).0 == j && *it.seq()[j].1 == mans[j],
                sector_infos@.len() == it.index@, updates@.len() == it.index@,
                forall|i: int| 0 <= i < it.index@ ==> tbl0.dom().contains(mans[i].sector) && secv(#[trigger] sector_infos@[i]) == secv(tbl0[mans[i].sector]),
                forall|i: int| 0 <= i < it.index@ ==> (#[trigger] updates@[i]).sector_number == mans[i].sector && updates@[i].deadline == mans[i].deadline && updates@[i].partition == mans[i].partition
                    && updates@[i].new_sealed_cid == mans[i].new_sealed_cid && updates@[i].update_proof_type == params.update_proofs_type
                    && (i < params.sector_proofs@.len() ==> updates@[i].replica_proof == params.sector_proofs@[i]),
//@ before "let mut sector_infos = Vec :: with_capacity"
        let ghost rt1 = *rt;
        proof { assert(state == s0); }
//@ before "let valid_unproven_usis ="
        let ghost v = validation_batch.codes();
        let ghost vi = succ_idx(v);
        let ghost sis = sector_infos@;
        let ghost usis = update_sector_infos@;
        let ghost upds = updates@;
        proof {
            assert(vru_post(state, rt_policy(), upds, sis, params.require_activation_success, v, usis));
            assert(v.len() == n && usis.len() == n && (forall|i: int| 0 <= i < n ==> *(#[trigger] usis[i]).update == upds[i] && *usis[i].sector_info == sis[i])
                && (params.require_activation_success ==> forall|i: int| 0 <= i < v.len() ==> v[i] == 0)) by { reveal(vru_post); }
        }
//@ loop 1 iter=it1
                invariant
                    *rt == rt1, vi == succ_idx(v), n == mans.len(), upds.len() == n, sis.len() == n, usis.len() == n, v.len() == n, params.sector_proofs@.len() == n,
                    it1.seq().len() == vi.len(), forall|q: int| 0 <= q < vi.len() ==> **(#[trigger] it1.seq()[q]).0 == usis[vi[q]] && *it1.seq()[q].1 == mans[vi[q]],
                    forall|i: int| 0 <= i < n ==> *(#[trigger] usis[i]).update == upds[i] && *usis[i].sector_info == sis[i],
                    proven_batch_gen.codes().len() == it1.index@, proven_batch_gen.expect() == vi.len(),
                    upairs_at(proven_manifests@, mans, sis, v, proven_batch_gen.codes()),
                    forall|k: int| 0 <= k < proven_manifests@.len() ==> sector_commds.view().dom().contains((#[trigger] proven_manifests@[k]).0.sector),
                    forall|q: int| 0 <= q < it1.index@ && #[trigger] proven_batch_gen.codes()[q] == 0 ==> valid_has_verdict(upds, sis, vi, q),
                    params.require_activation_success ==> forall|q: int| 0 <= q < it1.index@ ==> #[trigger] proven_batch_gen.codes()[q] == 0,
//@ loopstart 1
                let ghost c0 = proven_batch_gen.codes();
                let ghost pm0 = proven_manifests@;
                let ghost cm0 = sector_commds.view();
                proof { lemma_succ_idx(v); }
//@ loopend 1
                proof {
                    let c1 = proven_batch_gen.codes();
                    let q = it1.index@ as int;
                    lemma_succ_push(c0, c1.last());
                    assert(c1.drop_last() =~= c0);
                    assert(**it1.seq()[q].0 == usis[vi[q]]);
                    assert forall|k: int| 0 <= k < proven_manifests@.len() implies *(#[trigger] proven_manifests@[k]).0 == mans[prov_idx(v, c1, k)] && *proven_manifests@[k].1 == sis[prov_idx(v, c1, k)]
                        && sector_commds.view().dom().contains(proven_manifests@[k].0.sector) by {
                        if k < pm0.len() { assert(proven_manifests@[k] == pm0[k]); assert(prov_idx(v, c1, k) == prov_idx(v, c0, k)); assert(cm0.dom().contains(pm0[k].0.sector)); }
                        else { assert(succ_idx(c1)[k] == c0.len()); }
                    }
                    if c1.last() == 0 {
                        assert(replica_verdict(proof_inputs));
                        assert(valid_has_verdict(upds, sis, vi, q));
                    }
                    assert forall|qq: int| 0 <= qq < q + 1 && #[trigger] c1[qq] == 0 implies valid_has_verdict(upds, sis, vi, qq) by {
                        if qq < q { assert(c0[qq] == c1[qq]); }
                    }
                }
//@ before "let proven_batch = proven_batch_gen . generate ()"
        let ghost p = proven_batch_gen.codes();
        let ghost pj = succ_idx(p);
        proof { assert(forall|q: int| 0 <= q < p.len() && #[trigger] p[q] == 0 ==> valid_has_verdict(upds, sis, vi, q)); }
//@ before "let (data_batch , data_activations) ="
        let ghost inputs = data_activation_inputs@;
        let ghost pm = proven_manifests@;
        proof {
            assert(params.require_activation_success ==> forall|k: int| 0 <= k < p.len() ==> p[k] == 0);
            assert(upairs_at(pm, mans, sis, v, p));
            assert(proven_batch.codes() == p);
            assert(uinputs_ok(inputs, mans, sis, v, p));
        }
//@ before "if data_batch . success_count == 0"
        let ghost d = data_batch.codes();
        let ghost dj = succ_idx(d);
        let ghost sent = rt.sends@.len() == k0 + 1;
        let ghost outs = data_activations@;
        let ghost cs0 = rt.sends@[k0];
        let ghost rtA = *rt;
        proof {
            assert(chain_wf(n, v, p, d));
            assert(claims_pre(inputs, params.require_activation_success, d, outs, sent, cs0)) by { reveal(claims_pre); }
            assert(params.require_activation_success ==> dj.len() == pj.len() || dj.len() == 0);
        }
//@ before "let mut state_updates_by_dline"
        let ghost ssa = successful_manifests@;
        let ghost wants = upd_wants(params, sis, v, p, d);
        proof {
            lemma_chain(n, v, p, d);
            assert forall|m: int| 0 <= m < ssa.len() implies *(*(#[trigger] ssa[m])).0 == wants[m].0 && *(*ssa[m]).1 == wants[m].1
                    && outs[m].verified_space@ == verified_size(wants[m].0.pieces@, wants[m].0.pieces@.len() as int)
                    && outs[m].unverified_space@ == unverified_size(wants[m].0.pieces@, wants[m].0.pieces@.len() as int)
                    && sector_commds.view().dom().contains((*ssa[m]).0.sector) by {
                let i = act_idx(v, p, d, m);
                assert(0 <= dj[m] < pj.len() && 0 <= i < n);
                assert(*ssa[m] == pm[dj[m]]);
                assert(*pm[dj[m]].0 == mans[prov_idx(v, p, dj[m])]);
                assert(output_for(outs[m], inputs[dj[m]], ans_space(sent, if sent { cs0.ret } else { None }, m)));
                assert(sector_commds.view().dom().contains(pm[dj[m]].0.sector));
            }
            assert(ssa_ok(ssa, wants, outs));
            assert(commds_ok(ssa, sector_commds.view()));
        }
//@ loop 2 iter=it2
            invariant
                *rt == rtA, ssa_ok(ssa, wants, outs), it2.seq().len() == wants.len(),
                forall|m: int| 0 <= m < wants.len() ==> *(#[trigger] it2.seq()[m]).0 == ssa[m] && it2.seq()[m].1 == outs[m],
                grp_sound(state_updates_by_dline.view(), wants, it2.index@ as int), grp_complete(state_updates_by_dline.view(), wants, it2.index@ as int),
//@ loopstart 2
            let ghost mv0 = state_updates_by_dline.view();
//@ loopend 2
            proof {
                let m = it2.index@ as int;
                let mv1 = state_updates_by_dline.view();
                let dl = wants[m].0.deadline;
                assert(*it2.seq()[m].0 == ssa[m]);
                assert(update.deadline == dl);
                let u = mv1[dl]@.last();
                let vec0 = if mv0.dom().contains(dl) { mv0[dl]@ } else { Seq::<Rusi>::empty() };
                assert(mv1 == mv0.insert(dl, mv1[dl]));
                assert(mv1[dl]@ == vec0.push(u));
                assert(it2.seq()[m].1 == outs[m]);
                assert(*(*ssa[m]).0 == wants[m].0 && *(*ssa[m]).1 == wants[m].1);
                assert(u.deadline == wants[m].0.deadline && u.partition == wants[m].0.partition);
                assert(*u.sector_info == wants[m].1);
                assert(u.activated_data.seal_cid == wants[m].0.new_sealed_cid);
                assert(u.activated_data.verified_space@ == outs[m].verified_space@);
                assert(is_want(u, wants[m].0, wants[m].1));
                lemma_grp_push(mv0, mv1, wants, m, u);
            }
//@ before "let (power_delta , pledge_delta) ="
        let ghost pairs = state_updates_by_dline.ref_pairs();
        let ghost rtB = *rt;
        proof {
            axiom_ref_pairs(&state_updates_by_dline);
            assert(upds_small(pairs)) by {
                assert forall|j: int, k: int| 0 <= j < pairs.len() && 0 <= k < pairs[j].1@.len() implies small_epoch((#[trigger] pairs[j].1@[k]).sector_info.expiration as int) by {
                    let mv = state_updates_by_dline.view();
                    assert(mv.dom().contains(pairs[j].0) && pairs[j].1 == mv[pairs[j].0]);
                    assert(from_want(mv[pairs[j].0]@[k], wants, wants.len() as int));
                    let m = choose|m: int| 0 <= m < wants.len() && #[trigger] is_want(mv[pairs[j].0]@[k], wants[m].0, wants[m].1);
                    let i = act_idx(v, p, d, m);
                    assert(secv(sis[i]) == secv(tbl0[mans[i].sector]));
                }
            }
        }
//@ before "notify_pledge_changed"
        let ghost rtC = *rt;
        let ghost s1 = rt_state::<State>(rt.tx_log@.last());
        let ghost fl = flat2(pairs, pairs.len() as int);
        let ghost pw = power_delta;
        let ghost pl = pledge_delta;
        let ghost size = info.sector_size;
        proof { assert(urs_post(rtB, rtC, pairs, successful_manifests.len(), tbl0, size, pw, pl)); }
        let ghost pi = choose|pi: NetworkPledgeInputs| urs_ok(rtB, rtC, pairs, successful_manifests.len(), tbl0, size, pw, pl, pi);
        proof {
            assert(urs_ok(rtB, rtC, pairs, successful_manifests.len(), tbl0, size, pw, pl, pi));
            assert(rtB.state_id@ == old(rt).state_id@);
            assert(fl.len() == successful_manifests.len()) by { reveal(urs_ok); }
            lemma_regroup(&state_updates_by_dline, wants);
            assert(pru3_state(s0, s1, rt.epoch, size, fl, pi, pw, pl)) by { reveal(pru3_state); reveal(urs_ok); }
            assert(rtC.tx_log@.len() == rtB.tx_log@.len() + 1 && rtC.sends@.len() == rtB.sends@.len() + 2 && is_reward_query(rtC.sends@[rtB.sends@.len() as int])
                && is_total_power_query(rtC.sends@[rtB.sends@.len() as int + 1]) && (forall|i: int| 0 <= i < rtB.sends@.len() ==> rtC.sends@[i] == rtB.sends@[i])
                && fl.len() == successful_manifests.len()) by { reveal(urs_ok); }
        }
//@ before "let mut notifications"
        let ghost rtD = *rt;
//@ loopstart 3
            let ghost nf0 = notifications@;
            proof { assert(it3.seq()[it3.index@ as int] == ssa[it3.index@ as int]); assert(sector_commds.view().dom().contains((*ssa[it3.index@ as int]).0.sector)); }
//@ loopend 3
            proof {
                let m = it3.index@ as int;
                let want = upd_notifs(params, s0, v, p, d);
                let i = act_idx(v, p, d, m);
                lemma_chain(n, v, p, d);
                assert(it3.seq()[m] == ssa[m]);
                assert(notifications@ =~= nf0.push(notifications@.last()));
                assert(*(*ssa[m]).0 == wants[m].0 && wants[m].0 == mans[i]);
                assert(*update == mans[i]);
                assert(*sector_info == sis[i]);
                assert(secv(sis[i]) == secv(tbl0[mans[i].sector]));
                assert(notifications@.last().sector_number == want[m].sector_number);
                assert(notifications@.last().sector_expiration == want[m].sector_expiration);
                assert(*notifications@.last().pieces == *want[m].pieces);
                assert(notifications@.last() == want[m]);
            }
//@ loop 3 iter=it3
            invariant
                *rt == (Rt { events: rt.events, ..rtD }), it3.seq().len() == ssa.len(), forall|q: int| 0 <= q < ssa.len() ==> it3.seq()[q] == ssa[q],
                ssa.len() == succ_idx(d).len(), n == mans.len(), mans == params.sector_updates@, sis_ok(s0, params, sis), tbl0 == sectors_tbl(s0),
                ssa_ok(ssa, wants, outs), wants == upd_wants(params, sis, v, p, d), commds_ok(ssa, sector_commds.view()), chain_wf(n, v, p, d),
                notifications@ =~= upd_notifs(params, s0, v, p, d).take(it3.index@ as int),
//@ before "notify_data_consumers"
        let ghost rtE = *rt;
//@ before "ProveReplicaUpdates3Return"
        proof {
            let c: int = if sent { 1 } else { 0 };
            let q: int = if pl@ != 0 { 1 } else { 0 };
            let w: int = if pw.qa@ != 0 || pw.raw@ != 0 { 1 } else { 0 };
            let ss = rt.sends@;
            assert(notifications@ =~= upd_notifs(params, s0, v, p, d));
            assert(rtB.sends@.len() == k0 + c);
            assert(rtC.sends@.len() == k0 + c + 2);
            assert(rtD.sends@.len() == k0 + c + 2 + q + w);
            assert(rtE.sends@ == rtD.sends@);
            assert(forall|i: int| 0 <= i < rtD.sends@.len() ==> ss[i] == rtD.sends@[i]);
            assert(sent == (ss.len() > k0 && is_claim_send(ss[k0])));
            assert(pru3_sends(*old(rt), *rt, sent, pw, pl, upd_notifs(params, s0, v, p, d), params.require_notification_success)) by {
                reveal(pru3_sends);
                assert forall|i: int| k0 <= i < ss.len() && i != k0 + c + 2 + q implies !is_power_update(#[trigger] ss[i]) by {
                    if i >= k0 + c + 2 + q + w { assert(is_notification(ss[i])); }
                    else if i == k0 + c + 2 { assert(is_pledge_note(ss[i])); }
                    else if i == k0 + c + 1 { assert(is_total_power_query(ss[i])); }
                    else if i == k0 + c { assert(is_reward_query(ss[i])); }
                    else { assert(is_claim_send(ss[i])); }
                }
            }
            assert(sent ==> ss[k0] == cs0);
            lemma_pru3_claims(s0, params, sis, v, p, d, inputs, outs, sent, cs0, ss[k0]);
            if params.require_activation_success { lemma_all_zero(v); lemma_all_zero(p); }
            assert(params.require_activation_success ==> succ_idx(d).len() == n);
            assert(rt.tx_log@.len() == old(rt).tx_log@.len() + 1 && rt.tx_log@.last() == rtC.tx_log@.last());
            assert(sis_ok(s0, params, sis));
            assert(upds_ok(params, upds)) by {
                assert forall|i: int| 0 <= i < upds.len() implies #[trigger] upds[i] == pru_inner(params, i) by {}
            }
            lemma_pru_verdicts(s0, params, upds, sis, usis, v, p);
            assert(info_of(s0).is_some());
            assert(chain_wf(n, v, p, d) && result.codes() == stack2(v, stack2(p, d)) && succ_idx(d).len() > 0);
            assert(raw_len(params.aggregate_proof) == 0 && params.aggregate_proof_type.is_none());
            assert(regroup_of(fl, upd_wants(params, sis, v, p, d)));
            assert(pru3_state(s0, rt_state::<State>(rt.tx_log@.last()), old(rt).epoch, info_of(s0)->Some_0.sector_size, fl, pi, pw, pl));
            assert(pru3_ok(*old(rt), *rt, params, result.codes(), v, p, d, sis, fl, pi, pw, pl));
            assert(pru3_post(*old(rt), *rt, params, result.codes()));
        }
//@ end

// =====================================================================================================================================================
// (10) (d) new sectors are added UNPROVEN: the loop of State::assign_sectors_to_deadlines that hands the sectors to their deadlines (R21 region,
// nothing dropped). The stub Deadline::add_sectors carries the MONITOR precondition `!proven`: the region verifies only if every call passes false.
// =====================================================================================================================================================
//@ fn actors/miner/src/state.rs State::assign_sectors_to_deadlines region="for (deadline_idx , deadline_sectors) in deadline_to_sectors . into_iter () . enumerate ()=>for (deadline_idx , deadline_sectors) in deadline_to_sectors . into_iter () . enumerate ()" as=assign_sectors_unproven params="state: &State, policy: &Policy, store: &Store, deadline_to_sectors: Vec<Vec<SectorOnChainInfo>>, deadline_vec: &mut Vec<Option<Deadline>>, deadlines: &mut Deadlines, partition_size: u64, sector_size: SectorSize" retty="anyhow::Result<()>" tail="Ok(())" ret=res r20 sub0="deadline_to_sectors . into_iter () . enumerate ()=>vx_into_enumerate(deadline_to_sectors)" sub1="self . quant_spec_for_deadline=>state . quant_spec_for_deadline" sub2="deadline_vec [deadline_idx] . as_mut () . unwrap ()=>vx_deadline_mut(deadline_vec, deadline_idx)"
    requires
        // assign_deadlines only assigns sectors to deadlines that are present in deadline_vec (the mutable ones)
        old(deadline_vec)@.len() == deadline_to_sectors@.len(),
        forall|i: int| 0 <= i < deadline_to_sectors@.len() && (#[trigger] deadline_to_sectors@[i])@.len() > 0 ==> old(deadline_vec)@[i].is_some(),
    ensures true,
//@ loop 0 iter=it
        invariant
            it.seq().len() == deadline_to_sectors@.len(), forall|j: int| 0 <= j < it.seq().len() ==> (#[trigger] it.seq()[j]).0 == j && it.seq()[j].1 == deadline_to_sectors@[j],
            deadline_vec@.len() == deadline_to_sectors@.len(),
            forall|i: int| it.index@ <= i < deadline_to_sectors@.len() && (#[trigger] deadline_to_sectors@[i])@.len() > 0 ==> deadline_vec@[i].is_some(),
//@ end

// =====================================================================================================================================================
// (11) ProveCommitSectorsNI
// =====================================================================================================================================================
//@ item actors/miner/src/types.rs SectorNIActivationInfo
//@ item actors/miner/src/types.rs ProveCommitSectorsNIParams
//@ item actors/miner/src/types.rs ProveCommitSectorsNIReturn
//@ item actors/miner/src/types.rs CronEventPayload
pub type CronEvent = i64;
//@ const actors/miner/src/types.rs CRON_EVENT_PROVING_DEADLINE
//@ item actors/miner/src/state.rs CollisionPolicy attr="#[derive(PartialEq, Eq, Structural)]"
//@ include prelude/miner_prove_ni_assumed.rs
impl CborVal for BitField { type Base = BitField; open spec fn base(&self) -> BitField { *self } }
pub open spec fn allocated(s: State) -> Option<BitField> { cbor_decode::<BitField>(s.allocated_sectors) }
// (contract as in units/C04/sector_alloc.vx.rs)
//@ fn actors/miner/src/state.rs State::allocate_sector_numbers
    ensures
        r.is_ok() ==> allocated(*old(self)).is_some() && allocated(*final(self)).is_some() && ({
            let a0 = allocated(*old(self))->Some_0@;
            let a1 = allocated(*final(self))->Some_0@;
            &&& (policy is DenyCollisions ==> a0.intersect(sector_numbers@) =~= vstd::set::Set::<u64>::empty())
            &&& a1 =~= a0.union(sector_numbers@)
        }),
        r.is_err() ==> *final(self) == *old(self),
        *final(self) == (State { allocated_sectors: final(self).allocated_sectors, ..*old(self) }),
//@ end
//@ fn actors/miner/src/lib.rs consensus_fault_active
    ensures r == (curr_epoch <= info.consensus_fault_elapsed),
//@ end
pub open spec fn is_cron_enrol(s: SendRec) -> bool { s.to == STORAGE_POWER_ACTOR_ADDR && s.method == ext::power::ENROLL_CRON_EVENT_METHOD }
// (contract as in units/C05/miner_cron.vx.rs)
//@ fn actors/miner/src/lib.rs enroll_cron_event
    requires !old(rt).in_tx@,
    ensures
        rt_frame(old(rt), final(rt)), old(rt).sends@.len() <= final(rt).sends@.len() <= old(rt).sends@.len() + 1,
        forall|i: int| 0 <= i < old(rt).sends@.len() ==> final(rt).sends@[i] == old(rt).sends@[i],
        r.is_ok() ==> rt_pushed(old(rt), final(rt)) && is_cron_enrol(final(rt).sends@.last()) && final(rt).sends@.last().ok && final(rt).sends@.last().value == 0,
//@ end

/// the infos stored are (clones of) the infos built for the valid sectors
pub open spec fn same_infos(x: Seq<SectorOnChainInfo>, y: Seq<SectorOnChainInfo>) -> bool { x.len() == y.len() && forall|i: int| 0 <= i < x.len() ==> secv(#[trigger] x[i]) == secv(y[i]) }
//@ fn actors/miner/src/lib.rs Actor::prove_commit_sectors_ni closure=0 as=ni_tx0 params="state: &mut State, rt: &mut Rt, store: &'static Store, policy: &'static Policy, total_pledge: &TokenAmount, sector_numbers: BitField, sectors_to_add: Vec<SectorOnChainInfo>, info: &MinerInfo, proving_deadline: u64" retty="Result<(bool, TokenAmount), ActorError>" ret=res derefs=total_pledge sub0="params . proving_deadline=>proving_deadline"
    ensures
        *final(rt) == *old(rt),
        res.is_ok() ==> ({
            let s0 = *old(state);
            let s1 = *final(state);
            let (needs_cron, fee_to_burn) = res->Ok_0;
            // C03: the pledge of ALL the new sectors is affordable and is added to the ledger in one piece
            &&& unlocked(s0, old(rt).balance@) >= total_pledge@
            &&& s1.initial_pledge@ == s0.initial_pledge@ + total_pledge@
            &&& s1.pre_commit_deposits == s0.pre_commit_deposits && s1.locked_funds == s0.locked_funds && s1.vesting_funds == s0.vesting_funds
            // fee debt is repaid in full (or the call aborts)
            &&& fee_to_burn@ == s0.fee_debt@ && s1.fee_debt@ == 0
            // the sector numbers are allocated now and were never allocated before
            &&& allocated(s0).is_some() && allocated(s1).is_some() && allocated(s0)->Some_0@.intersect(sector_numbers@) =~= vstd::set::Set::<u64>::empty()
            &&& allocated(s1)->Some_0@ =~= allocated(s0)->Some_0@.union(sector_numbers@)
            // the new sector infos are stored under their numbers
            &&& (exists|x: Seq<SectorOnChainInfo>| #[trigger] same_infos(x, sectors_to_add@) && sectors_tbl(s1) == store_infos(sectors_tbl(s0), x, x.len() as int))
            &&& needs_cron == !s0.deadline_cron_active
            &&& s1 == (State { initial_pledge: s1.initial_pledge, sectors: s1.sectors, deadlines: s1.deadlines, allocated_sectors: s1.allocated_sectors, fee_debt: s1.fee_debt,
                    deadline_cron_active: true, ..s0 })
        }),
//@ before "state . assign_sectors_to_deadline"
        let ghost st_put = *state;
        proof {
            let t0 = sectors_tbl(*old(state));
            let n = sectors_to_add@.len() as int;
            // the clone of `sectors_to_add` that was handed to put_sectors
            let x = choose|x: Seq<SectorOnChainInfo>| sectors_tbl(*state) == #[trigger] store_infos(t0, x, x.len() as int) && x.len() == n
                && forall|i: int| 0 <= i < n ==> secv(#[trigger] x[i]) == secv(sectors_to_add@[i]);
            assert(same_infos(x, sectors_to_add@));
        }
//@ end

/// ProveCommitSectorsNI, for the common pledge `ip` computed for every sector of the message
pub open spec fn ni_ok(o: Rt, f: Rt, params: ProveCommitSectorsNIParams, out: Seq<u32>, ip: int) -> bool {
    let s0 = rt_state::<State>(o.state_id@);
    let s1 = rt_state::<State>(f.tx_log@.last());
    let n = params.sectors@.len() as int;
    let vi = succ_idx(out);
    let mm = vi.len() as int;
    let k0 = o.sends@.len() as int;
    let s = f.sends@;
    let b: int = if s0.fee_debt@ > 0 { 1 } else { 0 };
    let q: int = if mm * ip != 0 { 1 } else { 0 };
    &&& out.len() == n && mm > 0 && f.tx_log@.len() == o.tx_log@.len() + 1
    // which sectors are activated: exactly those whose PARAMETERS validate; the aggregate proof over all of them was accepted
    &&& (forall|i: int| 0 <= i < n ==> (#[trigger] out[i] == 0 <==> ni_sector_valid(rt_policy(), o.epoch, o.msg.receiver.id, params.sectors@[i], params.seal_proof_type)))
    &&& params.aggregate_proof_type == RegisteredAggregateProof::SnarkPackV2
    &&& (exists|inputs: Seq<SectorSealProofInput>| #[trigger] is_inputs(inputs) && inputs.len() == n
            && agg_seal_verdict(inputs, params.sectors@[vi[0]].sealer_id, params.seal_proof_type, RegisteredAggregateProof::SnarkPackV2, params.aggregate_proof))
    // C03: pledge added == number of new sectors x the pledge stored in each of them; it was affordable; fee debt repaid
    &&& s1.initial_pledge@ == s0.initial_pledge@ + mm * ip && unlocked(s0, o.balance@) >= mm * ip && s1.fee_debt@ == 0
    &&& s1.pre_commit_deposits == s0.pre_commit_deposits && s1.locked_funds == s0.locked_funds
    // C10 / C02: the new sectors carry NO deal weight and NO verified weight (nothing is claimed), counted from now; their numbers were never used
    &&& (exists|x: Seq<SectorOnChainInfo>| #[trigger] sectors_tbl(s1) == store_infos(sectors_tbl(s0), x, x.len() as int) && x.len() == mm
            && forall|j: int| 0 <= j < mm ==> ni_info(#[trigger] x[j], params.sectors@[vi[j]], params.seal_proof_type, o.epoch, ip))
    &&& allocated(s0).is_some() && allocated(s1).is_some()
    &&& (forall|i: int| 0 <= i < n ==> !allocated(s0)->Some_0@.contains((#[trigger] params.sectors@[i]).sector_number) && allocated(s1)->Some_0@.contains(params.sectors@[i].sector_number))
    &&& s1 == (State { initial_pledge: s1.initial_pledge, sectors: s1.sectors, deadlines: s1.deadlines, allocated_sectors: s1.allocated_sectors, fee_debt: s1.fee_debt,
            deadline_cron_active: true, ..s0 })
    // the messages: ThisEpochReward CurrentTotalPower [burn of the repaid debt] [UpdatePledgeTotal(+pledge)] [EnrollCronEvent] — (d) NO UpdateClaimedPower
    &&& k0 + 2 + b + q <= s.len() <= k0 + 3 + b + q && (forall|i: int| 0 <= i < k0 ==> s[i] == o.sends@[i])
    &&& is_reward_query(s[k0]) && is_total_power_query(s[k0 + 1])
    &&& (b == 1 ==> is_burn(s[k0 + 2]) && s[k0 + 2].ok && s[k0 + 2].value == s0.fee_debt@)
    &&& (q == 1 ==> is_pledge_note(s[k0 + 2 + b]) && s[k0 + 2 + b].ok && exists|dd: TokenAmount| s[k0 + 2 + b].params == Some(IpldBlock { h: #[trigger] cbor_hash(dd) }) && dd@ == mm * ip)
    &&& (s.len() == k0 + 3 + b + q ==> is_cron_enrol(s[k0 + 2 + b + q]) && !s0.deadline_cron_active)
    &&& (forall|i: int| k0 <= i < s.len() ==> !is_power_update(#[trigger] s[i]))
}
pub open spec fn ni_post(o: Rt, f: Rt, params: ProveCommitSectorsNIParams, out: Seq<u32>) -> bool { exists|ip: int| #[trigger] ni_ok(o, f, params, out, ip) }
//@ fn actors/miner/src/lib.rs Actor::prove_commit_sectors_ni free ret=ret tx0="State;ni_tx0;&mut __vx_st, rt, store, policy, &total_pledge, sector_numbers, sectors_to_add, &info, params.proving_deadline" sub0="info . control_addresses . iter () . chain (& [info . worker , info . owner])=>&vx_control_worker_owner(&info)" suball0="batch . success_count=>batch . vx_success_count ()" sub1="request_current_total_power (rt)=>vx_request_current_total_power (rt)" sub2="valid_sectors . iter () . map (| sector | SectorOnChainInfo { sector_number : sector . sector_number , seal_proof : params . seal_proof_type , sealed_cid : sector . sealed_cid , deprecated_deal_ids : vec ! [] , expiration : sector . expiration , activation : curr_epoch , deal_weight : DealWeight :: zero () , verified_deal_weight : DealWeight :: zero () , initial_pledge : sector_initial_pledge . clone () , expected_day_reward : None , expected_storage_pledge : None , power_base_epoch : curr_epoch , replaced_day_reward : None , sector_key_cid : None , flags : SectorOnChainInfoFlags :: SIMPLE_QA_POWER , daily_fee : daily_fee . clone () , }) . collect :: < Vec < SectorOnChainInfo > > ()=>vx_ni_sector_infos(&valid_sectors, params.seal_proof_type, curr_epoch, &sector_initial_pledge, &daily_fee)" sub3="emit :: sector_activated (rt , sector . sector_number , None , & [])=>vx_emit_sector_activated(rt, sector.sector_number, None, &Vec::new())"
    requires
        !old(rt).in_tx@, small_epoch(old(rt).epoch as int),
        forall|b: Option<IpldBlock>| small_epoch(#[trigger] deser_spec::<CurrentTotalPowerReturn>(b).ramp_start_epoch as int),
        // EXPLICIT ASSUMPTION: the reward / power queries made before the transaction do not call back into this miner
        rt_no_reentry(REWARD_ACTOR_ADDR, ext::reward::THIS_EPOCH_REWARD_METHOD), rt_no_reentry(STORAGE_POWER_ACTOR_ADDR, CURRENT_TOTAL_POWER_METHOD),
    ensures
        /*C11*/ ret.is_ok() ==> final(rt).validated@.is_some() && info_of(rt_state::<State>(old(rt).state_id@)).is_some()
            && may_operate(info_of(rt_state::<State>(old(rt).state_id@))->Some_0, old(rt).msg.caller),
        ret.is_ok() ==> ni_post(*old(rt), *final(rt), params, ret->Ok_0.activation_results.codes()),
//@ entry
        let ghost s0 = rt_state::<State>(old(rt).state_id@);
        let ghost k0 = old(rt).sends@.len() as int;
        let ghost n = params.sectors@.len() as int;
//@ before "let valid_sectors ="
        let ghost out = validation_batch.codes();
        let ghost vi = succ_idx(out);
        let ghost numbers = sector_numbers@;
        let ghost pin = proof_inputs@;
        proof { lemma_succ_idx(out); }
//@ before "let sectors_len ="
        let ghost infos = sectors_to_add@;
        let ghost ip = sector_initial_pledge@;
//@ before "burn_funds"
        let ghost s1 = rt_state::<State>(rt.tx_log@.last());
        let ghost rtT = *rt;
        let ghost fee = fee_to_burn@;
        proof {
            assert(rt.state_id@ != 0 || true);
            let x = choose|x: Seq<SectorOnChainInfo>| #[trigger] same_infos(x, infos) && sectors_tbl(s1) == store_infos(sectors_tbl(s0), x, x.len() as int);
            assert forall|j: int| 0 <= j < vi.len() implies ni_info(#[trigger] x[j], params.sectors@[vi[j]], params.seal_proof_type, old(rt).epoch, ip) by {
                assert(secv(x[j]) == secv(infos[j]));
                assert(ni_info(infos[j], *valid_sectors@[j], params.seal_proof_type, old(rt).epoch, ip));
            }
            assert(sectors_tbl(s1) == store_infos(sectors_tbl(s0), x, x.len() as int) && x.len() == vi.len());
            assert forall|i: int| 0 <= i < n implies !allocated(s0)->Some_0@.contains((#[trigger] params.sectors@[i]).sector_number) && allocated(s1)->Some_0@.contains(params.sectors@[i].sector_number) by {
                assert(numbers.contains(params.sectors@[i].sector_number));
                assert(allocated(s0)->Some_0@.intersect(numbers).contains(params.sectors@[i].sector_number) == false);
            }
        }
//@ before "state . check_balance_invariants"
        let ghost rtP = *rt;
//@ loop 0 iter=it
            invariant *rt == (Rt { events: rt.events, ..rtP }),
//@ before "ProveCommitSectorsNIReturn"
        proof {
            assert(is_inputs(pin));
            assert(ni_ok(*old(rt), *rt, params, out, ip));
            assert(ni_post(*old(rt), *rt, params, out));
        }
//@ end

} // verus!
fn main() {}
