// unit: verified registry — claim/extension/expiry predicates (C10, C09)
//@ include prelude/core.rs
//@ include prelude/ipld.rs
//@ include prelude/rt.rs
//@ include prelude/policy.rs
//@ include prelude/batch.rs
macro_rules! log_info { ($($t:tt)*) => { () } }
verus! {

#[derive(Clone, Copy, PartialEq, Eq, Structural)]
pub struct PaddedPieceSize(pub u64);
pub type AllocationID = u64;
pub type ClaimID = u64;
//@ item actors/verifreg/src/state.rs Allocation attr="#[derive(Clone, PartialEq)]"
//@ item actors/verifreg/src/state.rs Claim attr="#[derive(Clone, PartialEq)]"
//@ item actors/verifreg/src/types.rs AllocationClaim
//@ item actors/verifreg/src/types.rs AllocationRequest
//@ item actors/verifreg/src/types.rs ClaimExtensionRequest

// ---------------- claiming an allocation ----------------
//@ fn actors/verifreg/src/lib.rs can_claim_alloc
    requires
        0 <= curr_epoch, 0 <= sector_expiry,
    ensures
        // "claimed ... by the named provider for the matching data within its terms":
        // the sector's remaining lifetime lies between the allocation's minimum and maximum term, and the allocation has not expired
        r == (provider == alloc.provider && claim_alloc.client == alloc.client && claim_alloc.data == alloc.data
              && claim_alloc.size == alloc.size && curr_epoch <= alloc.expiration
              && alloc.term_min <= sector_expiry - curr_epoch <= alloc.term_max),
//@ end

// ---------------- new allocations ----------------
//@ fn actors/verifreg/src/lib.rs validate_new_allocation
    requires
        0 <= curr_epoch, 0 <= policy.maximum_verified_allocation_expiration,
        curr_epoch + policy.maximum_verified_allocation_expiration <= i64::MAX,
    ensures
        r.is_ok() <==> (req.size.0 as int >= policy.minimum_verified_allocation_size@
            && policy.minimum_verified_allocation_term <= req.term_min <= req.term_max <= policy.maximum_verified_allocation_term
            && curr_epoch <= req.expiration <= curr_epoch + policy.maximum_verified_allocation_expiration),
//@ end

// ---------------- claim term extension ----------------
//@ fn actors/verifreg/src/lib.rs validate_claim_extension
    requires
        0 <= curr_epoch, 0 <= policy.maximum_verified_allocation_term, 0 <= claim.term_start, 0 <= claim.term_max,
        curr_epoch + policy.maximum_verified_allocation_term <= i64::MAX,
        claim.term_start + claim.term_max <= i64::MAX,
    ensures
        // "a claim's maximum term never decreases" (strictly grows), stays within policy, and an expired claim is expired for good
        r.is_ok() <==> (req.term_max > claim.term_max
            && req.term_max <= curr_epoch + policy.maximum_verified_allocation_term - claim.term_start
            && curr_epoch <= claim.term_start + claim.term_max),
//@ end

// ---------------- expiry ----------------
pub trait Expires {
    spec fn exp_spec(&self) -> int;
    fn expiration(&self) -> (r: ChainEpoch)
        requires -0x4000_0000_0000_0000 <= self.exp_spec() <= 0x4000_0000_0000_0000,
        ensures r as int == self.exp_spec();
}
impl Expires for Allocation {
    open spec fn exp_spec(&self) -> int { self.expiration as int }
//@ fn actors/verifreg/src/expiration.rs <Allocation as Expires>::expiration free novac
//@ end
}
impl Expires for Claim {
    /// a claim expires at term_start + term_max
    open spec fn exp_spec(&self) -> int { self.term_start + self.term_max }
//@ fn actors/verifreg/src/expiration.rs <Claim as Expires>::expiration free novac
//@ end
}

/// outcome required for one removal candidate: removable only if it belongs to `owner` and has expired
pub open spec fn expiry_code<T: Expires>(m: Map<(ActorID, u64), T>, owner: ActorID, id: u64, curr: int) -> u32 {
    if !m.dom().contains((owner, id)) { 17 }            // NOT_FOUND: not this owner's record
    else if curr >= m[(owner, id)].exp_spec() { 0 }      // expired: may be removed
    else { 18 }                                          // FORBIDDEN: not yet expired
}

//@ fn actors/verifreg/src/expiration.rs check_expired
    requires
        forall|k: (ActorID, u64)| old(collection).view().dom().contains(k) ==> -0x4000_0000_0000_0000 <= (#[trigger] old(collection).view()[k]).exp_spec() <= 0x4000_0000_0000_0000,
    ensures
        final(collection).view() == old(collection).view(),
        // "claims or allocations can be removed only after they have expired", and only by their owner; one verdict per candidate, in order
        r.is_ok() ==> r->Ok_0.codes().len() == candidates@.len()
            && forall|i: int| 0 <= i < candidates@.len() ==> #[trigger] r->Ok_0.codes()[i] == expiry_code(old(collection).view(), owner, candidates@[i], curr_epoch as int),
//@ loop 0 iter=it
            invariant
                it.seq().len() == candidates@.len(),
                forall|j: int| 0 <= j < candidates@.len() ==> *(#[trigger] it.seq()[j]) == candidates@[j],
                collection.view() == old(collection).view(),
                ret_gen.expect() == candidates@.len(),
                ret_gen.codes().len() == it.index@,
                forall|k: (ActorID, u64)| collection.view().dom().contains(k) ==> -0x4000_0000_0000_0000 <= (#[trigger] collection.view()[k]).exp_spec() <= 0x4000_0000_0000_0000,
                forall|i: int| 0 <= i < it.index@ ==> #[trigger] ret_gen.codes()[i] == expiry_code(collection.view(), owner, candidates@[i], curr_epoch as int),
//@ end

} // verus!
fn main() {}
