// unit: the miner's vesting table (actors/miner/src/vesting_state.rs) under contract — property C14, first sentence:
//   "Locked block rewards and the creation deposit vest linearly over 180 days in daily steps, and no part becomes withdrawable
//    before its vesting epoch except to pay the miner's own penalties; over time exactly the locked amount unlocks, no more and no less."
// Real bodies verified here: QuantSpec::quantize_up, VestingFunds::{new, load, save, can_vest, unlock_vested_funds, add_locked_funds,
// unlock_vested_and_unvested_funds}, take_vested, and the three closures of vesting_state.rs that carry behaviour (the `< current_epoch`
// test, the merge comparator, the joining `match`). This replaces the ASSUMED contract of prelude/miner_vesting.rs (section 9 checks
// that every clause assumed there follows from what is proved here).
//
// View: vt_table(v) = what `load` returns = the sequence of (epoch, amount); vt_ok(v) = representation invariant (epochs strictly
// increasing, the stored head first even when it was drawn down to zero, no negative amount).
//
// What is NOT from /repo in the generated file: the iterator ADAPTERS of std/itertools (prelude/miner_vesting_table_iters.rs, one
// small contract per adapter) and the textual substitutions listed at each `//@ fn` (they name adapter chains, annotate closures with
// types + a postcondition + braces, and turn `iter::from_fn(|| BODY)` into the loop that runs BODY until it answers None).
//@ include prelude/core.rs
// prelude/cbor.rs mentions the runtime's IpldBlock in helpers this unit does not use; the ghost runtime (prelude/rt.rs) is not
// needed here, so a placeholder of the same shape keeps the trusted base of this unit to core + cbor + the iterator models
verus! { pub struct IpldBlock { pub h: u64 } }
//@ include prelude/cbor.rs
use vstd::arithmetic::div_mod::{rust_rem, rust_div};
verus! {

//@ item actors/miner/src/policy.rs VestSpec
//@ item actors/miner/src/quantize.rs QuantSpec attr="#[derive(Clone, Copy)]"
//@ item actors/miner/src/vesting_state.rs VestingFund
//@ item actors/miner/src/vesting_state.rs VestingFundsInner tsub0="struct VestingFundsInner=>pub struct VestingFundsInner"
//@ item actors/miner/src/vesting_state.rs VestingFunds
//@ include prelude/miner_vesting_table_iters.rs

// `#[derive(Clone)]` of VestingFund (derives are stripped by the extractor): field-wise clone — verified, not assumed
impl Clone for VestingFund {
    fn clone(&self) -> (r: Self)
        ensures r.epoch == self.epoch, r.amount@ == self.amount@
    { VestingFund { epoch: self.epoch, amount: self.amount.clone() } }
}
impl CborVal for Vec<VestingFund> { type Base = Vec<VestingFund>; open spec fn base(&self) -> Vec<VestingFund> { *self } }

// =====================================================================================================================
// 1. The abstract table: a finite sequence of (epoch, amount). Same definitions as prelude/miner_vesting.rs.
// =====================================================================================================================
pub struct VfEntry { pub epoch: int, pub amount: int }

pub open spec fn vf_sum(s: Seq<VfEntry>) -> int
    decreases s.len()
{
    if s.len() == 0 { 0 } else { s[0].amount + vf_sum(s.subrange(1, s.len() as int)) }
}
/// total of the entries whose epoch is strictly before `e`
pub open spec fn vf_sum_before(s: Seq<VfEntry>, e: int) -> int
    decreases s.len()
{
    if s.len() == 0 { 0 } else { (if s[0].epoch < e { s[0].amount } else { 0 }) + vf_sum_before(s.subrange(1, s.len() as int), e) }
}
pub open spec fn vf_nonneg(s: Seq<VfEntry>) -> bool { forall|i: int| 0 <= i < s.len() ==> #[trigger] s[i].amount >= 0 }
pub open spec fn vf_pos(s: Seq<VfEntry>) -> bool { forall|i: int| 0 <= i < s.len() ==> #[trigger] s[i].amount > 0 }
pub open spec fn vf_sorted(s: Seq<VfEntry>) -> bool { forall|i: int, j: int| 0 <= i < j < s.len() ==> s[i].epoch < s[j].epoch }
/// the table of the task statement: strictly increasing epochs, positive amounts
pub open spec fn vf_well_formed(s: Seq<VfEntry>) -> bool { vf_sorted(s) && vf_pos(s) }
/// every entry at or after `e`
pub open spec fn vf_lb(s: Seq<VfEntry>, e: int) -> bool { forall|i: int| 0 <= i < s.len() ==> #[trigger] s[i].epoch >= e }
/// every entry strictly before `e`
pub open spec fn vf_ub(s: Seq<VfEntry>, e: int) -> bool { forall|i: int| 0 <= i < s.len() ==> #[trigger] s[i].epoch < e }
/// the entries with epoch >= e, in order (what is left after everything strictly before `e` was released)
pub open spec fn vf_from(s: Seq<VfEntry>, e: int) -> Seq<VfEntry>
    decreases s.len()
{
    if s.len() == 0 { s } else if s[0].epoch < e { vf_from(s.skip(1), e) } else { seq![s[0]] + vf_from(s.skip(1), e) }
}
/// k splits s at epoch e
pub open spec fn vf_split_at(s: Seq<VfEntry>, e: int, k: int) -> bool {
    0 <= k <= s.len() && vf_ub(s.take(k), e) && vf_lb(s.skip(k), e)
}
/// a stored zero head is invisible (`load` skips it)
pub open spec fn vf_drop_zero_head(s: Seq<VfEntry>) -> Seq<VfEntry> {
    if s.len() > 0 && s[0].amount <= 0 { s.skip(1) } else { s }
}
/// take `t` out of the front of `s`, earliest entries first; an entry taken in full disappears
pub open spec fn vf_drain(s: Seq<VfEntry>, t: int) -> Seq<VfEntry>
    decreases s.len()
{
    if s.len() == 0 { s }
    else if s[0].amount < t { vf_drain(s.skip(1), t - s[0].amount) }
    else if s[0].amount - t > 0 { seq![VfEntry { epoch: s[0].epoch, amount: s[0].amount - t }] + s.skip(1) }
    else { s.skip(1) }
}

pub open spec fn ent(f: VestingFund) -> VfEntry { VfEntry { epoch: f.epoch as int, amount: f.amount@ } }
pub open spec fn ents(s: Seq<VestingFund>) -> Seq<VfEntry> { Seq::new(s.len(), |i: int| ent(s[i])) }

// ---- the table a VestingFunds value denotes: what `load` returns -------------------------------------------------------
pub open spec fn vt_tail(inner: VestingFundsInner) -> Seq<VfEntry> {
    match cbor_decode::<Vec<VestingFund>>(inner.tail) { Some(v) => ents(v@), None => Seq::empty() }
}
pub open spec fn vt_table(v: VestingFunds) -> Seq<VfEntry> {
    match v.0 {
        None => Seq::empty(),
        Some(inner) => if inner.head.amount@ > 0 { seq![ent(inner.head)] + vt_tail(inner) } else { vt_tail(inner) },
    }
}
/// representation invariant: head before tail (also when the head was drawn down to zero), tail strictly sorted, nothing negative
pub open spec fn vt_ok(v: VestingFunds) -> bool {
    match v.0 {
        None => true,
        Some(inner) => inner.head.amount@ >= 0 && vf_sorted(seq![ent(inner.head)] + vt_tail(inner)) && vf_nonneg(vt_tail(inner)),
    }
}

// =====================================================================================================================
// 2. Lemmas about sums, cuts and merges of tables
// =====================================================================================================================
pub proof fn lemma_sum_concat(a: Seq<VfEntry>, b: Seq<VfEntry>, e: int)
    ensures
        vf_sum(a + b) == vf_sum(a) + vf_sum(b),
        vf_sum_before(a + b, e) == vf_sum_before(a, e) + vf_sum_before(b, e),
        vf_from(a + b, e) == vf_from(a, e) + vf_from(b, e),
    decreases a.len()
{
    if a.len() == 0 {
        assert(a + b =~= b);
        assert(vf_from(a, e) + vf_from(b, e) =~= vf_from(b, e));
    } else {
        let a1 = a.subrange(1, a.len() as int);
        assert((a + b).subrange(1, (a + b).len() as int) =~= a1 + b);
        assert((a + b).skip(1) =~= a1 + b);
        assert(a.skip(1) =~= a1);
        lemma_sum_concat(a1, b, e);
        assert((seq![a[0]] + vf_from(a1, e)) + vf_from(b, e) =~= seq![a[0]] + (vf_from(a1, e) + vf_from(b, e)));
    }
}
pub proof fn lemma_one(x: VfEntry, e: int)
    ensures vf_sum(seq![x]) == x.amount, vf_sum_before(seq![x], e) == (if x.epoch < e { x.amount } else { 0 }),
        vf_from(seq![x], e) == (if x.epoch < e { Seq::<VfEntry>::empty() } else { seq![x] }),
{
    let s = seq![x];
    assert(s.subrange(1, s.len() as int) =~= Seq::<VfEntry>::empty());
    assert(s.skip(1) =~= Seq::<VfEntry>::empty());
    assert(vf_sum(Seq::<VfEntry>::empty()) == 0);
    assert(vf_sum_before(Seq::<VfEntry>::empty(), e) == 0);
    assert(vf_from(s.skip(1), e) =~= Seq::<VfEntry>::empty());
    assert(seq![s[0]] + Seq::<VfEntry>::empty() =~= s);
}
pub proof fn lemma_all_before(s: Seq<VfEntry>, e: int)
    requires vf_ub(s, e)
    ensures vf_sum_before(s, e) == vf_sum(s), vf_from(s, e) == Seq::<VfEntry>::empty()
    decreases s.len()
{
    if s.len() > 0 {
        let t = s.subrange(1, s.len() as int);
        assert(s.skip(1) =~= t);
        assert forall|i: int| 0 <= i < t.len() implies #[trigger] t[i].epoch < e by { assert(t[i] == s[i + 1]); }
        assert(s[0].epoch < e);
        lemma_all_before(t, e);
    }
}
pub proof fn lemma_all_from(s: Seq<VfEntry>, e: int)
    requires vf_lb(s, e)
    ensures vf_sum_before(s, e) == 0, vf_from(s, e) == s
    decreases s.len()
{
    if s.len() > 0 {
        let t = s.subrange(1, s.len() as int);
        assert(s.skip(1) =~= t);
        assert forall|i: int| 0 <= i < t.len() implies #[trigger] t[i].epoch >= e by { assert(t[i] == s[i + 1]); }
        assert(s[0].epoch >= e);
        lemma_all_from(t, e);
        assert(seq![s[0]] + t =~= s);
    }
}
/// at a split point: what lies before is the vested sum, what lies after is the remaining table
pub proof fn lemma_split(s: Seq<VfEntry>, e: int, k: int)
    requires vf_split_at(s, e, k)
    ensures
        vf_sum_before(s, e) == vf_sum(s.take(k)),
        vf_from(s, e) == s.skip(k),
        vf_sum(s) == vf_sum(s.take(k)) + vf_sum(s.skip(k)),
        vf_sum_before(s.skip(k), e) == 0,
{
    assert(s =~= s.take(k) + s.skip(k));
    lemma_sum_concat(s.take(k), s.skip(k), e);
    lemma_all_before(s.take(k), e);
    lemma_all_from(s.skip(k), e);
    assert(Seq::<VfEntry>::empty() + s.skip(k) =~= s.skip(k));
}
/// releasing what is before `e` removes exactly that amount from the total (any table)
pub proof fn lemma_from_sum(s: Seq<VfEntry>, e: int)
    ensures vf_sum(vf_from(s, e)) == vf_sum(s) - vf_sum_before(s, e), vf_lb(vf_from(s, e), e), vf_sum_before(vf_from(s, e), e) == 0
    decreases s.len()
{
    if s.len() > 0 {
        let t = s.subrange(1, s.len() as int);
        assert(s.skip(1) =~= t);
        lemma_from_sum(t, e);
        if s[0].epoch >= e {
            lemma_sum_concat(seq![s[0]], vf_from(t, e), e);
            lemma_one(s[0], e);
            let r = seq![s[0]] + vf_from(t, e);
            assert forall|i: int| 0 <= i < r.len() implies #[trigger] r[i].epoch >= e by {
                if i > 0 { assert(r[i] == vf_from(t, e)[i - 1]); }
            }
        }
    }
}
pub proof fn lemma_nonneg_sums(s: Seq<VfEntry>, e: int)
    requires vf_nonneg(s)
    ensures 0 <= vf_sum_before(s, e) <= vf_sum(s)
    decreases s.len()
{
    if s.len() > 0 {
        let t = s.subrange(1, s.len() as int);
        assert forall|i: int| 0 <= i < t.len() implies #[trigger] t[i].amount >= 0 by { assert(t[i] == s[i + 1]); }
        lemma_nonneg_sums(t, e);
    }
}
/// in a sorted table whose first entry is not before `e` nothing is before `e`
pub proof fn lemma_sorted_lb(s: Seq<VfEntry>, e: int)
    requires vf_sorted(s), s.len() > 0 ==> s[0].epoch >= e
    ensures vf_lb(s, e)
{
    assert forall|i: int| 0 <= i < s.len() implies #[trigger] s[i].epoch >= e by { if i > 0 { assert(s[0].epoch < s[i].epoch); } }
}
/// a sorted table has a split point at every epoch
pub proof fn lemma_sorted_split(s: Seq<VfEntry>, e: int, k: int)
    requires vf_sorted(s), 0 <= k <= s.len(), vf_ub(s.take(k), e), k < s.len() ==> s[k].epoch >= e
    ensures vf_split_at(s, e, k)
{
    let t = s.skip(k);
    assert forall|i: int| 0 <= i < t.len() implies #[trigger] t[i].epoch >= e by {
        assert(t[i] == s[k + i]);
        if i > 0 { assert(s[k].epoch < s[k + i].epoch); }
    }
}
pub proof fn lemma_sub_props(s: Seq<VfEntry>, k: int)
    requires 0 <= k <= s.len()
    ensures
        vf_sorted(s) ==> vf_sorted(s.skip(k)) && vf_sorted(s.take(k)),
        vf_nonneg(s) ==> vf_nonneg(s.skip(k)) && vf_nonneg(s.take(k)),
        vf_pos(s) ==> vf_pos(s.skip(k)) && vf_pos(s.take(k)),
{
    let t = s.skip(k);
    let u = s.take(k);
    if vf_sorted(s) {
        assert forall|i: int, j: int| 0 <= i < j < t.len() implies t[i].epoch < t[j].epoch by { assert(t[i] == s[k + i] && t[j] == s[k + j]); }
        assert forall|i: int, j: int| 0 <= i < j < u.len() implies u[i].epoch < u[j].epoch by { assert(u[i] == s[i] && u[j] == s[j]); }
    }
    if vf_nonneg(s) {
        assert forall|i: int| 0 <= i < t.len() implies #[trigger] t[i].amount >= 0 by { assert(t[i] == s[k + i]); }
        assert forall|i: int| 0 <= i < u.len() implies #[trigger] u[i].amount >= 0 by { assert(u[i] == s[i]); }
    }
    if vf_pos(s) {
        assert forall|i: int| 0 <= i < t.len() implies #[trigger] t[i].amount > 0 by { assert(t[i] == s[k + i]); }
        assert forall|i: int| 0 <= i < u.len() implies #[trigger] u[i].amount > 0 by { assert(u[i] == s[i]); }
    }
}
pub proof fn lemma_ents(s: Seq<VestingFund>, k: int)
    requires 0 <= k <= s.len()
    ensures ents(s.skip(k)) == ents(s).skip(k), ents(s.take(k)) == ents(s).take(k), vf_amounts(s) == vf_sum(ents(s))
    decreases s.len()
{
    assert(ents(s.skip(k)) =~= ents(s).skip(k));
    assert(ents(s.take(k)) =~= ents(s).take(k));
    if s.len() > 0 {
        lemma_ents(s.skip(1), 0);
        assert(ents(s).subrange(1, s.len() as int) =~= ents(s.skip(1)));
    }
}

// =====================================================================================================================
// 3. Quantisation (real quantize.rs) — spec twin over Rust's truncating % and /
// =====================================================================================================================
pub open spec fn quantize_up_spec(q: QuantSpec, epoch: int) -> int {
    let offset = rust_rem(q.offset as int, q.unit as int);
    let remainder = rust_rem(epoch - offset, q.unit as int);
    let quotient = rust_div(epoch - offset, q.unit as int);
    if remainder == 0 || epoch - offset < 0 { q.unit * quotient + offset } else { q.unit * (quotient + 1) + offset }
}
/// e lies on the lattice `offset + k * unit` (the deadline lattice when offset is the proving-period start)
pub open spec fn lattice_point(q: QuantSpec, k: int) -> int { q.offset + k * q.unit }
pub open spec fn on_lattice(q: QuantSpec, e: int) -> bool { exists|k: int| #[trigger] lattice_point(q, k) == e }
pub proof fn lemma_trunc(x: int, u: int)
    requires u > 0
    ensures
        x >= 0 ==> x - u < u * rust_div(x, u) <= x,
        x < 0 ==> x <= u * rust_div(x, u) < x + u,
        rust_rem(x, u) == x - u * rust_div(x, u),
        -u < rust_rem(x, u) < u,
        u * (rust_div(x, u) + 1) == u * rust_div(x, u) + u,
{
    if x >= 0 {
        vstd::arithmetic::div_mod::lemma_fundamental_div_mod(x, u);
        vstd::arithmetic::div_mod::lemma_mod_bound(x, u);
    } else {
        vstd::arithmetic::div_mod::lemma_fundamental_div_mod(-x, u);
        vstd::arithmetic::div_mod::lemma_mod_bound(-x, u);
        assert(u * -((-x) / u) == -(u * ((-x) / u))) by (nonlinear_arith);
    }
    assert(u * (rust_div(x, u) + 1) == u * rust_div(x, u) + u) by (nonlinear_arith);
}
/// quantize_up rounds up to the next lattice point: result in [epoch, epoch + unit), on the lattice
pub proof fn lemma_quantize_up(q: QuantSpec, epoch: int)
    requires q.unit > 0
    ensures epoch <= quantize_up_spec(q, epoch) < epoch + q.unit, on_lattice(q, quantize_up_spec(q, epoch))
{
    let u = q.unit as int;
    let off = rust_rem(q.offset as int, u);
    lemma_trunc(q.offset as int, u);
    lemma_trunc(epoch - off, u);
    let qo = rust_div(q.offset as int, u);
    let qe = rust_div(epoch - off, u);
    let r = quantize_up_spec(q, epoch);
    // r == u * m + off with m = qe or qe + 1, and off == q.offset - u * qo
    let m = if rust_rem(epoch - off, u) == 0 || epoch - off < 0 { qe } else { qe + 1 };
    assert(r == u * m + off);
    assert(u * m - u * qo == (m - qo) * u) by (nonlinear_arith);
    assert(lattice_point(q, m - qo) == r);
}
pub open spec fn small(x: int) -> bool { -0x1000_0000_0000_0000 < x < 0x1000_0000_0000_0000 }
//@ fn actors/miner/src/quantize.rs QuantSpec::quantize_up ops=keep
    requires self.unit > 0, small(epoch as int), small(self.offset as int), small(self.unit as int),
    ensures r == quantize_up_spec(*self, epoch as int), epoch <= r < epoch + self.unit, on_lattice(*self, r as int),
//@ entry
        proof {
            let off = rust_rem(self.offset as int, self.unit as int);
            lemma_trunc(self.offset as int, self.unit as int);
            lemma_trunc(epoch - off, self.unit as int);
            lemma_quantize_up(*self, epoch as int);
        }
//@ end

// =====================================================================================================================
// 4. Storage layer: new / load / save / can_vest (real bodies)
// =====================================================================================================================
//@ fn actors/miner/src/vesting_state.rs VestingFunds::new
    ensures vt_table(r) == Seq::<VfEntry>::empty(), vt_ok(r), r.0.is_none(),
//@ end

//@ fn actors/miner/src/vesting_state.rs VestingFunds::load
    ensures
        // the loaded vector IS the abstract table (a zero head is skipped)
        r.is_ok() ==> ents(r->Ok_0@) == vt_table(*self),
        self.0.is_none() ==> r.is_ok(),
//@ entry
        proof {
            if self.0.is_some() {
                let inner = self.0->Some_0;
                if cbor_decode::<Vec<VestingFund>>(inner.tail).is_some() {
                    let v = cbor_decode::<Vec<VestingFund>>(inner.tail)->Some_0;
                    assert forall|x: VestingFund| ent(x) == ent(inner.head) implies ents(#[trigger] v@.insert(0, x)) == seq![ent(inner.head)] + ents(v@) by {
                        assert(ents(v@.insert(0, x)) =~= seq![ent(inner.head)] + ents(v@));
                    }
                }
            }
            assert(ents(Seq::<VestingFund>::empty()) =~= Seq::<VfEntry>::empty());
        }
//@ end

//@ fn actors/miner/src/vesting_state.rs VestingFunds::save sigsub0="impl IntoIterator < Item = VestingFund >=>VfIter"
    ensures
        // the first item becomes the head (hidden when it is zero), the rest the tail
        r.is_ok() ==> vt_table(*final(self)) == vf_drop_zero_head(ents(funds@)),
        r.is_ok() && vf_sorted(ents(funds@)) && vf_nonneg(ents(funds@)) ==> vt_ok(*final(self)),
        r.is_err() ==> *final(self) == *old(self),
//@ entry
        let ghost all = ents(funds@);
        proof {
            if funds@.len() > 0 {
                lemma_ents(funds@, 1);
                lemma_sub_props(all, 1);
                assert(seq![all[0]] + all.skip(1) =~= all);
            }
        }
//@ end

//@ fn actors/miner/src/vesting_state.rs VestingFunds::can_vest r10
    ensures r == (self.0.is_some() && self.0->Some_0.head.epoch < current_epoch),
//@ end

// =====================================================================================================================
// 5. take_vested and unlock_vested_funds
// =====================================================================================================================
/// the comparison the property is about: a fund is released at `current_epoch` iff its epoch is STRICTLY before it
pub open spec fn vf_is_vested(fund_epoch: int, current_epoch: int) -> bool { fund_epoch < current_epoch }

/// k cuts the (sorted) table s at epoch e: the k first entries are before e, entry k (if any) is not
pub open spec fn vf_cut_at(s: Seq<VfEntry>, e: int, k: int) -> bool {
    0 <= k <= s.len() && vf_ub(s.take(k), e) && (k < s.len() ==> s[k].epoch >= e)
}
pub proof fn lemma_take_vested(s0: Seq<VestingFund>, k: int, cur: int)
    requires 0 <= k <= s0.len(), forall|i: int| 0 <= i < k ==> (#[trigger] s0[i]).epoch < cur
    ensures vf_ub(ents(s0).take(k), cur), vf_amounts(s0.take(k)) == vf_sum(ents(s0).take(k))
{
    lemma_ents(s0, k);
    lemma_ents(s0.take(k), 0);
    let t = ents(s0).take(k);
    assert forall|i: int| 0 <= i < t.len() implies #[trigger] t[i].epoch < cur by { assert(t[i] == ent(s0[i])); }
}
// substitutions: the adapter chain is split into named steps (closure, peeking_take_while, sum) so that a proof step can
// follow it; the closure gets its parameter type, a postcondition and braces. The closure BODY is the extracted text.
//@ fn actors/miner/src/vesting_state.rs take_vested sigsub0="impl PeekingNext < Item = VestingFund >=>VfIter" sub0="iter . peeking_take_while=>let ghost s0 = iter@; let accept = " sub1="| fund |=>|fund: &VestingFund| -> (b: bool) ensures b == vf_is_vested(fund.epoch as int, current_epoch as int) { (" sub2=". map (| f | f . amount) . sum ()=>}); let taken = iter.peeking_take_while(accept); let ghost k = choose|k: int| vf_ptw_at(s0, accept, k) && taken@ == s0.take(k) && iter@ == s0.skip(k); let total = taken.vx_sum_amounts(); proof { lemma_take_vested(s0, k, current_epoch as int); assert(vf_cut_at(ents(s0), current_epoch as int, k)); } total"
    ensures
        // a prefix is taken: everything in it is vested (epoch < current_epoch), the item after it is not; the result is its total
        exists|k: int| #[trigger] vf_cut_at(ents(old(iter)@), current_epoch as int, k)
            && final(iter)@ == old(iter)@.skip(k)
            && r@ == vf_sum(ents(old(iter)@).take(k)),
        final(iter).slot_full() == old(iter).slot_full(),
//@ end

/// everything that follows from a cut of a sorted, non-negative table
pub proof fn lemma_cut(t: Seq<VfEntry>, e: int, k: int)
    requires vf_sorted(t), vf_nonneg(t), vf_cut_at(t, e, k)
    ensures
        vf_sum_before(t, e) == vf_sum(t.take(k)),
        vf_from(t, e) == t.skip(k),
        vf_sum(t.skip(k)) == vf_sum(t) - vf_sum(t.take(k)),
        vf_sorted(t.skip(k)), vf_nonneg(t.skip(k)), vf_lb(t.skip(k), e),
        vf_pos(t) ==> vf_pos(t.skip(k)),
        0 <= vf_sum(t.take(k)) <= vf_sum(t),
{
    lemma_sorted_split(t, e, k);
    lemma_split(t, e, k);
    lemma_sub_props(t, k);
    lemma_nonneg_sums(t, e);
}
pub proof fn lemma_drop_zero(x: Seq<VfEntry>, e: int)
    requires vf_nonneg(x)
    ensures
        vf_sum(vf_drop_zero_head(x)) == vf_sum(x),
        vf_sum_before(vf_drop_zero_head(x), e) == vf_sum_before(x, e),
        vf_nonneg(vf_drop_zero_head(x)),
        vf_sorted(x) ==> vf_sorted(vf_drop_zero_head(x)),
        vf_lb(x, e) ==> vf_lb(vf_drop_zero_head(x), e),
        vf_pos(x) ==> vf_drop_zero_head(x) == x,
{
    if x.len() > 0 {
        lemma_sub_props(x, 1);
        assert(x.skip(1) =~= x.subrange(1, x.len() as int));
        assert(x[0].amount >= 0);
        if vf_lb(x, e) {
            let t = x.skip(1);
            assert forall|i: int| 0 <= i < t.len() implies #[trigger] t[i].epoch >= e by { assert(t[i] == x[i + 1]); }
        }
        if vf_pos(x) { assert(x[0].amount > 0); }
    }
}
/// what the representation invariant says about the abstract table
pub proof fn lemma_vt(v: VestingFunds)
    requires vt_ok(v)
    ensures
        vf_sorted(vt_table(v)), vf_nonneg(vt_table(v)),
        v.0.is_some() ==> vf_lb(vt_table(v), v.0->Some_0.head.epoch as int),
        v.0.is_none() ==> vt_table(v) == Seq::<VfEntry>::empty(),
{
    if v.0.is_some() {
        let inner = v.0->Some_0;
        let full = seq![ent(inner.head)] + vt_tail(inner);
        assert(full.skip(1) =~= vt_tail(inner));
        lemma_sub_props(full, 1);
        lemma_sorted_lb(full, inner.head.epoch as int);
        let tl = vt_tail(inner);
        assert forall|i: int| 0 <= i < tl.len() implies #[trigger] tl[i].epoch >= inner.head.epoch by { assert(tl[i] == full[i + 1]); }
        if inner.head.amount@ > 0 {
            assert forall|i: int| 0 <= i < full.len() implies #[trigger] full[i].amount >= 0 by { if i > 0 { assert(full[i] == tl[i - 1]); } }
        }
    }
}

// substitution: `into_iter` on the loaded Vec is the prelude's `vx_into_iter` (same items, in order)
//@ fn actors/miner/src/vesting_state.rs VestingFunds::unlock_vested_funds sub0="into_iter=>vx_into_iter"
    requires
        vt_ok(*old(self)),
    ensures
        vt_ok(*final(self)),
        // EXACTLY the entries whose epoch is strictly before current_epoch are released: the result is their total ...
        r.is_ok() ==> r->Ok_0@ == vf_sum_before(vt_table(*old(self)), current_epoch as int),
        // ... they are removed, every other entry stays as it was (a zero-amount entry that comes to the front is hidden by `load`) ...
        r.is_ok() ==> (vt_table(*final(self)) == vf_from(vt_table(*old(self)), current_epoch as int)
                    || vt_table(*final(self)) == vf_drop_zero_head(vf_from(vt_table(*old(self)), current_epoch as int))),
        r.is_ok() && vf_pos(vt_table(*old(self))) ==> vt_table(*final(self)) == vf_from(vt_table(*old(self)), current_epoch as int),
        // ... and the total falls by exactly what was returned; nothing vested is left behind
        r.is_ok() ==> vf_sum(vt_table(*final(self))) == vf_sum(vt_table(*old(self))) - r->Ok_0@,
        r.is_ok() ==> 0 <= r->Ok_0@ <= vf_sum(vt_table(*old(self))),
        r.is_ok() ==> vf_lb(vt_table(*final(self)), current_epoch as int) && vf_sum_before(vt_table(*final(self)), current_epoch as int) == 0,
        r.is_ok() && vf_pos(vt_table(*old(self))) ==> vf_pos(vt_table(*final(self))),
        r.is_err() ==> *final(self) == *old(self),
//@ entry
        let ghost t0 = vt_table(*self);
        let ghost cur = current_epoch as int;
        proof {
            lemma_vt(*self);
            lemma_nonneg_sums(t0, cur);
            lemma_from_sum(t0, cur);
            if self.0.is_some() && self.0->Some_0.head.epoch >= current_epoch {
                // fast path: the head is not vested, so (sorted) nothing is
                assert forall|i: int| 0 <= i < t0.len() implies #[trigger] t0[i].epoch >= cur by { }
                lemma_all_from(t0, cur);
            }
            if self.0.is_none() { lemma_all_from(t0, cur); }
            assert forall|k: int| vf_cut_at(t0, cur, k) implies
                vf_sum_before(t0, cur) == vf_sum(t0.take(k)) && vf_from(t0, cur) == t0.skip(k)
                && vf_sorted(t0.skip(k)) && vf_nonneg(t0.skip(k)) && vf_lb(t0.skip(k), cur) && (vf_pos(t0) ==> vf_pos(t0.skip(k)))
                && vf_sum(vf_drop_zero_head(t0.skip(k))) == vf_sum(t0.skip(k))
                && vf_lb(vf_drop_zero_head(t0.skip(k)), cur)
                && (vf_pos(t0.skip(k)) ==> vf_drop_zero_head(t0.skip(k)) == t0.skip(k))
            by {
                lemma_cut(t0, cur, k);
                lemma_drop_zero(t0.skip(k), cur);
            }
            assert forall|s: Seq<VestingFund>, k: int| 0 <= k <= s.len() implies ents(#[trigger] s.skip(k)) == ents(s).skip(k) by { lemma_ents(s, k); }
            assert forall|x: Seq<VfEntry>| vf_lb(x, cur) implies #[trigger] vf_sum_before(x, cur) == 0 by { lemma_all_from(x, cur); }
        }
//@ end

// =====================================================================================================================
// 6. add_locked_funds: the linear schedule, the merge, and the real function
// =====================================================================================================================
// ---- merge of two tables (what merge_join_by + the joining closure compute, on the abstract level) --------------------
pub open spec fn vf_merge(a: Seq<VfEntry>, b: Seq<VfEntry>) -> Seq<VfEntry>
    decreases a.len() + b.len()
{
    if a.len() == 0 { b } else if b.len() == 0 { a }
    else if a[0].epoch < b[0].epoch { seq![a[0]] + vf_merge(a.skip(1), b) }
    else if a[0].epoch > b[0].epoch { seq![b[0]] + vf_merge(a, b.skip(1)) }
    else { seq![VfEntry { epoch: a[0].epoch, amount: a[0].amount + b[0].amount }] + vf_merge(a.skip(1), b.skip(1)) }
}
/// merging neither creates nor loses anything, at any cut
pub proof fn lemma_merge_sums(a: Seq<VfEntry>, b: Seq<VfEntry>, e: int)
    ensures
        vf_sum(vf_merge(a, b)) == vf_sum(a) + vf_sum(b),
        vf_sum_before(vf_merge(a, b), e) == vf_sum_before(a, e) + vf_sum_before(b, e),
    decreases a.len() + b.len()
{
    if a.len() == 0 || b.len() == 0 {
    } else {
        assert(a.skip(1) =~= a.subrange(1, a.len() as int));
        assert(b.skip(1) =~= b.subrange(1, b.len() as int));
        if a[0].epoch < b[0].epoch {
            lemma_merge_sums(a.skip(1), b, e);
            lemma_sum_concat(seq![a[0]], vf_merge(a.skip(1), b), e);
            lemma_one(a[0], e);
        } else if a[0].epoch > b[0].epoch {
            lemma_merge_sums(a, b.skip(1), e);
            lemma_sum_concat(seq![b[0]], vf_merge(a, b.skip(1)), e);
            lemma_one(b[0], e);
        } else {
            let x = VfEntry { epoch: a[0].epoch, amount: a[0].amount + b[0].amount };
            lemma_merge_sums(a.skip(1), b.skip(1), e);
            lemma_sum_concat(seq![x], vf_merge(a.skip(1), b.skip(1)), e);
            lemma_one(x, e);
        }
    }
}
pub proof fn lemma_cons_sorted(x: VfEntry, rest: Seq<VfEntry>)
    requires vf_sorted(rest), vf_lb(rest, x.epoch + 1)
    ensures vf_sorted(seq![x] + rest)
{
    let m = seq![x] + rest;
    assert forall|i: int, j: int| 0 <= i < j < m.len() implies m[i].epoch < m[j].epoch by {
        assert(m[j] == rest[j - 1]);
        if i > 0 { assert(m[i] == rest[i - 1]); } else { assert(rest[j - 1].epoch >= x.epoch + 1); }
    }
}
pub proof fn lemma_tail_lb(s: Seq<VfEntry>, lo: int)
    requires vf_sorted(s), s.len() > 0, vf_lb(s, lo)
    ensures vf_lb(s.skip(1), s[0].epoch + 1), vf_sorted(s.skip(1)), vf_lb(s.skip(1), lo), s[0].epoch >= lo
{
    let t = s.skip(1);
    assert forall|i: int| 0 <= i < t.len() implies #[trigger] t[i].epoch >= s[0].epoch + 1 && t[i].epoch >= lo by { assert(t[i] == s[i + 1]); assert(s[0].epoch < s[i + 1].epoch); }
    lemma_sub_props(s, 1);
}
pub proof fn lemma_lb_weaken(s: Seq<VfEntry>, hi: int, lo: int)
    requires vf_lb(s, hi), lo <= hi
    ensures vf_lb(s, lo)
{ }
/// merging two sorted tables gives a sorted table; bounds and signs carry over
pub proof fn lemma_merge_order(a: Seq<VfEntry>, b: Seq<VfEntry>, lo: int)
    requires vf_sorted(a), vf_sorted(b), vf_lb(a, lo), vf_lb(b, lo)
    ensures
        vf_sorted(vf_merge(a, b)), vf_lb(vf_merge(a, b), lo),
        vf_nonneg(a) && vf_nonneg(b) ==> vf_nonneg(vf_merge(a, b)),
        vf_pos(a) && vf_pos(b) ==> vf_pos(vf_merge(a, b)),
    decreases a.len() + b.len()
{
    if a.len() == 0 || b.len() == 0 {
    } else {
        lemma_tail_lb(a, lo);
        lemma_tail_lb(b, lo);
        lemma_sub_props(a, 1);
        lemma_sub_props(b, 1);
        let (x, ra, rb) = if a[0].epoch < b[0].epoch { (a[0], a.skip(1), b) } else if a[0].epoch > b[0].epoch { (b[0], a, b.skip(1)) }
            else { (VfEntry { epoch: a[0].epoch, amount: a[0].amount + b[0].amount }, a.skip(1), b.skip(1)) };
        if a[0].epoch < b[0].epoch {
            lemma_sorted_lb(b, x.epoch + 1);
        } else if a[0].epoch > b[0].epoch {
            lemma_sorted_lb(a, x.epoch + 1);
        }
        lemma_merge_order(ra, rb, x.epoch + 1);
        let rest = vf_merge(ra, rb);
        let m = seq![x] + rest;
        assert(m == vf_merge(a, b));
        lemma_cons_sorted(x, rest);
        assert forall|i: int| 0 <= i < m.len() implies #[trigger] m[i].epoch >= lo by { if i > 0 { assert(m[i] == rest[i - 1]); assert(rest[i - 1].epoch >= x.epoch + 1); } }
        if vf_nonneg(a) && vf_nonneg(b) {
            assert(a[0].amount >= 0 && b[0].amount >= 0);
            assert forall|i: int| 0 <= i < m.len() implies #[trigger] m[i].amount >= 0 by { if i > 0 { assert(m[i] == rest[i - 1]); } }
        }
        if vf_pos(a) && vf_pos(b) {
            assert(a[0].amount > 0 && b[0].amount > 0);
            assert forall|i: int| 0 <= i < m.len() implies #[trigger] m[i].amount > 0 by { if i > 0 { assert(m[i] == rest[i - 1]); } }
        }
    }
}
pub open spec fn vf_first_or(s: Seq<VfEntry>, d: int) -> int { if s.len() > 0 { s[0].epoch } else { d } }
pub proof fn lemma_merge_sorted(a: Seq<VfEntry>, b: Seq<VfEntry>)
    requires vf_sorted(a), vf_sorted(b)
    ensures
        vf_sorted(vf_merge(a, b)),
        vf_nonneg(a) && vf_nonneg(b) ==> vf_nonneg(vf_merge(a, b)),
        vf_pos(a) && vf_pos(b) ==> vf_pos(vf_merge(a, b)),
{
    let la = vf_first_or(a, vf_first_or(b, 0));
    let lb = vf_first_or(b, la);
    let lo = if la < lb { la } else { lb };
    lemma_sorted_lb(a, lo);
    lemma_sorted_lb(b, lo);
    lemma_merge_order(a, b, lo);
}

/// the joining closure of add_locked_funds: Left / Right pass the fund through, Both keeps the epoch and ADDS the amounts
pub open spec fn vf_joined(item: EitherOrBoth<VestingFund, VestingFund>, r: VestingFund) -> bool {
    match item {
        EitherOrBoth::Left(a) => ent(r) == ent(a),
        EitherOrBoth::Right(b) => ent(r) == ent(b),
        EitherOrBoth::Both(a, b) => r.epoch == a.epoch && r.amount@ == a.amount@ + b.amount@,
    }
}
/// merge_join_by (by epoch) followed by the joining closure computes `vf_merge` of the two tables
pub proof fn lemma_mj_map(a: Seq<VestingFund>, b: Seq<VestingFund>, out: Seq<VestingFund>)
    requires
        out.len() == vf_mj(a, b).len(),
        forall|i: int| 0 <= i < out.len() ==> vf_joined(#[trigger] vf_mj(a, b)[i], out[i]),
    ensures ents(out) == vf_merge(ents(a), ents(b))
    decreases a.len() + b.len()
{
    let j = vf_mj(a, b);
    if a.len() == 0 && b.len() == 0 {
        assert(ents(out) =~= vf_merge(ents(a), ents(b)));
    } else {
        let (ra, rb) = if a.len() == 0 { (a, b.skip(1)) } else if b.len() == 0 { (a.skip(1), b) }
            else if a[0].epoch < b[0].epoch { (a.skip(1), b) } else if a[0].epoch > b[0].epoch { (a, b.skip(1)) } else { (a.skip(1), b.skip(1)) };
        let rest = vf_mj(ra, rb);
        assert(j.len() == 1 + rest.len());
        assert(j.skip(1) =~= rest);
        let o1 = out.skip(1);
        assert forall|i: int| 0 <= i < o1.len() implies vf_joined(#[trigger] rest[i], o1[i]) by {
            assert(rest[i] == j[i + 1]);
            assert(o1[i] == out[i + 1]);
        }
        lemma_mj_map(ra, rb, o1);
        assert(vf_joined(j[0], out[0]));
        lemma_ents(out, 1);
        lemma_ents(a, if a.len() > 0 { 1 } else { 0 });
        lemma_ents(b, if b.len() > 0 { 1 } else { 0 });
        assert(ents(out) =~= seq![ent(out[0])] + ents(o1));
        if a.len() == 0 {
            assert(ents(a).len() == 0);
            assert(vf_merge(ents(ra), ents(rb)) == ents(rb));
            assert(seq![ent(b[0])] + ents(b).skip(1) =~= ents(b));
        } else if b.len() == 0 {
            assert(ents(b).len() == 0);
            assert(vf_merge(ents(ra), ents(rb)) == ents(ra)) by {
                if ents(ra).len() == 0 { assert(ents(ra) =~= ents(rb)); }
            }
            assert(seq![ent(a[0])] + ents(a).skip(1) =~= ents(a));
        } else {
            assert(ents(a)[0] == ent(a[0]) && ents(b)[0] == ent(b[0]));
        }
    }
}

// ---- the linear vesting schedule, in closed form -----------------------------------------------------------------------
/// parameters of one add_locked_funds call: lattice, start of the clock, step, amount, vesting period
pub struct VsP { pub q: QuantSpec, pub vb: int, pub st: int, pub sum: int, pub period: int }
pub open spec fn vsp_ok(p: VsP) -> bool { p.q.unit > 0 && p.st >= p.q.unit && p.period > 0 && p.sum >= 0 }
/// epoch of step k (k = 1, 2, ...): k steps after the start of the clock, rounded up to the lattice
pub open spec fn vs_epoch(p: VsP, k: int) -> int { quantize_up_spec(p.q, p.vb + k * p.st) }
/// the linear share after `el` elapsed epochs, rounded down; everything once the period is over
pub open spec fn vs_target(p: VsP, el: int) -> int { if el < p.period { (p.sum * el) / p.period } else { p.sum } }
/// cumulative amount scheduled up to and including step k
pub open spec fn vs_cum(p: VsP, k: int) -> int { if k <= 0 { 0 } else { vs_target(p, vs_epoch(p, k) - p.vb) } }
pub open spec fn vs_entry(p: VsP, k: int) -> VfEntry { VfEntry { epoch: vs_epoch(p, k), amount: vs_cum(p, k) - vs_cum(p, k - 1) } }
pub open spec fn vs_sched(p: VsP, n: int) -> Seq<VfEntry> { Seq::new(n as nat, |i: int| vs_entry(p, i + 1)) }
/// the schedule has n steps: step n is the first at which the whole sum has vested
pub open spec fn vs_steps(p: VsP, n: int) -> bool {
    n >= 0 && vs_cum(p, n) >= p.sum && forall|j: int| 0 <= j < n ==> #[trigger] vs_cum(p, j) < p.sum
}

pub proof fn lemma_floor(x: int, d: int)
    requires 0 <= x, 0 < d
    ensures 0 <= x / d, d * (x / d) <= x < d * (x / d) + d
{
    vstd::arithmetic::div_mod::lemma_fundamental_div_mod(x, d);
    vstd::arithmetic::div_mod::lemma_mod_bound(x, d);
    if x / d < 0 { assert(d * (x / d) <= -d) by (nonlinear_arith) requires x / d <= -1, d > 0; }
}
pub proof fn lemma_floor_mono(x: int, y: int, d: int)
    requires 0 <= x <= y, 0 < d
    ensures x / d <= y / d
{
    lemma_floor(x, d);
    lemma_floor(y, d);
    if x / d > y / d { assert(d * (x / d) >= d * (y / d) + d) by (nonlinear_arith) requires x / d >= y / d + 1, d > 0; }
}
pub proof fn lemma_floor_step(x: int, y: int, d: int)
    requires 0 <= x, x + d <= y, 0 < d
    ensures x / d + 1 <= y / d
{
    lemma_floor(x, d);
    lemma_floor(y, d);
    if x / d + 1 > y / d { assert(d * (y / d) + d <= d * (x / d) + d) by (nonlinear_arith) requires y / d <= x / d, d > 0; }
}
/// the linear share is monotone, never above the sum, never above the exact line, and strictly growing for sums of at least one
/// attoFIL per epoch of the period
pub proof fn lemma_target(p: VsP, e1: int, e2: int)
    requires vsp_ok(p), 0 <= e1 <= e2
    ensures
        0 <= vs_target(p, e1) <= vs_target(p, e2) <= p.sum,
        vs_target(p, e1) * p.period <= p.sum * e1,
        e1 == 0 ==> vs_target(p, e1) == 0,
        (p.sum >= p.period && e1 < e2 && vs_target(p, e1) < p.sum) ==> vs_target(p, e1) < vs_target(p, e2),
{
    let s = p.sum; let d = p.period;
    assert(0 <= s * e1 <= s * e2) by (nonlinear_arith) requires 0 <= s, 0 <= e1 <= e2;
    lemma_floor(s * e1, d);
    lemma_floor(s * e2, d);
    lemma_floor_mono(s * e1, s * e2, d);
    if e1 < d {
        assert(s * e1 <= s * d) by (nonlinear_arith) requires 0 <= s, e1 < d;
        lemma_floor_mono(s * e1, s * d, d);
        lemma_floor(s * d, d);
        assert((s * d) / d == s) by (nonlinear_arith) requires d * ((s * d) / d) <= s * d < d * ((s * d) / d) + d, d > 0;
        assert(((s * e1) / d) * d == d * ((s * e1) / d)) by (nonlinear_arith);
        if e1 == 0 { assert(s * e1 == 0) by (nonlinear_arith) requires e1 == 0; assert(0int / d == 0) by (nonlinear_arith) requires d > 0, d * (0int / d) <= 0 < d * (0int / d) + d; }
    } else {
        assert(s * d <= s * e1) by (nonlinear_arith) requires 0 <= s, d <= e1;
    }
    if e2 < d {
        assert(s * e2 <= s * d) by (nonlinear_arith) requires 0 <= s, e2 < d;
        lemma_floor_mono(s * e2, s * d, d);
        if s >= d && e1 < e2 {
            assert(s * e1 + d <= s * e2) by (nonlinear_arith) requires s >= d, e1 + 1 <= e2, d > 0;
            lemma_floor_step(s * e1, s * e2, d);
        }
    }
}
pub proof fn lemma_vs_epoch(p: VsP, k: int)
    requires vsp_ok(p)
    ensures
        p.vb + k * p.st <= vs_epoch(p, k) < p.vb + k * p.st + p.q.unit,
        vs_epoch(p, k) < vs_epoch(p, k + 1),
        on_lattice(p.q, vs_epoch(p, k)),
        (k + 1) * p.st == k * p.st + p.st,
        k >= 1 ==> k * p.st >= p.st,
        k >= 0 ==> k * p.st >= 0,
{
    lemma_quantize_up(p.q, p.vb + k * p.st);
    lemma_quantize_up(p.q, p.vb + (k + 1) * p.st);
    assert((k + 1) * p.st == k * p.st + p.st) by (nonlinear_arith);
    if k >= 1 { assert(k * p.st >= p.st) by (nonlinear_arith) requires k >= 1, p.st >= 1; }
    if k >= 0 { assert(k * p.st >= 0) by (nonlinear_arith) requires k >= 0, p.st >= 1; }
}
pub proof fn lemma_epoch_mono(p: VsP, i: int, j: int)
    requires vsp_ok(p), i < j
    ensures vs_epoch(p, i) < vs_epoch(p, j)
    decreases j - i
{
    lemma_vs_epoch(p, j - 1);
    if i < j - 1 { lemma_epoch_mono(p, i, j - 1); }
}
/// step k -> k+1 of the cumulative schedule
pub proof fn lemma_cum(p: VsP, k: int)
    requires vsp_ok(p), k >= 0
    ensures
        0 <= vs_cum(p, k) <= vs_cum(p, k + 1) <= p.sum,
        k >= 1 ==> vs_cum(p, k) * p.period <= p.sum * (vs_epoch(p, k) - p.vb),
        (p.sum >= p.period && vs_cum(p, k) < p.sum) ==> vs_cum(p, k) < vs_cum(p, k + 1),
        vs_epoch(p, k + 1) - p.vb >= 1,
        (p.sum * p.period) / p.period == p.sum,     // at exactly the end of the period the linear share IS the whole sum
{
    lemma_floor(p.sum * p.period, p.period);
    assert((p.sum * p.period) / p.period == p.sum) by (nonlinear_arith)
        requires p.period * ((p.sum * p.period) / p.period) <= p.sum * p.period < p.period * ((p.sum * p.period) / p.period) + p.period, p.period > 0;
    lemma_vs_epoch(p, k);
    lemma_vs_epoch(p, k + 1);
    let e2 = vs_epoch(p, k + 1) - p.vb;
    if k == 0 {
        lemma_target(p, 0, e2);
    } else {
        let e1 = vs_epoch(p, k) - p.vb;
        lemma_target(p, e1, e2);
    }
}
/// the schedule as a table: sorted, non-negative, starts after the first step, sums to the cumulative value (telescoping)
pub proof fn lemma_sched(p: VsP, n: int)
    requires vsp_ok(p), n >= 0
    ensures
        vf_sum(vs_sched(p, n)) == vs_cum(p, n),
        vf_sorted(vs_sched(p, n)), vf_nonneg(vs_sched(p, n)), vf_lb(vs_sched(p, n), p.vb + p.st),
        (p.sum >= p.period && forall|j: int| 0 <= j < n ==> #[trigger] vs_cum(p, j) < p.sum) ==> vf_pos(vs_sched(p, n)),
        forall|i: int| 0 <= i < n ==> on_lattice(p.q, #[trigger] vs_sched(p, n)[i].epoch),
    decreases n
{
    let s = vs_sched(p, n);
    if n == 0 {
        assert(s =~= Seq::<VfEntry>::empty());
    } else {
        lemma_sched(p, n - 1);
        let s1 = vs_sched(p, n - 1);
        assert(s =~= s1 + seq![vs_entry(p, n)]);
        lemma_sum_concat(s1, seq![vs_entry(p, n)], 0);
        lemma_one(vs_entry(p, n), 0);
        lemma_cum(p, n - 1);
        lemma_vs_epoch(p, n);
        assert forall|i: int, j: int| 0 <= i < j < s.len() implies s[i].epoch < s[j].epoch by { lemma_epoch_mono(p, i + 1, j + 1); }
        assert forall|i: int| 0 <= i < s.len() implies #[trigger] s[i].amount >= 0 by { if i < n - 1 { assert(s[i] == s1[i]); } }
        assert forall|i: int| 0 <= i < s.len() implies #[trigger] s[i].epoch >= p.vb + p.st by { if i < n - 1 { assert(s[i] == s1[i]); } }
        if p.sum >= p.period && (forall|j: int| 0 <= j < n ==> #[trigger] vs_cum(p, j) < p.sum) {
            assert(vs_cum(p, n - 1) < p.sum);
            assert forall|i: int| 0 <= i < s.len() implies #[trigger] s[i].amount > 0 by { if i < n - 1 { assert(s[i] == s1[i]); } }
        }
        assert forall|i: int| 0 <= i < n implies on_lattice(p.q, #[trigger] s[i].epoch) by { lemma_vs_epoch(p, i + 1); }
    }
}
/// LINEARITY: what the schedule has released strictly before epoch x (i.e. at or before x - 1) never exceeds the linear share
/// sum * (x - 1 - vest_begin) / period, and is nothing at all up to the first step
pub proof fn lemma_sched_before(p: VsP, n: int, x: int)
    requires vsp_ok(p), n >= 0
    ensures
        0 <= vf_sum_before(vs_sched(p, n), x) <= vs_cum(p, n),
        vf_sum_before(vs_sched(p, n), x) * p.period <= p.sum * (if x - 1 > p.vb { x - 1 - p.vb } else { 0 }),
        x <= p.vb + p.st ==> vf_sum_before(vs_sched(p, n), x) == 0,
    decreases n
{
    let s = vs_sched(p, n);
    lemma_sched(p, n);
    lemma_nonneg_sums(s, x);
    if x <= p.vb + p.st { lemma_lb_weaken(s, p.vb + p.st, x); lemma_all_from(s, x); }
    if n == 0 {
        assert(s =~= Seq::<VfEntry>::empty());
        assert(0 <= p.sum * (if x - 1 > p.vb { x - 1 - p.vb } else { 0 })) by (nonlinear_arith) requires p.sum >= 0;
    } else {
        let s1 = vs_sched(p, n - 1);
        assert(s =~= s1 + seq![vs_entry(p, n)]);
        lemma_sum_concat(s1, seq![vs_entry(p, n)], x);
        lemma_one(vs_entry(p, n), x);
        lemma_sched_before(p, n - 1, x);
        lemma_cum(p, n - 1);
        lemma_vs_epoch(p, n);
        if vs_epoch(p, n) < x {
            assert forall|i: int| 0 <= i < s.len() implies #[trigger] s[i].epoch < x by { if i < n - 1 { lemma_epoch_mono(p, i + 1, n); } }
            lemma_all_before(s, x);
            lemma_cum(p, n);
            let el = vs_epoch(p, n) - p.vb;
            assert(p.sum * el <= p.sum * (x - 1 - p.vb)) by (nonlinear_arith) requires p.sum >= 0, el <= x - 1 - p.vb;
        }
    }
}

/// LINEARITY, lower side: right after step k (k = 1..n) the schedule has released EXACTLY the rounded-down linear share of the time
/// elapsed at that step (everything once the period is over) -- no less
pub proof fn lemma_sched_at_step(p: VsP, n: int, k: int)
    requires vsp_ok(p), 1 <= k <= n
    ensures vf_sum_before(vs_sched(p, n), vs_epoch(p, k) + 1) == vs_cum(p, k)
    decreases n - k
{
    let x = vs_epoch(p, k) + 1;
    let s = vs_sched(p, n);
    if n == k {
        lemma_sched(p, n);
        assert forall|i: int| 0 <= i < s.len() implies #[trigger] s[i].epoch < x by { if i < n - 1 { lemma_epoch_mono(p, i + 1, n); } }
        lemma_all_before(s, x);
    } else {
        let s1 = vs_sched(p, n - 1);
        assert(s =~= s1 + seq![vs_entry(p, n)]);
        lemma_sum_concat(s1, seq![vs_entry(p, n)], x);
        lemma_one(vs_entry(p, n), x);
        lemma_epoch_mono(p, k, n);
        lemma_sched_at_step(p, n - 1, k);
    }
}
/// the schedule spans the vesting period: with a positive sum the last step is the first one at or after vest_begin + period
/// (nothing completes early), and it comes less than one step plus one lattice unit after it
pub proof fn lemma_sched_span(p: VsP, n: int)
    requires vsp_ok(p), vs_steps(p, n), p.sum > 0
    ensures
        n >= 1,
        vs_epoch(p, n) - p.vb >= p.period,
        vs_epoch(p, n) < p.vb + p.period + p.st + p.q.unit,
        forall|j: int| 1 <= j < n ==> #[trigger] vs_epoch(p, j) - p.vb < p.period,
{
    assert(n >= 1) by { if n == 0 { assert(vs_cum(p, 0) == 0); } }
    lemma_vs_epoch(p, n);
    lemma_cum(p, n - 1);
    let el = vs_epoch(p, n) - p.vb;
    if el < p.period {
        // then cum(n) = floor(sum * el / period) < sum
        lemma_floor(p.sum * el, p.period);
        assert(p.sum * el < p.sum * p.period) by (nonlinear_arith) requires p.sum > 0, el < p.period;
        assert((p.sum * el) / p.period < p.sum) by (nonlinear_arith)
            requires p.period * ((p.sum * el) / p.period) <= p.sum * el, p.sum * el < p.sum * p.period, p.period > 0;
    }
    assert forall|j: int| 1 <= j < n implies #[trigger] vs_epoch(p, j) - p.vb < p.period by { assert(vs_cum(p, j) < p.sum); }
    if n >= 2 {
        lemma_vs_epoch(p, n - 1);
        assert(vs_epoch(p, n - 1) - p.vb < p.period);
        assert(n * p.st == (n - 1) * p.st + p.st) by (nonlinear_arith);
    } else {
        assert(n * p.st == p.st) by (nonlinear_arith) requires n == 1;
    }
}

// ---- the call -----------------------------------------------------------------------------------------------------------
/// sanity of a vesting spec: positive period / step / quantum, a step at least one quantum long (so that consecutive steps land on
/// different lattice points), everything far from the i64 range
pub open spec fn vest_spec_ok(spec: VestSpec) -> bool {
    &&& 0 <= spec.initial_delay <= 0x1_0000_0000_0000
    &&& 0 < spec.vest_period <= 0x1_0000_0000_0000
    &&& 0 < spec.quantization <= spec.step_duration <= 0x1_0000_0000_0000
}
pub open spec fn epoch_ok(e: ChainEpoch) -> bool { -0x100_0000_0000_0000 <= e <= 0x100_0000_0000_0000 }
pub open spec fn alf_params(current_epoch: ChainEpoch, vesting_sum: int, proving_period_start: ChainEpoch, spec: VestSpec) -> VsP {
    VsP { q: QuantSpec { unit: spec.quantization, offset: proving_period_start }, vb: current_epoch + spec.initial_delay,
          st: spec.step_duration as int, sum: vesting_sum, period: spec.vest_period as int }
}
/// loop invariant of the schedule generator after k steps
pub open spec fn vs_inv(p: VsP, k: int, epoch: int, vested: int, nf: Seq<VfEntry>) -> bool {
    &&& k >= 0 && epoch == p.vb + k * p.st
    &&& vested == vs_cum(p, k)
    &&& nf == vs_sched(p, k)
    &&& forall|j: int| 0 <= j < k ==> #[trigger] vs_cum(p, j) < p.sum
    &&& (vested < p.sum ==> epoch - p.vb < p.period)
}
/// one turn of the generator: pushing the fund of step k+1 extends the schedule by one entry
pub proof fn lemma_alf_step(p: VsP, k: int, nf: Seq<VestingFund>)
    requires vsp_ok(p), k >= 0, ents(nf) == vs_sched(p, k)
    ensures forall|x: VestingFund| ent(x) == vs_entry(p, k + 1) ==> ents(#[trigger] nf.push(x)) == vs_sched(p, k + 1)
{
    assert forall|x: VestingFund| ent(x) == vs_entry(p, k + 1) implies ents(#[trigger] nf.push(x)) == vs_sched(p, k + 1) by {
        assert(ents(nf.push(x)) =~= vs_sched(p, k + 1)) by {
            assert(ents(nf).len() == k);
            assert(nf.len() == k);
            assert forall|i: int| 0 <= i < k + 1 implies ents(nf.push(x))[i] == vs_sched(p, k + 1)[i] by {
                if i < k {
                    assert(nf.push(x)[i] == nf[i]);
                    assert(ents(nf)[i] == ent(nf[i]));
                    assert(vs_sched(p, k)[i] == vs_entry(p, i + 1));
                } else {
                    assert(nf.push(x)[i] == x);
                }
            }
        }
    }
}
/// the whole effect of add_locked_funds on the abstract table, for the n-step schedule of these parameters:
/// the old table is merged with the schedule (amounts at equal epochs ADD), then everything strictly before `cur` is released
pub open spec fn alf_table(t0: Seq<VfEntry>, cur: int, p: VsP, n: int) -> Seq<VfEntry> {
    vf_drop_zero_head(vf_from(vf_merge(t0, vs_sched(p, n)), cur))
}

// substitutions (all forced by adapters this Verus cannot take; none changes behaviour):
//  sub0-3  `iter::from_fn(|| BODY)` consumed to its end by merge_join_by  ==  run BODY until it answers None, collecting the
//          Some(..) values: `let new_funds = iter::from_fn` -> a Vec + ghost step counter; `||` -> `loop` with invariant;
//          `return None;` -> `break;`; `Some` -> `new_funds.push`. BODY itself (the step computation) is the extracted text.
//  sub4    `into_iter` -> `vx_into_iter` (prelude: same items in order)
//  sub5-8  the comparator and joining closures get parameter types, a postcondition and braces; their bodies are the extracted text.
//@ fn actors/miner/src/vesting_state.rs VestingFunds::add_locked_funds attr="#[verifier::loop_isolation(false)]" sub0="let new_funds = iter :: from_fn=>let mut new_funds: Vec<VestingFund> = Vec::new(); let ghost mut vk: int = 0; proof { assert(ents(new_funds@) =~= vs_sched(vp, 0)); assert(0 * vp.st == 0) by (nonlinear_arith); }" sub1="| |=>loop invariant vs_inv(vp, vk, epoch as int, vested_so_far@, ents(new_funds@)) decreases (if vested_so_far@ >= vesting_sum@ { 0 } else { vp.period + vp.vb - epoch + 1 })" sub2="return None ;=>break ;" sub3="Some=>proof { lemma_vs_epoch(vp, vk); lemma_cum(vp, vk); lemma_alf_step(vp, vk, new_funds@); vk = vk + 1; } new_funds.push" sub4="into_iter=>vx_into_iter" sub5="| a , b |=>|a: &VestingFund, b: &VestingFund| -> (o: Ordering) ensures o == vf_epoch_ord(a.epoch as int, b.epoch as int) { (" sub6=". map=>}).map" sub7="| item |=>|item: EitherOrBoth<VestingFund, VestingFund>| -> (r: VestingFund) ensures vf_joined(item, r) { (" sub8=". peekable ()=>}).peekable()"
    requires
        vt_ok(*old(self)),
        vesting_sum@ >= 0,
        vest_spec_ok(*spec), epoch_ok(current_epoch), epoch_ok(proving_period_start),
    ensures
        vt_ok(*final(self)),
        // only what had ALREADY vested in the old table is released (strictly before current_epoch): nothing of the new funds
        r.is_ok() ==> r->Ok_0@ == vf_sum_before(vt_table(*old(self)), current_epoch as int),
        // the table grows by EXACTLY vesting_sum (no more, no less: the rounding remainder is in the last step)
        r.is_ok() ==> vf_sum(vt_table(*final(self))) == vf_sum(vt_table(*old(self))) - r->Ok_0@ + vesting_sum@,
        // the new table is the old one merged with THE linear schedule (closed form vs_sched), minus what was released
        r.is_ok() ==> exists|n: int| #[trigger] vs_steps(alf_params(current_epoch, vesting_sum@, proving_period_start, *spec), n)
            && vt_table(*final(self)) == alf_table(vt_table(*old(self)), current_epoch as int, alf_params(current_epoch, vesting_sum@, proving_period_start, *spec), n),
        r.is_ok() ==> vf_lb(vt_table(*final(self)), current_epoch as int) && vf_sum_before(vt_table(*final(self)), current_epoch as int) == 0,
        // zero-amount steps appear only for sums below one attoFIL per epoch of the vesting period
        r.is_ok() && vf_pos(vt_table(*old(self))) && (vesting_sum@ == 0 || vesting_sum@ >= spec.vest_period) ==> vf_pos(vt_table(*final(self))),
        r.is_err() ==> *final(self) == *old(self),
//@ entry
        let ghost t0 = vt_table(*self);
        let ghost cur = current_epoch as int;
        let ghost vp = alf_params(current_epoch, vesting_sum@, proving_period_start, *spec);
        proof {
            lemma_vt(*self);
            lemma_nonneg_sums(t0, cur);
        }
//@ before "let mut combined_funds"
        let ghost of0 = old_funds@;
        let ghost nf0 = new_funds@;
        let ghost sched = vs_sched(vp, vk);
        proof {
            assert(vs_steps(vp, vk));
            lemma_sched(vp, vk);
            lemma_cum(vp, vk);
            if vk > 0 { lemma_cum(vp, vk - 1); }
            assert(vf_sum(sched) == vesting_sum@);
        }
//@ before "let unlocked = take_vested"
        let ghost m0 = ents(combined_funds@);
        proof {
            lemma_mj_map(of0, nf0, combined_funds@);
            assert(m0 == vf_merge(t0, sched));
            lemma_merge_sums(t0, sched, cur);
            lemma_merge_sorted(t0, sched);
            lemma_lb_weaken(sched, vp.vb + vp.st, cur);
            lemma_all_from(sched, cur);
            if vesting_sum@ == 0 { assert(vk == 0); assert(sched =~= Seq::<VfEntry>::empty()); }
            assert forall|k: int| vf_cut_at(m0, cur, k) implies
                vf_sum_before(m0, cur) == vf_sum(m0.take(k)) && vf_from(m0, cur) == m0.skip(k)
                && vf_sorted(m0.skip(k)) && vf_nonneg(m0.skip(k)) && vf_lb(m0.skip(k), cur) && (vf_pos(m0) ==> vf_pos(m0.skip(k)))
                && vf_sum(m0.skip(k)) == vf_sum(m0) - vf_sum(m0.take(k))
                && vf_sum(vf_drop_zero_head(m0.skip(k))) == vf_sum(m0.skip(k))
                && vf_lb(vf_drop_zero_head(m0.skip(k)), cur)
                && (vf_pos(m0.skip(k)) ==> vf_drop_zero_head(m0.skip(k)) == m0.skip(k))
            by {
                lemma_cut(m0, cur, k);
                lemma_drop_zero(m0.skip(k), cur);
            }
            assert forall|s: Seq<VestingFund>, k: int| 0 <= k <= s.len() implies ents(#[trigger] s.skip(k)) == ents(s).skip(k) by { lemma_ents(s, k); }
            assert forall|x: Seq<VfEntry>| vf_lb(x, cur) implies #[trigger] vf_sum_before(x, cur) == 0 by { lemma_all_from(x, cur); }
        }
//@ end

// =====================================================================================================================
// 7. unlock_vested_and_unvested_funds (penalties: the only way unvested funds leave the table)
// =====================================================================================================================
pub open spec fn vf_min(a: int, b: int) -> int { if a <= b { a } else { b } }
/// what must hold when the slow path's loop is left (by exhaustion or by `break`), F = what is handed to `save`
pub open spec fn uvu_done(t: Seq<VfEntry>, cur: int, tg0: int, f: Seq<VfEntry>, vested: int, unvested: int) -> bool {
    &&& vested == vf_sum_before(t, cur)
    &&& unvested == vf_min(tg0, vf_sum(t) - vf_sum_before(t, cur))
    &&& vf_sorted(f) && vf_nonneg(f) && vf_lb(f, cur)
    &&& vf_sum(vf_drop_zero_head(f)) == vf_sum(t) - vested - unvested
    &&& vf_drop_zero_head(f) == vf_drain(vf_from(t, cur), tg0)
    &&& (vf_pos(t) ==> vf_pos(vf_drop_zero_head(f)))
}
pub proof fn lemma_take_next(t: Seq<VfEntry>, cur: int, n: int)
    requires 0 <= n < t.len()
    ensures
        vf_sum(t.take(n + 1)) == vf_sum(t.take(n)) + t[n].amount,
        vf_sum_before(t.take(n + 1), cur) == vf_sum_before(t.take(n), cur) + (if t[n].epoch < cur { t[n].amount } else { 0 }),
        vf_from(t.skip(n), cur) == (if t[n].epoch < cur { vf_from(t.skip(n + 1), cur) } else { seq![t[n]] + vf_from(t.skip(n + 1), cur) }),
{
    assert(t.take(n + 1) =~= t.take(n) + seq![t[n]]);
    lemma_sum_concat(t.take(n), seq![t[n]], cur);
    lemma_one(t[n], cur);
    assert(t.skip(n).skip(1) =~= t.skip(n + 1));
    assert(t.skip(n)[0] == t[n]);
}
pub proof fn lemma_drain_step(x: VfEntry, rest: Seq<VfEntry>, t: int)
    ensures
        x.amount < t ==> vf_drain(seq![x] + rest, t) == vf_drain(rest, t - x.amount),
        x.amount >= t ==> vf_drain(seq![x] + rest, t) == vf_drop_zero_head(seq![VfEntry { epoch: x.epoch, amount: x.amount - t }] + rest),
{
    let s = seq![x] + rest;
    assert(s.skip(1) =~= rest);
    assert(s[0] == x);
    let y = VfEntry { epoch: x.epoch, amount: x.amount - t };
    assert((seq![y] + rest).skip(1) =~= rest);
    assert((seq![y] + rest)[0] == y);
}
/// the `break` case: entry n is unvested and covers what is still to be taken
pub proof fn lemma_uvu_break(t: Seq<VfEntry>, cur: int, n: int, tg: int, y: VfEntry)
    requires vf_sorted(t), vf_nonneg(t), 0 <= n < t.len(), t[n].epoch >= cur, t[n].amount >= tg >= 0,
        y == (VfEntry { epoch: t[n].epoch, amount: t[n].amount - tg }),
    ensures ({
        let f = seq![y] + t.skip(n + 1);
        &&& vf_sorted(f) && vf_nonneg(f) && vf_lb(f, cur)
        &&& vf_drop_zero_head(f) == vf_drain(vf_from(t.skip(n), cur), tg)
        &&& vf_sum_before(t, cur) == vf_sum_before(t.take(n), cur)
        &&& vf_sum(t) == vf_sum(t.take(n)) + t[n].amount + vf_sum(t.skip(n + 1))
        &&& vf_sum(t.skip(n + 1)) >= 0
        &&& vf_sum(vf_drop_zero_head(f)) == t[n].amount - tg + vf_sum(t.skip(n + 1))
        &&& (vf_pos(t) ==> vf_pos(vf_drop_zero_head(f)))
    }),
{
    let rest = t.skip(n + 1);
    let f = seq![y] + rest;
    lemma_sub_props(t, n);
    lemma_sub_props(t, n + 1);
    let tn = t.skip(n);
    assert(tn[0] == t[n]);
    assert(tn.skip(1) =~= rest);
    assert(tn =~= seq![t[n]] + rest);
    lemma_sorted_lb(tn, cur);
    lemma_all_from(tn, cur);
    lemma_tail_lb(tn, cur);
    lemma_cons_sorted(y, rest);
    assert forall|i: int| 0 <= i < f.len() implies #[trigger] f[i].amount >= 0 && f[i].epoch >= cur by { if i > 0 { assert(f[i] == rest[i - 1]); } }
    lemma_drain_step(t[n], rest, tg);
    // sums
    assert(t =~= t.take(n) + tn);
    lemma_sum_concat(t.take(n), tn, cur);
    lemma_sum_concat(seq![t[n]], rest, cur);
    lemma_one(t[n], cur);
    lemma_nonneg_sums(rest, cur);
    lemma_drop_zero(f, cur);
    lemma_sum_concat(seq![y], rest, cur);
    lemma_one(y, cur);
    if vf_pos(t) {
        assert forall|i: int| 0 <= i < rest.len() implies #[trigger] rest[i].amount > 0 by { assert(rest[i] == t[n + 1 + i]); }
        if y.amount > 0 {
            assert forall|i: int| 0 <= i < f.len() implies #[trigger] f[i].amount > 0 by { if i > 0 { assert(f[i] == rest[i - 1]); } }
        } else {
            assert(f.skip(1) =~= rest);
        }
    }
}
/// the fast path: the head alone covers the target
pub proof fn lemma_uvu_fast(h: VfEntry, tl: Seq<VfEntry>, cur: int, tg: int)
    requires vf_sorted(seq![h] + tl), vf_nonneg(tl), h.amount >= tg >= 0, h.epoch >= cur
    ensures ({
        let t0 = if h.amount > 0 { seq![h] + tl } else { tl };
        let y = VfEntry { epoch: h.epoch, amount: h.amount - tg };
        let t1 = if y.amount > 0 { seq![y] + tl } else { tl };
        &&& vf_sum_before(t0, cur) == 0
        &&& vf_sum(t1) == vf_sum(t0) - tg
        &&& tg <= vf_sum(t0)
        &&& ((tg > 0 || vf_pos(t0)) ==> t1 == vf_drain(vf_from(t0, cur), tg))
        &&& vf_sorted(seq![y] + tl)
        &&& (vf_pos(t0) ==> vf_pos(t1))
        &&& vf_lb(t1, cur)
    }),
{
    let full = seq![h] + tl;
    let y = VfEntry { epoch: h.epoch, amount: h.amount - tg };
    let fy = seq![y] + tl;
    assert(full.skip(1) =~= tl);
    lemma_sorted_lb(full, cur);
    lemma_tail_lb(full, cur);
    lemma_cons_sorted(y, tl);
    lemma_all_from(full, cur);
    lemma_all_from(tl, cur);
    lemma_sum_concat(seq![h], tl, cur);
    lemma_one(h, cur);
    lemma_sum_concat(seq![y], tl, cur);
    lemma_one(y, cur);
    lemma_nonneg_sums(tl, cur);
    lemma_drain_step(h, tl, tg);
    assert(fy.skip(1) =~= tl);
    assert forall|i: int| 0 <= i < fy.len() implies #[trigger] fy[i].epoch >= cur by { if i > 0 { assert(fy[i] == tl[i - 1]); } }
    let t0 = if h.amount > 0 { full } else { tl };
    let t1 = if y.amount > 0 { fy } else { tl };
    if h.amount > 0 {
        if vf_pos(t0) {
            assert forall|i: int| 0 <= i < tl.len() implies #[trigger] tl[i].amount > 0 by { assert(tl[i] == full[i + 1]); }
            if y.amount > 0 { assert forall|i: int| 0 <= i < fy.len() implies #[trigger] fy[i].amount > 0 by { if i > 0 { assert(fy[i] == tl[i - 1]); } } }
        }
    } else {
        // a zero head (hidden) can only serve a zero target: nothing changes
        assert(tg == 0);
        if vf_pos(tl) && tl.len() > 0 {
            assert(tl[0].amount > 0);
            assert(seq![VfEntry { epoch: tl[0].epoch, amount: tl[0].amount - 0 }] + tl.skip(1) =~= tl);
        }
    }
}
/// state of the slow path's loop after n entries of the loaded table were consumed (kept opaque inside the loop: the loop body only
/// moves from one instance to the next through the step lemmas below)
#[verifier::opaque]
pub open spec fn uvu_inv(t: Seq<VfEntry>, cur: int, tg0: int, n: int, vested: int, unvested: int, target: int) -> bool {
    &&& 0 <= n <= t.len()
    &&& vested == vf_sum_before(t.take(n), cur)
    &&& unvested == vf_sum(t.take(n)) - vested
    &&& target == tg0 - unvested && target >= 0
    &&& vf_drain(vf_from(t, cur), tg0) == vf_drain(vf_from(t.skip(n), cur), target)
}
pub proof fn lemma_uvu_init(t: Seq<VfEntry>, cur: int, tg0: int)
    requires tg0 >= 0
    ensures uvu_inv(t, cur, tg0, 0, 0, 0, tg0)
{
    reveal(uvu_inv);
    assert(t.take(0) =~= Seq::<VfEntry>::empty());
    assert(t.skip(0) =~= t);
}
/// entry n has vested: it is added to `vested`, nothing else moves
pub proof fn lemma_uvu_step_vested(t: Seq<VfEntry>, cur: int, tg0: int, n: int, vested: int, unvested: int, target: int)
    requires uvu_inv(t, cur, tg0, n, vested, unvested, target), n < t.len(), t[n].epoch < cur
    ensures uvu_inv(t, cur, tg0, n + 1, vested + t[n].amount, unvested, target)
{
    reveal(uvu_inv);
    lemma_take_next(t, cur, n);
}
/// entry n is unvested and smaller than what is still to be taken: it is taken whole
pub proof fn lemma_uvu_step_all(t: Seq<VfEntry>, cur: int, tg0: int, n: int, vested: int, unvested: int, target: int)
    requires uvu_inv(t, cur, tg0, n, vested, unvested, target), n < t.len(), t[n].epoch >= cur, t[n].amount < target
    ensures uvu_inv(t, cur, tg0, n + 1, vested, unvested + t[n].amount, target - t[n].amount)
{
    reveal(uvu_inv);
    lemma_take_next(t, cur, n);
    lemma_drain_step(t[n], vf_from(t.skip(n + 1), cur), target);
}
/// entry n is unvested and covers the rest: it is reduced, put back, and the loop stops
pub proof fn lemma_uvu_step_break(t: Seq<VfEntry>, cur: int, tg0: int, n: int, vested: int, unvested: int, target: int, f: Seq<VfEntry>)
    requires uvu_inv(t, cur, tg0, n, vested, unvested, target), vf_sorted(t), vf_nonneg(t), n < t.len(), t[n].epoch >= cur, t[n].amount >= target,
        f == seq![VfEntry { epoch: t[n].epoch, amount: t[n].amount - target }] + t.skip(n + 1),
    ensures uvu_done(t, cur, tg0, f, vested, unvested + target)
{
    reveal(uvu_inv);
    lemma_take_next(t, cur, n);
    lemma_uvu_break(t, cur, n, target, VfEntry { epoch: t[n].epoch, amount: t[n].amount - target });
}
/// the table is exhausted
pub proof fn lemma_uvu_exhausted(t: Seq<VfEntry>, cur: int, tg0: int, vested: int, unvested: int, target: int, f: Seq<VfEntry>)
    requires uvu_inv(t, cur, tg0, t.len() as int, vested, unvested, target), f.len() == 0
    ensures uvu_done(t, cur, tg0, f, vested, unvested)
{
    reveal(uvu_inv);
    assert(t.take(t.len() as int) =~= t);
    assert(t.skip(t.len() as int) =~= Seq::<VfEntry>::empty());
    assert(f =~= Seq::<VfEntry>::empty());
}
/// stated for every possible final state, so that it is at hand where the `while let` finds the iterator empty
pub open spec fn uvu_exit_ok(t: Seq<VfEntry>, cur: int, tg0: int) -> bool {
    forall|vested: int, unvested: int, target: int, f: Seq<VfEntry>|
        #[trigger] uvu_inv(t, cur, tg0, t.len() as int, vested, unvested, target) && f.len() == 0 ==> #[trigger] uvu_done(t, cur, tg0, f, vested, unvested)
}
pub proof fn lemma_uvu_exit_ok(t: Seq<VfEntry>, cur: int, tg0: int)
    ensures uvu_exit_ok(t, cur, tg0)
{
    assert forall|vested: int, unvested: int, target: int, f: Seq<VfEntry>|
        #[trigger] uvu_inv(t, cur, tg0, t.len() as int, vested, unvested, target) && f.len() == 0 implies #[trigger] uvu_done(t, cur, tg0, f, vested, unvested) by {
        lemma_uvu_exhausted(t, cur, tg0, vested, unvested, target, f);
    }
}
pub proof fn lemma_ents_cons(x: VestingFund, l: Seq<VestingFund>)
    ensures ents(seq![x] + l) == seq![ent(x)] + ents(l), ents(l).len() == l.len()
{
    assert(ents(seq![x] + l) =~= seq![ent(x)] + ents(l));
}

//@ fn actors/miner/src/vesting_state.rs VestingFunds::unlock_vested_and_unvested_funds r20 ret=res
    requires
        vt_ok(*old(self)),
        target@ >= 0,
    ensures
        vt_ok(*final(self)),
        res.is_ok() ==> ({
            let (vested, unvested) = res->Ok_0;
            let t0 = vt_table(*old(self));
            let t1 = vt_table(*final(self));
            let cur = current_epoch as int;
            // everything that has vested (epoch < current_epoch) is released and reported separately ...
            &&& vested@ == vf_sum_before(t0, cur)
            // ... and of the UNVESTED funds exactly min(target, all of them) is taken, never more than asked
            &&& unvested@ == vf_min(target@, vf_sum(t0) - vf_sum_before(t0, cur))
            &&& 0 <= unvested@ <= target@
            &&& vf_sum(t1) == vf_sum(t0) - vested@ - unvested@
            // taken from the EARLIEST unvested entries first; later entries are untouched (vf_drain)
            &&& ((target@ > 0 || vf_pos(t0)) ==> t1 == vf_drain(vf_from(t0, cur), target@))
            &&& (vf_pos(t0) ==> vf_pos(t1))
            &&& vf_lb(t1, cur)
        }),
        res.is_err() ==> *final(self) == *old(self),
//@ entry
        let ghost t0 = vt_table(*self);
        let ghost cur = current_epoch as int;
        let ghost tg0 = target@;
        let ghost mut n: int = 0;
        proof {
            lemma_vt(*self);
            lemma_nonneg_sums(t0, cur);
            if self.0.is_some() {
                let inner = self.0->Some_0;
                if inner.head.epoch >= current_epoch && inner.head.amount@ >= tg0 {
                    lemma_uvu_fast(ent(inner.head), vt_tail(inner), cur, tg0);
                }
            }
        }
//@ after "let mut funds = itertools :: put_back"
        let ghost lv0 = funds@;
        proof {
            assert(lv0.skip(0) =~= lv0);
            lemma_uvu_init(t0, cur, tg0);
            lemma_uvu_exit_ok(t0, cur, tg0);
        }
//@ loop 0
            invariant_except_break
                0 <= n <= lv0.len(), funds@ == lv0.skip(n), !funds.slot_full(),
                uvu_inv(t0, cur, tg0, n, vested@, unvested@, target@),
            invariant
                t0 == ents(lv0), vf_sorted(t0), vf_nonneg(t0), cur == current_epoch as int, uvu_exit_ok(t0, cur, tg0),
            ensures
                uvu_done(t0, cur, tg0, ents(funds@), vested@, unvested@),
            decreases lv0.len() - n
//@ loopstart 0
            proof {
                // vf is entry n of the loaded table; the iterator now stands at n + 1
                assert(ent(vf) == t0[n]);
                assert(lv0.skip(n).skip(1) =~= lv0.skip(n + 1));
                if vf.epoch < current_epoch {
                    lemma_uvu_step_vested(t0, cur, tg0, n, vested@, unvested@, target@);
                } else if vf.amount@ < target@ {
                    lemma_uvu_step_all(t0, cur, tg0, n, vested@, unvested@, target@);
                } else {
                    lemma_uvu_step_break(t0, cur, tg0, n, vested@, unvested@, target@,
                        seq![VfEntry { epoch: t0[n].epoch, amount: t0[n].amount - target@ }] + t0.skip(n + 1));
                }
                n = n + 1;
            }
//@ before "break ;"
            proof {
                // what is handed to `save`: the reduced entry, put back in front of the untouched rest
                lemma_ents_cons(vf, lv0.skip(n));
                lemma_ents(lv0, n);
            }
//@ end

// =====================================================================================================================
// 8. Lemmas over the contracts: the property's sentences about time
// =====================================================================================================================
pub proof fn lemma_from_props(s: Seq<VfEntry>, c: int, e: int)
    ensures
        vf_nonneg(s) ==> vf_nonneg(vf_from(s, c)),
        vf_ub(s, e) ==> vf_ub(vf_from(s, c), e),
        c <= e ==> vf_sum_before(vf_from(s, c), e) == vf_sum_before(s, e) - vf_sum_before(s, c),
    decreases s.len()
{
    if s.len() > 0 {
        let t = s.skip(1);
        assert(t =~= s.subrange(1, s.len() as int));
        lemma_from_props(t, c, e);
        if vf_nonneg(s) { assert forall|i: int| 0 <= i < t.len() implies #[trigger] t[i].amount >= 0 by { assert(t[i] == s[i + 1]); } assert(s[0].amount >= 0); }
        if vf_ub(s, e) { assert forall|i: int| 0 <= i < t.len() implies #[trigger] t[i].epoch < e by { assert(t[i] == s[i + 1]); } assert(s[0].epoch < e); }
        lemma_from_props(t, c, e);
        if s[0].epoch >= c {
            let r = seq![s[0]] + vf_from(t, c);
            lemma_sum_concat(seq![s[0]], vf_from(t, c), e);
            lemma_one(s[0], e);
            if vf_nonneg(s) { assert forall|i: int| 0 <= i < r.len() implies #[trigger] r[i].amount >= 0 by { if i > 0 { assert(r[i] == vf_from(t, c)[i - 1]); } } }
            if vf_ub(s, e) { assert forall|i: int| 0 <= i < r.len() implies #[trigger] r[i].epoch < e by { if i > 0 { assert(r[i] == vf_from(t, c)[i - 1]); } } }
        }
    }
}

// ---- (a) add_locked_funds: exactly the sum, nothing before the delay, never ahead of the straight line -------------------
/// For the table `alf_table` that add_locked_funds is proved to produce. `e` is any epoch not before the call.
/// "scheduled before e" = vf_sum_before(_, e) = what unlock_vested_funds(e) would release.
pub proof fn lemma_alf_schedule(t0: Seq<VfEntry>, cur: int, p: VsP, n: int, e: int)
    requires vf_sorted(t0), vf_nonneg(t0), vsp_ok(p), vs_steps(p, n), cur <= p.vb, cur <= e
    ensures ({
        let t1 = alf_table(t0, cur, p, n);
        let old_part = vf_sum_before(t0, e) - vf_sum_before(t0, cur);      // old funds still in the table that vest before e
        let new_part = vf_sum_before(t1, e) - old_part;                      // what the new funds add before e
        &&& vf_sum(t1) == vf_sum(t0) - vf_sum_before(t0, cur) + p.sum        // EXACTLY the sum is added (remainder included)
        &&& new_part == vf_sum_before(vs_sched(p, n), e)
        &&& 0 <= new_part <= p.sum                                           // never more than was locked
        &&& (e <= p.vb + p.st ==> new_part == 0)                             // nothing vests before the first step after the delay
        &&& new_part * p.period <= p.sum * (if e - 1 > p.vb { e - 1 - p.vb } else { 0 })   // at most the linear share of the elapsed time
        &&& (forall|i: int| 0 <= i < n ==> on_lattice(p.q, #[trigger] vs_sched(p, n)[i].epoch) && vs_sched(p, n)[i].epoch > p.vb)  // new entries: on the lattice, after the delay
    }),
{
    let sched = vs_sched(p, n);
    let m = vf_merge(t0, sched);
    lemma_sched(p, n);
    lemma_cum(p, n);
    if n > 0 { lemma_cum(p, n - 1); }
    lemma_merge_sums(t0, sched, e);
    lemma_merge_sums(t0, sched, cur);
    lemma_merge_sorted(t0, sched);
    lemma_from_props(m, cur, e);
    lemma_from_sum(m, cur);
    lemma_drop_zero(vf_from(m, cur), e);
    lemma_sched_before(p, n, e);
    lemma_sched_before(p, n, cur);
    assert forall|i: int| 0 <= i < n implies vs_sched(p, n)[i].epoch > p.vb by { lemma_vs_epoch(p, i + 1); }
}

// ---- (b) a history of unlock_vested_funds calls, each as its contract describes it ------------------------------------------
/// one call at epoch e: pays exactly what lies strictly before e and leaves the rest (a zero entry coming to the front may be hidden)
pub open spec fn uvf_step(t: Seq<VfEntry>, e: int, t1: Seq<VfEntry>, paid: int) -> bool {
    paid == vf_sum_before(t, e) && (t1 == vf_from(t, e) || t1 == vf_drop_zero_head(vf_from(t, e)))
}
/// tables ts[0] -> ts[1] -> ... under calls at epochs es[i] paying paid[i]
pub open spec fn uvf_run(ts: Seq<Seq<VfEntry>>, es: Seq<int>, paid: Seq<int>) -> bool {
    ts.len() == es.len() + 1 && paid.len() == es.len()
    && forall|i: int| 0 <= i < es.len() ==> #[trigger] uvf_step(ts[i], es[i], ts[i + 1], paid[i])
}
pub open spec fn seq_sum(s: Seq<int>) -> int decreases s.len() { if s.len() == 0 { 0 } else { seq_sum(s.drop_last()) + s.last() } }

/// "over time exactly the locked amount unlocks, no more and no less": along ANY history of unlock calls (any epochs, any order) the
/// amounts paid plus what is still in the table always equal the original total (never more is paid than was locked); and once a call
/// comes at an epoch past the last entry, the table is empty and the payments add up to EXACTLY the original total.
pub proof fn lemma_over_time(ts: Seq<Seq<VfEntry>>, es: Seq<int>, paid: Seq<int>)
    requires uvf_run(ts, es, paid), vf_nonneg(ts[0])
    ensures
        seq_sum(paid) + vf_sum(ts.last()) == vf_sum(ts[0]),
        vf_nonneg(ts.last()),
        0 <= seq_sum(paid) <= vf_sum(ts[0]),
        (exists|i: int| 0 <= i < es.len() && vf_ub(ts[0], #[trigger] es[i])) ==> ts.last() == Seq::<VfEntry>::empty() && seq_sum(paid) == vf_sum(ts[0]),
        forall|x: int| vf_ub(ts[0], x) ==> vf_ub(ts.last(), x),
    decreases es.len()
{
    if es.len() == 0 {
        assert(paid =~= Seq::<int>::empty());
        lemma_nonneg_sums(ts[0], 0);
    } else {
        let k = es.len() - 1;
        let ts1 = ts.drop_last(); let es1 = es.drop_last(); let paid1 = paid.drop_last();
        assert forall|i: int| 0 <= i < es1.len() implies #[trigger] uvf_step(ts1[i], es1[i], ts1[i + 1], paid1[i]) by { assert(uvf_step(ts[i], es[i], ts[i + 1], paid[i])); }
        lemma_over_time(ts1, es1, paid1);
        let t = ts[k]; let t1 = ts[k + 1]; let e = es[k];
        assert(ts1.last() == t && ts.last() == t1);
        assert(uvf_step(t, e, t1, paid[k]));
        lemma_from_sum(t, e);
        lemma_from_props(t, e, e);
        lemma_drop_zero(vf_from(t, e), e);
        lemma_nonneg_sums(t, e);
        lemma_nonneg_sums(t1, 0);
        assert forall|x: int| vf_ub(ts[0], x) implies vf_ub(t1, x) by {
            lemma_from_props(t, e, x);
            let f = vf_from(t, e);
            if f.len() > 0 { let g = f.skip(1); assert forall|i: int| 0 <= i < g.len() implies #[trigger] g[i].epoch < x by { assert(g[i] == f[i + 1]); } }
        }
        if exists|i: int| 0 <= i < es.len() && vf_ub(ts[0], #[trigger] es[i]) {
            let i = choose|i: int| 0 <= i < es.len() && vf_ub(ts[0], #[trigger] es[i]);
            if i < k {
                assert(es1[i] == es[i]);
                // already empty before the last call: it stays empty
                assert(t == Seq::<VfEntry>::empty());
                assert(vf_from(t, e) =~= Seq::<VfEntry>::empty());
            } else {
                // the last call is the one past the end: everything that is left is before e
                assert(vf_ub(t, e));
                lemma_all_before(t, e);
            }
            assert(t1 =~= Seq::<VfEntry>::empty());
        }
    }
}
/// add_locked_funds followed by such a history: the payments add up to everything that was in the table, the newly locked sum included
pub proof fn lemma_locked_then_unlocked(t0: Seq<VfEntry>, cur: int, p: VsP, n: int, ts: Seq<Seq<VfEntry>>, es: Seq<int>, paid: Seq<int>)
    requires
        vf_sorted(t0), vf_nonneg(t0), vsp_ok(p), vs_steps(p, n), cur <= p.vb,
        uvf_run(ts, es, paid), ts[0] == alf_table(t0, cur, p, n),
        exists|i: int| 0 <= i < es.len() && vf_ub(ts[0], #[trigger] es[i]),
    ensures
        seq_sum(paid) == vf_sum(t0) - vf_sum_before(t0, cur) + p.sum,
        ts.last() == Seq::<VfEntry>::empty(),
{
    lemma_alf_schedule(t0, cur, p, n, cur);
    let sched = vs_sched(p, n);
    let m = vf_merge(t0, sched);
    lemma_sched(p, n);
    lemma_merge_sorted(t0, sched);
    lemma_from_props(m, cur, cur);
    lemma_drop_zero(vf_from(m, cur), cur);
    lemma_over_time(ts, es, paid);
}

// ---- (c) the constants: 180 days, daily steps, 12-hour lattice ------------------------------------------------------------------
//@ const runtime/src/builtin/network.rs EPOCH_DURATION_SECONDS
//@ const runtime/src/builtin/network.rs SECONDS_IN_HOUR
//@ const runtime/src/builtin/network.rs SECONDS_IN_DAY
//@ const runtime/src/builtin/network.rs EPOCHS_IN_HOUR
//@ const runtime/src/builtin/network.rs EPOCHS_IN_DAY
//@ const actors/miner/src/policy.rs REWARD_VESTING_SPEC
pub proof fn lemma_reward_vesting_spec()
    ensures
        vest_spec_ok(REWARD_VESTING_SPEC),
        REWARD_VESTING_SPEC.initial_delay == 0,
        REWARD_VESTING_SPEC.vest_period == 180 * EPOCHS_IN_DAY,     // 180 days
        REWARD_VESTING_SPEC.step_duration == EPOCHS_IN_DAY,         // in daily steps
        EPOCHS_IN_DAY == 2880,
{ }

// =====================================================================================================================
// 9. The ASSUMED contract of prelude/miner_vesting.rs follows (clause by clause, `self@` read as vt_table(self)); what it
//    lacks is the precondition: it asks for vf_nonneg only, the real code needs the representation invariant vt_ok
//    (sorted epochs, head first) and, for add_locked_funds, a sane VestSpec and epochs away from the i64 limits.
// =====================================================================================================================
pub fn assumed_unlock_vested_funds(v: &mut VestingFunds, store: &Store, current_epoch: ChainEpoch) -> (r: Result<TokenAmount, ActorError>)
    requires vt_ok(*old(v)),
    ensures
        vt_ok(*final(v)),
        vf_nonneg(vt_table(*final(v))),
        r.is_ok() ==> r->Ok_0@ == vf_sum_before(vt_table(*old(v)), current_epoch as int)
            && vf_sum(vt_table(*final(v))) == vf_sum(vt_table(*old(v))) - r->Ok_0@
            && vf_sum_before(vt_table(*final(v)), current_epoch as int) == 0,
        r.is_err() ==> vt_table(*final(v)) == vt_table(*old(v)),
{
    let r = v.unlock_vested_funds(store, current_epoch);
    proof { lemma_vt(*v); }
    r
}
pub fn assumed_add_locked_funds(v: &mut VestingFunds, store: &Store, current_epoch: ChainEpoch, vesting_sum: &TokenAmount,
        proving_period_start: ChainEpoch, spec: &VestSpec) -> (r: Result<TokenAmount, ActorError>)
    requires vt_ok(*old(v)), vesting_sum@ >= 0, vest_spec_ok(*spec), epoch_ok(current_epoch), epoch_ok(proving_period_start),
    ensures
        vt_ok(*final(v)),
        vf_nonneg(vt_table(*final(v))),
        r.is_ok() ==> r->Ok_0@ == vf_sum_before(vt_table(*old(v)), current_epoch as int)
            && vf_sum(vt_table(*final(v))) == vf_sum(vt_table(*old(v))) - r->Ok_0@ + vesting_sum@,
        r.is_err() ==> vt_table(*final(v)) == vt_table(*old(v)),
{
    let r = v.add_locked_funds(store, current_epoch, vesting_sum, proving_period_start, spec);
    proof { lemma_vt(*v); }
    r
}
pub fn assumed_unlock_vested_and_unvested_funds(v: &mut VestingFunds, store: &Store, current_epoch: ChainEpoch, target: &TokenAmount)
        -> (r: Result<(TokenAmount, TokenAmount), ActorError>)
    requires vt_ok(*old(v)), target@ >= 0,
    ensures
        vt_ok(*final(v)),
        vf_nonneg(vt_table(*final(v))),
        r.is_ok() ==> ({
            let (vested, unvested) = r->Ok_0;
            let avail = vf_sum(vt_table(*old(v))) - vf_sum_before(vt_table(*old(v)), current_epoch as int);
            &&& 0 <= vested@ <= vf_sum_before(vt_table(*old(v)), current_epoch as int)
            &&& unvested@ == (if target@ <= avail { target@ } else { avail })
            &&& vf_sum(vt_table(*final(v))) == vf_sum(vt_table(*old(v))) - vested@ - unvested@
        }),
        r.is_err() ==> vt_table(*final(v)) == vt_table(*old(v)),
{
    proof { lemma_vt(*v); lemma_nonneg_sums(vt_table(*v), current_epoch as int); }
    let r = v.unlock_vested_and_unvested_funds(store, current_epoch, target);
    proof { lemma_vt(*v); }
    r
}

} // verus!
fn main() {}
