// unit: EVM memory regions and growth, usize = 32 bit (wasm32, the deployment target) (C18, C17)
//@ include prelude/core.rs
//@ include prelude/u256.rs
//@ include prelude/slices.rs
macro_rules! debug_assert_eq { ($($t:tt)*) => { () } }
verus! {
global size_of usize == 4;
pub mod evm {
use super::*;
broadcast use super::u256_axioms::u256_range;
//@ include units/C18/evm_memory.inc
} // mod evm
} // verus!
fn main() {}
