// unit: EVM stack bounds, jump-destination analysis, jumps (C18)
//@ include prelude/core.rs
//@ include prelude/u256.rs
macro_rules! debug_assert_eq { ($($t:tt)*) => { () } }
verus! {
pub mod evm {
use super::*;
broadcast use super::u256_axioms::u256_range;

//@ const actors/evm/src/lib.rs EVM_CONTRACT_STACK_UNDERFLOW
//@ const actors/evm/src/lib.rs EVM_CONTRACT_STACK_OVERFLOW
//@ const actors/evm/src/lib.rs EVM_CONTRACT_BAD_JUMPDEST
//@ const actors/evm/src/interpreter/stack.rs STACK_SIZE
pub mod opcodes {
//@ opcode actors/evm/src/interpreter/execution.rs JUMPDEST
//@ opcode actors/evm/src/interpreter/execution.rs PUSH1
//@ opcode actors/evm/src/interpreter/execution.rs PUSH32
}
//@ item actors/evm/src/interpreter/stack.rs Stack
//@ item actors/evm/src/interpreter/bytecode.rs Bytecode

// ======================= Stack (safe functions; the two `unsafe` bodies are Kani targets) =======================
/// "the stack never exceeds 1024 items" (Yellow Paper 9.1)
pub open spec fn stack_ok(s: Stack) -> bool { s.stack@.len() <= 1024 }

//@ fn actors/evm/src/interpreter/stack.rs Stack::len
    ensures r == self.stack@.len(),
//@ end
//@ fn actors/evm/src/interpreter/stack.rs Stack::push
    requires stack_ok(*old(self)),
    ensures
        stack_ok(*final(self)),
        r.is_ok() <==> old(self).stack@.len() < 1024,
        r.is_ok() ==> final(self).stack@ == old(self).stack@.push(value),
        r.is_err() ==> final(self).stack@ == old(self).stack@ && r->Err_0.code == 37,
//@ end
//@ fn actors/evm/src/interpreter/stack.rs Stack::ensure_one
    ensures
        r.is_ok() <==> self.stack@.len() < 1024,
        r.is_err() ==> r->Err_0.code == 37,
//@ end
//@ fn actors/evm/src/interpreter/stack.rs Stack::push_unchecked
    requires old(self).stack@.len() < 1024,
    ensures final(self).stack@ == old(self).stack@.push(value), stack_ok(*final(self)),
//@ end
//@ fn actors/evm/src/interpreter/stack.rs Stack::pop
    ensures
        r.is_ok() <==> old(self).stack@.len() > 0,
        r.is_ok() ==> r->Ok_0 == old(self).stack@.last() && final(self).stack@ == old(self).stack@.drop_last(),
        r.is_err() ==> final(self).stack@ == old(self).stack@ && r->Err_0.code == 36,
//@ end
//@ fn actors/evm/src/interpreter/stack.rs Stack::drop
    ensures
        r.is_ok() <==> old(self).stack@.len() > 0,
        r.is_ok() ==> final(self).stack@ == old(self).stack@.drop_last(),
        r.is_err() ==> final(self).stack@ == old(self).stack@ && r->Err_0.code == 36,
//@ end
//@ fn actors/evm/src/interpreter/stack.rs Stack::swap_top
    ensures
        r.is_ok() <==> old(self).stack@.len() > i,
        r.is_ok() ==> ({
            let n = old(self).stack@.len() as int;
            final(self).stack@ == old(self).stack@.update(n - 1 - i, old(self).stack@[n - 1]).update(n - 1, old(self).stack@[n - 1 - i])
        }),
        r.is_err() ==> final(self).stack@ == old(self).stack@ && r->Err_0.code == 36,
        final(self).stack@.len() == old(self).stack@.len(),
//@ end

// ======================= jump-destination analysis =======================
/// Yellow-Paper 9.4.3: position i is the start of an instruction (not inside PUSH data), scanning from 0
pub open spec fn next_instr(code: Seq<u8>, i: int) -> int {
    if 0x60 <= code[i] <= 0x7f { i + (code[i] - 0x60) + 2 } else { i + 1 }
}
/// instr_start(code, from, i): i is reached by walking instruction by instruction from `from`
pub open spec fn reaches(code: Seq<u8>, from: int, i: int) -> bool
    decreases (if from < code.len() { code.len() - from } else { 0 })
{
    if from >= code.len() || from > i || from < 0 { false }
    else if from == i { true }
    else { reaches(code, next_instr(code, from), i) }
}
pub open spec fn valid_dest(code: Seq<u8>, i: int) -> bool { 0 <= i < code.len() && reaches(code, 0, i) && code[i] == 0x5b }

//@ fn actors/evm/src/interpreter/bytecode.rs Bytecode::new attr="#[verifier::loop_isolation(false)]"
    requires
        bytecode@.len() < usize::MAX - 40,      // a byte vector is at most isize::MAX long
    ensures
        r.code@ == bytecode@,
        r.jumpdest@.len() == bytecode@.len(),
        // "jumps land only on genuine JUMPDEST instructions outside push data"
        forall|k: int| 0 <= k < bytecode@.len() ==> (#[trigger] r.jumpdest@[k] <==> valid_dest(bytecode@, k)),
//@ loop 0
            invariant
                jumpdest@.len() == bytecode@.len(),
                0 <= i,
                // i is an instruction boundary (or past the end, having walked a whole instruction)
                i < bytecode@.len() ==> reaches(bytecode@, 0, i as int),
                // everything below i is decided; nothing at or above i is marked yet
                forall|k: int| 0 <= k < i && k < bytecode@.len() ==> (#[trigger] jumpdest@[k] <==> valid_dest(bytecode@, k)),
                forall|k: int| i <= k < bytecode@.len() ==> !(#[trigger] jumpdest@[k]),
                // positions strictly between the last boundary and i are not boundaries: recorded as "walk from 0 to k passes through i or stops before"
                forall|k: int| #![trigger reaches(bytecode@, 0, k)] i <= k < bytecode@.len() ==> (reaches(bytecode@, 0, k) <==> reaches(bytecode@, i as int, k)),
                // one-step unfolding of the walk (a fact about the definition, carried so that the solver may use it for every k)
                forall|a: int, k: int| #![trigger reaches(bytecode@, a, k)] 0 <= a < k < bytecode@.len() ==> reaches(bytecode@, a, k) == reaches(bytecode@, next_instr(bytecode@, a), k),
                forall|a: int| #![trigger reaches(bytecode@, a, a)] 0 <= a < bytecode@.len() ==> reaches(bytecode@, a, a),
                forall|a: int, k: int| #![trigger reaches(bytecode@, a, k)] a > k ==> !reaches(bytecode@, a, k),
                i <= bytecode@.len() + 33,
            decreases bytecode@.len() + 40 - i,
//@ end

//@ fn actors/evm/src/interpreter/bytecode.rs Bytecode::valid_jump_destination
    ensures r == (offset < self.jumpdest@.len() && self.jumpdest@[offset as int]), self.jumpdest@.len() <= usize::MAX,
//@ end


// ======================= jumps =======================
//@ fn actors/evm/src/interpreter/instructions/control.rs jump
    ensures
        // a jump succeeds exactly on a marked destination and continues right after it; otherwise BAD_JUMPDEST
        r.is_ok() <==> (dest@ < bytecode.jumpdest@.len() && bytecode.jumpdest@[dest@]),
        r.is_ok() ==> r->Ok_0 == dest@ + 1,
        r.is_err() ==> r->Err_0.code == 39,
//@ entry
        proof { assert(bytecode.jumpdest.len() <= usize::MAX); }
//@ end
//@ fn actors/evm/src/interpreter/instructions/control.rs jumpi
    requires pc < usize::MAX,
    ensures
        test@ == 0 ==> r.is_ok() && r->Ok_0 == pc + 1,
        test@ != 0 ==> (r.is_ok() <==> (dest@ < bytecode.jumpdest@.len() && bytecode.jumpdest@[dest@])),
        test@ != 0 && r.is_ok() ==> r->Ok_0 == dest@ + 1,
        r.is_err() ==> r->Err_0.code == 39,
//@ entry
        proof { assert(bytecode.jumpdest.len() <= usize::MAX); }
//@ end

} // mod evm
} // verus!
fn main() {}
