// unit: EVM memory regions and growth, usize = 64 bit (host / reference semantics) (C18, C17)
//@ include prelude/core.rs
//@ include prelude/u256.rs
//@ include prelude/slices.rs
macro_rules! debug_assert_eq { ($($t:tt)*) => { () } }
verus! {
global size_of usize == 8;
//@ include units/C18/evm_memory.inc
} // verus!
fn main() {}
